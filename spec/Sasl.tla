-------------------------------- MODULE Sasl --------------------------------
(***************************************************************************)
(* Byte level of the D-Bus SASL profile, shared by SaslServer (C16) and    *)
(* SaslClient (C17): the line structure of the stream and the reading of a *)
(* line as a command, written from the D-Bus specification ("Authentication *)
(* protocol": lines of ASCII text ending in CR LF; the client first sends a *)
(* single NUL byte; a command is a word followed by space-separated         *)
(* arguments; initial responses and data are hex-encoded; the server GUID   *)
(* is 32 hex digits).                                                      *)
(*                                                                         *)
(* Part 1 (functions over byte sequences) is what the trace validators use  *)
(* to read the bytes that were really exchanged.  Part 2 is the incremental *)
(* splitter (bytes arrive in arbitrary chunks, lines are taken out of a     *)
(* buffer) as a small state machine; MC_Sasl checks that it produces the    *)
(* same lines as the function for every stream and every chunking.          *)
(***************************************************************************)
EXTENDS Naturals, Sequences, FiniteSets

NUL == 0
LF == 10
CR == 13
SP == 32

Drop(s, n) == SubSeq(s, n + 1, Len(s))

\* ASCII codes of a string literal's characters are not available in TLA+; commands are spelled out.
W_AUTH      == <<65, 85, 84, 72>>
W_CANCEL    == <<67, 65, 78, 67, 69, 76>>
W_BEGIN     == <<66, 69, 71, 73, 78>>
W_DATA      == <<68, 65, 84, 65>>
W_ERROR     == <<69, 82, 82, 79, 82>>
W_NEGOTIATE == <<78, 69, 71, 79, 84, 73, 65, 84, 69, 95, 85, 78, 73, 88, 95, 70, 68>>
W_REJECTED  == <<82, 69, 74, 69, 67, 84, 69, 68>>
W_OK        == <<79, 75>>
W_AGREE     == <<65, 71, 82, 69, 69, 95, 85, 78, 73, 88, 95, 70, 68>>
W_EXTERNAL  == <<69, 88, 84, 69, 82, 78, 65, 76>>
W_ANONYMOUS == <<65, 78, 79, 78, 89, 77, 79, 85, 83>>

-----------------------------------------------------------------------------
(* Part 1a: the stream as lines.  A line is everything up to and including  *)
(* the next LF.  end = "crlf" (proper), "lf" (LF not preceded by CR) or      *)
(* "lfstart" (the LF is the first byte of the line).  `rest` = the bytes     *)
(* after the last LF (an incomplete line, or what follows the handshake).    *)
FirstLF(b) == LET idx == {i \in 1..Len(b) : b[i] = LF}
              IN IF idx = {} THEN 0 ELSE CHOOSE i \in idx : \A j \in idx : i <= j

LineAt(b) ==   \* b contains an LF
  LET i == FirstLF(b) IN
  IF i = 1 THEN [body |-> <<>>, end |-> "lfstart", len |-> 1]
  ELSE IF b[i - 1] = CR THEN [body |-> SubSeq(b, 1, i - 2), end |-> "crlf", len |-> i]
  ELSE [body |-> SubSeq(b, 1, i - 1), end |-> "lf", len |-> i]

\* the first n lines (or fewer if the stream has fewer complete lines) and what follows them
RECURSIVE TakeLines(_, _)
TakeLines(b, n) ==
  IF n = 0 \/ FirstLF(b) = 0 THEN [lines |-> <<>>, rest |-> b]
  ELSE LET ln == LineAt(b)
           r == TakeLines(Drop(b, ln.len), n - 1)
       IN [lines |-> <<ln>> \o r.lines, rest |-> r.rest]

-----------------------------------------------------------------------------
(* Part 1b: words and arguments *)
\* words of b separated by (runs of) spaces, computed from the positions of the spaces
Words(b) ==
  LET n == Len(b)
      sp == {i \in 1..n : b[i] = SP}
      starts == {i \in 1..n : b[i] # SP /\ (i = 1 \/ (i - 1) \in sp)}
      EndOf(s) == LET later == {j \in sp : j > s} IN
                  IF later = {} THEN n ELSE (CHOOSE j \in later : \A k \in later : j <= k) - 1
      RECURSIVE Build(_)
      Build(S) == IF S = {} THEN <<>>
                  ELSE LET s == CHOOSE x \in S : \A y \in S : x <= y
                       IN <<SubSeq(b, s, EndOf(s))>> \o Build(S \ {s})
  IN Build(starts)

IsHexDigit(c) == (c >= 48 /\ c <= 57) \/ (c >= 97 /\ c <= 102) \/ (c >= 65 /\ c <= 70)
HexVal(c) == IF c <= 57 THEN c - 48 ELSE IF c >= 97 THEN c - 87 ELSE c - 55
IsHex(w) == Len(w) % 2 = 0 /\ \A i \in 1..Len(w) : IsHexDigit(w[i])
HexDecode(w) == [i \in 1..(Len(w) \div 2) |-> 16 * HexVal(w[2 * i - 1]) + HexVal(w[2 * i])]
IsDigits(s) == s # <<>> /\ \A i \in 1..Len(s) : s[i] >= 48 /\ s[i] <= 57
IsPrintableAscii(s) == \A i \in 1..Len(s) : s[i] >= 32 /\ s[i] <= 126

\* a server GUID: exactly 32 hex digits
IsGuid(w) == Len(w) = 32 /\ \A i \in 1..32 : IsHexDigit(w[i])
\* the textual UUID forms that are not D-Bus GUIDs (8-4-4-4-12 with hyphens, braces, urn:uuid:)
Hyphen == 45
LooksLikeUuidForm(w) ==
  LET core == IF Len(w) = 38 /\ w[1] = 123 /\ w[38] = 125 THEN SubSeq(w, 2, 37)
              ELSE IF Len(w) = 45 /\ SubSeq(w, 1, 9) = <<117, 114, 110, 58, 117, 117, 105, 100, 58>> THEN SubSeq(w, 10, 45)
              ELSE w
  IN Len(core) = 36 /\ \A i \in 1..36 : IF i \in {9, 14, 19, 24} THEN core[i] = Hyphen ELSE IsHexDigit(core[i])

(* the identity an EXTERNAL client claims, relative to the peer uid (decimal ASCII) known from the socket:
   "match" | "mismatch" (another number) | "nonnum" (not a plain decimal number) | "badhex" | "ambig"
   (numerically equal but spelled differently, e.g. leading zeros: either reading is defensible) *)
RECURSIVE StripZeros(_)
StripZeros(s) == IF Len(s) > 1 /\ s[1] = 48 THEN StripZeros(Tail(s)) ELSE s
IdClass(w, uid) ==
  IF ~IsHex(w) THEN "badhex"
  ELSE LET d == HexDecode(w) IN
       IF d = uid THEN "match"
       ELSE IF d # <<>> /\ d[1] = 43 /\ IsDigits(Tail(d)) THEN "ambig"     \* "+1000"
       ELSE IF ~IsDigits(d) THEN "nonnum"
       ELSE IF StripZeros(d) = uid THEN "ambig"
       ELSE IF Len(StripZeros(d)) >= 10 THEN "nonnum"                      \* may not fit 32 bits
       ELSE "mismatch"

(* A line sent by the client, as the server must understand it. *)
ClientCmd(ln, uid) ==
  IF ln.end = "lfstart" THEN [k |-> "LFSTART"]
  ELSE IF ln.end = "lf" THEN [k |-> "BADEND"]
  ELSE IF ~IsPrintableAscii(ln.body) THEN [k |-> "UNKNOWN", v |-> "garbage"]
  ELSE LET ws == Words(ln.body) IN
    IF ws = <<>> THEN [k |-> "UNKNOWN", v |-> "empty"]
    ELSE CASE ws[1] = W_AUTH ->
                IF Len(ws) = 1 THEN [k |-> "AUTH", mech |-> "NONE", id |-> "none"]
                ELSE LET m == IF ws[2] = W_EXTERNAL THEN "EXT" ELSE IF ws[2] = W_ANONYMOUS THEN "ANON" ELSE "OTHER" IN
                     [k |-> "AUTH", mech |-> m, id |-> IF Len(ws) = 2 THEN "none" ELSE IdClass(ws[3], uid)]
           [] ws[1] = W_DATA -> [k |-> "DATA", id |-> IF Len(ws) = 1 THEN "empty" ELSE IdClass(ws[2], uid)]
           [] ws[1] = W_BEGIN -> [k |-> "BEGIN"]
           [] ws[1] = W_CANCEL -> [k |-> "CANCEL"]
           [] ws[1] = W_ERROR -> [k |-> "ERROR"]
           [] ws[1] = W_NEGOTIATE -> [k |-> "NEGOTIATE_UNIX_FD"]
           [] OTHER -> [k |-> "UNKNOWN", v |-> "word"]

(* A line sent by the server, as the client must understand it. *)
ServerCmd(ln) ==
  IF ln.end = "lfstart" THEN [k |-> "LFSTART"]
  ELSE IF ln.end = "lf" THEN [k |-> "BADEND"]
  ELSE IF ~IsPrintableAscii(ln.body) THEN [k |-> "UNKNOWN"]
  ELSE LET ws == Words(ln.body) IN
    IF ws = <<>> THEN [k |-> "UNKNOWN"]
    ELSE CASE ws[1] = W_OK ->
                IF Len(ws) < 2 THEN [k |-> "OK", guid |-> <<>>, g |-> "invalid"]
                ELSE [k |-> "OK", guid |-> ws[2],
                      g |-> IF IsGuid(ws[2]) THEN "valid" ELSE IF LooksLikeUuidForm(ws[2]) THEN "uuidform" ELSE "invalid"]
           [] ws[1] = W_REJECTED -> [k |-> "REJECTED"]
           [] ws[1] = W_ERROR -> [k |-> "ERROR"]
           [] ws[1] = W_DATA -> [k |-> "DATA"]
           [] ws[1] = W_AGREE -> [k |-> "AGREE_UNIX_FD"]
           [] OTHER -> [k |-> "UNKNOWN"]

\* the kind of a line written by the implementation (only the first word is looked at)
ReplyKind(ln) ==
  LET ws == Words(ln.body) IN
  IF ln.end # "crlf" \/ ws = <<>> THEN "MALFORMED"
  ELSE CASE ws[1] = W_OK -> "OK" [] ws[1] = W_REJECTED -> "REJECTED" [] ws[1] = W_ERROR -> "ERROR"
         [] ws[1] = W_DATA -> "DATA" [] ws[1] = W_AGREE -> "AGREE_UNIX_FD"
         [] ws[1] = W_AUTH -> "AUTH" [] ws[1] = W_BEGIN -> "BEGIN" [] ws[1] = W_NEGOTIATE -> "NEGOTIATE_UNIX_FD"
         [] ws[1] = W_CANCEL -> "CANCEL"
         [] OTHER -> "OTHER"

-----------------------------------------------------------------------------
(* Part 2: the incremental splitter (Common::read_commands): bytes are      *)
(* appended to a buffer in arbitrary chunks; whenever the buffer contains an *)
(* LF the first line is taken out.                                           *)
VARIABLES net,     \* bytes not yet received
          rbuf,    \* receive buffer
          taken    \* lines taken so far
svars == <<net, rbuf, taken>>

SplRecv(n) == /\ n \in 1..Len(net)
              /\ rbuf' = rbuf \o SubSeq(net, 1, n) /\ net' = Drop(net, n)
              /\ UNCHANGED taken
SplTake == /\ FirstLF(rbuf) # 0
           /\ LET ln == LineAt(rbuf) IN
                /\ taken' = Append(taken, ln)
                /\ rbuf' = Drop(rbuf, ln.len)
           /\ UNCHANGED net
SplNext == (\E n \in 1..Len(net) : SplRecv(n)) \/ SplTake
\* whatever the chunking: lines taken + buffer + unreceived = the function applied to the whole stream
SplAgrees(stream) ==
  LET whole == TakeLines(stream, Len(stream))
      sofar == TakeLines(rbuf \o net, Len(stream)) IN
  /\ taken \o sofar.lines = whole.lines
  /\ sofar.rest = whole.rest
=============================================================================
