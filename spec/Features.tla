------------------------------ MODULE Features ------------------------------
(***************************************************************************)
(* C35 -- "every supported feature combination builds".                    *)
(*                                                                         *)
(* A model of Cargo's feature resolution (resolver = "2") for a downstream  *)
(* crate that depends on packages of one workspace, written from the Cargo  *)
(* reference ("Features", "Feature resolver version 2"), not from Cargo's   *)
(* code.  The resolution is a least fixpoint over FACTS                     *)
(*                                                                         *)
(*        <<package, domain, feature>>      domain \in {"host","target"}    *)
(*                                                                         *)
(* where the pseudo feature Unit ("@") says "the package is built in this   *)
(* domain".  One action per resolver rule:                                  *)
(*                                                                         *)
(*   Root     the downstream crate (domain target) requests its direct      *)
(*            dependencies with the selected features (+ "default");        *)
(*   Dep      a built unit requests each of its active (non-dev, and for    *)
(*            optional ones: activated) dependencies with the features the  *)
(*            manifest names there (+ "default");                           *)
(*   Feature  an enabled feature enables its items: another feature of the  *)
(*            package, an optional dependency (`dep:name`), or a feature of *)
(*            a dependency (`name/feat`, weak form `name?/feat`).           *)
(*                                                                         *)
(* Where a request lands: an edge to a proc-macro package, or a build       *)
(* dependency, continues in the HOST domain; every other edge stays in the  *)
(* domain of the requesting unit.  The features of one package are unified  *)
(* within a domain (facts form a set) but NOT across host/target -- that is *)
(* exactly what distinguishes resolver 2 from resolver 1.                   *)
(*                                                                         *)
(* What the model is for: Rust code in one package sometimes matches        *)
(* exhaustively on an enum of another package whose variants are gated by   *)
(* a feature of that other package.  Such a pair of features is a COUPLING: *)
(* the build is only possible if, for every unit of the user package and    *)
(* the unit of the provider package it is linked with, both features are on *)
(* or both are off.  `Incoherences(S)` lists the couplings that a resolved  *)
(* fact set S breaks; `Coherent(S)` is the model's prediction "it builds".  *)
(* Whether source compiles is cargo's verdict (see trace/FeatCheck.tla);    *)
(* the model supplies the configuration space, the classes of equivalent    *)
(* selections and the explanation of a failed build.                        *)
(***************************************************************************)
EXTENDS Naturals, FiniteSets, TLC

CONSTANTS
  Pkgs,        \* package names of the workspace
  ProcMacros,  \* those whose library target is a proc-macro
  Features,    \* set of [p, f]                       the [features] tables (implicit features included)
  Items,       \* set of [p, f, k, d, g, weak]        what feature f of p enables:
               \*    k = "feat"    : feature g of p
               \*    k = "dep"     : optional dependency d of p      (g = "dep:" \o d, the fact recording it)
               \*    k = "depfeat" : feature g of dependency d of p  (weak = written `d?/g`)
  Edges,       \* set of [from, to, as, kind, optional, defaults, feats, act]  dependencies inside the workspace
               \*    as = name used in the manifest, kind \in {"normal","build","dev"},
               \*    act = the fact "dep:<as>" that activates the edge when it is optional
  Couplings,   \* set of [id, user, uf, prov, pf, src]  cfg couplings (table below for this workspace)
  Requires,    \* set of [p, anyOf, src]               declared "at least one of these features" requirements
  Resolver     \* "2" (what the workspace declares); "1" = unify host and target (for contrast only)

Doms == {"host", "target"}
Unit == "@"

(***************************************************************************)
(* The couplings of dbus2/zbus, each with the source that matches on the    *)
(* gated items.  The user package must have `uf` exactly when the linked    *)
(* unit of the provider package has `pf`.                                   *)
(***************************************************************************)
ZbusCouplings == {
  [id |-> "zvariant.gvariant<->zvariant_utils.gvariant",
   user |-> "zvariant", uf |-> "gvariant", prov |-> "zvariant_utils", pf |-> "gvariant",
   src |-> "zvariant/src/serialized/data.rs, zvariant/src/ser.rs (match on zvariant_utils::serialized::Format, variant GVariant is cfg(feature = gvariant) of zvariant_utils); zvariant/src/de.rs, value.rs, maybe.rs (Signature::Maybe)"],
  [id |-> "zvariant_derive.gvariant<->zvariant_utils.gvariant",
   user |-> "zvariant_derive", uf |-> "gvariant", prov |-> "zvariant_utils", pf |-> "gvariant",
   src |-> "zvariant_derive/src/type.rs signature_to_tokens (match on zvariant_utils::signature::Signature, arm Maybe is cfg(feature = gvariant) of zvariant_derive)"]
}

(* Requirements the code itself declares with compile_error!: a selection that
   does not meet them is not a supported configuration. *)
ZbusRequires == {
  [p |-> "zbus", anyOf |-> {"async-io", "tokio"},
   src |-> "zbus/src/lib.rs: compile_error!(Either async-io (default) or tokio must be enabled)"]
}

-----------------------------------------------------------------------------
(* Selections: what the downstream crate writes in its [dependencies]: a set
   of root edges [to, feats, defaults]. *)
IsSelection(s) == \A e \in s : /\ e.to \in Pkgs
                               /\ \A f \in e.feats : [p |-> e.to, f |-> f] \in Features
                               /\ e.defaults \in BOOLEAN

HasFeature(p, f) == [p |-> p, f |-> f] \in Features

(* The domain in which an edge of the given kind, leaving a unit of domain d,
   builds package `to`. *)
EdgeDom(to, kind, d) ==
  IF Resolver = "1" THEN "target"
  ELSE IF kind = "build" \/ to \in ProcMacros THEN "host" ELSE d

(* The facts a dependency declaration puts on the unit it points to. *)
Request(q, d, fs, defaults) ==
  {<<q, d, Unit>>} \cup {<<q, d, f>> : f \in fs}
     \cup (IF defaults /\ HasFeature(q, "default") THEN {<<q, d, "default">>} ELSE {})

(* Rule Root *)
RootFacts(sel) == UNION {Request(e.to, EdgeDom(e.to, "normal", "target"), e.feats, e.defaults) : e \in sel}

(* The dependencies of unit <<p, d>> that are part of the build, given facts S:
   dev-dependencies never are (the downstream build has no dev targets), an
   optional dependency only once some feature activated it. *)
ActiveEdges(S, p, d) ==
  {e \in Edges : e.from = p /\ e.kind # "dev" /\ (~e.optional \/ <<p, d, e.act>> \in S)}

(* Rule Feature: what one item of an enabled feature of unit <<p, d>> adds. *)
ItemFacts(S, p, d, i) ==
  CASE i.k = "feat" -> {<<p, d, i.g>>}
    [] i.k = "dep"  -> {<<p, d, i.g>>}
    [] i.k = "depfeat" ->
         LET es == {e \in Edges : e.from = p /\ e.as = i.d /\ e.kind # "dev"}
             \* `d/g` (not weak) also activates an optional dependency d
             act == IF i.weak THEN {} ELSE {<<p, d, e.act>> : e \in {x \in es : x.optional}}
             \* the feature reaches the dependency once the edge is part of the build
             live == {e \in es : ~e.optional \/ ~i.weak \/ <<p, d, e.act>> \in S}
         IN act \cup {<<e.to, EdgeDom(e.to, e.kind, d), i.g>> : e \in live}
    [] OTHER -> {}

(* Everything one fact x of S yields in one step (rules Dep and Feature). *)
FromFact(S, x) ==
  LET p == x[1]  d == x[2]  f == x[3] IN
  IF f = Unit
  THEN UNION {Request(e.to, EdgeDom(e.to, e.kind, d), e.feats, e.defaults) : e \in ActiveEdges(S, p, d)}
  ELSE UNION {ItemFacts(S, p, d, i) : i \in {j \in Items : j.p = p /\ j.f = f}}

Derive(S) == UNION {FromFact(S, x) : x \in S}

Resolved(S) == Derive(S) \subseteq S

(* The least fixpoint in closed form (the state machine below reaches it). *)
RECURSIVE Lfp(_)
Lfp(S) == LET D == Derive(S) IN IF D \subseteq S THEN S ELSE Lfp(S \cup D)

Resolution(sel) == Lfp(RootFacts(sel))

-----------------------------------------------------------------------------
(* Reading a resolved fact set. *)
Units(S) == {<<x[1], x[2]>> : x \in {y \in S : y[3] = Unit}}
UF(S, p, d) == {x[3] : x \in {y \in S : y[1] = p /\ y[2] = d /\ y[3] # Unit}}
UnitTable(S) == {[p |-> u[1], d |-> u[2], fs |-> UF(S, u[1], u[2])] : u \in Units(S)}

(* The units that unit <<p, d>> is compiled against. *)
Links(S, p, d) == {<<e.to, EdgeDom(e.to, e.kind, d)>> : e \in ActiveEdges(S, p, d)}

(* Couplings broken by S.  `dom` is the domain of the user unit; `lacks` tells
   which side has the feature off. *)
Broken(S, c, u) ==
  /\ u[1] = c.user
  /\ \E l \in Links(S, u[1], u[2]) :
        l[1] = c.prov /\ ((c.uf \in UF(S, u[1], u[2])) # (c.pf \in UF(S, l[1], l[2])))
Incoherences(S) ==
  {[id |-> cu[1].id, dom |-> cu[2][2],
    lacks |-> IF cu[1].uf \in UF(S, cu[2][1], cu[2][2]) THEN "provider" ELSE "user"]
     : cu \in {x \in Couplings \X Units(S) : Broken(S, x[1], x[2])}}

Coherent(S) == Incoherences(S) = {}

(* Declared requirements not met by some unit of S. *)
Unmet(S) == {r \in Requires : \E u \in Units(S) : u[1] = r.p /\ r.anyOf \cap UF(S, u[1], u[2]) = {}}
Supported(S) == Unmet(S) = {}

(* Does S touch a coupling at all (either side has the feature on)? *)
TouchesCoupling(S) ==
  \E c \in Couplings, d \in Doms : <<c.user, d, c.uf>> \in S \/ <<c.prov, d, c.pf>> \in S

-----------------------------------------------------------------------------
(* The resolver as a state machine.  `Step` adds one derivable fact (any order:
   MC_Features checks that every order ends in Resolution(sel)); `StepAll` adds
   all of them at once (used by the generator).                              *)
VARIABLES sel, facts
vars == <<sel, facts>>

InitWith(Selections) == sel \in Selections /\ facts = RootFacts(sel)

Step == \E x \in Derive(facts) \ facts : facts' = facts \cup {x} /\ UNCHANGED sel
StepAll == ~Resolved(facts) /\ facts' = facts \cup Derive(facts) /\ UNCHANGED sel

TypeOK == /\ IsSelection(sel)
          /\ \A x \in facts : x[1] \in Pkgs /\ x[2] \in Doms
(* nothing is ever enabled that the closed form does not contain ... *)
Sound == facts \subseteq Resolution(sel)
(* ... and when no rule applies any more everything it contains is there (confluence) *)
Complete == Resolved(facts) => facts = Resolution(sel)
(* a proc-macro is only ever built for the host *)
ProcMacroOnHost == Resolver = "2" => \A x \in facts : x[1] \in ProcMacros => x[2] = "host"
(* every feature fact belongs to a requested unit once resolution is finished *)
FeaturesOnUnits == Resolved(facts) => \A x \in facts : <<x[1], x[2]>> \in Units(facts)
(* every unit a unit links exists *)
LinksClosed == Resolved(facts) => \A u \in Units(facts) : Links(facts, u[1], u[2]) \subseteq Units(facts)
(* Resolver 2: nothing requested by a host unit reaches a target unit -- the target part of the
   resolution is what one gets when the edges into the host domain are cut. *)
CutHost(S) == {x \in S : x[2] = "target"}
RECURSIVE LfpTarget(_)
LfpTarget(S) == LET D == CutHost(Derive(S)) IN IF D \subseteq S THEN S ELSE LfpTarget(S \cup D)
NoHostLeak == (Resolver = "2" /\ Resolved(facts)) => CutHost(facts) = LfpTarget(CutHost(RootFacts(sel)))
(* facts only grow *)
Monotone == [][facts \subseteq facts']_vars
Terminates == <>[](Resolved(facts))
=============================================================================
