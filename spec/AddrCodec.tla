------------------------------ MODULE AddrCodec ------------------------------
(***************************************************************************)
(* D-Bus server addresses ("Server Addresses" section of the D-Bus           *)
(* specification): the value escaping, the grammar                           *)
(*      transport ":" [ key "=" value { "," key "=" value } ]                *)
(* and what an address string denotes for the transports zbus knows          *)
(* (unix, unixexec, tcp, nonce-tcp, vsock) with *unescaped* values (C23).    *)
(* Strings are byte sequences.  Written from the specification text, not     *)
(* from zbus::address.                                                       *)
(*                                                                         *)
(* Abstract address (what the harness reads out of a zbus Address):          *)
(*   [transport |-> "unix", kind |-> "path"|"abstract"|"dir"|"tmpdir",       *)
(*    value |-> bytes]                                                       *)
(*   [transport |-> "unixexec", path |-> bytes, args |-> <<bytes...>>]       *)
(*      + optional argv0 |-> bytes                                           *)
(*   [transport |-> "tcp", host |-> bytes, port |-> 0..65535]                *)
(*      + optional family |-> "ipv4"|"ipv6", bind |-> bytes,                 *)
(*        noncefile |-> bytes   (present <=> the transport is nonce-tcp)     *)
(*   [transport |-> "vsock", cid |-> Nat, port |-> Nat]                      *)
(*   every one + optional guid |-> bytes (32 hex digits)                     *)
(***************************************************************************)
EXTENDS Naturals, Sequences, FiniteSets, TLC, GuidGrammar

Has(r, f) == f \in DOMAIN r
RECURSIVE Flat(_)
Flat(ss) == IF ss = <<>> THEN <<>> ELSE Head(ss) \o Flat(Tail(ss))

PCT == 37
COMMA == 44
COLON == 58
EQUAL == 61

(* "The set of optionally-escaped bytes is: [-0-9A-Za-z_/.\*]" *)
OptEsc(b) == b \in (48..57) \cup (65..90) \cup (97..122) \cup {45, 95, 47, 46, 92, 42}

(* "To escape, each byte (note, not character) which is not in the set of
   optionally-escaped bytes must be replaced with an ASCII percent (%) and the
   value of the byte in hex.  The hex value must always be two digits, even if
   the first digit is zero.  The optionally-escaped bytes may be escaped if
   desired." *)
HexOf(n) == IF n < 10 THEN 48 + n ELSE 87 + n                      \* lower case; either case is valid
PctEncode(bs) == Flat([i \in 1..Len(bs) |-> IF OptEsc(bs[i]) THEN <<bs[i]>> ELSE <<PCT, HexOf(bs[i] \div 16), HexOf(bs[i] % 16)>>])

(* "To unescape, append each byte in the value; if a byte is an ASCII percent
   (%) character then append the following hex value instead.  It is an error
   if a % byte does not have two hex digits following.  It is an error if a
   non-optionally-escaped byte is seen unescaped." *)
HexVal(c) == IF c \in 48..57 THEN c - 48 ELSE IF c \in 97..102 THEN c - 87 ELSE IF c \in 65..70 THEN c - 55 ELSE 16
RECURSIVE Dec(_,_,_)
Dec(s, i, acc) ==
  IF i > Len(s) THEN [ok |-> TRUE, v |-> acc]
  ELSE IF s[i] = PCT THEN
         IF i + 2 <= Len(s) /\ HexVal(s[i + 1]) < 16 /\ HexVal(s[i + 2]) < 16
         THEN Dec(s, i + 3, Append(acc, 16 * HexVal(s[i + 1]) + HexVal(s[i + 2])))
         ELSE [ok |-> FALSE, why |-> "% without two hex digits"]
  ELSE IF OptEsc(s[i]) THEN Dec(s, i + 1, Append(acc, s[i]))
  ELSE [ok |-> FALSE, why |-> "byte must be escaped"]
PctDecode(s) == Dec(s, 1, <<>>)

(******************************* grammar ***********************************)
RECURSIVE SplitAt(_,_,_,_)
SplitAt(s, c, i, cur) ==
  IF i > Len(s) THEN <<cur>>
  ELSE IF s[i] = c THEN <<cur>> \o SplitAt(s, c, i + 1, <<>>)
  ELSE SplitAt(s, c, i + 1, Append(cur, s[i]))
Index(s, c) == IF \E i \in 1..Len(s) : s[i] = c THEN CHOOSE i \in 1..Len(s) : s[i] = c /\ \A j \in 1..(i-1) : s[j] # c ELSE 0

(* [ok, transport, pairs = <<[k, raw]...>>] *)
ParseAddr(s) ==
  LET c == Index(s, COLON) IN
  IF c <= 1 THEN [ok |-> FALSE, why |-> "no transport"]
  ELSE
    LET rest  == SubSeq(s, c + 1, Len(s))
        comps == IF rest = <<>> THEN <<>> ELSE SplitAt(rest, COMMA, 1, <<>>)
        good(x) == Index(x, EQUAL) > 1
        pair(x) == LET e == Index(x, EQUAL) IN [k |-> SubSeq(x, 1, e - 1), raw |-> SubSeq(x, e + 1, Len(x))]
    IN  IF \E j \in 1..Len(comps) : ~good(comps[j]) THEN [ok |-> FALSE, why |-> "component is not key=value"]
        ELSE LET ps == [j \in 1..Len(comps) |-> pair(comps[j])] IN
             IF \E a, b \in 1..Len(ps) : a # b /\ ps[a].k = ps[b].k THEN [ok |-> FALSE, why |-> "key given twice"]
             ELSE [ok |-> TRUE, transport |-> SubSeq(s, 1, c - 1), pairs |-> ps]

(****************************** denotation *********************************)
B == [unix |-> <<117,110,105,120>>, unixexec |-> <<117,110,105,120,101,120,101,99>>, tcp |-> <<116,99,112>>,
      noncetcp |-> <<110,111,110,99,101,45,116,99,112>>, vsock |-> <<118,115,111,99,107>>,
      path |-> <<112,97,116,104>>, abstract |-> <<97,98,115,116,114,97,99,116>>, dir |-> <<100,105,114>>,
      tmpdir |-> <<116,109,112,100,105,114>>, argv |-> <<97,114,103,118>>, host |-> <<104,111,115,116>>,
      port |-> <<112,111,114,116>>, family |-> <<102,97,109,105,108,121>>,
      noncefile |-> <<110,111,110,99,101,102,105,108,101>>, bind |-> <<98,105,110,100>>, guid |-> <<103,117,105,100>>,
      cid |-> <<99,105,100>>, ipv4 |-> <<105,112,118,52>>, ipv6 |-> <<105,112,118,54>>]

Devs23 == {"unix_no_decode",      \* unix: path / abstract / dir / tmpdir taken verbatim
           "unixexec_no_decode",  \* unixexec: path / argvN taken verbatim
           "tcp_host_no_decode",  \* tcp / nonce-tcp: host taken verbatim
           "tcp_bind_rejected"}   \* tcp / nonce-tcp: an address with bind= is refused

AllDigits(x) == Len(x) > 0 /\ \A i \in 1..Len(x) : x[i] \in 48..57
RECURSIVE NumOf(_)
NumOf(x) == IF x = <<>> THEN 0 ELSE 10 * NumOf(SubSeq(x, 1, Len(x) - 1)) + (x[Len(x)] - 48)
DecStr(n) == IF n < 10 THEN <<48 + n>> ELSE
             LET RECURSIVE D(_)
                 D(m) == IF m = 0 THEN <<>> ELSE Append(D(m \div 10), 48 + (m % 10))
             IN D(n)

(* value of key k among the pairs: "none", or the decoded bytes, or "bad" *)
Lookup(ps, k, verbatim) ==
  IF ~\E j \in 1..Len(ps) : ps[j].k = k THEN [st |-> "none"]
  ELSE LET raw == ps[CHOOSE j \in 1..Len(ps) : ps[j].k = k].raw
           d   == PctDecode(raw)
       IN  IF verbatim THEN [st |-> "ok", v |-> raw]
           ELSE IF d.ok THEN [st |-> "ok", v |-> d.v] ELSE [st |-> "bad"]

Opt(f, l) == IF l.st = "ok" THEN f :> l.v ELSE <<>>

Denote(s, devs) ==
  LET p == ParseAddr(s) IN
  IF ~p.ok THEN p
  ELSE
    LET ps == p.pairs
        L(k, verbatim) == Lookup(ps, k, verbatim)
        guid == L(B.guid, FALSE)
        guidPart == Opt("guid", guid)
        guidBad == guid.st = "bad" \/ (guid.st = "ok" /\ ~GuidOk(guid.v))
        err(w) == [ok |-> FALSE, why |-> w]
        fine(a) == IF guidBad THEN err("bad guid") ELSE [ok |-> TRUE, addr |-> a @@ guidPart]
    IN
    CASE p.transport = B.unix ->
           LET vb == "unix_no_decode" \in devs
               kinds == <<"path", "abstract", "dir", "tmpdir">>
               ls == [i \in 1..4 |-> L(B[kinds[i]], vb)]
               present == {i \in 1..4 : ls[i].st # "none"}
           IN  IF Cardinality(present) # 1 THEN err("unix: exactly one of path, abstract, dir, tmpdir")
               ELSE LET i == CHOOSE x \in present : TRUE IN
                    IF ls[i].st = "bad" THEN err("bad escape")
                    ELSE fine([transport |-> "unix", kind |-> kinds[i], value |-> ls[i].v])
      [] p.transport = B.unixexec ->
           LET vb == "unixexec_no_decode" \in devs
               path == L(B.path, vb)
               argv(n) == L(B.argv \o DecStr(n), vb)
               (* argv1, argv2, ... up to the first missing one *)
               nargs == IF argv(1).st = "none" THEN 0
                        ELSE CHOOSE n \in 1..Len(ps) : argv(n).st # "none" /\ (\A m \in 1..n : argv(m).st # "none")
                                                       /\ (n = Len(ps) \/ argv(n + 1).st = "none")
               args == [n \in 1..nargs |-> argv(n)]
           IN  IF path.st = "none" THEN err("unixexec: path is required")
               ELSE IF path.st = "bad" \/ argv(0).st = "bad" \/ (\E n \in 1..nargs : args[n].st = "bad") THEN err("bad escape")
               ELSE fine([transport |-> "unixexec", path |-> path.v, args |-> [n \in 1..nargs |-> args[n].v]]
                         @@ Opt("argv0", argv(0)))
      [] p.transport \in {B.tcp, B.noncetcp} ->
           LET host == L(B.host, "tcp_host_no_decode" \in devs)
               port == L(B.port, FALSE)
               fam  == L(B.family, FALSE)
               bind == L(B.bind, FALSE)
               nf   == L(B.noncefile, FALSE)
           IN  IF bind.st # "none" /\ "tcp_bind_rejected" \in devs THEN err("bind refused")
               ELSE IF host.st # "ok" \/ port.st # "ok" THEN err("tcp: host and port are required")
               ELSE IF ~AllDigits(port.v) \/ Len(port.v) > 5 \/ NumOf(port.v) > 65535 THEN err("bad port")
               ELSE IF fam.st = "bad" \/ (fam.st = "ok" /\ fam.v \notin {B.ipv4, B.ipv6}) THEN err("bad family")
               ELSE IF bind.st = "bad" \/ nf.st = "bad" THEN err("bad escape")
               ELSE IF p.transport = B.noncetcp /\ nf.st = "none" THEN err("nonce-tcp: noncefile is required")
               ELSE IF p.transport = B.tcp /\ nf.st # "none" THEN err("tcp has no noncefile")
               ELSE fine([transport |-> "tcp", host |-> host.v, port |-> NumOf(port.v)]
                         @@ (IF fam.st = "ok" THEN "family" :> (IF fam.v = B.ipv4 THEN "ipv4" ELSE "ipv6") ELSE <<>>)
                         @@ Opt("bind", bind) @@ Opt("noncefile", nf))
      [] p.transport = B.vsock ->
           LET cid == L(B.cid, FALSE)
               port == L(B.port, FALSE)
               num(l) == l.st = "ok" /\ AllDigits(l.v) /\ Len(l.v) <= 9
           IN  IF ~num(cid) \/ ~num(port) THEN err("vsock: cid and port are required")
               ELSE fine([transport |-> "vsock", cid |-> NumOf(cid.v), port |-> NumOf(port.v)])
      [] OTHER -> err("transport not modelled")

(* One valid spelling of an address (any key order and any amount of optional
   escaping is equally valid). *)
Fmt(a) ==
  LET kv(k, v) == <<k \o <<EQUAL>> \o PctEncode(v)>>
      parts ==
        CASE a.transport = "unix" -> kv(B[a.kind], a.value)
          [] a.transport = "unixexec" ->
               kv(B.path, a.path) \o (IF Has(a, "argv0") THEN kv(B.argv \o <<48>>, a.argv0) ELSE <<>>)
               \o Flat([n \in 1..Len(a.args) |-> kv(B.argv \o DecStr(n), a.args[n])])
          [] a.transport = "tcp" ->
               kv(B.host, a.host) \o kv(B.port, DecStr(a.port))
               \o (IF Has(a, "family") THEN kv(B.family, B[a.family]) ELSE <<>>)
               \o (IF Has(a, "bind") THEN kv(B.bind, a.bind) ELSE <<>>)
               \o (IF Has(a, "noncefile") THEN kv(B.noncefile, a.noncefile) ELSE <<>>)
          [] a.transport = "vsock" -> kv(B.cid, DecStr(a.cid)) \o kv(B.port, DecStr(a.port))
      all == parts \o (IF Has(a, "guid") THEN kv(B.guid, a.guid) ELSE <<>>)
      tr == IF a.transport = "tcp" THEN (IF Has(a, "noncefile") THEN B.noncetcp ELSE B.tcp) ELSE B[a.transport]
  IN  tr \o <<COLON>> \o Flat([j \in 1..Len(all) |-> IF j = 1 THEN all[j] ELSE <<COMMA>> \o all[j]])

AddrFields == {"transport", "kind", "value", "path", "argv0", "args", "host", "port", "family", "bind", "noncefile", "cid", "guid"}
NormAddr(a) == [f \in (DOMAIN a) \cap AddrFields |-> a[f]]
=============================================================================
