CONSTANTS
  ALLSETUPS = FALSE
  MAXCUTS = 2
  STREAMS <- StreamsQuick
  TAILS <- TailsAll
INIT Init
NEXT Next
INVARIANT Emit
CHECK_DEADLOCK FALSE
