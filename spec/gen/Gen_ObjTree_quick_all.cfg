CONSTANTS
  DEVS = {}
  Vals = {1}
  MODE = "all"
  LEN = 3
INIT GInit
NEXT GNext
VIEW GView
INVARIANT Emit
CHECK_DEADLOCK FALSE
