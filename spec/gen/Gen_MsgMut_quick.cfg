CONSTANTS
  BASES = {1,2,3,4,5,6,7,8}
  BOTH_LE = FALSE
INIT Init
NEXT Next
INVARIANT Emit
CHECK_DEADLOCK FALSE
