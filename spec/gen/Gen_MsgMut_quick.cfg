CONSTANTS
  BASES = {1,3,4,5,6}
  BOTH_LE = FALSE
INIT Init
NEXT Next
INVARIANT Emit
CHECK_DEADLOCK FALSE
