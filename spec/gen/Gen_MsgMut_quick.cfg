CONSTANTS
  BASES = {1,4,5}
  BOTH_LE = FALSE
INIT Init
NEXT Next
INVARIANT Emit
CHECK_DEADLOCK FALSE
