---------------------------- MODULE Gen_Dispatch ----------------------------
(***************************************************************************)
(* Enumerator of dispatch *configurations* for the spec -> impl direction  *)
(* of C29 / C30: which calls (kind, handler body) hit an interface with    *)
(* which spawn flag, and how the object server was brought up.  Every      *)
(* configuration is one (initial) state; the invariant emits it as JSON.   *)
(* The harness runs each configuration under a directed and several        *)
(* seeded random schedules; DispatchTrace validates the recorded traces.   *)
(*   CLASS = "c29"   2..MAXN method calls (&self / &mut self) with 0-2      *)
(*                   yield points, possibly with suspended property        *)
(*                   getters / setters in between; spawn disabled, enabled *)
(*   CLASS = "c30"   2..MAXN calls of all five kinds whose handlers mutate  *)
(*                   the object server, yield, emit                        *)
(*   CLASS = "lazy"  1-2 calls written right after the object server was    *)
(*                   created on demand (three bring-up variants)           *)
(***************************************************************************)
EXTENDS Dispatch, Json
CONSTANTS CLASS, MAXN
VARIABLE bringup

B29 == {<<>>, <<"y">>, <<"y", "y">>}
B30 == {<<"w">>, <<"y", "w">>, <<"e", "y">>}
Call29 == [kind : UserKinds, body : B29]
Call30 == [kind : Kinds \ {"intro", "methnr", "ping"}, body : B30] \cup [kind : {"intro", "ping"}, body : {<<>>}]
CallLz == [kind : {"meth"}, body : {<<>>, <<"y">>}]

(* C29 also with property accesses in between: Properties.Get/Set always run in their own task and hold X's lock
   while the getter / setter is suspended, so the dispatcher meets a busy interface lock when the next method call
   arrives (at least two method calls, or there is no order to speak of) *)
Call29p == [kind : {"meth", "methmut"}, body : B29] \cup [kind : {"methnr"}, body : {<<"y">>, <<"y", "y">>}]
           \cup [kind : {"get", "set"}, body : {<<"y">>}]
NUser(cs) == Cardinality({j \in DOMAIN cs : cs[j].kind \in UserKinds})
Cfgs == CASE CLASS = "c29" -> UNION {{c \in [spawn : BOOLEAN, calls : [1..n -> Call29p]] : NUser(c.calls) >= 2} : n \in 2..MAXN}
          [] CLASS = "c30" -> UNION {{c \in [spawn : BOOLEAN, calls : [1..n -> Call30]] :
                                         Cardinality({j \in DOMAIN c.calls : c.calls[j].kind = "getall"}) <= 1} : n \in 2..MAXN}
          [] OTHER         -> UNION {[spawn : BOOLEAN, calls : [1..n -> CallLz]] : n \in 1..2}

GInit == /\ \E c \in Cfgs : InitWith(c)
         /\ bringup \in (IF CLASS = "lazy" THEN {1, 2, 3} ELSE {0})
GNext == UNCHANGED <<vars, bringup>>
Emit == PrintT(<<"CASE", ToJson([class |-> CLASS, spawn |-> cfg.spawn, lazy |-> bringup, calls |-> cfg.calls])>>)
=============================================================================
