INIT Init
NEXT Next
INVARIANT EmitCase
CHECK_DEADLOCK FALSE
CONSTANTS
  AllModeLen = 4
  L = 5
  Schedules = {"each", "glue_next", "glue_both", "glue_next2", "glue_prev"}
