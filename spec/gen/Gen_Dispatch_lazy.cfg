CONSTANTS
  DEVS = {}
  CLASS = "lazy"
  MAXN = 2
INIT GInit
NEXT GNext
INVARIANT Emit
CHECK_DEADLOCK FALSE
