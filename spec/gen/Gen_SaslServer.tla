-------------------------- MODULE Gen_SaslServer --------------------------
(***************************************************************************)
(* Enumerator of client transcripts for the server handshake (C16,         *)
(* spec -> impl).  Family "seq": every command sequence of length <= 2 over *)
(* the full alphabet and every sequence of length LONG over the reduced     *)
(* alphabet, for every configuration, with and without the leading NUL     *)
(* (the harness replays each one as a single chunk and byte by byte).       *)
(* Family "cut": representative transcripts under every set of <= MAXCUTS   *)
(* cuts at the positions {after the NUL} + per line {mid-line, before CR,   *)
(* between CR and LF, after LF}.  The harness renders commands to bytes;    *)
(* SaslServerTrace reads the bytes back and decides.                        *)
(***************************************************************************)
EXTENDS Naturals, Sequences, FiniteSets, Json, TLC
CONSTANTS LONG, MAXCUTS, FULL3, ALLCFG

Cfgs == [mech : {"EXT", "ANON"}, creds : BOOLEAN, canfd : BOOLEAN]
A(m, i) == [k |-> "AUTH", mech |-> m, id |-> i]
D(i) == [k |-> "DATA", id |-> i]
K(x) == [k |-> x]
U(v) == [k |-> "UNKNOWN", v |-> v]
Full ==
  {A("EXT", i) : i \in {"none", "match", "mismatch", "nonnum", "badhex", "ambig"}}
  \cup {A("ANON", i) : i \in {"none", "match", "badhex"}}
  \cup {A("OTHER", i) : i \in {"none", "match"}} \cup {A("NONE", "none")}
  \cup {D(i) : i \in {"empty", "match", "mismatch", "nonnum", "badhex", "ambig"}}
  \cup {K(x) : x \in {"BEGIN", "CANCEL", "ERROR", "NEGOTIATE_UNIX_FD", "BADEND", "LFSTART"}}
  \cup {U(v) : v \in {"word", "empty", "okcmd", "garbage"}}
Red == {A("EXT", "none"), A("EXT", "match"), A("EXT", "mismatch"), A("ANON", "match"), A("OTHER", "none"),
        D("empty"), D("match"), D("mismatch"), K("BEGIN"), K("CANCEL"), K("NEGOTIATE_UNIX_FD"), U("word"), K("LFSTART")}

RECURSIVE SeqsOver(_, _)
SeqsOver(S, n) == IF n = 0 THEN {<<>>} ELSE {Append(s, c) : s \in SeqsOver(S, n - 1), c \in S}

\* representative transcripts for the chunking family
Reps == {
  <<A("EXT", "match"), K("NEGOTIATE_UNIX_FD"), K("BEGIN")>>,
  <<A("EXT", "none"), D("match"), K("BEGIN")>>,
  <<A("ANON", "match"), K("BEGIN")>>,
  <<A("EXT", "mismatch"), A("EXT", "match"), K("BEGIN")>>,
  <<A("EXT", "match"), K("BADEND")>>,
  <<A("EXT", "none"), K("CANCEL"), K("BEGIN")>> }
CutPos(n) == {<<0, "n">>} \cup {<<i, t>> : i \in 1..n, t \in {"m", "c", "l", "e"}}
Small(P, k) == {S \in SUBSET P : Cardinality(S) <= k}

VARIABLES cfg, lines, nul, fam, cuts, done
vars == <<cfg, lines, nul, fam, cuts, done>>

Init ==
  /\ cfg \in Cfgs /\ cuts = {} /\ done = FALSE
  /\ \/ fam = "seq" /\ nul = TRUE /\ lines \in SeqsOver(Full, 1)
     \/ fam = "seq" /\ nul = TRUE /\ lines \in SeqsOver(Red, LONG - 1) /\ (ALLCFG \/ cfg.canfd)
     \/ fam = "seq" /\ nul = FALSE /\ lines \in {<<A("EXT", "match")>>, <<A("ANON", "match")>>, <<K("LFSTART")>>}
     \/ fam = "cut" /\ nul = TRUE /\ lines \in Reps /\ cfg.canfd /\ cfg.creds

Next ==
  /\ ~done /\ done' = TRUE /\ UNCHANGED <<cfg, nul, fam>>
  /\ \/ /\ fam = "seq" /\ Len(lines) = 1 /\ cuts' = cuts
        /\ \/ lines' = lines
           \/ \E c \in Full : lines' = Append(lines, c)
           \/ FULL3 /\ (ALLCFG \/ cfg.canfd) /\ \E c \in Full, d \in Full : lines' = lines \o <<c, d>>
     \/ /\ fam = "seq" /\ Len(lines) = LONG - 1 /\ LONG > 2 /\ cuts' = cuts
        /\ \E c \in Red : lines' = Append(lines, c)
     \/ /\ fam = "cut" /\ lines' = lines
        /\ \E cs \in Small(CutPos(Len(lines)), MAXCUTS) : cuts' = cs

Emit == done => PrintT(<<"CASE", ToJson([cfg |-> cfg, lines |-> lines, nul |-> nul, fam |-> fam, cuts |-> cuts])>>)
=============================================================================
