----------------------------- MODULE Gen_Names -----------------------------
(***************************************************************************)
(* Bounded-exhaustive enumerator of candidate names (C10, spec -> impl).    *)
(*                                                                         *)
(* An alphabet is a set of SYMBOLS (code points): an ASCII byte, or 233 for  *)
(* e-acute, whose UTF-8 encoding is two bytes; so every state is a valid    *)
(* UTF-8 string -- the API under test takes &str.  From the empty           *)
(* string, Next appends one symbol as long as the result stays within one   *)
(* of the three (alphabet, length) levels; the reachable states are all     *)
(* strings of at most Lk symbols over Ak, k = 1..3.  The initial states     *)
(* also contain the boundary families (254 / 255 / 256 bytes for every      *)
(* shape of name, the bus driver's name, typical names), without successors.*)
(* The invariant emits every string with the verdict of every predicate of  *)
(* Names.tla.                                                               *)
(***************************************************************************)
EXTENDS Names, Json, IOUtils, TLC
CONSTANTS A1, L1, A2, L2, A3, L3

Rep(n, x) == [i \in 1..n |-> x] \o <<>>
RECURSIVE Cat(_)
Cat(ss) == IF ss = <<>> THEN <<>> ELSE Head(ss) \o Cat(Tail(ss))

a == 97
EAcute == <<195, 169>>
BytesOf(sym) == IF sym < 128 THEN <<sym>> ELSE IF sym = 233 THEN EAcute ELSE Assert(FALSE, "unknown symbol")
Driver == BusDriverName

EmittedKinds == Kinds \ {"guid"}     \* the GUID is observed by the zbus-dependent harness

FamilyStrings ==
  \* one element / no separator
  {Rep(n, a) : n \in {1, 254, 255, 256}}
  \* two elements, dotted
  \cup {<<a, Dot>> \o Rep(n - 2, a) : n \in {3, 254, 255, 256}}
  \cup {Rep(n - 2, a) \o <<Dot, a>> : n \in {254, 255, 256}}
  \* unique
  \cup {<<Colon, a, Dot>> \o Rep(n - 3, a) : n \in {4, 254, 255, 256}}
  \cup {<<Colon, 49, Dot>> \o Rep(n - 3, 52) : n \in {5, 255, 256}}
  \* many elements: 127 x "a." + "a" = 255 bytes, 128 x "a." + "a" = 257, and 256 exactly
  \cup {Cat(Rep(k, <<a, Dot>>)) \o tail : k \in {126, 127, 128}, tail \in {<<a>>, <<a, a>>, <<a, a, a, a>>}}
  \cup {<<Colon>> \o Cat(Rep(k, <<49, Dot>>)) \o <<50>> : k \in {126, 127, 128}}
  \* object paths have no length limit
  \cup {<<Slash>> \o Rep(n - 1, a) : n \in {2, 255, 256, 300}}
  \cup {Cat(Rep(k, <<Slash, a>>)) : k \in {1, 127, 128, 150}}
  \cup {Cat(Rep(128, <<Slash, a>>)) \o <<Slash>>}
  \* multi-byte characters: the limit counts bytes
  \cup {Cat(Rep(127, EAcute)) \o <<a>>, Cat(Rep(128, EAcute)), Cat(Rep(127, EAcute)), <<a>> \o Cat(Rep(127, EAcute)) \o <<a>>}
  \* the bus driver and near misses
  \cup {Driver, Driver \o <<120>>, <<Colon>> \o Driver, Driver \o <<Dot>>, <<Dot>> \o Driver,
        SubSeq(Driver, 1, 19), SubSeq(Driver, 1, 15) \o <<100, 98, 117, 115>>, SubSeq(Driver, 5, 20)}
  \* typical names (":1.42", "a.b", ":a.b", "a-b.c_d", "org.x-y.Z0", "/", "/a/b", "//", "/a/", "a/b", "Get", "x.9y")
  \cup {<<Colon, 49, Dot, 52, 50>>, <<a, Dot, 98>>, <<Colon, a, Dot, 98>>, <<a, Hyphen, 98, Dot, 99, Underscore, 100>>,
        <<111, 114, 103, Dot, 120, Hyphen, 121, Dot, 90, 48>>, <<Slash>>, <<Slash, a, Slash, 98>>, <<Slash, Slash>>,
        <<Slash, a, Slash>>, <<a, Slash, 98>>, <<71, 101, 116>>, <<120, Dot, 57, 121>>}

VARIABLE c
Start == [fam |-> "enum", s |-> <<>>, n |-> 0, in1 |-> TRUE, in2 |-> TRUE, in3 |-> TRUE]
Init == c \in {Start} \cup {[fam |-> "limit", s |-> t, n |-> 0, in1 |-> FALSE, in2 |-> FALSE, in3 |-> FALSE] : t \in FamilyStrings}
Next == /\ c.fam = "enum"
        /\ \E sym \in A1 \cup A2 \cup A3 :
             LET d == [c EXCEPT !.s = c.s \o BytesOf(sym), !.n = c.n + 1,
                                !.in1 = c.in1 /\ sym \in A1, !.in2 = c.in2 /\ sym \in A2, !.in3 = c.in3 /\ sym \in A3] IN
             /\ (d.in1 /\ d.n <= L1) \/ (d.in2 /\ d.n <= L2) \/ (d.in3 /\ d.n <= L3)
             /\ c' = d
\* two symbol sequences with the same bytes are the same case
View == <<c.fam, c.s>>

FileCases == ndJsonDeserialize(IOEnv.CASES)
InitFile == c \in {[fam |-> FileCases[i].fam, s |-> FileCases[i].s, n |-> 0, in1 |-> FALSE, in2 |-> FALSE, in3 |-> FALSE] :
                     i \in 1..Len(FileCases)}
NextNone == FALSE /\ UNCHANGED c

CaseOf(x) == [s |-> x.s, fam |-> x.fam]
Emit == PrintT(<<"CASE", ToJson(CaseOf(c))>>)
=============================================================================
