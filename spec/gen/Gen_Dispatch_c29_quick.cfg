CONSTANTS
  DEVS = {}
  CLASS = "c29"
  MAXN = 3
INIT GInit
NEXT GNext
INVARIANT Emit
CHECK_DEADLOCK FALSE
