CONSTANTS
  Pkgs <- MetaPkgs
  ProcMacros <- MetaProcMacros
  Features <- MetaFeatures
  Items <- MetaItems
  Edges <- MetaEdges
  Couplings <- ZbusCouplings
  Requires <- ZbusRequires
  Resolver = "2"
  TIER = "thorough"
INIT GInit
NEXT GNext
INVARIANT Emit
CHECK_DEADLOCK FALSE
