---------------------------- MODULE Gen_Framing ----------------------------
(***************************************************************************)
(* Bounded-exhaustive enumerator of receive scenarios for C14 (spec ->     *)
(* impl).  A case is symbolic: message templates, a set of cut positions,  *)
(* how far the handshake over-reads (`left`), where the fds travel, which  *)
(* kind of connection set-up precedes (none / client / server handshake),  *)
(* and an optional tail (over-long or at-the-limit header).  Positions are *)
(* <<message index, tag>> with the tags of Framing's abstract cut points:  *)
(*   h inside the fixed header, x at byte 16, f inside the header fields,  *)
(*   b at the first body byte, i inside the body, e at the message end     *)
(* (a chunk spanning a boundary arises whenever e is not a cut).  The      *)
(* harness maps them onto real messages, replays the chunking through zbus *)
(* and records a trace that FramingTrace validates.                        *)
(***************************************************************************)
EXTENDS Naturals, Sequences, FiniteSets, Json, TLC
CONSTANTS ALLSETUPS, \* FALSE: the server-side set-up only with a few leftover splits (quick tier)
          MAXCUTS,   \* max number of cuts per scenario
          STREAMS,   \* set of [msgs |-> <<template names>>, be |-> <<BOOLEAN>>]
          TAILS      \* tail kinds for the size-limit family

S2(a, ab, b, bb) == [msgs |-> <<a, b>>, be |-> <<ab, bb>>]
\* unk1: a message of a type this version does not know, carrying one fd - skipped with its fd (only without handshake
\* leftovers: what becomes of leftover fds of a skipped message is not specified here)
StreamsQuick == {S2("sig0", FALSE, "call1", FALSE), S2("sig2", TRUE, "sigs", FALSE), S2("unk1", FALSE, "call1", FALSE)}
StreamsThorough == StreamsQuick \cup {S2("call1", FALSE, "sig2", TRUE), S2("call1", TRUE, "call1", TRUE), S2("sigs", FALSE, "sig2", FALSE), S2("sig0", FALSE, "sig0", TRUE)}
\* (limit_pad*: 16 + fields + body is within the limit, the total with the padding before the body is 1 / 7 bytes above)
TailsAll == {"big_body_le", "big_body_be", "big_fields", "max_u32", "limit_plus1", "limit_plus1_be", "limit_pad1", "limit_pad7_be"}

Tags == {"h", "x", "f", "b", "i", "e"}
Pos(n) == {<<m, t>> : m \in 1..n, t \in Tags}
Small(P, k) == {S \in SUBSET P : Cardinality(S) <= k}

\* set-up variants: pre-authenticated socket (no leftovers) or a handshake that over-reads up to `left`
Setups(P) == {[via |-> "auth", left |-> <<0, "0">>]}
        \cup {[via |-> "client", left |-> p] : p \in P \cup {<<0, "0">>}}
        \cup {[via |-> "server", left |-> p] : p \in {q \in P \cup {<<0, "0">>} : ALLSETUPS \/ q[2] \in {"0", "h", "e"}}}

\* A case is built in two steps so that TLC's workers share the enumeration: the initial states fix
\* everything but the cut set, the successor states add each cut set.
MainBases ==
  UNION {{[msgs |-> s.msgs, be |-> s.be, left |-> su.left, via |-> su.via,
           fdpos |-> fp, tail |-> "none", eof |-> FALSE, fam |-> "main"]
          : su \in {x \in Setups(Pos(Len(s.msgs))) : "unk1" \notin {s.msgs[j] : j \in 1..Len(s.msgs)} \/ x.left = <<0, "0">>},
            \* where the fds travel: all with the first byte, all with the first body byte, or (messages with two fds) split:
            \* the first with the first byte, the second with the first body byte - so that a cut in between separates them
            fp \in {"first", "body"} \cup (IF "sig2" \in {s.msgs[j] : j \in 1..Len(s.msgs)} THEN {"split"} ELSE {})}
         : s \in STREAMS}

\* size-limit family: zero or one valid message, then a fixed header declaring too much (or exactly the
\* limit), followed by junk that must not be read
TailPos(n) == {<<n + 1, "h">>, <<n + 1, "x">>, <<n + 1, "e">>}
TailStreams == {[msgs |-> <<>>, be |-> <<>>], [msgs |-> <<"sigs">>, be |-> <<FALSE>>], [msgs |-> <<"call1">>, be |-> <<TRUE>>]}
TailBases ==
  UNION {{[msgs |-> s.msgs, be |-> s.be, left |-> su.left, via |-> su.via,
           fdpos |-> "first", tail |-> t, eof |-> e, fam |-> "tail"]
          : su \in Setups(TailPos(Len(s.msgs))), t \in TAILS, e \in BOOLEAN}
         : s \in TailStreams}
\* the accepted-at-the-limit header makes the implementation allocate 128 MiB: only two cases
AtLimit == {[msgs |-> <<"sigs">>, be |-> <<FALSE>>, left |-> <<0, "0">>, via |-> "auth",
             fdpos |-> "first", tail |-> t, eof |-> FALSE, fam |-> "limit"] : t \in {"at_limit", "at_limit_be"}}

CutSetsOf(b) ==
  CASE b.fam = "main" -> Small(Pos(Len(b.msgs)), MAXCUTS)
    [] b.fam = "tail" -> Small(TailPos(Len(b.msgs)) \cup {<<Len(b.msgs), "e">>}, 1)
    [] OTHER -> {{}}

VARIABLES base, cuts, done
Init == base \in MainBases \cup TailBases \cup AtLimit /\ cuts = {} /\ done = FALSE
Next == /\ ~done /\ done' = TRUE /\ UNCHANGED base
        /\ \E cs \in CutSetsOf(base) : cuts' = cs
Emit == done => PrintT(<<"CASE", ToJson([msgs |-> base.msgs, be |-> base.be, left |-> base.left, via |-> base.via,
                                        fdpos |-> base.fdpos, tail |-> base.tail, eof |-> base.eof, cuts |-> cuts])>>)
=============================================================================
