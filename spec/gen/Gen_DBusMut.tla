---------------------------- MODULE Gen_DBusMut ----------------------------
(***************************************************************************)
(* Enumerator for C03: every single-byte mutation (to 0, 1, 255, old xor 1, *)
(* old xor 128) at every position, and every truncation, of the reference   *)
(* encoding Marshal(T, v, pos, le) of every base case.  One state per        *)
(* mutated byte string; the invariant emits it.  The verdict is NOT emitted: *)
(* WireCheck evaluates Decode on the observation lines afterwards.           *)
(***************************************************************************)
EXTENDS Gen_DBusWire

CONSTANTS MUT_LEVEL
MUT_POS == IF MUT_LEVEL = 1 THEN {<<0, FALSE>>, <<5, TRUE>>} ELSE {<<0, FALSE>>, <<5, TRUE>>, <<2, FALSE>>}

Base == UNION {{[T |-> t, v |-> V(t, 1), pos |-> pl[1], le |-> pl[2]] : pl \in MUT_POS} : t \in Types}

X1(b)   == IF b % 2 = 0 THEN b + 1 ELSE b - 1
X128(b) == IF b >= 128 THEN b - 128 ELSE b + 128
MutVals(b) == {0, 1, 255, X1(b), X128(b)} \ {b}

MutsFast(bc) ==
  LET B == Marshal(bc.T, bc.v, bc.pos, bc.le)
      n == NumFds(bc.T, bc.v)
      mk(bs) == [T |-> bc.T, bytes |-> bs, pos |-> bc.pos, le |-> bc.le, nfds |-> n]
  IN  UNION {{mk([B EXCEPT ![i] = m]) : m \in MutVals(B[i])} : i \in 1..Len(B)}
      \cup {mk(SubSeq(B, 1, k)) : k \in 0..Len(B)}

(* Targeted families: one hand-written encoding per validity rule of C03 that a
   single-byte mutation of a valid encoding rarely reaches.  All big-endian,
   offset 0.  Str(bs) = string encoding with length prefix and terminator. *)
StrEnc(bs)  == U32BE(Len(bs)) \o bs \o <<0>>
VarEnc(sig, payload) == <<Len(sig)>> \o sig \o <<0>> \o payload
TStr  == [k |-> "s"]
TPath == [k |-> "o"]
TSig  == [k |-> "g"]
TVar  == [k |-> "v"]
BadUtf8 == { <<192,128>>, <<193,191>>, <<237,160,128>>, <<237,191,191>>, <<244,144,128,128>>, <<245,128,128,128>>,
             <<128>>, <<191>>, <<194>>, <<224,128,128>>, <<240,128,128,128>>, <<226,130>>, <<255>>, <<254>>,
             <<97,0,98>> }
GoodUtf8 == { <<194,128>>, <<223,191>>, <<224,160,128>>, <<237,159,191>>, <<238,128,128>>, <<239,191,191>>,
              <<240,144,128,128>>, <<244,143,191,191>>, <<127>> }
BadPaths == { <<>>, <<97>>, <<47,47>>, <<47,97,47>>, <<47,97,47,47,98>>, <<47,97,45>>, <<47,195,169>>, <<47,97,46,98>>, <<32>> }
GoodPaths == { <<47>>, <<47,97>>, <<47,95,47,48>>, <<47,65,47,97,47,57>> }
Sigs == { <<>>, <<121,121>>, <<40,41>>, <<40,121>>, <<121,41>>, <<123,115,118,125>>, <<97>>, <<97,123,118,115,125>>,
          <<97,123,115,125>>, <<97,123,115,115,115,125>>, <<122>>, <<109,121>>, <<97,123,115,118,125>>, <<40,121,40,115,41,41>>,
          <<97,97,121>>, <<40,97,123,115,118,125,118,41>>, <<97,123,40,121,41,115,125>>, <<97,123,97,121,115,125>>,
          \* several complete types that begin and / or end with a structure: "(y)(y)", "(y)s(y)", "(y)y", "y(y)", "(u)(u)"
          <<40,121,41,40,121,41>>, <<40,121,41,115,40,121,41>>, <<40,121,41,121>>, <<121,40,121,41>>, <<40,117,41,40,117,41>> }
\* payload that is a valid encoding of the signature when it is a single complete type of the simple kinds below
PayloadFor(sig) == IF sig = <<121>> THEN <<7>> ELSE <<>>
Targeted ==
  LET mk(T, bs, n) == [T |-> T, bytes |-> bs, pos |-> 0, le |-> FALSE, nfds |-> n] IN
     {mk(TStr, StrEnc(b), 0) : b \in BadUtf8 \cup GoodUtf8}
  \cup {mk(TPath, StrEnc(b), 0) : b \in BadPaths \cup GoodPaths}
  \cup {mk(TVar, VarEnc(<<111>>, <<0,0,0>> \o StrEnc(b)), 0) : b \in BadPaths \cup GoodPaths}       \* path inside a variant
  \cup {mk(TVar, VarEnc(<<115>>, <<0,0,0>> \o StrEnc(b)), 0) : b \in BadUtf8}
  \cup {mk(TSig, <<Len(g)>> \o g \o <<0>>, 0) : g \in Sigs}
  \cup {mk(TVar, VarEnc(<<103>>, <<Len(g)>> \o g \o <<0>>), 0) : g \in Sigs}                          \* signature inside a variant
  \cup {mk(TVar, VarEnc(g, <<0,0,0,0,0,0,0,0,0,0,0,0,0,0,0,0>>), 0) : g \in Sigs}                       \* variant's own signature
  \cup {mk(TVar, VarEnc(<<121,121>>, <<7,7>>), 0), mk(TVar, VarEnc(<<>>, <<>>), 0), mk(TVar, VarEnc(<<121>>, <<7>>), 0)}
  \cup {mk([k |-> "h"], U32BE(i), n) : i \in 0..3, n \in 0..3}
  \cup {mk([k |-> "b"], <<0,0,0,x>>, 0) : x \in 0..3} \cup {mk([k |-> "b"], <<x,0,0,0>>, 0) : x \in 1..2}
  \cup {mk(Arr([k |-> "t"]), U32BE(n) \o <<0,0,0,0>> \o Zeros(16), 0) : n \in 0..17}                  \* array length vs element boundary
  \cup {mk(Arr([k |-> "s"]), U32BE(n) \o StrEnc(<<97>>) \o <<0,0>> \o StrEnc(<<98,99>>), 0) : n \in 0..16}
  \cup {mk(Arr([k |-> "t"]), U32BE(0) \o <<0,0,0,x>>, 0) : x \in 0..1}                                \* padding of an empty array

VARIABLE m
\* two levels so that TLC's workers expand the base cases in parallel
MInit == c = 0 /\ m \in {[base |-> bc] : bc \in Base} \cup Targeted
MNext == /\ "base" \in DOMAIN m
         /\ m' \in MutsFast(m.base)
         /\ UNCHANGED c
MEmit == "base" \in DOMAIN m \/ PrintT(<<"CASE", ToJson(m)>>)
=============================================================================
