CONSTANT LEVEL = 1
INIT Init
NEXT Next
INVARIANT Emit
CHECK_DEADLOCK FALSE
