----------------------------- MODULE Gen_Shapes -----------------------------
(***************************************************************************)
(* Emits the program of a run: NIFACE interface shapes (tag SHAPE) and      *)
(* NTREE registration trees over them (tag TREE).  Every state is one       *)
(* shape or one tree; the invariant prints it as JSON.                      *)
(* lib/iface_codegen.py turns the SHAPE lines into harness/iface/src/       *)
(* generated*.rs; the trace validators read both files back.               *)
(***************************************************************************)
EXTENDS Shapes, Json
CONSTANTS NIFACE, NTREE, SEED

VARIABLE c
Init == \/ c \in {[kind |-> "shape", n |-> j] : j \in 0..(NIFACE - 1)}
        \/ c \in {[kind |-> "tree", n |-> t] : t \in 0..(NTREE - 1)}
Next == UNCHANGED c
Emit ==
  IF c.kind = "shape"
  THEN PrintT(<<"SHAPE", ToJson(IfaceShape(c.n, SEED) @@ [sigs |-> ExpectedSig(IfaceShape(c.n, SEED))])>>)
  ELSE LET regs == TreeRegs(c.n, NIFACE)
           ns == SetToSeq(Nodes(regs)) IN
       PrintT(<<"TREE", ToJson([tid |-> c.n, regs |-> regs,
                                nodes |-> [i \in 1..Len(ns) |-> [path |-> PathStr(ns[i]), segs |-> ns[i]]]])>>)
=============================================================================
