----------------------------- MODULE Gen_Depths -----------------------------
(***************************************************************************)
(* Enumerator for C07: nestings of arrays / structs / variants around a     *)
(* byte, for count triples at and around the limits, in several orders.      *)
(* Each case carries the value (abstract model), and the reference           *)
(* encodings in both formats so that the *decoders* can be fed over-limit     *)
(* input the encoders refuse to produce.  The top level is always a variant.  *)
(***************************************************************************)
EXTENDS DBusWire, GVariantWire, Json, TLC
CONSTANTS AS, RS, VS        \* sets of counts for arrays, structs, variants (besides the top-level variant)

Rep(kd, n) == [i \in 1..n |-> kd]
\* Orders.  Variants split signatures, so they are spread between the other containers where possible.
RECURSIVE Interleave(_,_,_)
Interleave(a, r, v) ==
  IF a + r + v = 0 THEN <<>>
  ELSE IF a >= r /\ a >= v /\ a > 0 THEN <<"a">> \o Interleave(a - 1, r, v)
  ELSE IF r >= v /\ r > 0 THEN <<"r">> \o Interleave(a, r - 1, v)
  ELSE <<"v">> \o Interleave(a, r, v - 1)
Orders(a, r, v) ==
  { Rep("a", a) \o Rep("r", r) \o Rep("v", v),
    Rep("v", v) \o Rep("r", r) \o Rep("a", a),
    Rep("r", r) \o Rep("v", v) \o Rep("a", a),
    Rep("a", a \div 2) \o Rep("v", v) \o Rep("a", a - a \div 2) \o Rep("r", r),
    Interleave(a, r, v) }

TY == [k |-> "y"]
RECURSIVE Build(_)
Build(s) ==
  IF s = <<>> THEN [T |-> TY, v |-> [b |-> <<7>>]]
  ELSE LET in == Build(Tail(s)) IN
    CASE Head(s) = "a" -> [T |-> [k |-> "a", e |-> in.T], v |-> [a |-> <<in.v>>]]
      [] Head(s) = "r" -> [T |-> [k |-> "r", f |-> <<in.T>>], v |-> [r |-> <<in.v>>]]
      [] Head(s) = "v" -> [T |-> [k |-> "v"], v |-> [t |-> in.T, v |-> in.v]]

Stacks == UNION {Orders(a, r, v) : a \in AS, r \in RS, v \in VS}
Case(s) == LET full == <<"v">> \o s
               b == Build(full) IN
           [stack |-> full, T |-> b.T, v |-> b.v,
            dbus |-> Marshal(b.T, b.v, 0, TRUE), gv |-> GvMarshal(b.T, b.v, 0, TRUE)]

VARIABLE s
Init == s \in {x \in Stacks : Len(x) <= 70}
Next == UNCHANGED s
Emit == PrintT(<<"CASE", ToJson(Case(s))>>)
=============================================================================
