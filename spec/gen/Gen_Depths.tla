----------------------------- MODULE Gen_Depths -----------------------------
(***************************************************************************)
(* Enumerator for C07: nestings of arrays / structs / variants around a     *)
(* byte, for count triples at and around the limits, in several orders.      *)
(* Each case carries the value (abstract model), and the reference           *)
(* encodings in both formats so that the *decoders* can be fed over-limit     *)
(* input the encoders refuse to produce.  The top level is always a variant.  *)
(***************************************************************************)
EXTENDS DBusWire, GVariantWire, Json, TLC
CONSTANTS AS, RS, VS        \* sets of counts for arrays, structs, variants (besides the top-level variant)

Rep(kd, n) == [i \in 1..n |-> kd]
\* Orders.  Variants split signatures, so they are spread between the other containers where possible.
RECURSIVE Interleave(_,_,_)
Interleave(a, r, v) ==
  IF a + r + v = 0 THEN <<>>
  ELSE IF a >= r /\ a >= v /\ a > 0 THEN <<"a">> \o Interleave(a - 1, r, v)
  ELSE IF r >= v /\ r > 0 THEN <<"r">> \o Interleave(a, r - 1, v)
  ELSE <<"v">> \o Interleave(a, r, v - 1)
Orders(a, r, v) ==
  { Rep("a", a) \o Rep("r", r) \o Rep("v", v),
    Rep("v", v) \o Rep("r", r) \o Rep("a", a),
    Rep("r", r) \o Rep("v", v) \o Rep("a", a),
    Rep("a", a \div 2) \o Rep("v", v) \o Rep("a", a - a \div 2) \o Rep("r", r),
    Interleave(a, r, v) }

TY == [k |-> "y"]
RECURSIVE Build(_)
Build(s) ==
  IF s = <<>> THEN [T |-> TY, v |-> [b |-> <<7>>]]
  ELSE LET in == Build(Tail(s)) IN
    CASE Head(s) = "a" -> [T |-> [k |-> "a", e |-> in.T], v |-> [a |-> <<in.v>>]]
      [] Head(s) = "r" -> [T |-> [k |-> "r", f |-> <<in.T>>], v |-> [r |-> <<in.v>>]]
      [] Head(s) = "v" -> [T |-> [k |-> "v"], v |-> [t |-> in.T, v |-> in.v]]

Stacks == UNION {Orders(a, r, v) : a \in AS, r \in RS, v \in VS}
Case(s) == LET full == <<"v">> \o s
               b == Build(full) IN
           [stack |-> full, T |-> b.T, v |-> b.v,
            dbus |-> Marshal(b.T, b.v, 0, TRUE), gv |-> GvMarshal(b.T, b.v, 0, TRUE)]

(* Wide cases: Depths!Leave.  A container holding w equal siblings of kind kd (each around a byte), itself inside the
   nesting pre.  The deepest path is pre \o <<cont, kd>>; leaving a sibling must give its count back, so the verdict is
   that of the deepest path however many siblings precede it (a counter that leaks on Leave refuses a later sibling). *)
RECURSIVE BuildL(_,_)
BuildL(s, leaf) ==
  IF s = <<>> THEN leaf
  ELSE LET in == BuildL(Tail(s), leaf) IN
    CASE Head(s) = "a" -> [T |-> [k |-> "a", e |-> in.T], v |-> [a |-> <<in.v>>]]
      [] Head(s) = "r" -> [T |-> [k |-> "r", f |-> <<in.T>>], v |-> [r |-> <<in.v>>]]
      [] Head(s) = "v" -> [T |-> [k |-> "v"], v |-> [t |-> in.T, v |-> in.v]]
WideLeaf(cont, kd, w) ==
  LET in == Build(<<kd>>) IN
  IF cont = "a" THEN [T |-> [k |-> "a", e |-> in.T], v |-> [a |-> [i \in 1..w |-> in.v]]]
  ELSE [T |-> [k |-> "r", f |-> [i \in 1..w |-> in.T]], v |-> [r |-> [i \in 1..w |-> in.v]]]
WidePres == {<<>>, Rep("v", 61), Rep("v", 60), Rep("r", 30) \o Rep("v", 5), Rep("a", 30) \o Rep("v", 5)}
WideCase(pre, cont, kd, w) ==
  LET b == BuildL(<<"v">> \o pre, WideLeaf(cont, kd, w)) IN
  [stack |-> <<"v">> \o pre \o <<cont, kd>>, wide |-> w, T |-> b.T, v |-> b.v,
   dbus |-> Marshal(b.T, b.v, 0, TRUE), gv |-> GvMarshal(b.T, b.v, 0, TRUE)]
Kinds3 == {"a", "r", "v"}
\* (encoded as a sequence of strings like the other cases: TLC cannot keep records and sequences in one set of states)
WNum(x) == CASE x = "2" -> 2 [] x = "3" -> 3 [] x = "66" -> 66
Wides == {<<"W", c, kd, w>> \o p : p \in WidePres, c \in {"a", "r"}, kd \in Kinds3, w \in {"2", "3", "66"}}
IsWide(x) == Len(x) > 0 /\ x[1] = "W"

VARIABLE s
Init == s \in {x \in Stacks : Len(x) <= 70} \cup Wides
Next == UNCHANGED s
Emit == PrintT(<<"CASE", ToJson(IF IsWide(s) THEN WideCase(SubSeq(s, 5, Len(s)), s[2], s[3], WNum(s[4])) ELSE Case(s))>>)
=============================================================================
