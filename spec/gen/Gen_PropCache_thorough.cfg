INIT Init
NEXT Next
INVARIANT EmitCase
CHECK_DEADLOCK FALSE
CONSTANTS
  LazySchedules = {"each", "batch", "glue_next", "glue_prev", "glue_both"}
  N = 4
  PartialUpTo = 2
  Schedules = {"each", "batch", "glue_next", "glue_prev", "glue_both"}
