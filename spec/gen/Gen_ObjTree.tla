---------------------------- MODULE Gen_ObjTree ----------------------------
(***************************************************************************)
(* Enumerators of at/remove histories for the spec -> impl direction of    *)
(* C24 / C25.  A state is a history; the invariant emits it as JSON.  The  *)
(* property value carried by the k-th operation is k (always fresh, so a   *)
(* stale or overwritten instance is visible).                              *)
(*   MODE = "all"   : every history of length exactly LEN (its prefixes    *)
(*                    are checked on the way, the harness projects the     *)
(*                    state after every step);                             *)
(*   MODE = "cover" : VIEW = <<set of registered pairs, last operation>>,  *)
(*                    histories up to LEN: one shortest history for every  *)
(*                    (operation, resulting registry) of the bounded graph *)
(*                    -- a transition cover.                               *)
(***************************************************************************)
EXTENDS ObjTree, Json, TLC
CONSTANTS MODE, LEN

OpsAt(k) == [op : {"at"}, p : Paths, i : Ifaces, v : {k}] \cup [op : {"remove"}, p : Paths, i : Ifaces, v : {0}]

\* only the registry function of ObjTree is needed to enumerate; mirror / last stay at their initial values
GInit == Init
GNext == /\ Len(hist) < LEN
         /\ \E o \in OpsAt(Len(hist) + 1) : hist' = Append(hist, o) /\ reg' = TLCEval(Eff(reg, o, {}).reg)
         /\ UNCHANGED <<mirror, last>>
GView == IF MODE = "cover"
         THEN <<PresentPairs(reg), IF hist = <<>> THEN <<>> ELSE <<hist[Len(hist)].op, hist[Len(hist)].p, hist[Len(hist)].i>>>>
         ELSE <<hist>>
(* the naming a history is replayed under: spread over Namings by a weight of the history (every naming is used by
   about a sixth of the histories, and histories that differ in one operation get different namings) *)
PathIdx(q) == CASE q = "/" -> 0 [] q = "/a" -> 1 [] q = "/a/b" -> 2 [] OTHER -> 3
IfIdx(i)   == CASE i = "I1" -> 0 [] i = "I2" -> 1 [] OTHER -> 2
RECURSIVE Weight(_)
Weight(h) == IF h = <<>> THEN 0
             ELSE LET o == h[Len(h)] IN Weight(SubSeq(h, 1, Len(h) - 1)) + Len(h) * (PathIdx(o.p) + 1) + IfIdx(o.i)
                                         + (IF o.op = "at" THEN 0 ELSE 3)
NamingOf(h) == Namings[1 + (Weight(h) % Len(Namings))]
ASSUME \A k \in 1..Len(Namings) : NamingOk(Namings[k])

Emit == \/ (MODE = "all" /\ Len(hist) # LEN)
        \/ hist = <<>>
        \/ PrintT(<<"CASE", ToJson([ops |-> hist, names |-> NamingOf(hist)])>>)
=============================================================================
