---------------------------- MODULE Gen_ObjTree ----------------------------
(***************************************************************************)
(* Enumerators of at/remove histories for the spec -> impl direction of    *)
(* C24 / C25.  A state is a history; the invariant emits it as JSON.  The  *)
(* property value carried by the k-th operation is k (always fresh, so a   *)
(* stale or overwritten instance is visible).                              *)
(*   MODE = "all"   : every history of length exactly LEN (its prefixes    *)
(*                    are checked on the way, the harness projects the     *)
(*                    state after every step);                             *)
(*   MODE = "cover" : VIEW = <<set of registered pairs, last operation>>,  *)
(*                    histories up to LEN: one shortest history for every  *)
(*                    (operation, resulting registry) of the bounded graph *)
(*                    -- a transition cover.                               *)
(***************************************************************************)
EXTENDS ObjTree, Json, TLC
CONSTANTS MODE, LEN

OpsAt(k) == [op : {"at"}, p : Paths, i : Ifaces, v : {k}] \cup [op : {"remove"}, p : Paths, i : Ifaces, v : {0}]

\* only the registry function of ObjTree is needed to enumerate; mirror / last stay at their initial values
GInit == Init
GNext == /\ Len(hist) < LEN
         /\ \E o \in OpsAt(Len(hist) + 1) : hist' = Append(hist, o) /\ reg' = TLCEval(Eff(reg, o, {}).reg)
         /\ UNCHANGED <<mirror, last>>
GView == IF MODE = "cover"
         THEN <<PresentPairs(reg), IF hist = <<>> THEN <<>> ELSE <<hist[Len(hist)].op, hist[Len(hist)].p, hist[Len(hist)].i>>>>
         ELSE <<hist>>
Emit == \/ (MODE = "all" /\ Len(hist) # LEN)
        \/ hist = <<>>
        \/ PrintT(<<"CASE", ToJson([ops |-> hist])>>)
=============================================================================
