CONSTANTS
  DEPTH = 2
  POSITIONS = {0,1,3,4,6,8,13}
INIT Init
NEXT Next
INVARIANT Emit
CHECK_DEADLOCK FALSE
