---------------------------- MODULE Gen_MsgBase ----------------------------
(***************************************************************************)
(* Vocabulary shared by the message generators (C11 / C12 / C13): canonical *)
(* header-field values in three length variants (the lengths differ mod 8   *)
(* so that every padding amount between fields occurs), a handful of        *)
(* bodies, and the header space  type x field subsets x flags.              *)
(***************************************************************************)
EXTENDS MsgLayout

PathV(n)   == CASE n = 1 -> <<47>> [] n = 2 -> <<47,97,47,98>>
                [] OTHER -> <<47,111,114,103,47,102,114,101,101,100,101,115,107,116,111,112,47,68,66,117,115,49>>
IfaceV(n)  == CASE n = 1 -> <<97,46,98>> [] n = 2 -> <<111,114,103,46,120,46,73,102,97,99,101>>
                [] OTHER -> <<111,114,103,46,102,114,101,101,100,101,115,107,116,111,112,46,68,66,117,115,46,80,114,111,112,101,114,116,105,101,115>>
MemberV(n) == CASE n = 1 -> <<77>> [] n = 2 -> <<80,105,110,103>> [] OTHER -> <<71,101,116,65,108,108,95,57>>
ErrV(n)    == CASE n = 1 -> <<97,46,69>> [] n = 2 -> <<111,114,103,46,120,46,69,114,114,111,114,46,70,97,105,108,101,100>>
                [] OTHER -> <<111,114,103,46,102,114,101,101,100,101,115,107,116,111,112,46,68,66,117,115,46,69,114,114,111,114,46,85,110,107,110,111,119,110,77,101,116,104,111,100>>
DestV(n)   == CASE n = 1 -> <<58,49,46,55>> [] n = 2 -> <<111,114,103,46,120,46,68,101,115,116>> [] OTHER -> <<58,49,46,50,51,52,53,54,55>>
SenderV(n) == CASE n = 1 -> <<58,49,46,53>> [] n = 2 -> <<58,50,46,55,55>> [] OTHER -> <<58,49,46,49,50,51,52,46,53>>
SerialV(n) == CASE n = 1 -> <<1,2,3,4>> [] n = 2 -> <<0,0,0,1>> [] OTHER -> <<255,255,255,255>>
ReplyV(n)  == CASE n = 1 -> <<0,0,1,0>> [] n = 2 -> <<255,255,255,254>> [] OTHER -> <<0,0,0,1>>

SF(c, kind, s) == [c |-> c, t |-> Ty(kind), v |-> [s |-> s]]
UF(c, b4)      == [c |-> c, t |-> Ty("u"), v |-> [b |-> b4]]
\* the user-settable field with code c, value variant n
FieldV(c, n) ==
  CASE c = 1 -> SF(1, "o", PathV(n)) [] c = 2 -> SF(2, "s", IfaceV(n)) [] c = 3 -> SF(3, "s", MemberV(n))
    [] c = 4 -> SF(4, "s", ErrV(n))  [] c = 5 -> UF(5, ReplyV(n))      [] c = 6 -> SF(6, "s", DestV(n))
    [] c = 7 -> SF(7, "s", SenderV(n))

\* ascending sequence of a set of codes
RECURSIVE SeqOfSet(_)
SeqOfSet(S) == IF S = {} THEN <<>> ELSE LET m == CHOOSE x \in S : \A y \in S : x <= y IN <<m>> \o SeqOfSet(S \ {m})
FieldsFor(codes, n) == LET cs == SeqOfSet(codes) IN [i \in 1..Len(cs) |-> FieldV(cs[i], n)]

\* fields the builder API lets a caller add to a message of each type
Settable(ty) == IF ty = MT_ERROR THEN 1..7 ELSE (1..7) \ {F_ERROR_NAME}
FieldSets(ty) == {Required(ty) \cup o : o \in SUBSET (Settable(ty) \ Required(ty))}

Hdr(ty, fl, codes, n) == [type |-> ty, flags |-> fl, serial |-> SerialV(n), fields |-> FieldsFor(codes, n)]

(* bodies: none; one u; two arguments s u; one struct argument (su); one fd;
   several fds in containers; a dict of variants *)
St(fs) == [k |-> "r", f |-> fs]
U(b4)  == [b |-> b4]
S(s)   == [s |-> s]
Hi     == <<104,105>>
Hello  == <<104,195,169,108,108,111,32,119,195,182,114,108,100>>
Body(ts, vs) == [ts |-> ts, vs |-> vs]
B_none == Body(<<>>, <<>>)
B_u    == Body(<<Ty("u")>>, <<U(<<0,0,0,7>>)>>)
B_su   == Body(<<Ty("s"), Ty("u")>>, <<S(Hi), U(<<1,2,3,4>>)>>)
B_rsu  == Body(<<St(<<Ty("s"), Ty("u")>>)>>, <<[r |-> <<S(Hello), U(<<0,0,0,9>>)>>]>>)
B_h    == Body(<<Ty("h")>>, <<[h |-> 0]>>)
B_fds  == Body(<<Ty("y"), Ty("h"), [k |-> "a", e |-> Ty("h")], Ty("v")>>,
               <<[b |-> <<5>>], [h |-> 0], [a |-> <<[h |-> 1], [h |-> 2]>>], [t |-> Ty("h"), v |-> [h |-> 3]]>>)
B_dict == Body(<<[k |-> "a", e |-> [k |-> "e", key |-> Ty("s"), val |-> Ty("v")]], Ty("t")>>,
               <<[a |-> <<[r |-> <<S(Hi), [t |-> Ty("q"), v |-> [b |-> <<1,2>>]]>>],
                          [r |-> <<S(Hello), [t |-> Ty("s"), v |-> S(<<>>)]>>]>>], [b |-> <<1,2,3,4,5,6,7,8>>]>>)
Bodies == {B_none, B_u, B_su, B_rsu, B_h, B_fds, B_dict}

(* C13: normal messages and valid messages using something unknown *)
Ser(n) == <<0, 0, 0, n>>
MkMsg(h, b, le) == MsgBytes(WithBodyFields(h, b), b, le)
NormA(le) == MkMsg([Hdr(MT_CALL, 0, {1, 2, 3, 6}, 1) EXCEPT !.serial = Ser(1)], B_su, le)
NormB(le) == MkMsg([Hdr(MT_SIGNAL, 0, {1, 2, 3}, 2) EXCEPT !.serial = Ser(3)], B_u, le)
OddHdr == [Hdr(MT_CALL, 2, {1, 3, 6}, 1) EXCEPT !.serial = Ser(2)]

Payload(p) == CASE p = 1 -> [t |-> Ty("u"), v |-> U(<<0, 0, 0, 42>>)]
                [] p = 2 -> [t |-> Ty("s"), v |-> S(Hello)]
                [] p = 3 -> [t |-> [k |-> "a", e |-> St(<<Ty("y"), Ty("v")>>)],
                             v |-> [a |-> <<[r |-> <<[b |-> <<1>>], [t |-> Ty("o"), v |-> S(<<47>>)]>>]>>]]
InsertAt(s, i, x) == SubSeq(s, 1, i - 1) \o <<x>> \o SubSeq(s, i, Len(s))
\* where the unknown field goes: 1 = first, 2 = middle, 3 = last
WithExtra(h, f, fp) ==
  LET fs == WithBodyFields(h, B_su).fields
      i  == CASE fp = 1 -> 1 [] fp = 2 -> 3 [] OTHER -> Len(fs) + 1
  IN  [h EXCEPT !.fields = InsertAt(fs, i, f)]
OddField(c, p, fp, le) == MsgBytes(WithExtra(OddHdr, [c |-> c, t |-> Payload(p).t, v |-> Payload(p).v], fp), B_su, le)
OddFlag(fl, le)  == MkMsg([OddHdr EXCEPT !.flags = fl], B_su, le)
OddType(ty, le)  == MkMsg([OddHdr EXCEPT !.type = ty], B_su, le)
Invalid(le)      == [OddFlag(0, le) EXCEPT ![4] = 2]             \* protocol version 2

=============================================================================
