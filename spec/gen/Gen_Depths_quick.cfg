CONSTANTS
  AS = {0, 1, 31, 32, 33}
  RS = {0, 1, 31, 32, 33}
  VS = {0, 1, 30, 31, 32, 62, 63, 64}
INIT Init
NEXT Next
INVARIANT Emit
CHECK_DEADLOCK FALSE
