CONSTANTS
  LONG = 4
  MAXCUTS = 3
  FULL3 = TRUE
  ALLCFG = FALSE
INIT Init
NEXT Next
INVARIANT Emit
CHECK_DEADLOCK FALSE
