------------------------ MODULE Gen_PropCacheRefetch ------------------------
(***************************************************************************)
(* Second case family for C31: the value that PropertyChanged::get fetches   *)
(* for an invalidated property (Properties.Get; the reply is stored in the   *)
(* cache) racing PropertiesChanged signals.  Prefix: GetAll reply, P          *)
(* invalidated, the stream item taken and its get() started.  Then every      *)
(* sequence of up to N messages containing the Get reply exactly once, under  *)
(* the schedules "each" (client runs after every message) and "batch" (all    *)
(* messages are queued before the client runs).                               *)
(***************************************************************************)
EXTENDS Integers, Sequences, FiniteSets, TLC, Json
CONSTANTS N

VARIABLES h, r
NoP == [x \in {} |-> 0]
Own(changed, inval) == [k |-> "chg", iface |-> "own", src |-> "svc", path |-> "own", changed |-> changed, inval |-> inval]
Msg(i, kind) ==
  LET v == 10 * i IN
  CASE kind = 1 -> Own([P |-> v + 1], <<>>)
    [] kind = 2 -> Own([Q |-> v + 2], <<>>)
    [] kind = 3 -> Own(NoP, <<"P">>)
    [] kind = 4 -> [k |-> "chg", iface |-> "other", src |-> "svc", path |-> "own", changed |-> [P |-> v + 4], inval |-> <<>>]
Q == [k |-> "q"]
Prefix == << [k |-> "reply", snap |-> [P |-> 1, Q |-> 2, U |-> 3]], Q, Own(NoP, <<"P">>), Q, [k |-> "fetch", prop |-> "P"] >>

Init == h = <<>> /\ r = 0
Next == /\ Len(h) < N
        /\ \/ \E kind \in 1..4 : h' = Append(h, Msg(Len(h) + 1, kind)) /\ UNCHANGED r
           \/ r = 0 /\ h' = Append(h, [k |-> "getreply", prop |-> "P", val |-> 900 + Len(h) + 1]) /\ r' = Len(h) + 1
RECURSIVE Weave(_, _)
Weave(i, each) == IF i > Len(h) THEN <<>> ELSE (IF each \/ i = Len(h) THEN <<h[i], Q>> ELSE <<h[i]>>) \o Weave(i + 1, each)
EmitCase ==
  IF r # 0
  THEN \A s \in (IF Len(h) > 1 THEN {"each", "batch"} ELSE {"each"}) :
         PrintT(<<"CASE", ToJson([mode |-> "yes", sched |-> s, family |-> "refetch", ev |-> Prefix \o Weave(1, s = "each")])>>)
  ELSE TRUE
=============================================================================
