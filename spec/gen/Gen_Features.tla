---------------------------- MODULE Gen_Features ----------------------------
(***************************************************************************)
(* C35 generator: enumerates downstream selections over the workspace       *)
(* described by the constants (extracted from `cargo metadata` at run time, *)
(* see lib/featmeta.py), runs the resolver state machine of Features.tla on *)
(* each, and emits per selection the resolved unit table and the predicted  *)
(* verdict.  After the emission the selection is forgotten (`Forget`), so   *)
(* TLC's state set collapses selections with identical unit tables: the     *)
(* states with done = TRUE are exactly the CLASSES of configurations that    *)
(* are the same build (one CLASS line each).                                 *)
(*                                                                         *)
(* Selection space (TIER "quick" / "thorough"):                              *)
(*  alone     each workspace package alone, default features on, with no     *)
(*            feature, each single feature, all features (thorough: every    *)
(*            feature subset of size <= 3 as well);                          *)
(*  nodefault packages with a non-empty `default`: default-features = false  *)
(*            with nothing and with each feature named by a declared         *)
(*            requirement (thorough: each single feature);                   *)
(*  combos    downstream crates combining several workspace packages: the    *)
(*            table Combos below (zbus x zvariant feature variants etc.).    *)
(***************************************************************************)
EXTENDS Features, Json, Sequences

CONSTANT TIER

FeatsOf(p) == {x.f : x \in {y \in Features : y.p = p}} \ {"default"}
Root(p, fs, dflt) == [to |-> p, feats |-> fs, defaults |-> dflt]
UpTo3(S) == {{}} \cup {{a} : a \in S} \cup {{a, b} : a \in S, b \in S} \cup {{a, b, c} : a \in S, b \in S, c \in S}
UpTo2(S) == {{}} \cup {{a} : a \in S} \cup {{a, b} : a \in S, b \in S}
UpTo1(S) == {{}} \cup {{a} : a \in S}

AloneSets(p) == IF TIER = "quick" THEN UpTo1(FeatsOf(p)) \cup {FeatsOf(p)} ELSE UpTo3(FeatsOf(p)) \cup {FeatsOf(p)}
Alone == UNION {{{Root(p, fs, TRUE)} : fs \in AloneSets(p)} : p \in Pkgs}

HasDefaultItems(p) == \E i \in Items : i.p = p /\ i.f = "default"
ReqAlts(p) == UNION {r.anyOf : r \in {q \in Requires : q.p = p}}
NoDefaultSets(p) == IF TIER = "quick" THEN UpTo1(ReqAlts(p) \cap FeatsOf(p)) ELSE UpTo1(FeatsOf(p))
NoDefault == UNION {{{Root(p, fs, FALSE)} : fs \in NoDefaultSets(p)} : p \in {q \in Pkgs : HasDefaultItems(q)}}

(* Downstream crates that depend on several workspace packages.  Each row: a
   sequence of <<package, set of feature sets>>; the selections are the products.
   Rows naming a package or feature the workspace does not have are dropped. *)
GV == {"gvariant"}
OA == {"option-as-array"}
ZvVariantsQ == {{}, GV, OA, GV \cup OA}
CombosQuick == {
  << <<"zbus", {{}, OA}>>, <<"zvariant", ZvVariantsQ>> >>,
  << <<"zbus", {{}}>>, <<"zvariant", {GV}>>, <<"zbus_macros", {GV}>> >>,
  << <<"zbus", {{}}>>, <<"zbus_macros", {GV}>> >>,
  << <<"zvariant", {{}}>>, <<"zvariant_utils", {GV}>> >>
}
CombosThorough == CombosQuick \cup {
  << <<"zbus", {{}, OA, {"p2p"}, {"tokio"}, {"uuid"}, {"url"}, {"serde_bytes"}, {"chrono"}, {"time"}}>>,
     <<"zvariant", IF "zvariant" \in Pkgs THEN UpTo2(FeatsOf("zvariant")) ELSE {}>> >>,
  << <<"zbus_names", {{}}>>, <<"zvariant", ZvVariantsQ>> >>,
  << <<"zbus_xml", {{}}>>, <<"zvariant", ZvVariantsQ>> >>,
  << <<"zbus_xmlgen", {{}}>>, <<"zvariant", {GV}>> >>,
  << <<"zvariant", ZvVariantsQ>>, <<"zvariant_derive", {{}, GV}>> >>,
  << <<"zvariant", ZvVariantsQ>>, <<"zvariant_derive", {{}, GV}>>, <<"zvariant_utils", {{}, GV}>> >>,
  << <<"zbus", {{}, OA}>>, <<"zvariant", {{}, GV}>>, <<"zbus_names", {{}}>>, <<"zbus_xml", {{}}>> >>
}
RowOK(row) == \A i \in DOMAIN row : row[i][1] \in Pkgs
RECURSIVE Product(_, _)
Product(row, i) ==
  IF i > Len(row) THEN {{}}
  ELSE LET p == row[i][1]
           sets == {fs \in row[i][2] : fs \subseteq FeatsOf(p)}
       IN {rest \cup {Root(p, fs, TRUE)} : rest \in Product(row, i + 1), fs \in sets}
Combos == UNION {Product(row, 1) : row \in {r \in (IF TIER = "quick" THEN CombosQuick ELSE CombosThorough) : RowOK(r)}}

Selections == Alone \cup NoDefault \cup Combos

-----------------------------------------------------------------------------
VARIABLE done
gvars == <<sel, facts, done>>

GInit == InitWith(Selections) /\ done = FALSE
Forget == Resolved(facts) /\ ~done /\ done' = TRUE /\ sel' = {} /\ UNCHANGED facts
GNext == \/ StepAll /\ UNCHANGED done
         \/ Forget

Outcome == [sel |-> sel, units |-> UnitTable(facts), coherent |-> Coherent(facts), incoh |-> Incoherences(facts),
            supported |-> Supported(facts), unmet |-> {r.p : r \in Unmet(facts)}, touches |-> TouchesCoupling(facts)]

Emit == IF Resolved(facts) /\ ~done THEN PrintT(<<"CASE", ToJson(Outcome)>>)
        ELSE IF done THEN PrintT(<<"CLASS", ToJson([units |-> UnitTable(facts)])>>)
        ELSE TRUE
=============================================================================
