CONSTANTS
  DEVS = {}
  Vals = {1}
  MODE = "cover"
  LEN = 6
INIT GInit
NEXT GNext
VIEW GView
INVARIANT Emit
CHECK_DEADLOCK FALSE
