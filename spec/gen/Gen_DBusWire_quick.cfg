CONSTANTS
  DEPTH = 1
  POSITIONS = {0,1,2,3,4,5,6,7}
INIT Init
NEXT Next
INVARIANT Emit
CHECK_DEADLOCK FALSE
