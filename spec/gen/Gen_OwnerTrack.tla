--------------------------- MODULE Gen_OwnerTrack ---------------------------
(***************************************************************************)
(* Enumerator of bus histories for C32 (spec -> impl).  The state graph is   *)
(* the tree of bus histories of at most L messages (the bus is consistent:   *)
(* a genuine NameOwnerChanged always changes the owner; the lookup reply --  *)
(* exactly one -- reports the owner at that point; the harness fills both in *)
(* from its own copy of the owner).  Every history with a reply and a later  *)
(* signal is emitted as one case per stream mode and schedule (where the     *)
(* client is run to quiescence).                                             *)
(***************************************************************************)
EXTENDS Naturals, Sequences, FiniteSets, TLC, Json
CONSTANTS L,          \* maximal number of bus messages
          Rich,       \* TRUE: also forged claims that the name has no owner any more
          AllModeLen, \* histories up to this length are replayed in both stream modes
          Schedules   \* subset of {"each", "glue_next", "glue_both", "glue_next2", "glue_prev"}

Peers == {"A", "B"}
NoOne == "none"
Stranger == "S"

VARIABLES h, o, init, r     \* history, current owner, initial owner, position of the reply (0 = none yet)

Q == [k |-> "q"]
Alphabet(own, replied) ==
  {[k |-> "noc", new |-> x] : x \in (Peers \cup {NoOne}) \ {own}}
  \cup {[k |-> "forge", new |-> Stranger, uni |-> TRUE], [k |-> "forge", new |-> Stranger, uni |-> FALSE]}
  \cup (IF Rich THEN {[k |-> "forge", new |-> NoOne, uni |-> TRUE]} ELSE {})
  \cup {[k |-> "nocother", new |-> Stranger]}
  \cup {[k |-> "sig", from |-> p, m |-> "Sig"] : p \in Peers \cup {Stranger}}
  \cup {[k |-> "sig", from |-> p, m |-> "Other"] : p \in Peers \cap {own}}
  \cup (IF replied THEN {} ELSE {[k |-> "reply"]})

Init == h = <<>> /\ init \in Peers \cup {NoOne} /\ o = init /\ r = 0
Next == /\ Len(h) < L
        /\ \E e \in Alphabet(o, r # 0) :
             /\ h' = Append(h, e)
             /\ o' = IF e.k = "noc" THEN e.new ELSE o
             /\ r' = IF e.k = "reply" THEN Len(h) + 1 ELSE r
        /\ UNCHANGED init

\* something must be able to be yielded or wrongly yielded: a signal after the reply
Useful == r # 0 /\ \E i \in 1..Len(h) : h[i].k = "sig" /\ i > r

\* schedules: where the client gets to run.  "each": after every message.  The glue_* ones keep the
\* messages around the lookup reply in one chunk, so the set-up code finds them queued together.
NoQAfter(s) ==
  CASE s = "each" -> {}
    [] s = "glue_next" -> {r}
    [] s = "glue_next2" -> {r, r + 1}
    [] s = "glue_both" -> {r - 1, r}
    [] s = "glue_prev" -> {r - 1}
Applicable(s) ==
  CASE s = "each" -> TRUE
    [] s = "glue_next" -> r < Len(h)
    [] s = "glue_next2" -> r + 1 < Len(h)
    [] s = "glue_both" -> r > 1 /\ r < Len(h)
    [] s = "glue_prev" -> r > 1
RECURSIVE Weave(_, _)
Weave(i, noq) ==
  IF i > Len(h) THEN <<>>
  ELSE (IF i \in noq /\ i < Len(h) THEN <<h[i]>> ELSE <<h[i], Q>>) \o Weave(i + 1, noq)

\* receive_all_signals differs from receive_signal only in the missing member key: replay it for the short
\* histories and for those with a signal of another member
Modes == IF Len(h) <= AllModeLen \/ \E i \in 1..Len(h) : h[i].k = "sig" /\ h[i].m = "Other"
         THEN {"one", "all"} ELSE {"one"}
EmitCase ==
  IF Useful
  THEN \A md \in Modes : \A s \in {x \in Schedules : Applicable(x) /\ (md = "one" \/ x \in {"each", "glue_next"})} :
         PrintT(<<"CASE", ToJson([mode |-> md, init |-> init, sched |-> s, ev |-> Weave(1, NoQAfter(s))])>>)
  ELSE TRUE
=============================================================================
