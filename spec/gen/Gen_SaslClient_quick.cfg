CONSTANTS
  MAXCUTS = 2
  LEN3 = TRUE
INIT Init
NEXT Next
INVARIANT Emit
CHECK_DEADLOCK FALSE
