--------------------------- MODULE Gen_MsgCompat ---------------------------
(***************************************************************************)
(* C13, spec -> impl: streams of valid messages in which one message uses   *)
(* something this version of the specification does not define:             *)
(*   field   an extra header field with every code 10..255, carrying a u, a *)
(*           string or a struct-in-array variant, at the end / start /      *)
(*           middle of the field array                                      *)
(*   flag    each unknown flag bit 3..7 (plus all of them, plus all eight)  *)
(*   type    every message type 5..255                                      *)
(* placed between (POSITIONS: before / after) two normal messages.          *)
(* Controls: `normal` (nothing odd), `type0` (type INVALID: the message is  *)
(* invalid, no demand), `invalid` (wrong protocol version: the reader may   *)
(* stop; no demand by C13).                                                 *)
(***************************************************************************)
EXTENDS Gen_MsgBase, Json, TLC, Integers
CONSTANTS CODES, PAYLOADS, FPOS, FPOS1, POSITIONS, LES   \* FPOS1 (if non-empty): field positions used with payload 1 instead of FPOS

\* normal messages of every type with every known field and flag
NormC(ty, le) == MkMsg([Hdr(ty, 7, Settable(ty), 3) EXCEPT !.serial = Ser(2)], B_dict, le)
Place(odd, pos, le) == InsertAt(<<NormA(le), NormB(le)>>, pos, odd)
Case(kind, what, odd, pos, le) == [kind |-> kind, what |-> what, odd |-> pos, stream |-> Place(odd, pos, le)]

UnknownFlagBytes == {8, 16, 32, 64, 128, 248, 255, 10}
NPART == 8
\* the cases of partition k (codes / types congruent k; flags and controls in partition 0)
CasesP(k) ==
  UNION {
     {Case("field", [code |-> c, payload |-> p, at |-> fp], OddField(c, p, fp, le), pos, le)
        : c \in {x \in CODES : x % NPART = k}, p \in (IF FPOS1 = {} THEN PAYLOADS ELSE PAYLOADS \ {1}), fp \in FPOS}
     \cup {Case("field", [code |-> c, payload |-> 1, at |-> fp], OddField(c, 1, fp, le), pos, le) : c \in {x \in CODES : x % NPART = k}, fp \in FPOS1}
     \cup {Case("type", [type |-> ty], OddType(ty, le), pos, le) : ty \in {x \in 5..255 : x % NPART = k}}
     \cup (IF k # 0 THEN {} ELSE
          {Case("flag", [flags |-> fl], OddFlag(fl, le), pos, le) : fl \in UnknownFlagBytes}
          \cup {Case("type0", [type |-> 0], OddType(0, le), pos, le),
                Case("normal", [flags |-> 2], OddFlag(2, le), pos, le),
                Case("normal", [flags |-> 7], NormC(MT_RETURN, le), pos, le), Case("normal", [flags |-> 7], NormC(MT_ERROR, le), pos, le),
                Case("normal", [flags |-> 7], NormC(MT_SIGNAL, le), pos, le), Case("normal", [flags |-> 7], NormC(MT_CALL, le), pos, le),
                Case("invalid", [version |-> 2], Invalid(le), pos, le)})
    : pos \in POSITIONS, le \in LES}

(* root -> partition -> case, so that TLC's workers build and emit the partitions in parallel *)
VARIABLE c
IsCase == "kind" \in DOMAIN c
Init == c = [part |-> -1]
Next == \/ (~IsCase /\ c.part = -1 /\ c' \in {[part |-> k] : k \in 0..(NPART - 1)})
        \/ (~IsCase /\ c.part >= 0 /\ c' \in CasesP(c.part))
Emit == IsCase => PrintT(<<"CASE", ToJson(c)>>)
=============================================================================
