CONSTANTS
  DEVS = {}
  CLASS = "c30"
  MAXN = 2
INIT GInit
NEXT GNext
INVARIANT Emit
CHECK_DEADLOCK FALSE
