CONSTANTS
  LONG = 3
  MAXCUTS = 2
  FULL3 = FALSE
INIT Init
NEXT Next
INVARIANT Emit
CHECK_DEADLOCK FALSE
