CONSTANTS
  LONG = 3
  MAXCUTS = 2
  FULL3 = FALSE
  ALLCFG = FALSE
INIT Init
NEXT Next
INVARIANT Emit
CHECK_DEADLOCK FALSE
