INIT Init
NEXT Next
INVARIANT EmitCase
CHECK_DEADLOCK FALSE
CONSTANTS
  AllModeLen = 2
  L = 4
  Schedules = {"each", "glue_next", "glue_both"}
