INIT Init
NEXT Next
INVARIANT EmitCase
CHECK_DEADLOCK FALSE
CONSTANTS
  Rich = TRUE
  AllModeLen = 3
  L = 4
  Schedules = {"each", "glue_next", "glue_both"}
