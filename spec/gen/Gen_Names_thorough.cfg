CONSTANTS
  A1 = {97, 48, 95, 45, 46, 58, 47}
  L1 = 6
  A2 = {97, 90, 48, 95, 45, 46, 58, 47, 233, 32}
  L2 = 5
  A3 = {64, 65, 90, 91, 96, 97, 122, 123, 47, 48, 57, 58, 45, 46, 95, 94, 233, 32, 127}
  L3 = 4
INIT Init
NEXT Next
VIEW View
INVARIANT Emit
CHECK_DEADLOCK FALSE
