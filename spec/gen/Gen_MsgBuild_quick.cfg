CONSTANTS
  SPACE = "quick"
INIT Init
NEXT Next
INVARIANT Emit
INVARIANT Law
CHECK_DEADLOCK FALSE
