---------------------------- MODULE Gen_MatchStr ----------------------------
(***************************************************************************)
(* Enumerator of match rules for C22 (string form): every combination of    *)
(* the non-argument keys, and argument matches whose values come from the    *)
(* characters the quoting rules are about (apostrophe, comma, backslash,     *)
(* '=', the empty string) at several indices, including two-digit ones.      *)
(* Each state is one rule; the invariant emits it with the canonical string  *)
(* MatchSem!RuleStr gives (one of the spellings the specification allows).   *)
(***************************************************************************)
EXTENDS MatchSem, Json
CONSTANTS NARGS     \* max number of argN keys with tricky values in one rule (2 quick, 3 thorough)

PA    == <<47,97>>         \* "/a"
PAB   == <<47,97,47,98>>   \* "/a/b"
Root  == <<47>>
NAB   == <<97,46,98>>      \* "a.b"
U1    == <<58,49,46,49>>   \* ":1.1"
I1    == <<97,46,73>>      \* "a.I"
M1    == <<77>>            \* "M"

(* "", "a", "'", ",", "\", "a'b,c", "='", and two values with multi-byte UTF-8 characters *)
Tricky == {<<>>, <<97>>, <<39>>, <<44>>, <<92>>, <<97,39,98,44,99>>, <<61,39>>,
           <<90,195,188>>, <<226,130,172>>}      \* "Zü" (2-byte character), "€" (3-byte): positions are bytes, not characters
(* more: "\'", "''", "'\''" (the escape sequence itself as a value), ",'" *)
Tricky2 == {<<92,39>>, <<39,39>>, <<39,92,39,39>>, <<44,39>>}

None == <<>>
Opt(f, vals) == {None} \cup {f :> v : v \in vals}

Headers ==
  {t @@ s @@ i @@ m @@ p @@ d @@ n :
     t \in Opt("type", MsgTypes), s \in Opt("sender", {U1, NAB}), i \in Opt("interface", {I1}),
     m \in Opt("member", {M1}),
     p \in Opt("path", {PA, Root}) \cup Opt("path_namespace", {PAB}),
     d \in Opt("destination", {U1}), n \in Opt("arg0ns", {NAB})}
SomeHeaders == {None, [type |-> "signal", path |-> PA],
                [type |-> "error", sender |-> NAB, interface |-> I1, member |-> M1, path_namespace |-> PAB, destination |-> U1]}

Idx == {0, 1, 10, 63}
A(i, v) == [i |-> i, v |-> v]
ArgSets ==
  {{A(i, v)} : i \in Idx, v \in Tricky \cup Tricky2}
  \cup {{A(i, v), A(j, w)} : i \in {0, 10}, j \in {1, 63}, v \in Tricky, w \in Tricky}
  \cup (IF NARGS >= 3 THEN {{A(0, u), A(1, v), A(2, w)} : u \in Tricky, v \in Tricky, w \in Tricky} ELSE {})
ArgPathSets == {{}, {A(3, PA)}, {A(3, Root), A(11, PAB)}}

Rules ==
  {h @@ [args |-> <<>>, arg_paths |-> <<>>] : h \in Headers}
  \cup {h @@ [args |-> SortArgs(a), arg_paths |-> SortArgs(p)] : h \in SomeHeaders, a \in ArgSets, p \in ArgPathSets}

(* Builder call sequences (C22: "every match rule constructible through the API"): 4-5 calls over 4 indices, so every
   sequence repeats an index or gives them out of order; the value of call j is the letter a+j (paths: /a+j). *)
OpIdx == {0, 1, 2, 5}
OpSeq(k, n, idxs) == [j \in 1..n |-> [k |-> k, i |-> idxs[j], v |-> IF k = "arg" THEN <<96 + j>> ELSE <<47, 96 + j>>]]
OpSeqs == {OpSeq("arg", 4, ix) : ix \in [1..4 -> OpIdx]} \cup {OpSeq("arg", 5, ix) : ix \in [1..5 -> OpIdx]}
          \cup {OpSeq("argpath", 4, ix) : ix \in [1..4 -> OpIdx]}
RuleOfOps(o) == [args |-> ArgsOfOps(OpsOfKind(o, "arg")), arg_paths |-> ArgsOfOps(OpsOfKind(o, "argpath"))]

VARIABLES rule, ops
Init == \/ rule \in Rules /\ ops = <<>>
        \/ \E o \in OpSeqs : ops = o /\ rule = RuleOfOps(o)
Next == UNCHANGED <<rule, ops>>
Emit == PrintT(<<"CASE", ToJson([ev |-> "RuleStr", rule |-> IF ops = <<>> THEN rule ELSE rule @@ [ops |-> ops],
                                 canon |-> RuleStr(rule)])>>)
=============================================================================
