INIT Init
NEXT Next
INVARIANT LawForms
INVARIANT LawLen
INVARIANT LawValid
INVARIANT LawSingle
INVARIANT LawDev
INVARIANT Emit
CHECK_DEADLOCK FALSE
