CONSTANTS
  NIFACE = 16
  NTREE = 12
  SEED = 0
INIT Init
NEXT Next
INVARIANT Emit
CHECK_DEADLOCK FALSE
