---------------------------- MODULE Gen_GVariant ----------------------------
(***************************************************************************)
(* Enumerator of well-typed GVariant values: the D-Bus type space of        *)
(* Gen_DBusWire (without fds) extended with maybe types, plus size-threshold *)
(* families where the framing-offset width changes (255/256, 65535/65536).   *)
(***************************************************************************)
EXTENDS Gen_DBusWire
CONSTANT BIG   \* TRUE: include the 64 KiB threshold family

NoFd(T) == T.k # "h"
RECURSIVE HasFd(_)
HasFd(T) == CASE T.k = "h" -> TRUE
              [] T.k \in {"a","m"} -> HasFd(T.e)
              [] T.k = "e" -> HasFd(T.key) \/ HasFd(T.val)
              [] T.k = "r" -> \E i \in 1..Len(T.f) : HasFd(T.f[i])
              [] OTHER -> FALSE
May(t) == [k |-> "m", e |-> t]
LeafG == {t \in Leaf : ~HasFd(t)}
GTypes == {t \in Types : ~HasFd(t)}
          \cup {May(t) : t \in LeafG}
          \cup {Arr(May(t)) : t \in LeafS}
          \cup {May(Arr(t)) : t \in LeafS}
          \cup {May(May(t)) : t \in LeafS}
          \cup {St(<<May(t), u>>) : t \in LeafS, u \in LeafS}
          \cup {St(<<u, May(t)>>) : t \in LeafS, u \in LeafS}
          \cup {Dict(a, May(b)) : a \in {[k |-> "s"], [k |-> "y"]}, b \in LeafS}
          \cup {St(<<Arr(t), u, Arr(w)>>) : t \in {[k |-> "s"], [k |-> "q"]}, u \in {[k |-> "y"], [k |-> "s"]}, w \in {[k |-> "s"], [k |-> "t"]}}

RECURSIVE GVal(_,_)
GVal(T, n) ==
  CASE T.k = "m" -> IF n = 1 THEN [m |-> <<GVal(T.e, 1)>>] ELSE [m |-> <<>>]
    [] T.k = "v" -> V(T, n)
    [] T.k = "a" -> IF n = 1 THEN [a |-> <<GVal(T.e, 1), GVal(T.e, 2)>>] ELSE [a |-> <<>>]
    [] T.k = "e" -> [r |-> <<GVal(T.key, n), GVal(T.val, n)>>]
    [] T.k = "r" -> [r |-> [i \in 1..Len(T.f) |-> GVal(T.f[i], IF i % 2 = 1 THEN n ELSE 3 - n)]]
    [] OTHER -> LeafV(T.k, n)
GV3(T) == IF T.k = "a" THEN {[a |-> <<GVal(T.e, 2)>>]}
          ELSE IF T.k = "m" /\ T.e.k = "m" THEN {[m |-> <<[m |-> <<>>]>>]} ELSE {}
GVals(T) == {GVal(T, 1), GVal(T, 2)} \cup GV3(T)

StrOf(n) == [s |-> [i \in 1..n |-> 97]]
TS == [k |-> "s"]
SmallLens == 248..256
BigLens == 65526..65536
Lens == IF BIG THEN SmallLens \cup BigLens ELSE SmallLens
Threshold ==
     {[T |-> St(<<TS, TS>>), v |-> [r |-> <<StrOf(n), StrOf(0)>>]] : n \in Lens}
  \cup {[T |-> St(<<TS, TS, TS>>), v |-> [r |-> <<StrOf(n), StrOf(1), StrOf(0)>>]] : n \in Lens}
  \cup {[T |-> Arr(TS), v |-> [a |-> <<StrOf(n)>>]] : n \in Lens}
  \cup {[T |-> Arr(TS), v |-> [a |-> <<StrOf(n), StrOf(0), StrOf(2)>>]] : n \in Lens}
  \cup {[T |-> May(TS), v |-> [m |-> <<StrOf(n)>>]] : n \in SmallLens}
  \cup {[T |-> [k |-> "v"], v |-> [t |-> St(<<TS, TS>>), v |-> [r |-> <<StrOf(n), StrOf(0)>>]]] : n \in SmallLens}
  \cup {[T |-> St(<<Arr([k |-> "y"]), TS>>), v |-> [r |-> <<[a |-> [i \in 1..n |-> [b |-> <<i % 256>>]]], StrOf(0)>>]] : n \in SmallLens}
  \cup {[T |-> Arr(St(<<[k |-> "y"], TS>>)), v |-> [a |-> [i \in 1..n |-> [r |-> <<[b |-> <<7>>], StrOf(1)>>]]]] : n \in {40, 50, 51, 52, 60}}

GCases == UNION {{[T |-> t, v |-> v, pos |-> p, le |-> e] : v \in GVals(t), p \in POSITIONS, e \in BOOLEAN} : t \in GTypes}
          \cup {[T |-> x.T, v |-> x.v, pos |-> 0, le |-> e] : x \in Threshold, e \in BOOLEAN}

GInit == c \in GCases
GEmit == PrintT(<<"CASE", ToJson(c @@ [fmt |-> "gvariant"])>>)
=============================================================================
