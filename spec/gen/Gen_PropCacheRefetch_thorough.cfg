INIT Init
NEXT Next
INVARIANT EmitCase
CHECK_DEADLOCK FALSE
CONSTANTS
  N = 4
