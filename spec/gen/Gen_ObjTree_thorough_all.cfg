CONSTANTS
  DEVS = {}
  Vals = {1}
  MODE = "all"
  LEN = 4
INIT GInit
NEXT GNext
VIEW GView
INVARIANT Emit
CHECK_DEADLOCK FALSE
