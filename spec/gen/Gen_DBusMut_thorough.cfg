CONSTANTS
  DEPTH = 2
  POSITIONS = {0}
  MUT_LEVEL = 2
INIT MInit
NEXT MNext
INVARIANT MEmit
CHECK_DEADLOCK FALSE
