CONSTANTS
  MAXKEYS = 1
  MAXKEYS_RED = 2
INIT Init
NEXT Next
INVARIANT Emit
CHECK_DEADLOCK FALSE
