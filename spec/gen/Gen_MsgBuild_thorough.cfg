CONSTANTS
  SPACE = "full"
INIT Init
NEXT Next
INVARIANT Emit
INVARIANT Law
CHECK_DEADLOCK FALSE
