\* a 0 _ - . : /  up to 5 symbols;  + Z e-acute space up to 4;  boundary characters of every class up to 3:
\* @ A Z [ ` a z { / 0 9 : - . _ ^ e-acute space DEL
CONSTANTS
  A1 = {97, 48, 95, 45, 46, 58, 47}
  L1 = 5
  A2 = {97, 90, 48, 95, 45, 46, 58, 47, 233, 32}
  L2 = 4
  A3 = {64, 65, 90, 91, 96, 97, 122, 123, 47, 48, 57, 58, 45, 46, 95, 94, 233, 32, 127}
  L3 = 3
INIT Init
NEXT Next
VIEW View
INVARIANT Emit
CHECK_DEADLOCK FALSE
