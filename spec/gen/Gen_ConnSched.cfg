CONSTANTS
  Callers <- G_Callers
  NoReply <- G_NoReply
  Streams <- G_Streams
  RuleOf <- G_RuleOf
  Rules <- G_Rules
  Cap = 1
  CapMR = 2
  Sigs <- G_Sigs
  SigRules <- G_SigRules
  MaxStray = 2
  MaxFault = 1
  SubscribeFirst = TRUE
  CloneCounts = TRUE
  DEPTH = 40
INIT HInit
NEXT HNext
INVARIANT Emit
CHECK_DEADLOCK FALSE
