------------------------------ MODULE Gen_Props ------------------------------
(***************************************************************************)
(* Histories of Properties calls for the C28 run (spec -> impl).  A state   *)
(* is an interface of the program, a run number and a history (a sequence   *)
(* of operations).  Every (interface, run) pair grows one history of DEPTH  *)
(* operations, each drawn with a 16-bit linear congruential generator that  *)
(* is part of the state (seeded from interface, run and HSEED: the output   *)
(* is a function of the constants); the invariant prints each complete      *)
(* history as JSON.                                                         *)
(* Operations on interface k (ifname = its name unless stated):             *)
(*   Get(n)  n a property or "Nope";  Get with an unknown interface name    *)
(*   GetAll; GetAll with an unknown interface name                          *)
(*   Set(n, v)  v of the declared type (three sample values), of a type     *)
(*              differing in one code, of an unrelated type; Set("Nope");   *)
(*              Set with an unknown interface name                          *)
(* Read-only and write-only properties get the same operations, so Sets of  *)
(* read-only and Gets of write-only properties occur.                       *)
(***************************************************************************)
EXTENDS Shapes, Json
CONSTANTS NIFACE, SEED,     \* the program (as in Gen_Shapes)
          HSEED, DEPTH, PER \* seed of the history generator, operations per history, histories per interface

AllShapes == [k \in 0..(NIFACE - 1) |-> IfaceShape(k, SEED)]
Nope == "org.verif.Nope"

Ops(k) ==
  LET sh == AllShapes[k]
      ps == {sh.props[i] : i \in 1..Len(sh.props)} IN
  {[op |-> "Get", ifname |-> sh.name, prop |-> p.name] : p \in ps}
  \cup {[op |-> "Get", ifname |-> sh.name, prop |-> "Nope"], [op |-> "GetAll", ifname |-> sh.name, prop |-> ""],
        [op |-> "GetAll", ifname |-> Nope, prop |-> ""],
        [op |-> "Set", ifname |-> sh.name, prop |-> "Nope", value |-> TVal(TU, 1)]}
  \cup {[op |-> "Get", ifname |-> Nope, prop |-> p.name] : p \in ps}
  \cup {[op |-> "Set", ifname |-> sh.name, prop |-> p.name, value |-> TVal(p.ty, n)] : p \in ps, n \in 1..3}
  \cup {[op |-> "Set", ifname |-> sh.name, prop |-> p.name, value |-> TVal(Near(p.ty), 1)] : p \in ps}
  \cup {[op |-> "Set", ifname |-> sh.name, prop |-> p.name, value |-> TVal(Other(p.ty), 1)] : p \in ps}
  \cup {[op |-> "Set", ifname |-> Nope, prop |-> p.name, value |-> TVal(p.ty, 1)] : p \in ps}

OpsSeq == [j \in 0..(NIFACE - 1) |-> SetToSeq(Ops(j))]      \* constant: evaluated once
Step(x) == (x * 25173 + 13849) % 65536

VARIABLES k, t, hist, rng
Init == /\ k \in 0..(NIFACE - 1) /\ t \in 1..PER /\ hist = <<>>
        /\ rng = Step(Step((k * 131 + t * 31 + HSEED * 7 + 1) % 65536))
Next == /\ Len(hist) < DEPTH
        /\ rng' = Step(rng)
        /\ hist' = Append(hist, OpsSeq[k][((rng \div 16) % Len(OpsSeq[k])) + 1])
        /\ UNCHANGED <<k, t>>
Emit == Len(hist) = DEPTH => PrintT(<<"CASE", ToJson([iface |-> k, run |-> t, ops |-> hist])>>)
=============================================================================
