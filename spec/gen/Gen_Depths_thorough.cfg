CONSTANTS
  AS = {0, 1, 2, 15, 30, 31, 32, 33, 34}
  RS = {0, 1, 2, 15, 30, 31, 32, 33, 34}
  VS = {0, 1, 2, 3, 29, 30, 31, 32, 33, 34, 61, 62, 63, 64, 65}
INIT Init
NEXT Next
INVARIANT Emit
CHECK_DEADLOCK FALSE
