CONSTANTS
  NIFACE = 16
  SEED = 0
  HSEED = 17
  DEPTH = 30
  PER = 8
INIT Init
NEXT Next
INVARIANT Emit
CHECK_DEADLOCK FALSE
