CONSTANTS
  NIFACE = 16
  SEED = 0
  HSEED = 17
  DEPTH = 25
  PER = 5
INIT Init
NEXT Next
INVARIANT Emit
CHECK_DEADLOCK FALSE
