CONSTANTS
  A1 = {}
  L1 = 0
  A2 = {}
  L2 = 0
  A3 = {}
  L3 = 0
INIT InitFile
NEXT NextNone
VIEW View
INVARIANT Emit
CHECK_DEADLOCK FALSE
