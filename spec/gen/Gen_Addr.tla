------------------------------ MODULE Gen_Addr ------------------------------
(***************************************************************************)
(* Enumerator of address values for C23: every transport kind with values    *)
(* over bytes that need no escaping, need escaping (space, comma, percent,   *)
(* non-ASCII, NUL, '=', ':'), or are the optionally-escaped punctuation.     *)
(* Each state is one abstract address; the invariant emits it with one valid *)
(* spelling (AddrCodec!Fmt).                                                 *)
(***************************************************************************)
EXTENDS AddrCodec, Json
CONSTANTS FULL    \* FALSE: fewer combinations for tcp / unixexec (quick)

Vals == { <<97>>,                       \* "a"
          <<47,116,109,112,47,120>>,    \* "/tmp/x"
          <<97,32,98>>,                 \* "a b"
          <<97,44,98>>,                 \* "a,b"
          <<97,37,98>>,                 \* "a%b"
          <<195,169>>,                  \* "é"
          <<0>>,                        \* NUL
          <<45,95,47,46,92,42>>,        \* "-_/.\*"
          <<61,58,59>>,                 \* "=:;"
          <<37,52,49>> }                \* "%41" (an escape sequence as the value itself)
Few  == { <<97>>, <<97,32,98>>, <<37,52,49>> }
Hosts == { <<108,111,99,97,108,104,111,115,116>>,  \* "localhost"
           <<58,58,49>>,                            \* "::1"
           <<97,32,98>>, <<195,169>> }
G1 == [i \in 1..32 |-> IF i % 2 = 0 THEN 97 ELSE 48 + (i % 10)]
None == <<>>
OptF(f, vals) == {None} \cup {f :> v : v \in vals}

(* argument lists long enough for two- and three-digit keys (argv10 sorts before argv2 as a string); every argument differs *)
Many(k) == [n \in 1..k |-> IF n <= 26 THEN <<96 + n>> ELSE <<97 + (n % 26), 48 + (n % 10), 65 + (n \div 26)>>]
Unix == {[transport |-> "unix", kind |-> k, value |-> v] @@ g :
           k \in {"path", "abstract", "dir", "tmpdir"}, v \in Vals, g \in OptF("guid", {G1})}
Exec == {[transport |-> "unixexec", path |-> p, args |-> a] @@ z :
           p \in (IF FULL THEN Vals ELSE Few \cup {<<47,116,109,112,47,120>>}),
           a \in {<<>>} \cup {<<v>> : v \in Vals} \cup {<<v, <<97>>>> : v \in Few} \cup {<< <<97>>, v, <<97,44,98>> >> : v \in Few}
                 \cup {Many(k) : k \in (IF FULL THEN {9, 10, 11, 12, 21, 101} ELSE {10, 12})},
           z \in OptF("argv0", IF FULL THEN Vals ELSE Few)}
Tcp == {[transport |-> "tcp", host |-> h, port |-> p] @@ f @@ n @@ b @@ g :
           h \in Hosts, p \in (IF FULL THEN {0, 80, 65535} ELSE {0, 65535}),
           f \in OptF("family", {"ipv4", "ipv6"}),
           n \in OptF("noncefile", IF FULL THEN Vals ELSE Few),
           b \in OptF("bind", {<<97>>}),
           g \in OptF("guid", IF FULL THEN {G1} ELSE {})}
(* vsock is only compiled into the harness in the thorough tier (a second build of zbus) *)
Vsock == IF FULL THEN {[transport |-> "vsock", cid |-> c, port |-> p] @@ g :
                         c \in {0, 3, 999999999}, p \in {0, 1234, 999999999}, g \in OptF("guid", {G1})}
         ELSE {}
Addrs == Unix \cup Exec \cup Tcp \cup Vsock

VARIABLE a
Init == a \in Addrs
Next == UNCHANGED a
Emit == PrintT(<<"CASE", ToJson([ev |-> "Addr", addr |-> a, canon |-> Fmt(a)])>>)
=============================================================================
