------------------------------ MODULE Gen_Guid ------------------------------
(***************************************************************************)
(* Enumerator of candidate server-GUID strings (GUID part of C10): valid     *)
(* ones, every single-character deviation from a valid one with characters   *)
(* adjacent to the hex-digit classes ('/', ':', '@', 'G', '`', 'g') and      *)
(* '-', ' ', '{', 'z', double deviations, wrong lengths (0, 1, 16, 31, 33,   *)
(* 64), and the UUID text forms of RFC 4122 (hyphenated, braced, urn:uuid:)  *)
(* with their own near misses.  Each state is one byte string.               *)
(***************************************************************************)
EXTENDS GuidGrammar, FiniteSets, TLC, Json

Base  == <<48,49,50,51,52,53,54,55,56,57,97,98,99,100,101,102,65,66,67,68,69,70,48,57,97,102,65,70,51,99,68,55>>
Zeros == [i \in 1..32 |-> 48]
LowF  == [i \in 1..32 |-> 102]
UpF   == [i \in 1..32 |-> 70]
Nines == [i \in 1..32 |-> 57]
LowA  == [i \in 1..32 |-> 97]
UpA   == [i \in 1..32 |-> 65]
Valid == {Base, Zeros, LowF, UpF, Nines, LowA, UpA}

Bad == {47, 58, 64, 71, 96, 103, 45, 32, 123, 122, 0, 43}
Single == {[Base EXCEPT ![p] = c] : p \in 1..32, c \in Bad}
Double == {[Base EXCEPT ![p] = c, ![q] = e] : p \in {1, 9, 16}, q \in {17, 24, 32}, c \in {103, 45}, e \in {71, 45}}
Lengths == {SubSeq(Base, 1, n) : n \in {0, 1, 16, 31}} \cup {Base \o <<48>>, Base \o <<32>>, <<32>> \o Base, Base \o Base,
            SubSeq(Base, 1, 30) \o <<195,169>>}          \* 30 digits + a two-byte character = 32 bytes

Hyph(s) == SubSeq(s, 1, 8) \o <<45>> \o SubSeq(s, 9, 12) \o <<45>> \o SubSeq(s, 13, 16) \o <<45>> \o SubSeq(s, 17, 20) \o <<45>> \o SubSeq(s, 21, 32)
Brace(s) == <<123>> \o s \o <<125>>
Urn(s) == UrnPrefix \o s
Forms == {Hyph(Base), Hyph(UpF), Brace(Hyph(Base)), Urn(Hyph(Base)), Brace(Base), Urn(Base),
          [Hyph(Base) EXCEPT ![1] = 103],                       \* hyphenated with a non-hex digit
          [Hyph(Base) EXCEPT ![9] = 48],                        \* 36 characters, a hyphen missing
          SubSeq(Base, 1, 4) \o <<45>> \o SubSeq(Base, 5, 32),  \* 33 characters, one hyphen
          <<123>> \o Hyph(Base), Hyph(Base) \o <<125>>,
          <<40>> \o Hyph(Base) \o <<41>>,                       \* parentheses
          <<85,82,78,58,85,85,73,68,58>> \o Hyph(Base)}         \* upper-case URN prefix

Cands == Valid \cup Single \cup Double \cup Lengths \cup Forms

VARIABLE s
Init == s \in Cands
Next == UNCHANGED s
Emit == PrintT(<<"CASE", ToJson([ev |-> "Guid", s |-> s, valid |-> GuidOk(s)])>>)

(* laws of the grammar over the same candidates (the specification's own sanity) *)
LawForms  == GuidOk(s) => UuidForms(s)
LawLen    == GuidOk(s) => Len(s) = 32 /\ \A i \in 1..32 : s[i] \notin {45, 123, 125, 58}
LawValid  == s \in Valid => GuidOk(s)
LawSingle == s \in Single \cup Double \cup Lengths => ~GuidOk(s)
LawDev    == GuidOkD(s, {"uuid_crate_forms"}) # GuidOk(s) => Len(s) \in {36, 38, 45}
=============================================================================
