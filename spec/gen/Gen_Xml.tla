------------------------------- MODULE Gen_Xml -------------------------------
(***************************************************************************)
(* Enumerator of small introspection documents for C34: slices around a      *)
(* base document that vary one aspect at a time -- argument lists with       *)
(* optional name / direction, annotation text with XML-special characters    *)
(* at every place annotations may occur, property access and type, the       *)
(* number of interfaces / members, and the node structure with optional      *)
(* node names.  Each state is one document; the invariant emits it.          *)
(***************************************************************************)
EXTENDS XmlDoc, Json

IA == <<97,46,98>>      \* "a.b"
IB == <<99,46,100>>     \* "c.d"
MM == <<77>>            \* "M"
MN == <<78>>            \* "N"
PP == <<80>>            \* "P"
PQ == <<81>>            \* "Q"
AX == <<120>>           \* "x"
NA == <<47,97>>         \* "/a"
NC == <<99>>            \* "c"
ND == <<100>>           \* "d"
TS == <<115>>           \* "s"
TD == <<97,123,115,118,125>>  \* "a{sv}"
TR == <<40,105,105,41>>       \* "(ii)"
T1 == <<40,115,41>>             \* "(s)"    structure with a single member: the outer parentheses are part of the type
T2 == <<40,40,115,117,41,41>>   \* "((su))" (the signature "s" / "(su)" is a different type)
TV == <<40,97,123,115,118,125,41>>  \* "(a{sv})"
AN == <<97,46,98,46,67>>      \* annotation name "a.b.C"

Texts == { <<>>,                             \* ""
           <<118>>,                          \* "v"
           <<97,38,98,60,99,62,34,39>>,      \* a&b<c>"'
           <<108,49,10,108,50>>,             \* "l1\nl2"
           <<195,169,226,130,172>>,          \* "é€"
           <<32,120,32,32,121>>,             \* " x  y"
           <<9,13,10>>,                      \* TAB CR LF
           <<38,97,109,112,59>> }            \* "&amp;" (an entity reference as the text itself)

None == <<>>
OptN(f, vals) == {None} \cup {f :> v : v \in vals}
Ann(t) == [name |-> AN, value |-> t]
FullArg == [name |-> AX, type |-> TS, direction |-> "in", annotations |-> <<>>]
OutArg  == [name |-> AX, type |-> TD, direction |-> "out", annotations |-> <<>>]
ArgVariants ==
  {[type |-> TS, annotations |-> <<>>] @@ nm @@ dr : nm \in OptN("name", {AX, <<>>}), dr \in OptN("direction", {"in", "out"})}
  \cup {[name |-> AX, type |-> t, direction |-> "in", annotations |-> <<>>] : t \in {TD, TR, T1, T2, TV}}
ArgLists == {<<>>} \cup {<<a>> : a \in ArgVariants} \cup {<<a, OutArg>> : a \in ArgVariants}

Meth(n, args, anns) == [name |-> n, args |-> args, annotations |-> anns]
Prop(n, t, acc, anns) == [name |-> n, type |-> t, access |-> acc, annotations |-> anns]
Iface(n, ms, ps, ss, anns) == [name |-> n, methods |-> ms, properties |-> ps, signals |-> ss, annotations |-> anns]
Node(is, ns) == [interfaces |-> is, nodes |-> ns]
Named(n, is, ns) == [name |-> n, interfaces |-> is, nodes |-> ns]

BaseIface == Iface(IA, <<Meth(MM, <<FullArg, OutArg>>, <<>>)>>, <<Prop(PP, TS, "read", <<>>)>>, <<Meth(MN, <<OutArg>>, <<>>)>>, <<>>)

(* S1: argument lists of a method and of a signal *)
S1 == {Named(NA, <<Iface(IA, <<Meth(MM, al, <<>>)>>, <<>>, <<Meth(MN, sl, <<>>)>>, <<>>)>>, <<>>) :
         al \in ArgLists,
         sl \in {<<>>, <<OutArg>>, <<[type |-> TS, annotations |-> <<>>]>>}}
(* S2: annotation text at every place *)
S2 == UNION {{
        Named(NA, <<Iface(IA, <<Meth(MM, <<FullArg>>, <<>>)>>, <<>>, <<>>, <<Ann(t)>>)>>, <<>>),
        Named(NA, <<Iface(IA, <<Meth(MM, <<FullArg>>, <<Ann(t)>>)>>, <<>>, <<>>, <<>>)>>, <<>>),
        Named(NA, <<Iface(IA, <<Meth(MM, <<[FullArg EXCEPT !.annotations = <<Ann(t)>>]>>, <<>>)>>, <<>>, <<>>, <<>>)>>, <<>>),
        Named(NA, <<Iface(IA, <<>>, <<Prop(PP, TS, "readwrite", <<Ann(t), Ann(<<118>>)>>)>>, <<>>, <<>>)>>, <<>>),
        Named(NA, <<Iface(IA, <<>>, <<>>, <<Meth(MN, <<OutArg>>, <<Ann(<<118>>), Ann(t)>>)>>, <<>>)>>, <<>>)
      } : t \in Texts}
(* S3: properties *)
S3 == {Named(NA, <<Iface(IA, <<>>, ps, <<>>, <<>>)>>, <<>>) :
         ps \in {<<Prop(PP, t, acc, <<>>)>> : t \in {TS, TD, TR, T1, T2, TV}, acc \in {"read", "write", "readwrite"}}
                \cup {<<Prop(PP, TS, "read", <<>>), Prop(PQ, TD, "write", <<>>)>>}}
(* S4: how many of each *)
Take(s, n) == SubSeq(s, 1, n)
S4 == {Named(NA, Take(<<Iface(IA, Take(<<Meth(MM, <<FullArg>>, <<>>), Meth(MN, <<>>, <<>>)>>, m),
                                  Take(<<Prop(PP, TS, "read", <<>>), Prop(PQ, TR, "readwrite", <<>>)>>, p),
                                  Take(<<Meth(MN, <<OutArg>>, <<>>), Meth(MM, <<>>, <<>>)>>, s), <<>>),
                         Iface(IB, <<>>, <<>>, <<>>, <<>>)>>, i), <<>>) :
         i \in 0..2, m \in 0..2, p \in 0..2, s \in 0..2}
(* S5: node structure and optional node names *)
Leaf == Named(NC, <<>>, <<>>)
S5 == {r @@ Node(<<BaseIface>>, kids) :
         r \in OptN("name", {NA, NC, <<>>}),
         kids \in {<<>>, <<Leaf>>, <<Node(<<>>, <<>>)>>, <<Named(<<>>, <<>>, <<>>)>>, <<Named(NC, <<BaseIface>>, <<>>)>>,
                   <<Named(NC, <<>>, <<Named(ND, <<>>, <<>>)>>)>>, <<Leaf, Named(ND, <<>>, <<Node(<<>>, <<>>)>>)>>}}

Docs == S1 \cup S2 \cup S3 \cup S4 \cup S5

VARIABLE d
Init == d \in Docs
Next == UNCHANGED d
Emit == PrintT(<<"CASE", ToJson([ev |-> "Xml", doc |-> d])>>)
=============================================================================
