CONSTANTS
  DEPTH = 1
  POSITIONS = {0}
  MUT_LEVEL = 1
INIT MInit
NEXT MNext
INVARIANT MEmit
CHECK_DEADLOCK FALSE
