--------------------------- MODULE Gen_DBusWire ---------------------------
(***************************************************************************)
(* Bounded-exhaustive enumerator of well-typed D-Bus values (spec -> impl). *)
(* Every state is one case <<T, v, pos, le>>; the invariant emits the case  *)
(* as JSON.  DEPTH = 1 or 2 selects the type-tree depth.  The harness       *)
(* encodes each case with the real code; WireCheck then compares.           *)
(***************************************************************************)
EXTENDS DBusWire, Json, TLC
CONSTANTS DEPTH, POSITIONS

Basic0 == {"y","b","n","q","i","u","x","t","d","s","o","g","h"}
Leaf   == {[k |-> c] : c \in Basic0 \cup {"v"}}
\* a smaller leaf set used where products would explode
LeafS  == {[k |-> c] : c \in {"y","q","u","t","s","g","v"}}
KeyT   == {[k |-> c] : c \in {"y","u","s","o","g","x"}}

Arr(t)    == [k |-> "a", e |-> t]
Dict(a,b) == [k |-> "a", e |-> [k |-> "e", key |-> a, val |-> b]]
St(fs)    == [k |-> "r", f |-> fs]

T1 == Leaf \cup {Arr(t) : t \in Leaf} \cup {St(<<t>>) : t \in Leaf}
           \cup {St(<<t, u>>) : t \in Leaf, u \in Leaf}
           \cup {Dict(a, b) : a \in KeyT, b \in Leaf}
T2 == T1 \cup {Arr(t) : t \in T1 \ Leaf}
         \cup {St(<<t, u>>) : t \in LeafS, u \in T1 \ Leaf}
         \cup {St(<<u, t>>) : t \in LeafS, u \in T1 \ Leaf}
         \cup {Dict(a, b) : a \in {[k |-> "y"], [k |-> "s"]}, b \in T1 \ Leaf}
         \cup {St(<<t, u, w>>) : t \in LeafS, u \in LeafS, w \in LeafS}
Types == IF DEPTH = 1 THEN T1 ELSE T2

\* two canonical values per leaf kind ("a" = <<97>>, "é" = <<195,169>>)
LeafV(kk, n) ==
  CASE kk = "y" -> [b |-> IF n = 1 THEN <<7>> ELSE <<255>>]
    [] kk = "b" -> [b |-> IF n = 1 THEN <<0,0,0,1>> ELSE <<0,0,0,0>>]
    [] kk \in {"n","q"} -> [b |-> IF n = 1 THEN <<1,2>> ELSE <<128,0>>]
    [] kk \in {"i","u"} -> [b |-> IF n = 1 THEN <<1,2,3,4>> ELSE <<255,255,255,254>>]
    [] kk \in {"x","t"} -> [b |-> IF n = 1 THEN <<1,2,3,4,5,6,7,8>> ELSE <<128,0,0,0,0,0,0,1>>]
    [] kk = "d" -> [b |-> IF n = 1 THEN <<63,240,0,0,0,0,0,0>> ELSE <<127,248,0,0,0,0,0,1>>]
    [] kk = "s" -> [s |-> IF n = 1 THEN <<97,195,169>> ELSE <<>>]
    [] kk = "o" -> [s |-> IF n = 1 THEN <<47,97,47,98>> ELSE <<47>>]
    [] kk = "g" -> [s |-> IF n = 1 THEN <<97,123,115,118,125>> ELSE <<>>]
    [] kk = "h" -> [h |-> 0]

RECURSIVE V(_,_)
V(T, n) ==
  CASE T.k = "v" -> IF n = 1 THEN [t |-> [k |-> "q"], v |-> LeafV("q", 1)]
                    ELSE [t |-> St(<<[k |-> "y"], [k |-> "t"]>>), v |-> [r |-> <<LeafV("y", 2), LeafV("t", 1)>>]]
    [] T.k = "a" -> IF n = 1 THEN [a |-> <<V(T.e, 1), V(T.e, 2)>>] ELSE [a |-> <<>>]
    [] T.k = "e" -> [r |-> <<V(T.key, n), V(T.val, n)>>]
    [] T.k = "r" -> [r |-> [i \in 1..Len(T.f) |-> V(T.f[i], IF i % 2 = 1 THEN n ELSE 3 - n)]]
    [] OTHER -> LeafV(T.k, n)
\* a third shape for arrays: exactly one element
V3(T) == IF T.k = "a" THEN {[a |-> <<V(T.e, 2)>>]} ELSE {}
Vals(T) == {V(T, 1), V(T, 2)} \cup V3(T)

Cases == UNION {{[T |-> t, v |-> v, pos |-> p, le |-> e] : v \in Vals(t), p \in POSITIONS, e \in BOOLEAN} : t \in Types}

VARIABLE c
Init == c \in Cases
Next == UNCHANGED c
Emit == PrintT(<<"CASE", ToJson(c)>>)
=============================================================================
