CONSTANTS
  DEPTH = 1
  POSITIONS = {0, 1, 4, 6}
  BIG = FALSE
INIT GInit
NEXT Next
INVARIANT GEmit
CHECK_DEADLOCK FALSE
