------------------------------ MODULE Gen_Rpc ------------------------------
(***************************************************************************)
(* Enumerates the calls of the C26 run: for every interface of the program  *)
(* (tree 0), every method, every call class, with and without               *)
(* NO_REPLY_EXPECTED (and for fallible methods with the handler told to     *)
(* fail).  One state = one call; the invariant prints it as JSON.           *)
(*   right         arguments of exactly the declared types                 *)
(*   wrongtype     first argument replaced by a value of an unrelated type *)
(*   neartype      last argument replaced by a value whose signature       *)
(*                 differs in one code (u/i, s/o, (us)/(su), as/au ...)     *)
(*   missing       last argument dropped                                    *)
(*   extra         one more argument (u) appended                           *)
(*   restructured  a single structure argument sent as separate values, or *)
(*                 several arguments sent as one structure                  *)
(*   wrongpath     an object path that is not in the tree                   *)
(*   parentpath    a proper prefix of the object's path (an existing node  *)
(*                 that does not have the interface)                        *)
(*   wrongiface    an interface name nobody registered                      *)
(*   otheriface    an interface registered elsewhere but not on this object *)
(*   noiface       no INTERFACE header field                                *)
(*   wrongmember   a member the interface does not have                     *)
(*   casemember    the member name in its Rust spelling (names are case    *)
(*                 sensitive)                                               *)
(***************************************************************************)
EXTENDS Shapes, Json
CONSTANTS NIFACE, SEED

Regs == TreeRegs(0, NIFACE)
AllShapes == [k \in 0..(NIFACE - 1) |-> IfaceShape(k, SEED)]   \* constant: evaluated once
ShapeOf(k) == AllShapes[k]

RightArgs(m, n) == [i \in 1..Len(m.ins) |-> TVal(m.ins[i], ((n + i) % 3) + 1)]
Replace(args, i, tv) == [j \in 1..Len(args) |-> IF j = i THEN tv ELSE args[j]]
StructOf(args) == [T |-> St(TypesOf(args)), v |-> [r |-> [i \in 1..Len(args) |-> args[i].v]]]
FieldsOf(tv) == [i \in 1..Len(tv.T.f) |-> [T |-> tv.T.f[i], v |-> tv.v.r[i]]]

Classes(m) ==
  {"right", "extra", "wrongpath", "parentpath", "wrongiface", "otheriface", "noiface", "wrongmember", "casemember"}
  \cup (IF Len(m.ins) > 0 THEN {"wrongtype", "neartype", "missing"} ELSE {})
  \cup (IF Len(m.ins) >= 2 \/ (Len(m.ins) = 1 /\ m.ins[1].k = "r") THEN {"restructured"} ELSE {})

ArgsFor(m, cls, n) ==
  LET a == RightArgs(m, n) IN
  CASE cls = "wrongtype" -> Replace(a, 1, TVal(Other(m.ins[1]), 1))
    [] cls = "neartype"  -> Replace(a, Len(a), TVal(Near(m.ins[Len(a)]), 1))
    [] cls = "missing"   -> SubSeq(a, 1, Len(a) - 1)
    [] cls = "extra"     -> Append(a, TVal(TU, 1))
    [] cls = "restructured" -> IF Len(a) = 1 THEN FieldsOf(a[1]) ELSE <<StructOf(a)>>
    [] OTHER -> a

(* an interface of the program that is not registered at `segs` *)
OtherIface(segs, k) ==
  LET here == IfacesAt(Regs, segs)
      cand == {j \in 0..(NIFACE - 1) : j \notin here} IN
  IF cand = {} THEN "org.verif.Nope" ELSE ShapeOf(CHOOSE j \in cand : \A i \in cand : (j - k) % NIFACE <= (i - k) % NIFACE).name

CaseOf(reg, mi, cls, noreply, fail) ==
  LET sh == ShapeOf(reg.iface)
      m  == sh.methods[mi]
      n  == reg.iface * 4 + mi + (IF noreply THEN 1 ELSE 0) IN
  [iface |-> reg.iface, method |-> m.name, cls |-> cls, noreply |-> noreply, fail |-> fail, xflags |-> (n + Len(m.ins)) % 4,
   send |-> [path   |-> CASE cls = "wrongpath" -> "/verif/nowhere"
                          [] cls = "parentpath" -> PathStr(SubSeq(reg.segs, 1, Len(reg.segs) - 1))
                          [] OTHER -> reg.path,
             iface  |-> CASE cls = "wrongiface" -> "org.verif.Nope"
                          [] cls = "otheriface" -> OtherIface(reg.segs, reg.iface)
                          [] cls = "noiface" -> ""
                          [] OTHER -> sh.name,
             member |-> CASE cls = "wrongmember" -> "Nope"
                          [] cls = "casemember" -> m.rust
                          [] OTHER -> m.name,
             args   |-> ArgsFor(m, cls, n)]]

Cases ==
  UNION { UNION { { CaseOf(Regs[r], mi, cls, nr, f) :
                      cls \in Classes(ShapeOf(Regs[r].iface).methods[mi]), nr \in BOOLEAN,
                      f \in (IF ShapeOf(Regs[r].iface).methods[mi].fallible THEN BOOLEAN ELSE {FALSE}) }
                  : mi \in 1..Len(ShapeOf(Regs[r].iface).methods) }
          : r \in 1..Len(Regs) }
(* the handler is told to fail only where it can run *)
Wanted(c) == c.fail => c.cls \in {"right", "noiface"}

VARIABLE c
Init == c \in {x \in Cases : Wanted(x)}
Next == UNCHANGED c
Emit == PrintT(<<"CASE", ToJson(c)>>)
=============================================================================
