INIT Init
NEXT Next
INVARIANT EmitCase
CHECK_DEADLOCK FALSE
CONSTANTS
  LazySchedules = {"each", "batch", "glue_next", "glue_prev"}
  N = 3
  PartialUpTo = 1
  Schedules = {"each", "batch", "glue_next", "glue_prev"}
