INIT Init
NEXT Next
INVARIANT EmitCase
CHECK_DEADLOCK FALSE
CONSTANTS
  N = 3
  PartialUpTo = 1
  Schedules = {"each", "batch", "glue_next"}
