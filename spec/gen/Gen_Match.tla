----------------------------- MODULE Gen_Match -----------------------------
(***************************************************************************)
(* Bounded-exhaustive enumerator of (match rule, message) pairs for C21     *)
(* (spec -> impl).  A rule is a choice of at most MAXKEYS keys, one option   *)
(* per key group; for every rule the messages range over the full product   *)
(* of the header / body dimensions the rule's keys look at (near misses:    *)
(* sibling and prefix paths, absent header fields, other unique names,      *)
(* well-known names, string / object-path / non-string arguments, bodies    *)
(* shorter than the index), all other dimensions stay at a base value.      *)
(* States with ph = 1 are the cases; the invariant emits them as JSON       *)
(* together with the verdict MatchSem!Matches gives.                        *)
(***************************************************************************)
EXTENDS MatchSem, Json
CONSTANTS MAXKEYS,     \* rules with up to this many keys use the full option sets
          MAXKEYS_RED  \* rules with MAXKEYS+1 .. MAXKEYS_RED keys use the reduced option sets

(* byte strings of the universe *)
Empty == <<>>
Root  == <<47>>            \* "/"
PA    == <<47,97>>         \* "/a"
PAs   == <<47,97,47>>      \* "/a/"   (a STRING argument may look like this; not a valid object path)
PAB   == <<47,97,47,98>>   \* "/a/b"
PAb   == <<47,97,98>>      \* "/ab"   (sibling that has "/a" as a string prefix)
PB    == <<47,98>>         \* "/b"
NAB   == <<97,46,98>>      \* "a.b"
NABC  == <<97,46,98,99>>   \* "a.bc"
NA    == <<97>>            \* "a"     (a one-element namespace)
NABD  == <<97,46,98,46,100>> \* "a.b.d"
U1    == <<58,49,46,49>>   \* ":1.1"
U2    == <<58,49,46,50>>   \* ":1.2"
I1    == <<97,46,73>>      \* "a.I"
I2    == <<97,46,74>>      \* "a.J"
M1    == <<77>>            \* "M"
M2    == <<78>>            \* "N"

Strs == {Empty, Root, PA, PAs, PAB, NAB, NABC}

(* an option: key group g, rule field fld ("arg"/"argpath" carry index i), value v *)
O(g, fld, i, v) == [g |-> g, fld |-> fld, i |-> i, v |-> v]
Groups == {"type", "sender", "interface", "member", "pathspec", "destination", "a0", "a1", "ns"}
Opts(g, red) ==
  CASE g = "type" -> {O(g, "type", 0, t) : t \in IF red THEN {"signal", "method_return"} ELSE MsgTypes}
    [] g = "sender" -> {O(g, "sender", 0, v) : v \in IF red THEN {U1, NAB} ELSE {U1, U2, NAB}}
    [] g = "interface" -> {O(g, "interface", 0, v) : v \in IF red THEN {I1} ELSE {I1, I2}}
    [] g = "member" -> {O(g, "member", 0, v) : v \in IF red THEN {M1} ELSE {M1, M2}}
    [] g = "pathspec" -> IF red THEN {O(g, "path", 0, PA), O(g, "path_namespace", 0, PA), O(g, "path_namespace", 0, Root)}
                         ELSE {O(g, f, 0, v) : f \in {"path", "path_namespace"}, v \in {Root, PA, PAB, PAb}}
    [] g = "destination" -> {O(g, "destination", 0, v) : v \in IF red THEN {U1} ELSE {U1, U2}}
    [] g = "a0" -> IF red THEN {O(g, "arg", 0, PA), O(g, "arg", 0, NAB), O(g, "argpath", 0, PA), O(g, "argpath", 0, Root)}
                   ELSE {O(g, "arg", 0, v) : v \in Strs} \cup {O(g, "argpath", 0, v) : v \in {Root, PA, PAB}}
    [] g = "a1" -> IF red THEN {O(g, "arg", 1, PA), O(g, "argpath", 1, PA)}
                   ELSE {O(g, "arg", 1, PA), O(g, "arg", 1, NAB), O(g, "argpath", 1, PA)}
    [] g = "ns" -> {O(g, "arg0ns", 0, v) : v \in IF red THEN {NAB} ELSE {NAB, NA}}

RECURSIVE Choices(_,_)
Choices(G, red) ==
  IF G = {} THEN {{}}
  ELSE LET g == CHOOSE x \in G : TRUE IN {c \cup {o} : c \in Choices(G \ {g}, red), o \in Opts(g, red)}

MkRule(S) ==
  LET simple == {o \in S : o.fld \notin {"arg", "argpath"}} IN
  [f \in {o.fld : o \in simple} |-> (CHOOSE o \in simple : o.fld = f).v]
  @@ [args      |-> SortArgs({[i |-> o.i, v |-> o.v] : o \in {x \in S : x.fld = "arg"}}),
      arg_paths |-> SortArgs({[i |-> o.i, v |-> o.v] : o \in {x \in S : x.fld = "argpath"}})]

Rules ==
  UNION {{MkRule(S) : S \in Choices(G, FALSE)} : G \in {G \in SUBSET Groups : Cardinality(G) <= MAXKEYS}}
  \cup
  UNION {{MkRule(S) : S \in Choices(G, TRUE)} : G \in {G \in SUBSET Groups : Cardinality(G) > MAXKEYS /\ Cardinality(G) <= MAXKEYS_RED}}

(* ---- messages ---- *)
None == <<>>                       \* the empty record: field absent
Arg(k, s) == [k |-> k, s |-> s]
A0  == {Arg("s", v) : v \in Strs} \cup {Arg("o", v) : v \in {Root, PA, PAB}}
         \cup {Arg("u", Empty), Arg("v", PA), Arg("s", NABD)}
A0s == {Arg("s", PA), Arg("u", Empty)}
A1  == {Arg("s", PA), Arg("o", PA), Arg("s", NAB), Arg("u", Empty)}
Bodies == {<<>>} \cup {<<x>> : x \in A0} \cup {<<x, y>> : x \in A0s, y \in A1}

LooksAtBody(rule) == rule.args # <<>> \/ rule.arg_paths # <<>> \/ Has(rule, "arg0ns")

Dim(rule, keys, f, base, vals) ==
  IF \E k \in keys : Has(rule, k) THEN {None} \cup {f :> v : v \in vals} ELSE {f :> base}

TypeFor(m) ==
  IF Has(m, "path") /\ Has(m, "interface") /\ Has(m, "member") THEN "signal"
  ELSE IF Has(m, "path") /\ Has(m, "member") THEN "method_call"
  ELSE "method_return"
WellFormed(m) ==
  /\ m.type = "signal" => Has(m, "path") /\ Has(m, "interface") /\ Has(m, "member")
  /\ m.type = "method_call" => Has(m, "path") /\ Has(m, "member")

Msgs(rule) ==
  LET hs == {s @@ i @@ m @@ p @@ d @@ [body |-> b] :
               s \in Dim(rule, {"sender"}, "sender", U1, {U1, U2}),
               i \in Dim(rule, {"interface"}, "interface", I1, {I1, I2}),
               m \in Dim(rule, {"member"}, "member", M1, {M1, M2}),
               p \in Dim(rule, {"path", "path_namespace"}, "path", PA, {Root, PA, PAB, PAb, PB}),
               d \in IF Has(rule, "destination") THEN {None} \cup {"destination" :> v : v \in {U1, U2, NAB}} ELSE {None},
               b \in IF LooksAtBody(rule) THEN Bodies ELSE {<<Arg("s", PA)>>}}
  IN  IF Has(rule, "type")
      THEN {x \in {h @@ [type |-> t] : h \in hs, t \in MsgTypes} : WellFormed(x)}
      ELSE {h @@ [type |-> TypeFor(h)] : h \in hs}

NoMsg == [type |-> "none", body |-> <<>>]
VARIABLES ph, rule, msg
Init == ph = 0 /\ rule \in Rules /\ msg = NoMsg
Next == ph = 0 /\ ph' = 1 /\ msg' \in Msgs(rule) /\ UNCHANGED rule
Emit == ph = 1 => PrintT(<<"CASE", ToJson([ev |-> "Match", rule |-> rule, msg |-> msg, exp |-> Matches(rule, msg)])>>)
=============================================================================
