INIT GInit
NEXT GNext
INVARIANT EmitCase
CHECK_DEADLOCK FALSE
CONSTANTS
  NoiseKinds = {"forged", "other"}
  MaxSteps = 5
  MaxForged = 1
  DevLostForgets = FALSE
  Schedules = {"each", "glue"}
