-------------------------- MODULE Gen_SaslClient --------------------------
(***************************************************************************)
(* Enumerator of server reply streams for the client handshake (C17).      *)
(* Family "seq" (scripted socket, no expected GUID): every line sequence   *)
(* of length <= 2 over the full alphabet, length 3 starting with a valid   *)
(* OK, x transport can / cannot pass fds x what follows the lines (nothing, *)
(* a message, a message with an fd, two messages, a truncated message);    *)
(* the harness delivers each as one chunk, byte by byte and line by line.   *)
(* Family "cut": representative streams under every set of <= MAXCUTS cuts. *)
(* Family "unix" (real unix socket, the only public way to give the client  *)
(* an expected GUID): short sequences x expected GUID same / other.         *)
(***************************************************************************)
EXTENDS Naturals, Sequences, FiniteSets, Json, TLC
CONSTANTS MAXCUTS, LEN3

OK(g) == [k |-> "OK", g |-> g]
K(x) == [k |-> x]
\* plus / minus / zx / under: 32 characters that a general integer parser takes for a hexadecimal number ("+" and 31 digits, ...);
\* upper: a valid GUID in upper- and lower-case digits
Full == {OK(g) : g \in {"valid", "other", "short", "long", "nonhex", "missing", "hyph", "plus", "minus", "zx", "under", "upper"}}
        \cup {K(x) : x \in {"REJECTED", "ERROR", "DATA", "AGREE_UNIX_FD", "UNKNOWN", "GARBAGE", "BADEND", "LFSTART"}}
Red == {OK("valid"), OK("other"), OK("hyph"), OK("short"), OK("plus"), K("AGREE_UNIX_FD"), K("ERROR"), K("REJECTED")}
Trails == {"none", "msg", "msgfd", "two", "twolate", "partial"}

MaySucceed(ls) == ls # <<>> /\ ls[1].k = "OK" /\ ls[1].g \in {"valid", "other", "hyph", "upper", "plus"}
TrailsFor(ls) == IF MaySucceed(ls) THEN Trails ELSE {"none", "msg"}

Reps == { [lines |-> <<OK("valid"), K("AGREE_UNIX_FD")>>, canfd |-> TRUE, trail |-> "msgfd"],
          [lines |-> <<OK("valid")>>, canfd |-> FALSE, trail |-> "two"],
          [lines |-> <<OK("valid"), K("ERROR")>>, canfd |-> TRUE, trail |-> "msg"] }
CutPos(n) == {<<i, t>> : i \in 1..n, t \in {"m", "c", "l", "e"}} \cup {<<n + 1, t>> : t \in {"t1", "t2", "t3"}}
Small(P, k) == {S \in SUBSET P : Cardinality(S) <= k}

VARIABLES cfg, lines, trail, fam, cuts, done
Init ==
  /\ cuts = {} /\ done = FALSE
  /\ \/ /\ fam = "seq" /\ cfg \in [canfd : BOOLEAN, expected : {"none"}]
        /\ lines \in {<<a>> : a \in Full} /\ trail = "none"
     \/ /\ fam = "cut" /\ \E r \in Reps : lines = r.lines /\ trail = r.trail /\ cfg = [canfd |-> r.canfd, expected |-> "none"]
     \/ /\ fam = "unix" /\ cfg \in [canfd : {TRUE}, expected : {"same", "other"}]
        /\ lines \in {<<a>> : a \in Red} /\ trail = "none"
Next ==
  /\ ~done /\ done' = TRUE /\ UNCHANGED <<cfg, fam>>
  /\ \/ /\ fam = "seq" /\ cuts' = cuts
        /\ \E ext \in {<<>>} \cup {<<b>> : b \in Full} \cup (IF LEN3 /\ lines[1] = OK("valid") THEN {<<b, c>> : b \in Full, c \in Full} ELSE {}) :
             /\ lines' = lines \o ext
             /\ trail' \in TrailsFor(lines \o ext)
     \/ /\ fam = "cut" /\ UNCHANGED <<lines, trail>>
        /\ \E cs \in Small(CutPos(Len(lines)), MAXCUTS) : cuts' = cs
     \/ /\ fam = "unix" /\ cuts' = cuts
        /\ \E ext \in {<<>>} \cup {<<b>> : b \in Red} : lines' = lines \o ext
        /\ trail' \in {"none", "msg"}
Emit == done => PrintT(<<"CASE", ToJson([cfg |-> cfg, lines |-> lines, trail |-> trail, fam |-> fam, cuts |-> cuts])>>)
=============================================================================
