CONSTANTS
  DEPTH = 2
  POSITIONS = {0, 1, 4, 6}
  BIG = TRUE
INIT GInit
NEXT Next
INVARIANT GEmit
CHECK_DEADLOCK FALSE
