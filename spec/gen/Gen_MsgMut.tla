---------------------------- MODULE Gen_MsgMut ----------------------------
(***************************************************************************)
(* C12, spec -> impl: the corpus of hostile inputs.  Valid messages of the  *)
(* C11 space (Bases) are mutated field-wise; every case is one byte string  *)
(* presented to Message::from_bytes as a complete message:                  *)
(*   trunc    every proper prefix (includes the empty input and all inputs  *)
(*            shorter than the fixed header)                                *)
(*   byte     every offset set to 0, 1, 255, old xor 1, old xor 128, old+8  *)
(*            (covers +-1 / +8 / huge on every length field and string      *)
(*            length, the endianness byte, type, flags, version, signature  *)
(*            characters, terminators, padding)                             *)
(*   bodylen / fieldslen   the two u32 length fields overridden with        *)
(*            0, n+-1, n+-8, 2^26+1, 2^27, 2^31-1, 2^32-1                   *)
(*   swap     each header field's variant replaced by a value of another    *)
(*            type (consistently marshalled)                                *)
(*   struct   well-formed but invalid messages: a field dropped,            *)
(*            duplicated, code 0 / unknown code, type 0 / 5 / 255, flags    *)
(*            255, version 0 / 2, serial 0, reply serial 0, bad endianness  *)
(*            byte, SIGNATURE not matching the body, UNIX_FDS not matching  *)
(*            the attached descriptors, invalid names / paths, nesting      *)
(*            bombs in a header variant and in the body signature           *)
(* The expected outcome domain of every call is {ok, err}; MsgCheck adds,   *)
(* diagnostically, whether MsgLayout!ParseMsg says the input is invalid.    *)
(***************************************************************************)
EXTENDS Gen_MsgBase, Json, TLC
CONSTANTS BASES,     \* subset of 1..8
          BOTH_LE    \* TRUE: every base in both byte orders; FALSE: order by parity (bases 1, 4 both)

B_s == Body(<<Ty("s")>>, <<S(Hello)>>)
BaseHB(i) ==
  CASE i = 1 -> <<Hdr(MT_CALL,   3, {1,2,3,5,6,7}, 1), B_su>>
    [] i = 2 -> <<Hdr(MT_SIGNAL, 0, {1,2,3},       2), B_none>>
    [] i = 3 -> <<Hdr(MT_RETURN, 0, {5,6},         1), B_u>>
    [] i = 4 -> <<Hdr(MT_ERROR,  0, {4,5,6,7},     2), B_s>>
    [] i = 5 -> <<Hdr(MT_CALL,   4, {1,3},         3), B_fds>>
    [] i = 6 -> <<Hdr(MT_SIGNAL, 2, {1,2,3,7},     1), B_dict>>
    [] i = 7 -> <<Hdr(MT_RETURN, 0, {5},           3), B_rsu>>
    [] i = 8 -> <<Hdr(MT_ERROR,  0, {4,5},         1), B_none>>
Les(i) == IF BOTH_LE \/ i \in {1, 4} THEN BOOLEAN ELSE {i % 2 = 1}
Base(i, le) == [i |-> i, hdr |-> WithBodyFields(BaseHB(i)[1], BaseHB(i)[2]), body |-> BaseHB(i)[2], le |-> le]
Bases == UNION {{Base(i, le) : le \in Les(i)} : i \in BASES}

Raw(b) == MsgBytes(b.hdr, b.body, b.le)
Case(cls, b, bytes, nfds) == [cls |-> cls, base |-> b.i, bytes |-> bytes, nfds |-> nfds, ctx_le |-> b.le]
Fds(b) == BodyFds(b.body)

Xor1(o) == IF o % 2 = 0 THEN o + 1 ELSE o - 1
AltByte(o) == {0, 1, 255, Xor1(o), (o + 128) % 256, (o + 8) % 256} \ {o}

Valid(b) == {Case("valid", b, Raw(b), Fds(b))}
Trunc(b) == LET B == Raw(b) IN {Case("trunc", b, SubSeq(B, 1, n), Fds(b)) : n \in 0..(Len(B) - 1)}
ByteMut(b) == LET B == Raw(b) IN
  UNION {{Case("byte", b, [B EXCEPT ![i] = x], Fds(b)) : x \in AltByte(B[i])} : i \in 1..Len(B)}

\* wire tuples for a u32 length field around the true value n
LenTuples(n, le) ==
  {U32(x, le) : x \in ({0, n + 1, n + 8, 67108865, 134217728, 2147483647}
                        \cup (IF n >= 1 THEN {n - 1} ELSE {}) \cup (IF n >= 8 THEN {n - 8} ELSE {})) \ {n}}
    \cup {<<255, 255, 255, 255>>, Ord(<<128, 0, 0, 0>>, le)}
Parts(b) == [fb |-> FieldBytes(b.hdr.fields, b.le), bb |-> BodyBytes(b.body, b.le)]
Asm(b, ver, blen4, serial4, fb, bb) ==
  Assemble(IF b.le THEN 108 ELSE 66, b.hdr.type, b.hdr.flags, ver, blen4, serial4, fb, Zeros(Pad(12 + Len(fb), 8)), bb)
BodyLenMut(b) == LET p == Parts(b) IN
  {Case("bodylen", b, Asm(b, 1, x, Ord(b.hdr.serial, b.le), p.fb, p.bb), Fds(b)) : x \in LenTuples(Len(p.bb), b.le)}
FieldsLenMut(b) == LET p == Parts(b) IN
  {Case("fieldslen", b, Asm(b, 1, U32(Len(p.bb), b.le), Ord(b.hdr.serial, b.le), x \o SubSeq(p.fb, 5, Len(p.fb)), p.bb), Fds(b))
     : x \in LenTuples(Len(p.fb) - 4, b.le)}

\* values of other types for a header field's variant
RECURSIVE Nest(_)
Nest(n) == IF n = 0 THEN [t |-> Ty("y"), v |-> [b |-> <<1>>]] ELSE [t |-> Ty("v"), v |-> Nest(n - 1)]
Alts == { [t |-> Ty("y"), v |-> [b |-> <<5>>]], [t |-> Ty("b"), v |-> [b |-> <<0,0,0,1>>]],
          [t |-> Ty("u"), v |-> [b |-> <<0,0,0,7>>]], [t |-> Ty("t"), v |-> [b |-> <<0,0,0,0,0,0,0,1>>]],
          [t |-> Ty("s"), v |-> S(<<120>>)], [t |-> Ty("s"), v |-> S(<<>>)], [t |-> Ty("o"), v |-> S(<<47>>)],
          [t |-> Ty("g"), v |-> S(<<117>>)], [t |-> Ty("g"), v |-> S(<<>>)], [t |-> Ty("h"), v |-> [h |-> 0]],
          [t |-> St(<<Ty("s"), Ty("u")>>), v |-> [r |-> <<S(Hi), U(<<0,0,0,1>>)>>]],
          [t |-> [k |-> "a", e |-> Ty("s")], v |-> [a |-> <<>>]],
          [t |-> [k |-> "a", e |-> Ty("y")], v |-> [a |-> <<[b |-> <<47>>], [b |-> <<0>>]>>]],
          Nest(1), Nest(3) }
SetField(b, i, tv) == [b EXCEPT !.hdr.fields[i] = [c |-> @.c, t |-> tv.t, v |-> tv.v]]
Swap(b) == UNION {{Case("swap", b, Raw(SetField(b, i, a)), Fds(b)) : a \in {x \in Alts : x.t # b.hdr.fields[i].t}}
                  : i \in 1..Len(b.hdr.fields)}

\* invalid strings for the name-typed fields (same type, invalid content)
BadStrs == { <<>>, <<47, 47>>, <<97>>, <<47, 97, 47>>, <<46, 97>>, <<97, 46, 46, 98>>, <<97, 46, 98, 45>>, <<58>>,
             <<58, 49, 46>>, <<49, 97, 46, 98>>, <<97, 32, 98>>, <<195, 169, 46, 97>>, [i \in 1..256 |-> IF i % 2 = 1 THEN 97 ELSE 46] }
BadNames(b) == UNION {{Case("badname", b, Raw(SetField(b, i, [t |-> b.hdr.fields[i].t, v |-> S(s)])), Fds(b)) : s \in BadStrs}
                      : i \in {j \in 1..Len(b.hdr.fields) : b.hdr.fields[j].t.k \in {"s", "o"}}}

DropAt(s, i) == SubSeq(s, 1, i - 1) \o SubSeq(s, i + 1, Len(s))
WithFields(b, fs) == [b EXCEPT !.hdr.fields = fs]
WithHdr(b, f, x) == [b EXCEPT !.hdr = [@ EXCEPT ![f] = x]]
SigBomb(n, inner) == [i \in 1..(n + 1) |-> IF i <= n THEN 97 ELSE inner]      \* "aaaa...u"
Parens(n) == [i \in 1..n |-> 40]                                                \* "(((("
SigField(s) == [c |-> F_SIGNATURE, t |-> Ty("g"), v |-> S(s)]
OtherSigs == {<<>>, <<117>>, <<115, 117>>, <<104>>, <<97, 123, 115, 118, 125>>, <<118>>, <<40, 115, 117, 41>>, <<120, 120>>, <<97, 121>>,
              SigBomb(32, 117), SigBomb(33, 117), SigBomb(64, 117), SigBomb(254, 117), Parens(255), <<97>>, <<40, 41>>, <<97, 123, 118, 115, 125>>}
NoSig(fs) == SelectSeq(fs, LAMBDA f : f.c # F_SIGNATURE)
NoFds(fs) == SelectSeq(fs, LAMBDA f : f.c # F_UNIX_FDS)
FdsField(n4) == [c |-> F_UNIX_FDS, t |-> Ty("u"), v |-> [b |-> n4]]
Struct(b) ==
  LET fs == b.hdr.fields IN
     {Case("drop", b, Raw(WithFields(b, DropAt(fs, i))), Fds(b)) : i \in 1..Len(fs)}
  \cup {Case("dup", b, Raw(WithFields(b, Append(fs, fs[i]))), Fds(b)) : i \in 1..Len(fs)}
  \cup {Case("code", b, Raw(WithFields(b, Append(fs, [c |-> c, t |-> Ty("s"), v |-> S(Hi)]))), Fds(b)) : c \in {0, 10, 255}}
  \cup {Case("code", b, Raw(WithFields(b, <<[c |-> c, t |-> Ty("u"), v |-> U(<<0,0,0,1>>)]>> \o fs)), Fds(b)) : c \in {0, 10, 255}}
  \cup {Case("nofields", b, Raw(WithFields(b, <<>>)), Fds(b))}
  \cup {Case("type", b, Raw(WithHdr(b, "type", t)), Fds(b)) : t \in {0, 5, 255} \cup (KnownTypes \ {b.hdr.type})}
  \cup {Case("flags", b, Raw(WithHdr(b, "flags", f)), Fds(b)) : f \in {8, 128, 255}}
  \cup {Case("serial0", b, Raw(WithHdr(b, "serial", <<0,0,0,0>>)), Fds(b))}
  \cup (LET p == Parts(b) IN
          {Case("version", b, Asm(b, v, U32(Len(p.bb), b.le), Ord(b.hdr.serial, b.le), p.fb, p.bb), Fds(b)) : v \in {0, 2, 255}}
          \cup {Case("endbyte", b, [Raw(b) EXCEPT ![1] = e], Fds(b)) : e \in {0, 98, 76, 66, 108} \ {Raw(b)[1]}}
          \* the context says the other byte order than the first byte
          \cup {[Case("ctx", b, Raw(b), Fds(b)) EXCEPT !.ctx_le = ~b.le]})
  \cup {Case("sig", b, Raw(WithFields(b, Append(NoSig(fs), SigField(s)))), Fds(b)) : s \in OtherSigs}
  \cup {Case("nosig", b, Raw(WithFields(b, NoSig(fs))), Fds(b))}
  \cup {Case("fdcount", b, Raw(WithFields(b, Append(NoFds(fs), FdsField(n4)))), k)
          : n4 \in {<<0,0,0,0>>, <<0,0,0,1>>, <<0,0,0,5>>, <<255,255,255,255>>}, k \in {0, Fds(b)}}
  \cup {Case("nofdfield", b, Raw(WithFields(b, NoFds(fs))), k) : k \in {0, Fds(b)}}
  \cup {Case("nest", b, Raw(WithFields(b, Append(fs, [c |-> c, t |-> Ty("v"), v |-> Nest(n)]))), Fds(b)) : c \in {1, 8, 20}, n \in {31, 63, 64, 70}}
  \cup (IF HasField(fs, F_REPLY_SERIAL)
        THEN {Case("reply0", b, Raw(SetField(b, CHOOSE i \in 1..Len(fs) : fs[i].c = F_REPLY_SERIAL, [t |-> Ty("u"), v |-> U(<<0,0,0,0>>)])), Fds(b))}
        ELSE {})

Muts(b) == Valid(b) \cup Trunc(b) \cup ByteMut(b) \cup BodyLenMut(b) \cup FieldsLenMut(b) \cup Swap(b) \cup BadNames(b) \cup Struct(b)
Cases == UNION {Muts(b) : b \in Bases}

(* padtrunc: a message without a body whose header ends at every residue modulo 8 (member names of 1..8 bytes), cut at every
   position of the padding behind the header fields (and just before / behind it).  With an empty body the declared lengths
   are all satisfied by an input that ends inside that padding; it is still not a complete message.  In every tier. *)
MemberIx(b) == CHOOSE j \in 1..Len(b.hdr.fields) : b.hdr.fields[j].c = F_MEMBER
PadBase(k, le) == LET b0 == Base(2, le) IN SetField(b0, MemberIx(b0), [t |-> Ty("s"), v |-> S([x \in 1..k |-> 96 + x])])
PadTrunc(b) == LET B == Raw(b) IN {Case("padtrunc", b, SubSeq(B, 1, n), 0) : n \in (Len(B) - 9)..Len(B)}
PadBases == {PadBase(k, le) : k \in 1..8, le \in BOOLEAN}

(* root -> base -> case, so that the workers mutate the bases in parallel *)
VARIABLE c
IsCase == "cls" \in DOMAIN c
Init == c = [root |-> TRUE]
Next == \/ ("root" \in DOMAIN c /\ c' \in {[b |-> b] : b \in Bases} \cup {[pb |-> b] : b \in PadBases})
        \/ ("b" \in DOMAIN c /\ c' \in Muts(c.b))
        \/ ("pb" \in DOMAIN c /\ c' \in PadTrunc(c.pb))
Emit == IsCase => PrintT(<<"CASE", ToJson(c)>>)
=============================================================================
