---------------------------- MODULE Gen_MsgBuild ----------------------------
(***************************************************************************)
(* C11, spec -> impl: bounded-exhaustive enumeration of messages to build.  *)
(*   message type x every subset of the fields a caller may add x flags x   *)
(*   byte order x bodies (none, u, "su", "(su)", h, several fds, a{sv}t)    *)
(* Route "builder": constructor + builder methods (NO_REPLY_EXPECTED only   *)
(* on calls -- the builder refuses it elsewhere, a policy outside C11).     *)
(* Route "header": Builder::from(Header) with every flag combination.       *)
(* Name-length variants 2 and 3 (different paddings) with flags 0.          *)
(* One state per case; the invariant prints the case as JSON.               *)
(***************************************************************************)
EXTENDS Gen_MsgBase, Json, TLC
CONSTANTS FULL      \* TRUE: everything below; FALSE: a thinned space for the MC self-check

Case(ty, fl, codes, n, body, le, bare, via) ==
  [hdr |-> Hdr(ty, fl, codes, n), body |-> body, le |-> le, bare |-> bare, via |-> via]

BuilderFlags(ty) == IF ty = MT_CALL THEN 0..7 ELSE {0, 2, 4, 6}

A == UNION {{Case(ty, fl, cs, 1, b, le, FALSE, "builder") :
               fl \in BuilderFlags(ty), cs \in FieldSets(ty), b \in Bodies, le \in BOOLEAN} : ty \in KnownTypes}
H == UNION {{Case(ty, fl, cs, 1, b, le, FALSE, "header") :
               fl \in 0..7, cs \in FieldSets(ty), b \in {B_none, B_su}, le \in BOOLEAN} : ty \in KnownTypes}
N == UNION {{Case(ty, 0, cs, n, b, le, FALSE, "builder") :
               n \in {2, 3}, cs \in FieldSets(ty), b \in Bodies, le \in BOOLEAN} : ty \in KnownTypes}
\* a single non-struct argument given as the body value itself
R == {Case(ty, 0, Required(ty), 1, B_u, le, TRUE, "builder") : ty \in KnownTypes, le \in BOOLEAN}
Thin == UNION {{Case(ty, fl, cs, n, b, le, FALSE, "builder") :
               fl \in {0, 5}, n \in {1, 3}, cs \in {Required(ty), Settable(ty)}, b \in Bodies, le \in BOOLEAN} : ty \in KnownTypes}
Cases == IF FULL THEN A \cup H \cup N \cup R ELSE Thin

VARIABLE c
Init == c \in Cases
Next == UNCHANGED c
Emit == PrintT(<<"CASE", ToJson(c)>>)
\* the specification's own law, checked on every generated case (MC_MsgLayout)
Law  == RoundTripLaw(c.hdr, c.body, c.le)
=============================================================================
