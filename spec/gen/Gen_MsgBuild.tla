---------------------------- MODULE Gen_MsgBuild ----------------------------
(***************************************************************************)
(* C11, spec -> impl: bounded-exhaustive enumeration of messages to build.  *)
(*   message type x every subset of the fields a caller may add x flags x   *)
(*   byte order x bodies (none, u, "su", "(su)", h, several fds, a{sv}t)    *)
(* Route "builder": constructor + builder methods (NO_REPLY_EXPECTED only   *)
(* on calls -- the builder refuses it elsewhere, a policy outside C11).     *)
(* Route "header": Builder::from(Header) with every flag combination.       *)
(* Name-length variants 2 and 3 (different paddings) with flags 0.          *)
(* One state per case; the invariant prints the case as JSON.               *)
(***************************************************************************)
EXTENDS Gen_MsgBase, Json, TLC
CONSTANTS SPACE     \* "full": everything below (thorough); "quick": a covering selection; "thin": the MC self-check

Case(ty, fl, codes, n, body, le, bare, via) ==
  [hdr |-> Hdr(ty, fl, codes, n), body |-> body, le |-> le, bare |-> bare, via |-> via]

BuilderFlags(ty) == IF ty = MT_CALL THEN 0..7 ELSE {0, 2, 4, 6}

A == UNION {{Case(ty, fl, cs, 1, b, le, FALSE, "builder") :
               fl \in BuilderFlags(ty), cs \in FieldSets(ty), b \in Bodies, le \in BOOLEAN} : ty \in KnownTypes}
H == UNION {{Case(ty, fl, cs, 1, b, le, FALSE, "header") :
               fl \in 0..7, cs \in FieldSets(ty), b \in {B_none, B_su}, le \in BOOLEAN} : ty \in KnownTypes}
N == UNION {{Case(ty, 0, cs, n, b, le, FALSE, "builder") :
               n \in {2, 3}, cs \in FieldSets(ty), b \in Bodies, le \in BOOLEAN} : ty \in KnownTypes}
\* a single non-struct argument given as the body value itself
R == {Case(ty, 0, Required(ty), 1, B_u, le, TRUE, "builder") : ty \in KnownTypes, le \in BOOLEAN}
Thin == UNION {{Case(ty, fl, cs, n, b, le, FALSE, "builder") :
               fl \in {0, 5}, n \in {1, 3}, cs \in {Required(ty), Settable(ty)}, b \in Bodies, le \in BOOLEAN} : ty \in KnownTypes}
(* quick tier: every field subset with every flag combination on one body (little endian);
   every field subset with an fd body (big endian); every body with the smallest and
   the largest field set in all three name-length variants; the header route with
   NO_REPLY_EXPECTED alone and all flags on every field subset, and every flag combination on
   the smallest header *)
Q == UNION {
       {Case(ty, fl, cs, 1, B_su, TRUE, FALSE, "builder") : fl \in BuilderFlags(ty), cs \in FieldSets(ty)}
  \cup {Case(ty, 0, cs, 1, B_h, FALSE, FALSE, "builder") : cs \in FieldSets(ty)}
  \cup {Case(ty, 0, cs, n, b, le, FALSE, "builder") : cs \in {Required(ty), Settable(ty)}, n \in 1..3, b \in Bodies, le \in BOOLEAN}
  \cup {Case(ty, fl, cs, 1, B_su, FALSE, FALSE, "header") : fl \in {1, 7}, cs \in FieldSets(ty)}
  \cup {Case(ty, fl, Required(ty), 1, B_none, le, FALSE, "header") : fl \in 0..7, le \in BOOLEAN}
  : ty \in KnownTypes}
Cases == CASE SPACE = "full" -> A \cup H \cup N \cup R [] SPACE = "quick" -> Q \cup R [] OTHER -> Thin

(* One state per case.  The cases are reached in two steps (root -> partition -> case) so that
   TLC's workers emit the partitions in parallel (initial states are computed by one thread). *)
VARIABLE c
PartOf(x) == x.hdr.type * 2 + (IF x.le THEN 1 ELSE 0)
Parts == {PartOf(x) : x \in Cases}
IsCase == "hdr" \in DOMAIN c
Init == c = [part |-> 0]
Next == \/ (~IsCase /\ c.part = 0 /\ c' \in {[part |-> k] : k \in Parts})
        \/ (~IsCase /\ c.part # 0 /\ c' \in {x \in Cases : PartOf(x) = c.part})
Emit == IsCase => PrintT(<<"CASE", ToJson(c)>>)
\* the specification's own law, checked on every generated case
Law  == IsCase => RoundTripLaw(c.hdr, c.body, c.le)
=============================================================================
