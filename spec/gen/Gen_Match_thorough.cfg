CONSTANTS
  MAXKEYS = 3
  MAXKEYS_RED = 3
INIT Init
NEXT Next
INVARIANT Emit
CHECK_DEADLOCK FALSE
