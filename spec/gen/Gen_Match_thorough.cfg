CONSTANTS
  MAXKEYS = 2
  MAXKEYS_RED = 3
INIT Init
NEXT Next
INVARIANT Emit
CHECK_DEADLOCK FALSE
