CONSTANTS
  ALLSETUPS = TRUE
  MAXCUTS = 3
  STREAMS <- StreamsThorough
  TAILS <- TailsAll
INIT Init
NEXT Next
INVARIANT Emit
CHECK_DEADLOCK FALSE
