------------------------- MODULE MC_Gen_ConnSched -------------------------
EXTENDS Gen_ConnSched
G_Callers == {1, 2, 3}
G_NoReply == {3}
G_Streams == {1, 2, 3}
G_Rules == {"A", "B"}
G_RuleOf == [s \in G_Streams |-> IF s = 3 THEN "B" ELSE "A"]
G_Sigs == {101, 102, 103}
G_SigRules == [g \in G_Sigs |-> IF g = 102 THEN {"B"} ELSE {"A"}]
=============================================================================
