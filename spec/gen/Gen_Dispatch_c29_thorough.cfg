CONSTANTS
  DEVS = {}
  CLASS = "c29"
  MAXN = 4
INIT GInit
NEXT GNext
INVARIANT Emit
CHECK_DEADLOCK FALSE
