--------------------------- MODULE Gen_ConnSched ---------------------------
(***************************************************************************)
(* Behaviours of spec/Conn.tla as schedules for the connection harness       *)
(* (spec -> impl).  Every action of Conn is wrapped so that it appends its    *)
(* label to the history variable `hist`; TLC -simulate walks random           *)
(* behaviours and the invariant emits the history of each behaviour when it    *)
(* reaches DEPTH steps or nothing is enabled.  lib/props/conn.py maps labels   *)
(* to harness steps (Appendix B of DESIGN.md); steps the real code is not      *)
(* ready for are skipped by the harness - the recorded trace, not the          *)
(* schedule, is what gets validated.                                           *)
(***************************************************************************)
EXTENDS Conn, Json
CONSTANT DEPTH
VARIABLE hist

L(a, x) == hist' = Append(hist, <<a, x>>)
HInit == Init /\ hist = <<>>
HNext ==
  /\ Len(hist) < DEPTH
  /\ \/ \E c \in Callers : \/ (CStart(c) /\ L("CStart", c)) \/ (CLock(c) /\ L("CLock", c)) \/ (CWrite(c) /\ L("CWrite", c))
                           \/ (CLateSub(c) /\ L("CPoll", c)) \/ (CPoll(c) /\ L("CPoll", c)) \/ (CDrop(c) /\ L("CDrop", c))
                           \/ (CStartAfterFault(c) /\ L("CStart", c))
     \/ \E s \in Callers : (PeerAnswer(s, "ret") /\ L("Reply", s)) \/ (PeerAnswer(s, "err") /\ L("Error", s))
     \/ (PeerStray /\ L("Stray", strays)) \/ (\E g \in Sigs : PeerSignal(g) /\ L("Signal", g)) \/ (Fault /\ L("Fault", 0))
     \/ (RRead /\ L("Tick", 0)) \/ (RReadFail /\ L("Tick", 0)) \/ (\E ch \in Chans : RBcast(ch) /\ L("Tick", 0)) \/ (RDone /\ L("Tick", 0))
     \/ \E s \in Streams : (SSub(s) /\ L("Sub", s)) \/ (SPoll(s) /\ L("SPoll", s)) \/ (SDrop(s) /\ L("SDrop", s))
Done == Len(hist) = DEPTH \/ ~ENABLED Next
Emit == Done => PrintT(<<"CASE", ToJson([hist |-> hist])>>)
=============================================================================
