---------------------------- MODULE Gen_PropCache ----------------------------
(***************************************************************************)
(* Enumerator of received histories for C31 (spec -> impl): exactly one      *)
(* GetAll reply and up to N PropertiesChanged signals of eight kinds (own /   *)
(* other interface, change / invalidate / both, cached / uncached property,   *)
(* stranger sender, other object) in every arrival order; values depend on    *)
(* the position so that a wrong order shows.  Each history is emitted per     *)
(* cache mode (CacheProperties::Yes / Lazily) and schedule (where the client  *)
(* is run to quiescence: after every message, never before the end, or with   *)
(* the messages around the GetAll reply queued together).                     *)
(***************************************************************************)
EXTENDS Integers, Sequences, FiniteSets, TLC, Json
CONSTANTS N,            \* maximal number of PropertiesChanged signals
          PartialUpTo,  \* histories with at most this many signals are also run with a partial snapshot
          Schedules,
          LazySchedules \* the schedules also replayed with CacheProperties::Lazily

VARIABLES h, r          \* history (events), position of the reply (0 = not yet)

NoP == [x \in {} |-> 0]
Chg(i, kind) ==
  LET v == 10 * i IN
  CASE kind = 1 -> [k |-> "chg", iface |-> "own",   src |-> "svc",      path |-> "own",   changed |-> [P |-> v + 1], inval |-> <<>>]
    [] kind = 2 -> [k |-> "chg", iface |-> "own",   src |-> "svc",      path |-> "own",   changed |-> [Q |-> v + 2], inval |-> <<"P">>]
    [] kind = 3 -> [k |-> "chg", iface |-> "own",   src |-> "svc",      path |-> "own",   changed |-> NoP,           inval |-> <<"Q">>]
    [] kind = 4 -> [k |-> "chg", iface |-> "other", src |-> "svc",      path |-> "own",   changed |-> [P |-> v + 4], inval |-> <<"Q">>]
    [] kind = 5 -> [k |-> "chg", iface |-> "own",   src |-> "svc",      path |-> "own",   changed |-> [U |-> v + 5, Q |-> v + 6], inval |-> <<>>]
    [] kind = 6 -> [k |-> "chg", iface |-> "own",   src |-> "svc",      path |-> "own",   changed |-> NoP,           inval |-> <<"U", "P">>]
    [] kind = 7 -> [k |-> "chg", iface |-> "own",   src |-> "stranger", path |-> "own",   changed |-> [P |-> v + 7], inval |-> <<"Q">>]
    [] kind = 8 -> [k |-> "chg", iface |-> "own",   src |-> "svc",      path |-> "other", changed |-> [Q |-> v + 8], inval |-> <<"P">>]
Full == [P |-> 1, Q |-> 2, U |-> 3]
Partial == [P |-> 1]

NChg == Len(h) - (IF r = 0 THEN 0 ELSE 1)
Init == h = <<>> /\ r = 0
Next == \/ /\ NChg < N /\ \E kind \in 1..8 : h' = Append(h, Chg(Len(h) + 1, kind)) /\ UNCHANGED r
        \/ /\ r = 0 /\ \E s \in {Full} \cup (IF NChg <= PartialUpTo THEN {Partial} ELSE {}) :
                h' = Append(h, [k |-> "reply", snap |-> s]) /\ r' = Len(h) + 1
\* a partial snapshot is only followed by as many signals as allowed in total
Valid == r # 0 /\ (h[r].snap = Partial => NChg <= PartialUpTo)

Q == [k |-> "q"]
NoQAfter(s) ==
  CASE s = "each" -> {}
    [] s = "batch" -> 1..Len(h)
    [] s = "glue_next" -> {r}
    [] s = "glue_prev" -> {r - 1}
    [] s = "glue_both" -> {r - 1, r}
Applicable(s) ==
  CASE s = "each" -> TRUE
    [] s = "batch" -> Len(h) >= 3 \/ (Len(h) = 2 /\ "glue_next" \notin Schedules /\ "glue_prev" \notin Schedules)
    [] s = "glue_next" -> r < Len(h)
    [] s = "glue_prev" -> r > 1
    [] s = "glue_both" -> r > 1 /\ r < Len(h)
RECURSIVE Weave(_, _)
Weave(i, noq) ==
  IF i > Len(h) THEN <<>>
  ELSE (IF i \in noq /\ i < Len(h) THEN <<h[i]>> ELSE <<h[i], Q>>) \o Weave(i + 1, noq)

EmitCase ==
  IF Valid
  THEN \A md \in {"yes", "lazy"} : \A s \in {x \in Schedules : Applicable(x) /\ (md = "yes" \/ x \in LazySchedules)} :
         PrintT(<<"CASE", ToJson([mode |-> md, sched |-> s, ev |-> Weave(1, NoQAfter(s))])>>)
  ELSE TRUE
=============================================================================
