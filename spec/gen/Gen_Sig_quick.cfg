\* y v a ( ) { } m  up to 5 (every structural shape);  + s h i g o z up to 4;  every type code + brackets + m + z + NUL up to 3
CONSTANTS
  A1 = {121, 118, 97, 40, 41, 123, 125, 109}
  L1 = 5
  A2 = {121, 105, 115, 118, 97, 40, 41, 123, 125, 109, 104, 103, 111, 122}
  L2 = 4
  A3 = {121, 98, 110, 113, 105, 117, 120, 116, 100, 115, 111, 103, 104, 118, 97, 40, 41, 123, 125, 109, 122, 0}
  L3 = 3
INIT Init
NEXT Next
INVARIANT Emit
CHECK_DEADLOCK FALSE
