------------------------------ MODULE Gen_Sig ------------------------------
(***************************************************************************)
(* Bounded-exhaustive enumerator of signature strings (C06, spec -> impl).  *)
(*                                                                         *)
(* States are byte strings.  From the empty string, Next appends one byte   *)
(* as long as the result stays within one of the three (alphabet, length)   *)
(* levels, so the reachable states are exactly all strings of length <= Lk  *)
(* over Ak, k = 1..3 (TLC's workers share the work; a string belonging to   *)
(* several levels is one state).  The initial states additionally contain   *)
(* the boundary families                                                    *)
(* (length 254/255/256, 31/32/33 nested arrays / structs, dict-key rules,   *)
(* all type codes), which have no successors.                               *)
(* The invariant emits every state with the verdict of the grammar for the  *)
(* plain D-Bus build and the GVariant build, and for accepted strings the   *)
(* parse tree, the display form and the string length.                      *)
(***************************************************************************)
EXTENDS SigLaws, Json, IOUtils, TLC
CONSTANTS A1, L1,     \* enumerate all strings over the byte set A1 up to length L1,
          A2, L2,     \* ... and all strings over A2 up to length L2 (a wider alphabet, shorter strings),
          A3, L3      \* ... and all strings over A3 up to length L3 (every type code, very short strings)

Rep(n, x) == [i \in 1..n |-> x] \o <<>>   \* "\o" makes it a concrete tuple (a lazy function value is re-enumerated by every Len)
RECURSIVE Cat(_)
Cat(ss) == IF ss = <<>> THEN <<>> ELSE Head(ss) \o Cat(Tail(ss))

A == 97  LP == 40  RP == 41  LB == 123  RB == 125  Y == 121  S == 115  V == 118  M == 109

AllCodes == BasicBytes \cup {V}
\* bytes that are not type codes in D-Bus: 'z', 'e', 'r', '*', '?', 'A', ' ', NUL, 0xff, 'm' (GVariant only)
OtherBytes == {122, 101, 114, 42, 63, 65, 32, 0, 255, M}

\* single complete types used as dict keys / values / members in the rule families
KeyShapes == {<<c>> : c \in AllCodes \cup OtherBytes}
               \cup {<<A, Y>>, <<LP, Y, RP>>, <<A, LB, Y, Y, RB>>, <<M, Y>>, <<LB, Y, Y, RB>>, <<>>, <<Y, Y>>}

Families ==
  \* --- total length limit
  {[fam |-> "len", s |-> Rep(n, Y)] : n \in {254, 255, 256, 257}}
  \cup {[fam |-> "len", s |-> <<LP>> \o Rep(n - 2, Y) \o <<RP>>] : n \in {254, 255, 256}}
  \cup {[fam |-> "len", s |-> Cat(Rep(k, <<A, LB, S, V, RB>>)) \o Rep(r, Y)] : k \in {50, 51}, r \in {0, 1, 4, 5, 6}}
  \cup {[fam |-> "len", s |-> Cat(Rep(k, <<LP, A, Y, RP>>)) \o Rep(r, S)] : k \in {63, 64}, r \in {0, 1, 2, 3, 4}}
  \* --- nested arrays
  \cup {[fam |-> "adepth", s |-> Rep(k, A) \o tail] : k \in {1, 31, 32, 33, 34}, tail \in {<<Y>>, <<LP, Y, RP>>, <<V>>}}
  \cup {[fam |-> "adepth", s |-> Rep(k - 1, A) \o <<A, LB, S, V, RB>>] : k \in {31, 32, 33, 34}}
  \cup {[fam |-> "adepth", s |-> Cat(Rep(k - 1, <<A, LB, Y>>)) \o <<A, Y>> \o Rep(k - 1, RB)] : k \in {31, 32, 33}}
  \cup {[fam |-> "adepth", s |-> <<Y>> \o Rep(k, A) \o <<Y, Y>>] : k \in {32, 33}}
  \* depth is per nesting chain, not a total count: 40 sibling arrays of depth 1 / 2 chains of 32 are fine
  \cup {[fam |-> "adepth", s |-> Cat(Rep(40, <<A, Y>>))], [fam |-> "adepth", s |-> Rep(32, A) \o <<Y>> \o Rep(32, A) \o <<Y>>]}
  \* --- nested structs
  \cup {[fam |-> "sdepth", s |-> Rep(k, LP) \o tail \o Rep(k, RP)] : k \in {1, 31, 32, 33, 34}, tail \in {<<Y>>, <<A, Y>>, <<Y, S>>}}
  \cup {[fam |-> "sdepth", s |-> Cat(Rep(k, <<LP, Y>>)) \o Rep(k, RP)] : k \in {31, 32, 33}}
  \cup {[fam |-> "sdepth", s |-> Rep(32, LP) \o <<Y>> \o Rep(32, RP) \o Rep(32, LP) \o <<Y>> \o Rep(32, RP)]}
  \* --- both counters at their limits at once (independent counters)
  \cup {[fam |-> "mixdepth", s |-> Cat(Rep(k, <<A, LP>>)) \o <<Y>> \o Rep(k, RP)] : k \in {31, 32, 33}}
  \cup {[fam |-> "mixdepth", s |-> Rep(ka, A) \o Rep(ks, LP) \o <<Y>> \o Rep(ks, RP)] : ka \in {32, 33}, ks \in {32, 33}}
  \cup {[fam |-> "mixdepth", s |-> Rep(ks, LP) \o Rep(ka, A) \o <<Y>> \o Rep(ks, RP)] : ka \in {32, 33}, ks \in {32, 33}}
  \* --- dict-entry rules: every key shape x a few value shapes, entry outside an array, wrong arity
  \cup {[fam |-> "dict", s |-> <<A, LB>> \o key \o val \o <<RB>>] : key \in KeyShapes, val \in {<<Y>>, <<V>>, <<A, S>>, <<LP, Y, S, RP>>, <<>>, <<Y, Y>>}}
  \cup {[fam |-> "dict", s |-> pre \o <<LB, S, V, RB>> \o post] : pre \in {<<>>, <<LP>>, <<A, LP>>, <<Y>>}, post \in {<<>>, <<RP>>}}
  \cup {[fam |-> "dict", s |-> <<A, LB, S, A, LB, key, V, RB, RB>>] : key \in AllCodes}
  \* --- every type code alone, in an array, in a struct, after a maybe
  \cup {[fam |-> "codes", s |-> pre \o <<c>> \o post] : c \in AllCodes \cup OtherBytes \cup {A, LP, RP, LB, RB},
          pre \in {<<>>, <<A>>, <<LP>>, <<M>>, <<Y>>}, post \in {<<>>, <<RP>>, <<Y>>}}

VARIABLE c
Init == c \in {[fam |-> "enum", s |-> <<>>]} \cup Families
Within(t, alphabet, maxlen) == Len(t) <= maxlen /\ \A i \in 1..Len(t) : t[i] \in alphabet
Next == /\ c.fam = "enum"
        /\ \E b \in A1 \cup A2 \cup A3 :
             LET t == Append(c.s, b) IN
             /\ Within(t, A1, L1) \/ Within(t, A2, L2) \/ Within(t, A3, L3)
             /\ c' = [c EXCEPT !.s = t]

(* Alternative initial states: the strings of an ndjson file (seeded random long signatures drawn
   by the harness, or one stored case for --replay); used with INIT InitFile and no successors. *)
FileCases == ndJsonDeserialize(IOEnv.CASES)
InitFile == c \in {[fam |-> FileCases[i].fam, s |-> FileCases[i].s] : i \in 1..Len(FileCases)}
NextNone == FALSE /\ UNCHANGED c

CaseOf(x) ==
  LET p1 == ParseSig(x.s, TRUE)
      \* the two grammars differ only on strings containing 'm'
      p0 == IF \E i \in 1..Len(x.s) : x.s[i] = M THEN ParseSig(x.s, FALSE) ELSE p1 IN
  IF p1.ok
    THEN [s |-> x.s, fam |-> x.fam, ok |-> <<p0.ok, TRUE>>, ts |-> p1.ts,
          disp |-> DisplayOf(p1.ts), np |-> NoParensOf(p1.ts), len |-> StrLenOf(p1.ts)]
    ELSE [s |-> x.s, fam |-> x.fam, ok |-> <<FALSE, FALSE>>]

Emit == PrintT(<<"CASE", ToJson(CaseOf(c))>>)
=============================================================================
