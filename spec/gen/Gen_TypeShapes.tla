--------------------------- MODULE Gen_TypeShapes ---------------------------
(* Enumerates type-definition shapes of bounded depth; one state per shape; emits the shape with
   the signature it must declare.  LEVEL 1: containers over leaves; LEVEL 2: one more level over a
   reduced leaf set. *)
EXTENDS TypeShapes, Json, TLC
CONSTANT LEVEL
L(c) == [c |-> c]
Leaf == {L(c) : c \in Leafs}
LeafS == {L("u8"), L("u32"), L("u64"), L("string"), L("value"), L("bool")}
Keys == {L("u8"), L("u32"), L("string"), L("i64")}
UE == {[c |-> "unitenum", repr |-> r] : r \in {"u32", "u8", "str"}}
D1 == Leaf \cup UE
      \cup {[c |-> "vec", e |-> s] : s \in Leaf}
      \cup {[c |-> "map", k |-> k, v |-> s] : k \in Keys, s \in LeafS}
      \cup {[c |-> "tuple", f |-> <<s, t>>] : s \in LeafS, t \in LeafS}
      \cup {[c |-> "struct", f |-> <<s>>] : s \in Leaf}
      \cup {[c |-> "struct", f |-> <<s, t>>] : s \in LeafS, t \in Leaf}
      \cup {[c |-> "struct", f |-> <<s, t, u>>] : s \in {L("u8"), L("string")}, t \in {L("u64"), L("bool")}, u \in {L("u16"), L("value"), L("f64")}}
      \cup {[c |-> "tstruct", f |-> <<s, t>>] : s \in LeafS, t \in LeafS}
      \cup {[c |-> "newtype", e |-> s] : s \in Leaf}
      \cup {[c |-> "dataenum", vk |-> vk, e |-> s] : s \in LeafS, vk \in {"newtype", "tuple2", "struct1", "struct2"}}
      \cup {[c |-> "dict", f |-> <<s, t>>] : s \in {L("u32"), L("string")}, t \in {L("u8"), L("bool"), L("string"), L("u64")}}
Mid == {s \in D1 : s.c \in {"vec", "map", "tuple", "struct", "tstruct", "newtype", "dataenum", "unitenum", "dict"}}
D2 == D1 \cup {[c |-> "vec", e |-> s] : s \in Mid}
         \cup {[c |-> "struct", f |-> <<L("u8"), s>>] : s \in Mid}
         \cup {[c |-> "struct", f |-> <<s, L("u64")>>] : s \in Mid}
         \cup {[c |-> "newtype", e |-> s] : s \in Mid}
         \cup {[c |-> "map", k |-> L("string"), v |-> s] : s \in Mid}
         \cup {[c |-> "tuple", f |-> <<s, L("string")>>] : s \in Mid}
         \cup {[c |-> "dataenum", vk |-> vk, e |-> s] : s \in Mid \ {m \in Mid : m.c = "dict"}, vk \in {"newtype", "struct1"}}
(* second-level shapes that are part of every run: nestings on which the library was found to break (sequences of
   data-carrying enums, newtype variants with a structure payload) and one representative of every second-level family *)
Pair(a, b) == [c |-> "tuple", f |-> <<a, b>>]
Always ==
  {[c |-> "vec", e |-> [c |-> "dataenum", vk |-> vk, e |-> x]] : vk \in {"newtype", "tuple2", "struct1", "struct2"}, x \in {L("value"), L("string")}}
  \cup {[c |-> "dataenum", vk |-> "newtype", e |-> x] :
          x \in {Pair(L("u8"), L("u8")), Pair(L("bool"), L("value")), [c |-> "struct", f |-> <<L("u8"), L("string")>>],
                 [c |-> "tstruct", f |-> <<L("u32"), L("string")>>], [c |-> "newtype", e |-> L("ipv4")],
                 [c |-> "newtype", e |-> L("duration")]}}
  \cup {[c |-> "map", k |-> L("string"), v |-> [c |-> "dataenum", vk |-> "newtype", e |-> L("value")]],
        [c |-> "vec", e |-> [c |-> "struct", f |-> <<L("string"), L("value")>>]],
        [c |-> "struct", f |-> <<L("u8"), [c |-> "vec", e |-> L("string")]>>],
        [c |-> "newtype", e |-> [c |-> "map", k |-> L("u8"), v |-> L("string")]]}
(* std atomics: the type itself, behind a newtype, and as a field after a byte (so that its alignment shows) *)
Atoms == UNION {{L(a), [c |-> "newtype", e |-> L(a)], [c |-> "struct", f |-> <<L("u8"), L(a)>>]} : a \in AtomLeafs}
Shapes == (IF LEVEL = 1 THEN D1 \cup Always ELSE D2 \cup Always) \cup Atoms
VARIABLE s
Init == s \in Shapes
Next == UNCHANGED s
Emit == /\ Assert(WellFormed(s), <<"expected signature not a single complete type", s>>)
        /\ PrintT(<<"CASE", ToJson([shape |-> s, sig |-> ExpectedSig(s)])>>)
=============================================================================
