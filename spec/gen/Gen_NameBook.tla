---------------------------- MODULE Gen_NameBook ----------------------------
(***************************************************************************)
(* Enumerator of bus histories for C36 (spec -> impl): the behaviours of the *)
(* NameBook state machine (a bus that follows the D-Bus specification, other *)
(* peers taking / replacing / releasing the name, forged signals, signals    *)
(* about another name, API calls with every flag set), projected onto what   *)
(* the harness controls: API calls and the messages the bus sends, in order. *)
(* The client of the model only steers (it decides which calls reach the bus *)
(* and therefore get a scripted reply), so it is the client as built         *)
(* (DevLostForgets = TRUE in the cfg).  Every history that ends with a       *)
(* completed API call is emitted, once per schedule.                         *)
(***************************************************************************)
EXTENDS NameBook, Json
CONSTANTS NoiseKinds,     \* subset of {"forged", "other"}: forged signals about N / genuine ones about another name
          Schedules       \* "each": client runs after every message; "glue": only before API calls / at the end

VARIABLES hist            \* script so far
gvars == <<vars, hist>>

GInit == Init /\ hist = <<>>

Msgs(old, new) == SubSeq(new, Len(old) + 1, Len(new))
Item(m) == IF m.k = "sig" THEN [k |-> "sig", what |-> m.what, gen |-> m.gen, name |-> "N"]
           ELSE [k |-> "reply", code |-> m.code]
Items(ms) == [i \in 1..Len(ms) |-> Item(ms[i])]

\* bus-side and other-peer steps: record what they put on the wire
\* noise (a forged signal about N, or a genuine one about another name M) is injected only where a client
\* that wrongly accepted it would change state: "lost" while owner with replacement allowed, "acq" while queued
Matters(w) == IF w = "lost" THEN cl.L = "owner" /\ cl.allow ELSE cl.L = "queued"
BusStep == /\ (OtherTakes \/ OtherReplacesUs \/ OtherReleases \/ BusRequest \/ BusRelease
               \/ \E w \in {"acq", "lost"} : "forged" \in NoiseKinds /\ Matters(w) /\ Forge(w))
           /\ hist' = hist \o Items(Msgs(chan, chan'))
\* a genuine signal about another name: never concerns the client's bookkeeping of N (not part of `chan`)
OtherName(w) == /\ "other" \in NoiseKinds /\ Matters(w) /\ forged < MaxForged /\ forged' = forged + 1
                /\ hist' = Append(hist, [k |-> "sig", what |-> w, gen |-> TRUE, name |-> "M"])
                /\ UNCHANGED <<holder, inq, ballow, bdnq, chan, call, kn, cl, steps, wrong>>
ClientStep == Recv /\ UNCHANGED hist
ApiStep == \/ \E f \in FlagSets : ApiRequest(f) /\ hist' = Append(hist, [k |-> "req", flags |-> f])
           \/ ApiRelease /\ hist' = Append(hist, [k |-> "rel"])
GNext == BusStep \/ (\E w \in {"acq", "lost"} : OtherName(w)) \/ ClientStep \/ ApiStep

\* complete: nothing in flight and the script ends with an API call or the reply to one
Complete == /\ Idle /\ hist # <<>>
            /\ LET e == hist[Len(hist)] IN e.k \in {"req", "rel", "reply"}
RECURSIVE Weave(_, _)
Weave(i, s) ==
  IF i > Len(hist) THEN <<>>
  ELSE LET e == hist[i]
           q == \/ e.k \in {"req", "rel"}                    \* observe whether the call goes to the bus
                \/ s = "each"
                \/ i = Len(hist) \/ hist[i + 1].k \in {"req", "rel"}
       IN (IF q THEN <<e, [k |-> "q"]>> ELSE <<e>>) \o Weave(i + 1, s)
\* the glue schedule only differs when two messages are adjacent
HasAdjacent == \E i \in 1..(Len(hist) - 1) : hist[i].k \in {"sig", "reply"} /\ hist[i + 1].k \in {"sig", "reply"}
EmitCase ==
  IF Complete
  THEN \A s \in {x \in Schedules : x = "each" \/ HasAdjacent} :
         PrintT(<<"CASE", ToJson([sched |-> s, ev |-> Weave(1, s)])>>)
  ELSE TRUE
\* client steps do not change the script: a history is emitted once
View == <<hist, Idle>>
=============================================================================
