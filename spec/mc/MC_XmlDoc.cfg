INIT Init
NEXT Next
INVARIANT LawInverse
INVARIANT LawCanon
INVARIANT LawDevScope
CHECK_DEADLOCK FALSE
