INIT Init
NEXT Next
INVARIANT LawInverse
INVARIANT LawCanon
INVARIANT LawDevScope
INVARIANT LawWs
CHECK_DEADLOCK FALSE
