--------------------------- MODULE MC_ValueLaws ---------------------------
(***************************************************************************)
(* The order laws of ValueLaws are neither contradictory nor vacuous:       *)
(* on abstract tables (no real values, just the answer matrices)            *)
(*                                                                         *)
(*   OrderLawsHold(T)  <=>  T is induced by a ranking of its values         *)
(*                                                                         *)
(* checked (a) on ALL tables of 2 values (16 eq matrices x 81 cmp matrices  *)
(* x 4 hash vectors = 5 184 tables) and (b) on every table of 3 values that *)
(* a ranking induces (27 rankings x 27 hash maps, modulo equal tables) and  *)
(* every single-entry mutation of those (each entry of eq, cmp and hash set *)
(* to every other admissible value).  So every induced table satisfies the  *)
(* laws (satisfiable, not contradictory) and every single corruption that   *)
(* is not itself an induced table violates some law (no law is redundant    *)
(* in the sense of letting a wrong answer through).                         *)
(***************************************************************************)
EXTENDS ValueLaws, TLC

Mat(n, vals) == [1..n -> [1..n -> vals]]
Induced(T) == \E r \in [1..T.n -> 1..T.n] : InducedBy(T, r)

TableOf(n, r, h) ==
  [n |-> n,
   eq   |-> [i \in 1..n |-> [j \in 1..n |-> IF r[i] = r[j] THEN 1 ELSE 0]],
   cmp  |-> [i \in 1..n |-> [j \in 1..n |-> IF r[i] < r[j] THEN 0 ELSE IF r[i] = r[j] THEN 1 ELSE 2]],
   hash |-> [i \in 1..n |-> h[r[i]]]]

All2 == {[n |-> 2, eq |-> e, cmp |-> c, hash |-> h] : e \in Mat(2, {0, 1}), c \in Mat(2, {0, 1, 2}), h \in [1..2 -> 1..2]}
Induced3 == {TableOf(3, r, h) : r \in [1..3 -> 1..3], h \in [1..3 -> 1..3]}

VARIABLES T, gen
Init == /\ T \in All2 \cup Induced3
        /\ gen = 0
\* single-entry mutations of the induced 3-value tables
Next == /\ gen = 0 /\ T.n = 3
        /\ gen' = 1
        /\ \E i, j \in 1..3 :
             \/ \E x \in {0, 1} \ {T.eq[i][j]}     : T' = [T EXCEPT !.eq[i][j] = x]
             \/ \E x \in {0, 1, 2} \ {T.cmp[i][j]} : T' = [T EXCEPT !.cmp[i][j] = x]
             \/ \E x \in (1..3) \ {T.hash[i]}      : T' = [T EXCEPT !.hash[i] = x]

Characterised == OrderLawsHold(T) <=> Induced(T)
InducedSatisfy == (gen = 0 /\ T.n = 3) => OrderLawsHold(T)
=============================================================================
