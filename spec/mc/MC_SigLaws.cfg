\* y v a ( ) { } m z, all strings up to length 4 (7 381 states); the thorough configuration goes to length 5
CONSTANTS
  ALPHABET = {121, 118, 97, 40, 41, 123, 125, 109, 122}
  MAXLEN = 4
INIT Init
NEXT Next
INVARIANTS NoDevIsGrammar DevsOnlyAdd RoundTrip GvOnlyAdds StrEqSane DevWitnesses Counted
CHECK_DEADLOCK FALSE
