CONSTANTS
  NARGS = 2
INIT Init
NEXT Next
INVARIANT LawRoundTrip
INVARIANT LawRawSame
INVARIANT LawRawWrong
INVARIANT LawNaive
INVARIANT LawNormStable
INVARIANT Emit
CHECK_DEADLOCK FALSE
