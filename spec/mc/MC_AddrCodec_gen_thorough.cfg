CONSTANTS
  FULL = TRUE
INIT Init
NEXT Next
INVARIANT LawDenote
INVARIANT LawDevScope
INVARIANT LawNorm
INVARIANT Emit
CHECK_DEADLOCK FALSE
