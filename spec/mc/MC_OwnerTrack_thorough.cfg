SPECIFICATION Spec
CONSTANTS
  MaxMsgs = 6
  DevBufferedRelease = FALSE
CONSTRAINT Bound
INVARIANTS OnlyOwnersSignals AllOwnersSignals TrackedIsOwner
CHECK_DEADLOCK FALSE
