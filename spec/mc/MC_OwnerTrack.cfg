SPECIFICATION Spec
CONSTANTS
  MaxMsgs = 5
  DevBufferedRelease = FALSE
CONSTRAINT Bound
INVARIANTS OnlyOwnersSignals AllOwnersSignals TrackedIsOwner
CHECK_DEADLOCK FALSE
