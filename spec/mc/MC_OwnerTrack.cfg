SPECIFICATION Spec
CONSTANTS
  MaxMsgs = 4
  DevBufferedRelease = FALSE
CONSTRAINT Bound
INVARIANTS OnlyOwnersSignals AllOwnersSignals TrackedIsOwner
CHECK_DEADLOCK FALSE
