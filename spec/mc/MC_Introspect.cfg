CONSTANTS
  NIFACE = 8
  NTREE = 4
  SEED = 0
INIT Init
NEXT Next
INVARIANT SelfCheck
CHECK_DEADLOCK FALSE
