SPECIFICATION Spec
CONSTANTS
  MaxMsgs = 5
  Changes <- MCChanges
INVARIANTS CacheIsFold ReadyIffSnapshot NeverCachesUncached
CHECK_DEADLOCK FALSE
