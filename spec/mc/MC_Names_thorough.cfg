\* a Z 0 _ - . : /  up to length 5 (37 449 states)
CONSTANTS
  ALPHABET = {97, 90, 48, 95, 45, 46, 58, 47}
  MAXLEN = 5
INIT Init
NEXT Next
INVARIANTS Relations SplitForm Witnesses
CHECK_DEADLOCK FALSE
