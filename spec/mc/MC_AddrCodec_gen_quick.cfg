CONSTANTS
  FULL = FALSE
INIT Init
NEXT Next
INVARIANT LawPct
INVARIANT LawPctErr
INVARIANT LawDenote
INVARIANT LawDevScope
INVARIANT LawNorm
INVARIANT Emit
CHECK_DEADLOCK FALSE
