INIT Init
NEXT Next
INVARIANT LawInverse
INVARIANT LawCanon
INVARIANT LawDevScope
INVARIANT Emit
CHECK_DEADLOCK FALSE
