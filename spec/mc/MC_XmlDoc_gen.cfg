INIT Init
NEXT Next
INVARIANT LawInverse
INVARIANT LawCanon
INVARIANT LawDevScope
INVARIANT LawWs
INVARIANT Emit
CHECK_DEADLOCK FALSE
