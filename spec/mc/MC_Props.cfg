CONSTANTS
  Table <- McTable
  InitVal <- McInit
  SetValues <- McSetValues
SPECIFICATION Spec
INVARIANTS TypeOK ValueIsLastAcceptedSet GetReturnsCurrent GetAllExactlyReadable
PROPERTIES ErrorsChangeNothing OnlyWritableChange TypesKept SignalPerSet
CHECK_DEADLOCK FALSE
