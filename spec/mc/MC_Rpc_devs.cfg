CONSTANTS
  Prog <- McProg
  Calls <- McCalls
  DEVS <- AllDevs
SPECIFICATION Spec
INVARIANTS C26_Explained C26_AtMostOneReply
CHECK_DEADLOCK FALSE
