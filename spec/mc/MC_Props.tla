------------------------------ MODULE MC_Props ------------------------------
(***************************************************************************)
(* Exhaustive check of Props.tla over a table that has every access mode    *)
(* with every emits mode that matters, and Set values of right, near-wrong  *)
(* and wrong types.                                                         *)
(***************************************************************************)
EXTENDS Props
P(n, ty, acc, em) == [name |-> n, rust |-> n, ty |-> ty, access |-> acc, emits |-> em, async |-> FALSE, mutset |-> TRUE, doc |-> <<>>]
McTable == << P("A", TU, "readwrite", "true"), P("B", TS, "read", "invalidates"), P("C", TU, "write", "true"),
              P("D", TUS, "readwrite", "const"), P("E", TS, "readwrite", "false"), P("F", TU, "readwrite", "invalidates"),
              P("G", TS, "read", "true") >>
McInit == [n \in Names(McTable) |-> Val(PropOf(McTable, n).ty, 3)]
McSetValues == {TVal(TU, 1), TVal(TU, 2), TVal(TS, 1), TVal(TUS, 1), TVal(TI, 1), TVal(TO, 1)}
=============================================================================
