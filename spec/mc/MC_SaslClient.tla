--------------------------- MODULE MC_SaslClient ---------------------------
(* Exhaustive check of SaslClient over every reply sequence up to CMaxLen x every configuration. *)
EXTENDS SaslClient
G1 == <<48, 49>>     \* abstract GUID values: "same" and "other"
G2 == <<50, 51>>
MCCCfgs == [canfd : BOOLEAN, exp : {<<>>, G1}]
OKc(g, v) == [k |-> "OK", g |-> g, guid |-> v]
MCCCmds == {OKc("valid", G1), OKc("valid", G2), OKc("invalid", <<52>>), OKc("uuidform", <<53>>)}
           \cup {[k |-> x] : x \in {"REJECTED", "ERROR", "DATA", "AGREE_UNIX_FD", "UNKNOWN", "BADEND", "LFSTART"}}
MInit == CInit /\ net = <<>> /\ rbuf = <<>> /\ taken = <<>>
MNext == CNext /\ UNCHANGED svars
=============================================================================
