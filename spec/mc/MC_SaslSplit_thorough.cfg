CONSTANTS
  Cfgs <- MCCfgs
  Cmds <- MCCmds
  MaxLen = 0
  SplitLen = 7
INIT SplInit
NEXT SplStep
INVARIANT SplitterAgrees
CHECK_DEADLOCK FALSE
