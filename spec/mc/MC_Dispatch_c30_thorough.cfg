CONSTANTS
  DEVS = {}
  NCalls = 3
  KindSet = {"meth", "methmut", "get", "set", "intro", "ping"}
  BodySet <- Bodies_c30
  SpawnSet = {TRUE, FALSE}
INIT MCInit
NEXT Next
INVARIANTS TypeOK C29 NoLoss
