CONSTANTS
  DEVS = {}
  Vals = {1, 2}
  MaxLen = 4
INIT Init
NEXT Next
CONSTRAINT Bound
INVARIANTS TypeOK RegIsWhatHistoryImplies ResultOk NoPanic MirrorOk SignalsCarryCurrentProps
PROPERTY OnlyOwnPair
CHECK_DEADLOCK FALSE
