---------------------------- MODULE MC_MsgReader ----------------------------
(***************************************************************************)
(* Exhaustive check of the tolerant reader of MsgLayout (part 3) on every   *)
(* stream of LEN messages over an alphabet of real byte strings: two normal *)
(* messages, messages with an unknown field (lowest / highest code), with   *)
(* unknown flag bits, of unknown type (5, 255), of type 0 (INVALID) and     *)
(* with a wrong protocol version.  DEVS = {} is the specification; a        *)
(* non-empty DEVS is a named deviation and must break NeverStopsOnTolerated *)
(* (run by the check as a non-vacuity test).                                *)
(***************************************************************************)
EXTENDS Gen_MsgBase, TLC
CONSTANTS LEN, DEVS

Alphabet == { NormA(TRUE), NormB(FALSE), OddField(10, 1, 3, TRUE), OddField(255, 3, 1, FALSE),
              OddFlag(8, TRUE), OddFlag(255, FALSE), OddType(5, TRUE), OddType(255, FALSE),
              OddType(0, TRUE), Invalid(TRUE) }
\* parse results of the alphabet, evaluated once (constant definition)
P == [m \in Alphabet |-> ParseMsg(m)]
VARIABLES st, rest, hist
vars == <<st, rest, hist>>

MCInit == st = ReaderInit /\ rest \in [1..LEN -> Alphabet] /\ hist = <<>>
Step(a) == /\ rest # <<>> /\ st.status = "Reading"
           /\ ActionOf(P[Head(rest)], DEVS) = a                 \* = ReaderAction(Head(rest), DEVS)
           /\ st' = ReaderStep(st, P[Head(rest)], DEVS)         \* = ReaderRead(st, Head(rest), DEVS)
           /\ rest' = Tail(rest) /\ hist' = Append(hist, Head(rest))
           /\ PrintT(<<"ACT", a>>)          \* vacuity guard: the check counts the actions taken
Deliver == Step("Deliver")
Skip    == Step("Skip")
Stop    == Step("Stop")
MCNext == Deliver \/ Skip \/ Stop

\* C13, stated on the history without the machine:
\* the reader never stops on a message that is valid (known or unknown type, fields, flags)
NeverStopsOnTolerated == st.status = "Stopped" => ~P[hist[Len(hist)]].ok      \* ~Tolerated(last)
\* delivered = the consumed messages of known type, in order, as long as all were valid
DeliveredRight ==
  LET valid == {i \in 1..Len(hist) : P[hist[i]].ok}
      upto  == IF valid = 1..Len(hist) THEN Len(hist) ELSE (CHOOSE i \in 1..Len(hist) : i \notin valid /\ \A j \in 1..(i - 1) : j \in valid) - 1
  IN st.delivered = SelectSeq([i \in 1..upto |-> i], LAMBDA i : ~P[hist[i]].skip)
\* nothing is consumed after a stop; every message is consumed otherwise
Progress == st.pos = Len(hist) /\ (st.status = "Reading" /\ rest # <<>> => ENABLED MCNext)
=============================================================================
