---------------------------- MODULE MC_ObjTree ----------------------------
(* Exhaustive model checking of ObjTree (C24, C25).                                           *)
(*   MC_ObjTree_hist*.cfg : every history of at/remove up to MaxLen; the history is part of    *)
(*                          the state, so the declarative "what the history implies"           *)
(*                          invariant is checked on every history, not on one per registry.    *)
(*                          (TLC evaluates invariants on generated states before applying      *)
(*                          CONSTRAINT: histories of length MaxLen are checked, shorter ones    *)
(*                          are expanded.)                                                     *)
(*   MC_ObjTree_deep.cfg  : the complete reachable graph of registries (history hidden by      *)
(*                          VIEW, no length bound; invariants about `last` are then only       *)
(*                          checked on the first path to each registry -- the hist configs     *)
(*                          check them on every history).                                      *)
(*   MC_ObjTree_devs2x.cfg: the same with the deviations on -- must violate (sanity: the          *)
(*                          invariants can see the defects the deviations describe).           *)
EXTENDS ObjTree, TLC
CONSTANT MaxLen
Bound == Len(hist) < MaxLen
View  == <<reg, mirror>>
=============================================================================
