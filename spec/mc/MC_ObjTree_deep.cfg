CONSTANTS
  DEVS = {}
  Vals = {1}
  MaxLen = 0
INIT Init
NEXT Next
VIEW View
INVARIANTS TypeOK RegIsWhatHistoryImplies ResultOk NoPanic MirrorOk SignalsCarryCurrentProps
PROPERTY OnlyOwnPair
CHECK_DEADLOCK FALSE
