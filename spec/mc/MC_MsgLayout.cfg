CONSTANTS
  FULL = FALSE
INIT Init
NEXT Next
INVARIANT Law
CHECK_DEADLOCK FALSE
