CONSTANTS
  SPACE = "thin"
INIT Init
NEXT Next
INVARIANT Law
CHECK_DEADLOCK FALSE
