------------------------------ MODULE MC_Conn ------------------------------
EXTENDS Conn
MC_Callers == {1, 2, 3}
MC_NoReply == {3}
MC_Streams == {"s1", "s2", "s3"}
MC_Rules == {"r1", "r2"}
MC_RuleOf == [s \in MC_Streams |-> IF s = "s3" THEN "r2" ELSE "r1"]
MC_Sigs == {101, 102}
MC_SigRules == [g \in MC_Sigs |-> IF g = 101 THEN {"r1"} ELSE {"r1", "r2"}]
\* history variables do not influence behaviour: fingerprint without them
View == <<pc, cur, cact, res, wlock, wire, net, rd, q, head, open, closed, subs, sst, scur, answered, strays, sigsSent, faults, faulted,
          [s \in Streams |-> Len(should[s]) - Len(got[s])]>>
=============================================================================
