----------------------------- MODULE MC_Depths -----------------------------
EXTENDS Depths
\* the stack is a history variable for the exact-count invariant; fingerprint on counters + a digest
DView == <<arr, str, var, failed, Len(stack), IF stack = <<>> THEN "" ELSE stack[Len(stack)]>>
=============================================================================
