CONSTANTS
  Callers <- MC_Callers
  NoReply <- MC_NoReply
  Streams = {}
  RuleOf <- MC_RuleOf
  Rules = {}
  Cap = 1
  CapMR = 2
  Sigs = {}
  SigRules <- MC_SigRules
  MaxStray = 0
  MaxFault = 1
  SubscribeFirst = TRUE
  CloneCounts = TRUE
SPECIFICATION Spec
INVARIANTS OwnReply ReplyWasSent NoReplyImmediate IoErrOnlyAfterFault Complete NoLostReply

VIEW View
CHECK_DEADLOCK FALSE
