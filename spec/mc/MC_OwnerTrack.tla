--------------------------- MODULE MC_OwnerTrack ---------------------------
(* Exhaustive check of OwnerTrack: every bus behaviour of at most MaxMsgs messages, every interleaving
   of the socket reader with the stream set-up and filter code.  MC_OwnerTrack_dev.cfg switches the
   recorded deviation on; TLC must then report a violation (the counterexample is the known finding). *)
EXTENDS OwnerTrack
\* the unread part of the socket is bounded to keep the space small; order is what matters, not depth
Bound == Len(wire) <= 3
=============================================================================
