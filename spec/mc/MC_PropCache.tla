---------------------------- MODULE MC_PropCache ----------------------------
(* Exhaustive check of PropCache: the GetAll reply and up to MaxMsgs - 1 PropertiesChanged signals (own / other
   interface, change / invalidate, cached / uncached property, stranger sender, other object) in every arrival
   order, every interleaving of the socket reader with the cache task. *)
EXTENDS PropCache
NoP == [x \in {} |-> 0]
MCChanges == {
  [iface |-> "own",   src |-> "svc",      path |-> "own",   changed |-> [P |-> 5],  inval |-> <<>>],
  [iface |-> "own",   src |-> "svc",      path |-> "own",   changed |-> [Q |-> 6],  inval |-> <<"P">>],
  [iface |-> "own",   src |-> "svc",      path |-> "own",   changed |-> NoP,        inval |-> <<"Q">>],
  [iface |-> "other", src |-> "svc",      path |-> "own",   changed |-> [P |-> 7],  inval |-> <<"Q">>],
  [iface |-> "own",   src |-> "svc",      path |-> "own",   changed |-> [U |-> 8],  inval |-> <<>>],
  [iface |-> "own",   src |-> "stranger", path |-> "own",   changed |-> [P |-> 9],  inval |-> <<>>],
  [iface |-> "own",   src |-> "svc",      path |-> "other", changed |-> [Q |-> 10], inval |-> <<>>] }
=============================================================================
