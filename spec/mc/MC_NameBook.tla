---------------------------- MODULE MC_NameBook ----------------------------
(* Exhaustive check of NameBook: every behaviour of a specification-conforming bus (other peers taking,
   replacing, releasing the name), forged signals, and API calls with every flag set, up to MaxSteps steps.
   MC_NameBook_dev.cfg switches the recorded deviation on; TLC must then report NoWrongLocalAnswer violated. *)
EXTENDS NameBook
=============================================================================
