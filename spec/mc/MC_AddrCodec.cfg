CONSTANTS
  FULL = FALSE
INIT Init
NEXT Next
INVARIANT LawDenote
INVARIANT LawDevScope
INVARIANT LawNorm
CHECK_DEADLOCK FALSE
