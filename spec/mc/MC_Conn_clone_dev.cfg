CONSTANTS
  Callers = {}
  NoReply = {}
  Streams <- MC_Streams
  RuleOf <- MC_RuleOf
  Rules <- MC_Rules
  Cap = 1
  CapMR = 2
  Sigs <- MC_Sigs
  SigRules <- MC_SigRules
  MaxStray = 0
  MaxFault = 0
  SubscribeFirst = TRUE
  CloneCounts = FALSE
SPECIFICATION Spec
INVARIANTS NoEarlyEnd NoLostReply OwnReply StreamPrefix SubRefcount Complete IoErrOnlyAfterFault
VIEW View
CHECK_DEADLOCK FALSE
