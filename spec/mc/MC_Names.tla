----------------------------- MODULE MC_Names -----------------------------
(***************************************************************************)
(* Exhaustive check of the name predicates against themselves: all strings  *)
(* up to MAXLEN over ALPHABET are states.  Invariants:                      *)
(*   Relations   the relations the D-Bus specification states between the   *)
(*               kinds (error = interface; interface names are well-known   *)
(*               bus names without '-'; a bus name is unique or well-known, *)
(*               never both except the bus driver's; member names contain   *)
(*               no '.')                                                    *)
(*   SplitForm   every index-quantifier predicate of Names agrees with an   *)
(*               independent formulation by recursive splitting into        *)
(*               elements                                                   *)
(*   Witnesses   (at the empty string only) the examples of the D-Bus       *)
(*               specification and of the crate documentation, the 255 /    *)
(*               256 byte limits and the GUID forms have the verdicts the   *)
(*               texts give -- so no predicate is vacuously true or false   *)
(***************************************************************************)
EXTENDS Names, TLC
CONSTANTS ALPHABET, MAXLEN

VARIABLE s
Init == s = <<>>
Next == Len(s) < MAXLEN /\ \E b \in ALPHABET : s' = Append(s, b)

(* ---- second formulation: split into elements, then judge each element ---- *)
RECURSIVE SplitAt(_,_,_,_)
\* elements of t separated by sep (an empty t has one empty element)
SplitAt(t, sep, cur, acc) ==
  IF t = <<>> THEN Append(acc, cur)
  ELSE IF Head(t) = sep THEN SplitAt(Tail(t), sep, <<>>, Append(acc, cur))
  ELSE SplitAt(Tail(t), sep, Append(cur, Head(t)), acc)
Split(t, sep) == SplitAt(t, sep, <<>>, <<>>)
AllOf(e, P(_)) == \A i \in 1..Len(e) : P(e[i])

IfaceElem(e) == Len(e) >= 1 /\ AllOf(e, IsWord) /\ ~IsDigit(e[1])
WkElem(e)    == Len(e) >= 1 /\ AllOf(e, IsBusChar) /\ ~IsDigit(e[1])
UqElem(e)    == Len(e) >= 1 /\ AllOf(e, IsBusChar)
PathElem(e)  == Len(e) >= 1 /\ AllOf(e, IsWord)
Every(es, P(_)) == \A i \in 1..Len(es) : P(es[i])

Interface2(t) == Len(t) <= 255 /\ LET es == Split(t, Dot) IN Len(es) >= 2 /\ Every(es, IfaceElem)
WellKnown2(t) == Len(t) <= 255 /\ LET es == Split(t, Dot) IN Len(es) >= 2 /\ Every(es, WkElem)
Unique2(t)    == \/ t = BusDriverName
                 \/ /\ Len(t) <= 255 /\ t # <<>> /\ Head(t) = Colon
                    /\ LET es == Split(Tail(t), Dot) IN Len(es) >= 2 /\ Every(es, UqElem)
Member2(t)    == Len(t) <= 255 /\ IfaceElem(t)
Path2(t)      == t # <<>> /\ Head(t) = Slash /\ (Len(t) = 1 \/ Every(Split(Tail(t), Slash), PathElem))

SplitForm ==
  /\ InterfaceNameOk(s) <=> Interface2(s)
  /\ WellKnownNameOk(s) <=> WellKnown2(s)
  /\ UniqueNameOk(s)    <=> Unique2(s)
  /\ MemberNameOk(s)    <=> Member2(s)
  /\ ObjectPathOk(s)    <=> Path2(s)

Relations ==
  /\ ErrorNameOk(s) <=> InterfaceNameOk(s)
  /\ InterfaceNameOk(s) <=> (WellKnownNameOk(s) /\ \A i \in 1..Len(s) : s[i] # Hyphen)
  /\ BusNameOk(s) <=> (UniqueNameOk(s) \/ WellKnownNameOk(s))
  /\ ~(PeerUniqueNameOk(s) /\ WellKnownNameOk(s))
  /\ MemberNameOk(s) => (PropertyNameOk(s) /\ \A i \in 1..Len(s) : s[i] # Dot)
  /\ ~GuidOk(s)                              \* nothing this short is a GUID

(* ---- witnesses ---- *)
Rep(n, x) == [i \in 1..n |-> x] \o <<>>
W_unique   == <<58, 49, 46, 52, 50>>                                  \* ":1.42"
W_dotted   == <<111, 114, 103, 46, 97, 45, 98, 46, 67, 95, 48>>      \* "org.a-b.C_0"
W_iface    == <<111, 114, 103, 46, 97, 98, 46, 67, 95, 48>>          \* "org.ab.C_0"
W_digit    == <<97, 46, 48, 98>>                                      \* "a.0b"
W_member   == <<71, 101, 116, 65, 108, 108, 95, 50>>                  \* "GetAll_2"
W_path     == <<47, 111, 114, 103, 47, 97, 95, 49>>                   \* "/org/a_1"
Hex32      == <<48,49,50,51,52,53,54,55,56,57,97,98,99,100,101,102,65,66,67,68,69,70,48,49,50,51,52,53,54,55,56,57>>
Uuid36     == SubSeq(Hex32, 1, 8) \o <<45>> \o SubSeq(Hex32, 9, 12) \o <<45>> \o SubSeq(Hex32, 13, 16) \o <<45>>
              \o SubSeq(Hex32, 17, 20) \o <<45>> \o SubSeq(Hex32, 21, 32)
Witnesses ==
  s = <<>> =>
    /\ UniqueNameOk(W_unique) /\ BusNameOk(W_unique) /\ ~WellKnownNameOk(W_unique) /\ ~InterfaceNameOk(W_unique)
    /\ WellKnownNameOk(W_dotted) /\ BusNameOk(W_dotted) /\ ~InterfaceNameOk(W_dotted) /\ ~UniqueNameOk(W_dotted)
    /\ InterfaceNameOk(W_iface) /\ ErrorNameOk(W_iface) /\ WellKnownNameOk(W_iface) /\ ~MemberNameOk(W_iface)
    /\ ~InterfaceNameOk(W_digit) /\ ~WellKnownNameOk(W_digit) /\ UniqueNameOk(<<Colon>> \o W_digit)
    /\ MemberNameOk(W_member) /\ PropertyNameOk(W_member) /\ ~InterfaceNameOk(W_member) /\ ~ObjectPathOk(W_member)
    /\ ObjectPathOk(W_path) /\ ObjectPathOk(<<Slash>>) /\ ~ObjectPathOk(W_path \o <<Slash>>) /\ ~ObjectPathOk(<<Slash, Slash>>)
    /\ ~ObjectPathOk(Tail(W_path)) /\ ~ObjectPathOk(<<>>)
    /\ UniqueNameOk(BusDriverName) /\ WellKnownNameOk(BusDriverName) /\ InterfaceNameOk(BusDriverName)
    /\ ~UniqueNameOk(BusDriverName \o <<120>>) /\ ~PeerUniqueNameOk(BusDriverName)
    \* the limits: 255 bytes accepted, 256 refused, for every kind of name; none for object paths
    /\ MemberNameOk(Rep(255, 97)) /\ ~MemberNameOk(Rep(256, 97)) /\ PropertyNameOk(Rep(255, 32)) /\ ~PropertyNameOk(Rep(256, 32))
    /\ ~PropertyNameOk(<<>>) /\ ~MemberNameOk(<<>>)
    /\ InterfaceNameOk(<<97, Dot>> \o Rep(253, 97)) /\ ~InterfaceNameOk(<<97, Dot>> \o Rep(254, 97))
    /\ WellKnownNameOk(<<97, Dot>> \o Rep(253, 45)) /\ ~InterfaceNameOk(<<97, Dot>> \o Rep(253, 45))   \* '-' is a bus-name character only
    /\ WellKnownNameOk(<<97, Dot>> \o Rep(253, 97)) /\ ~WellKnownNameOk(<<97, Dot>> \o Rep(254, 97))
    /\ UniqueNameOk(<<Colon, 49, Dot>> \o Rep(252, 49)) /\ ~UniqueNameOk(<<Colon, 49, Dot>> \o Rep(253, 49))
    /\ ObjectPathOk(<<Slash>> \o Rep(400, 97))
    \* GUIDs: exactly 32 hex digits, either case; no UUID punctuation
    /\ GuidOk(Hex32) /\ ~GuidOk(SubSeq(Hex32, 1, 31)) /\ ~GuidOk(Hex32 \o <<48>>) /\ ~GuidOk(Uuid36)
    /\ ~GuidOk(<<103>> \o SubSeq(Hex32, 2, 32)) /\ ~GuidOk(SubSeq(Hex32, 1, 31) \o <<71>>) /\ ~GuidOk(<<>>)
    /\ ~GuidOk(<<123>> \o SubSeq(Hex32, 1, 30) \o <<125>>) /\ ~GuidOk(SubSeq(Hex32, 1, 31) \o <<32>>)
=============================================================================
