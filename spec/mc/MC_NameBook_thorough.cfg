SPECIFICATION Spec
CONSTANTS
  MaxSteps = 8
  MaxForged = 2
  DevLostForgets = FALSE
INVARIANTS NoWrongLocalAnswer KnowledgeIsBusState
CHECK_DEADLOCK FALSE
