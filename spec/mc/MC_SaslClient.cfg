CONSTANTS
  CCfgs <- MCCCfgs
  CCmds <- MCCCmds
  CMaxLen = 4
INIT MInit
NEXT MNext
INVARIANTS DoneOnlyOnOk CapIffAgreed ConsumedLines CNeverPanic
CHECK_DEADLOCK FALSE
