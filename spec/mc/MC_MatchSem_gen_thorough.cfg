CONSTANTS
  MAXKEYS = 2
  MAXKEYS_RED = 3
INIT Init
NEXT Next
INVARIANT LawEmpty
INVARIANT LawMonotone
INVARIANT LawPathNs
INVARIANT LawLax
INVARIANT LawDevScope
INVARIANT Emit
CHECK_DEADLOCK FALSE
