----------------------------- MODULE MC_RuleStr -----------------------------
(***************************************************************************)
(* Exhaustive check, over the rule universe of Gen_MatchStr, that the        *)
(* string form of MatchSem is consistent: the conformant reader reads the    *)
(* canonical spelling of every rule back as that rule; the unescaped         *)
(* spelling (deviation "display_unescaped") is the same string exactly when  *)
(* no value contains an apostrophe, and otherwise does not denote the rule;  *)
(* the naive comma-splitting reader (deviation "parser_naive_split") agrees  *)
(* with the conformant one on canonical strings without commas, apostrophes. *)
(***************************************************************************)
EXTENDS Gen_MatchStr

Values(r) == {r.args[j].v : j \in 1..Len(r.args)}
HasApos(r)  == \E v \in Values(r) : Contains(v, APOS)
HasComma(r) == \E v \in Values(r) : Contains(v, COMMA)

LawRoundTrip == ParseRule(RuleStr(rule)) = [ok |-> TRUE, rule |-> rule]
LawRawSame   == ~HasApos(rule) <=> RuleStrRaw(rule) = RuleStr(rule)
LawRawWrong  == HasApos(rule) => ParseRule(RuleStrRaw(rule)) # [ok |-> TRUE, rule |-> rule]
LawNaive     == (~HasApos(rule) /\ ~HasComma(rule) /\ rule # [args |-> <<>>, arg_paths |-> <<>>])
                   => ParseRuleNaive(RuleStr(rule)) = ParseRule(RuleStr(rule))
(* commas inside quotes are fine for the conformant reader *)
LawNormStable == NormRule(rule) = rule
=============================================================================
