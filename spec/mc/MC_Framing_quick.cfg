CONSTANTS
  HDR = 2
  MaxN = 3
  MaxLen = 3
  MaxLen3 = 2
  devs = {}
  Total <- MCTotal
  TooLarge <- MCTooLarge
  Skip <- MCSkip
INIT Init
NEXT Next
INVARIANTS Prefix FdsOwn SeqIncreasing RejectWithoutReading NoFdsError Complete
PROPERTY NoReadAfterReject
CHECK_DEADLOCK FALSE
