--------------------------- MODULE MC_Introspect ---------------------------
(***************************************************************************)
(* Self-check of the comparator of Introspect.tla over the generated        *)
(* programs: for every node of every registration tree the document         *)
(* *rendered* from the expectation is accepted (NodeFaults = {}), and each  *)
(* of a set of single mutations of it (interface dropped / added, child     *)
(* dropped, argument type changed, out argument flattened / wrapped,        *)
(* property access or annotation changed) is rejected with the right        *)
(* clause.  One state = (tree, node, mutation).                             *)
(***************************************************************************)
EXTENDS Introspect
CONSTANTS NIFACE, NTREE, SEED

McShapes == [j \in 1..NIFACE |-> IfaceShape(j - 1, SEED)]
ProgT(t) == [shapes |-> McShapes, regs |-> TreeRegs(t, NIFACE)]

RArgs(m) == [i \in 1..Len(InTypes(m)) |-> [name |-> "a", type |-> SigStr(InTypes(m)[i]), dir |-> "in"]]
            \o [i \in 1..Len(OutTypes(m)) |-> [name |-> "", type |-> SigStr(OutTypes(m)[i]), dir |-> "out"]]
RIface(sh) ==
  [name |-> sh.name,
   methods |-> [i \in 1..Len(sh.methods) |-> [name |-> sh.methods[i].name, args |-> RArgs(sh.methods[i])]],
   signals |-> [i \in 1..Len(sh.signals) |->
                  [name |-> sh.signals[i].name,
                   args |-> [j \in 1..Len(sh.signals[i].args) |-> [name |-> "a", type |-> SigStr(sh.signals[i].args[j]), dir |-> ""]]]],
   props |-> [i \in 1..Len(sh.props) |->
                [name |-> sh.props[i].name, type |-> PropSig(sh.props[i]), access |-> sh.props[i].access,
                 annots |-> IF EffEmits(sh.props[i]) = "true" THEN <<>>
                            ELSE <<[name |-> EmitsAnnotation, value |-> EffEmits(sh.props[i])]>>]]]
StdIface(n) == [name |-> n, methods |-> <<>>, signals |-> <<>>, props |-> <<>>]
RECURSIVE RNode(_, _)
RNode(prog, segs) ==
  LET ks == SetToSeq(IfacesAt(prog.regs, segs))
      cs == SetToSeq(ChildrenOf(prog.regs, segs))
      st == SetToSeq(StdIfaceNames) IN
  [ifaces |-> [i \in 1..Len(st) |-> StdIface(st[i])] \o [i \in 1..Len(ks) |-> RIface(ShapeById(prog.shapes, ks[i]))],
   nodes  |-> [i \in 1..Len(cs) |-> [name |-> cs[i], node |-> RNode(prog, Append(segs, cs[i]))]]]

Mutations == {"none", "drop-iface", "add-iface", "drop-child", "arg-type", "flatten-out", "access", "annotation", "nested"}
FirstGen(doc) == CHOOSE i \in 1..Len(doc.ifaces) : doc.ifaces[i].name \notin StdIfaceNames
HasGen(doc) == \E i \in 1..Len(doc.ifaces) : doc.ifaces[i].name \notin StdIfaceNames

Applicable(doc, mu) ==
  CASE mu \in {"none", "add-iface"} -> TRUE
    [] mu = "drop-iface" -> HasGen(doc)
    [] mu = "drop-child" -> doc.nodes # <<>>
    [] mu = "nested" -> doc.nodes # <<>>
    [] mu = "arg-type" -> HasGen(doc) /\ \E m \in SeqSet(doc.ifaces[FirstGen(doc)].methods) : m.args # <<>>
    [] mu = "flatten-out" -> HasGen(doc) /\ \E m \in SeqSet(doc.ifaces[FirstGen(doc)].methods) : \E a \in SeqSet(m.args) : a.dir = "out"
    [] mu \in {"access", "annotation"} -> HasGen(doc) /\ doc.ifaces[FirstGen(doc)].props # <<>>

Mutate(doc, mu) ==
  LET g == FirstGen(doc) IN
  CASE mu = "none" -> doc
    [] mu = "drop-iface" -> [doc EXCEPT !.ifaces = SelectSeq(doc.ifaces, LAMBDA i : i.name # doc.ifaces[g].name)]
    [] mu = "add-iface" -> [doc EXCEPT !.ifaces = Append(doc.ifaces, StdIface("org.verif.Ghost"))]
    [] mu = "drop-child" -> [doc EXCEPT !.nodes = Tail(doc.nodes)]
    [] mu = "nested" -> [doc EXCEPT !.nodes[1].node.ifaces = Append(doc.nodes[1].node.ifaces, StdIface("org.verif.Ghost"))]
    [] mu = "arg-type" ->
         LET mi == CHOOSE i \in 1..Len(doc.ifaces[g].methods) : doc.ifaces[g].methods[i].args # <<>> IN
         [doc EXCEPT !.ifaces[g].methods[mi].args[1].type = "t"]
    [] mu = "flatten-out" ->
         LET mi == CHOOSE i \in 1..Len(doc.ifaces[g].methods) : \E a \in SeqSet(doc.ifaces[g].methods[i].args) : a.dir = "out" IN
         [doc EXCEPT !.ifaces[g].methods[mi].args = Append(@, [name |-> "", type |-> "u", dir |-> "out"])]
    [] mu = "access" ->
         [doc EXCEPT !.ifaces[g].props[1].access = IF @ = "read" THEN "readwrite" ELSE "read"]
    [] mu = "annotation" ->
         [doc EXCEPT !.ifaces[g].props[1].annots = IF @ = <<>> THEN <<[name |-> EmitsAnnotation, value |-> "false"]>> ELSE <<>>]

Expected(doc, mu) ==
  LET g == FirstGen(doc) IN
  CASE mu = "none" -> {}
    [] mu \in {"drop-iface", "add-iface"} -> {"c27-interfaces"}
    [] mu = "drop-child" -> {"c27-children"}
    [] mu = "nested" -> {"c27-nested-node:" \o doc.nodes[1].name}
    [] OTHER -> {"c27-members:" \o doc.ifaces[g].name}

VARIABLE c
Init == c \in {[t |-> t, segs |-> p, mu |-> mu] : t \in 0..(NTREE - 1), p \in UNION {Nodes(TreeRegs(t, NIFACE)) : t \in 0..(NTREE - 1)}, mu \in Mutations}
Next == UNCHANGED c
SelfCheck ==
  LET prog == ProgT(c.t) IN
  (c.segs \in Nodes(prog.regs) /\ Applicable(RNode(prog, c.segs), c.mu)) =>
     NodeFaults(prog, Mutate(RNode(prog, c.segs), c.mu), c.segs) = Expected(RNode(prog, c.segs), c.mu)
=============================================================================
