CONSTANTS
  Pkgs <- TPkgs
  ProcMacros <- TProcMacros
  Features <- TFeatures
  Items <- TItems
  Edges <- TEdges
  Couplings <- TCouplings
  Requires <- TRequires
  Resolver = "1"
SPECIFICATION MCSpec
INVARIANTS TypeOK Sound Complete ProcMacroOnHost FeaturesOnUnits LinksClosed NoHostLeak
  SplitBreaksCoupling SplitBreaksPair WeakDoesNotActivate NonWeakActivates DirectIsCoherent
PROPERTIES Monotone Terminates
CHECK_DEADLOCK FALSE
