CONSTANTS
  Prog <- McProg
  Calls <- McCalls
  DEVS <- NoDevs
SPECIFICATION Spec
INVARIANTS C26_CallOk C26_AtMostOneReply C26_NoReplyMeansNone C26_HandlerIffMatch
PROPERTY C26_Answered
CHECK_DEADLOCK FALSE
