SPECIFICATION Spec
CONSTANTS
  MaxMsgs = 3
  DevBufferedRelease = TRUE
CONSTRAINT Bound
INVARIANTS OnlyOwnersSignals AllOwnersSignals TrackedIsOwner
CHECK_DEADLOCK FALSE
