CONSTANTS
  MAXKEYS = 1
  MAXKEYS_RED = 2
INIT Init
NEXT Next
INVARIANT LawEmpty
INVARIANT LawMonotone
INVARIANT LawPathNs
INVARIANT LawLax
INVARIANT LawDevScope
INVARIANT Emit
CHECK_DEADLOCK FALSE
