\* a Z 0 _ - . : /  up to length 4 (4 681 states); the thorough configuration goes to length 5
CONSTANTS
  ALPHABET = {97, 90, 48, 95, 45, 46, 58, 47}
  MAXLEN = 4
INIT Init
NEXT Next
INVARIANTS Relations SplitForm Witnesses
CHECK_DEADLOCK FALSE
