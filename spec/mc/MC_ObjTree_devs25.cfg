CONSTANTS
  DEVS = {"nearest_only"}
  Vals = {1}
  MaxLen = 4
INIT Init
NEXT Next
CONSTRAINT Bound
INVARIANTS MirrorOk
CHECK_DEADLOCK FALSE
