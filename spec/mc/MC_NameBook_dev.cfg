SPECIFICATION Spec
CONSTANTS
  MaxSteps = 6
  MaxForged = 1
  DevLostForgets = TRUE
INVARIANTS NoWrongLocalAnswer KnowledgeIsBusState
CHECK_DEADLOCK FALSE
