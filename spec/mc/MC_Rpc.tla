------------------------------- MODULE MC_Rpc -------------------------------
(***************************************************************************)
(* Exhaustive check of the one-call state machine of Rpc.tla against the   *)
(* C26 predicates, over a small program (two interfaces on a two-level      *)
(* tree; methods without arguments, with one structure argument, with two   *)
(* arguments, fallible and not, every out kind) and every call class        *)
(* (right / wrong types / missing / extra / restructured arguments, wrong   *)
(* path, parent path, wrong / other / no interface, wrong member) with and  *)
(* without NO_REPLY_EXPECTED.                                               *)
(***************************************************************************)
EXTENDS Rpc

M(n, ins, out, f) == [name |-> n, rust |-> n, ins |-> ins, out |-> out, async |-> FALSE, mut |-> FALSE, fallible |-> f, doc |-> <<>>]
O(k, ts) == [kind |-> k, ts |-> ts]
McShapes ==
  << [id |-> 0, name |-> "org.verif.A", rust |-> "A",
      methods |-> << M("Zero", <<>>, O("unit", <<>>), FALSE),
                     M("One", <<TUS>>, O("single", <<TU>>), TRUE),
                     M("Two", <<TU, TS>>, O("tuple", <<TU, TS>>), FALSE) >>,
      props |-> <<>>, signals |-> <<>>],
     [id |-> 1, name |-> "org.verif.B", rust |-> "B",
      methods |-> << M("Zero", <<TS>>, O("stuple", <<TU, TS>>), TRUE),
                     M("Vec", <<TV>>, O("vec", <<TUS>>), FALSE) >>,
      props |-> <<>>, signals |-> <<>>] >>
McRegs == << Reg(<<"a", "b">>, 0), Reg(<<"a", "b">>, 1), Reg(<<"c">>, 1) >>
McProg == [shapes |-> McShapes, regs |-> McRegs]

ArgLists == { <<>>, <<TVal(TU, 1)>>, <<TVal(TS, 1)>>, <<TVal(TUS, 1)>>, <<TVal(TU, 1), TVal(TS, 2)>>, <<TVal(TI, 1), TVal(TS, 1)>>,
              <<TVal(TU, 1), TVal(TS, 2), TVal(TU, 2)>>, <<TVal(TV, 2)>>, <<TVal(St(<<TU, TS, TU>>), 1)>> }
McCalls ==
  { [path |-> p, iface |-> i, member |-> m, args |-> a, noreply |-> n] :
      p \in {"/a/b", "/a", "/c", "/zz"}, i \in {"org.verif.A", "org.verif.B", "org.verif.Nope", ""},
      m \in {"Zero", "One", "Two", "Vec", "Nope"}, a \in ArgLists, n \in BOOLEAN }
NoDevs == {}
=============================================================================
