---------------------------- MODULE MC_MsgLayout ----------------------------
(* Self-check of spec/MsgLayout.tla: on every message of the (thinned or full)
   C11 space, ParseMsg o MsgBytes is the identity, the body offset is a multiple
   of 8, declared lengths / fd counts are the actual ones and TotalLen frames it. *)
EXTENDS Gen_MsgBuild
=============================================================================
