CONSTANTS
  Cfgs <- MCCfgs
  Cmds <- MCCmds
  MaxLen = 3
  SplitLen = 0
INIT SrvInit
NEXT SrvNext
INVARIANTS OkSound AuthSound RejectedForUnsupported ErrorForUnknownOrMisplaced NeverPanic RightPeerAccepted
CHECK_DEADLOCK FALSE
