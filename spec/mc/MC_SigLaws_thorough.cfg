\* y s v a ( ) { } m z, all strings up to length 5 (111 111 states)
CONSTANTS
  ALPHABET = {121, 115, 118, 97, 40, 41, 123, 125, 109, 122}
  MAXLEN = 5
INIT Init
NEXT Next
INVARIANTS NoDevIsGrammar DevsOnlyAdd RoundTrip GvOnlyAdds StrEqSane DevWitnesses Counted
CHECK_DEADLOCK FALSE
