CONSTANTS
  LEN = 3
  DEVS = {}
INIT MCInit
NEXT MCNext
INVARIANT NeverStopsOnTolerated
INVARIANT DeliveredRight
INVARIANT Progress
CHECK_DEADLOCK FALSE
