CONSTANTS
  LEN = 3
  DEVS = {"unknown_flag_rejected"}
INIT MCInit
NEXT MCNext
INVARIANT NeverStopsOnTolerated
INVARIANT DeliveredRight
INVARIANT Progress
CHECK_DEADLOCK FALSE
