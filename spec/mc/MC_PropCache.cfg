SPECIFICATION Spec
CONSTANTS
  MaxMsgs = 4
  Changes <- MCChanges
INVARIANTS CacheIsFold ReadyIffSnapshot NeverCachesUncached
CHECK_DEADLOCK FALSE
