CONSTANTS
  Cfgs <- MCCfgs
  Cmds <- MCCmds
  MaxLen = 0
  SplitLen = 6
INIT SplInit
NEXT SplStep
INVARIANT SplitterAgrees
CHECK_DEADLOCK FALSE
