CONSTANTS
  Handles = {"conn", "clone", "stream"}
  Calls = {1}
  NOTIFY_ALL = FALSE
SPECIFICATION LSpec
INVARIANTS ClosedOnlyWhenUnreferenced ShutdownAfterReplies
PROPERTIES ClosesEventually ShutdownCompletes
CHECK_DEADLOCK FALSE
