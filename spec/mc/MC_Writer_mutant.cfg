CONSTANTS
  Tasks = {1, 2, 3}
  NMsgs = 2
  MsgLen = 3
  HasFds = {1, 3}
  LockPerChunk = TRUE
  FdsEveryChunk = FALSE
INIT WInit
NEXT WNext
INVARIANTS WireWhole FdsWithFirstBytes PerTaskOrder Quiet
CHECK_DEADLOCK FALSE
