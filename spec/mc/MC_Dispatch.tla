---------------------------- MODULE MC_Dispatch ----------------------------
(* Exhaustive model checking of Dispatch (C29, C30): every interleaving of the client, the socket   *)
(* reader, the dispatcher and the handler tasks for every configuration of NCalls calls drawn from  *)
(* KindSet x BodySet, with the interface's spawn flag from SpawnSet.                                 *)
(*   MC_Dispatch_c29.cfg   3 method calls (&self / &mut self), handlers with two yield points or a    *)
(*                         yield and an object-server mutation; spawn disabled and enabled            *)
(*   MC_Dispatch_c30.cfg   3 calls over all five kinds, every handler yields and mutates the object   *)
(*                         server; deadlock check, NoLoss (_thorough: also emitting handlers;         *)
(*                         c29_thorough: 4 calls)                                                     *)
(*   MC_Dispatch_cov.cfg   2 calls, all kinds, run with -coverage: every action must be taken         *)
(*   MC_Dispatch_live.cfg  2 calls, all kinds: additionally <>(every call answered) under fairness    *)
(*   MC_Dispatch_dev_*.cfg one deviation on: TLC must report the deadlock / the lost call             *)
EXTENDS Dispatch
CONSTANTS NCalls, KindSet, BodySet, SpawnSet

Bodies_c29  == {<<"y", "y">>, <<"y", "w">>}
Bodies_c30  == {<<"y", "w">>, <<"e", "y">>}
Bodies_c30q == {<<"y", "w">>}
Bodies_live == {<<"y", "w", "y">>, <<"e", "y">>}
Bodies_dev  == {<<"y", "w">>}

CallCfgs == {c \in [kind : KindSet, body : BodySet \cup {<<>>}] :
               IF c.kind \in {"intro", "ping"} THEN c.body = <<>> ELSE c.body \in BodySet}
Cfgs == [spawn : SpawnSet, calls : [1..NCalls -> CallCfgs]]
MCInit == \E c \in Cfgs : InitWith(c)
MCSpec == MCInit /\ [][Next]_vars /\ Fairness
=============================================================================
