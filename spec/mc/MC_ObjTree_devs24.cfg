CONSTANTS
  DEVS = {"prune", "root_panic"}
  Vals = {1}
  MaxLen = 4
INIT Init
NEXT Next
CONSTRAINT Bound
INVARIANTS RegIsWhatHistoryImplies NoPanic
CHECK_DEADLOCK FALSE
