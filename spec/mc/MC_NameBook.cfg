SPECIFICATION Spec
CONSTANTS
  MaxSteps = 6
  MaxForged = 1
  DevLostForgets = FALSE
INVARIANTS NoWrongLocalAnswer KnowledgeIsBusState
CHECK_DEADLOCK FALSE
