CONSTANTS
  MAXKEYS = 1
  MAXKEYS_RED = 2
INIT Init
NEXT Next
INVARIANT LawEmpty
INVARIANT LawMonotone
INVARIANT LawPathNs
INVARIANT LawLax
INVARIANT LawDevScope
CHECK_DEADLOCK FALSE
