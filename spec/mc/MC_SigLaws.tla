---------------------------- MODULE MC_SigLaws ----------------------------
(***************************************************************************)
(* Exhaustive check of the signature specification against itself: all      *)
(* strings up to MAXLEN over ALPHABET are states; the invariants say        *)
(*   NoDevIsGrammar  the deviation-parameterised parser of SigLaws with no   *)
(*                   deviation is exactly SigGrammar!ParseSig                *)
(*   DevsOnlyAdd     a deviation never rejects what the grammar accepts,    *)
(*                   and accepting under D implies accepting under AllDevs  *)
(*   RoundTrip       formatting the parse tree of an accepted string gives  *)
(*                   the string back; display = string, or "(" string ")"   *)
(*                   exactly for several complete types                     *)
(*   GvOnlyAdds      the GVariant extension accepts a superset, with the    *)
(*                   same trees; without 'm' both grammars agree            *)
(*   StrEqSane       the string-comparison judgement is "T" for the string  *)
(*                   itself and its display form, never "F" for no-parens   *)
(*   DevWitnesses    each deviation is exactly the one rule it drops         *)
(*   Counted         non-vacuity: the numbers of accepted strings of length *)
(*                   1, 2, 3 over {y a ( )} are 1, 2, 5 (y | yy ay | yyy    *)
(*                   yay ayy aay (y))                                       *)
(***************************************************************************)
EXTENDS SigLaws, TLC
CONSTANTS ALPHABET, MAXLEN

VARIABLE s
Init == s = <<>>
Next == Len(s) < MAXLEN /\ \E b \in ALPHABET : s' = Append(s, b)

NoDevIsGrammar == \A gv \in BOOLEAN : ParseSigD(s, gv, {}) = ParseSig(s, gv)

DevsOnlyAdd ==
  \A gv \in BOOLEAN :
    /\ \A d \in AllDevs : ValidSig(s, gv) => (ParseSigD(s, gv, {d}) = ParseSig(s, gv))
    /\ \A d \in AllDevs : ParseSigD(s, gv, {d}).ok => ParseSigD(s, gv, AllDevs).ok
    /\ ValidSig(s, gv) => ExplainingDevs(s, gv) = {{}}

RoundTrip ==
  \A gv \in BOOLEAN :
    LET p == ParseSig(s, gv) IN
    p.ok => /\ FmtSeq(p.ts) = s
            /\ DisplayOf(p.ts) = (IF Len(p.ts) >= 2 THEN <<40>> \o s \o <<41>> ELSE s)
            /\ StrLenOf(p.ts) = Len(s) + (IF Len(p.ts) >= 2 THEN 2 ELSE 0)
            /\ ParseSig(DisplayOf(p.ts), gv).ok
            /\ NoParensOf(ParseSig(DisplayOf(p.ts), gv).ts) = NoParensOf(p.ts)

GvOnlyAdds ==
  /\ ValidSig(s, FALSE) => ParseSig(s, TRUE) = ParseSig(s, FALSE)
  /\ (\A i \in 1..Len(s) : s[i] # 109) => ParseSig(s, TRUE) = ParseSig(s, FALSE)

StrEqSane ==
  \A gv \in BOOLEAN :
    LET p == ParseSig(s, gv) IN
    p.ok => /\ StrEqMust(s, p.ts, s) = "T"
            /\ StrEqMust(s, p.ts, DisplayOf(p.ts)) = "T"
            /\ StrEqMust(s, p.ts, NoParensOf(p.ts)) # "F"
            /\ StrEqMust(s, p.ts, s \o <<121>>) = "F"
            /\ StrEqExplainedBy(s, p.ts, s \o <<121>>, 0) = ""

(* Each named deviation is exactly the rule it drops: a witness string that breaks only that rule is
   accepted under that deviation alone and under no combination of the others. *)
Rep(n, x) == [i \in 1..n |-> x] \o <<>>   \* "\o" makes it a concrete tuple (a lazy function value is re-enumerated by every Len)
Witness == [no_len_limit      |-> Rep(256, 121),
            no_array_depth    |-> Rep(33, 97) \o <<121>>,
            no_struct_depth   |-> Rep(33, 40) \o <<121>> \o Rep(33, 41),
            nonbasic_dict_key |-> <<97, 123, 118, 121, 125>>]
DevWitnesses ==
  s = <<>> => \A d \in AllDevs : \A gv \in BOOLEAN :
     /\ ~ValidSig(Witness[d], gv)
     /\ ParseSigD(Witness[d], gv, {d}).ok
     /\ ~ParseSigD(Witness[d], gv, AllDevs \ {d}).ok
     /\ ExplainingDevs(Witness[d], gv) = {{d}}

Small == {121, 97, 40, 41}
ValidOfLen(n) == {t \in [1..n -> Small] : ValidSig(t, FALSE)}
Counted == s = <<>> => /\ Cardinality(ValidOfLen(1)) = 1
                       /\ Cardinality(ValidOfLen(2)) = 2
                       /\ Cardinality(ValidOfLen(3)) = 5
=============================================================================
