CONSTANTS
  DEVS = {}
  NCalls = 3
  KindSet = {"meth", "methmut", "methnr"}
  BodySet <- Bodies_c29
  SpawnSet = {TRUE, FALSE}
INIT MCInit
NEXT Next
INVARIANTS TypeOK C29 NoLoss
