INIT Init
NEXT Next
INVARIANTS Characterised InducedSatisfy
CHECK_DEADLOCK FALSE
