------------------------------ MODULE MC_Sasl ------------------------------
(***************************************************************************)
(* Exhaustive checks for C16:                                              *)
(*  (a) SaslServer over every command sequence up to MaxLen, every         *)
(*      configuration: OkSound, AuthSound, RejectedForUnsupported,         *)
(*      ErrorForUnknownOrMisplaced, NeverPanic, RightPeerAccepted;         *)
(*  (b) (config MC_SaslSplit) the incremental line splitter of Sasl agrees *)
(*      with the function TakeLines for every short stream over            *)
(*      {NUL, CR, LF, 'A'} and every chunking.                             *)
(***************************************************************************)
EXTENDS SaslServer

MCCfgs == [mech : {"EXT", "ANON"}, creds : BOOLEAN, canfd : BOOLEAN]
A(m, i) == [k |-> "AUTH", mech |-> m, id |-> i]
MCCmds ==
  {A("EXT", i) : i \in {"none", "match", "mismatch", "nonnum", "badhex", "ambig"}}
  \cup {A("ANON", i) : i \in {"none", "match", "badhex"}}
  \cup {A("OTHER", i) : i \in {"none", "match"}} \cup {A("NONE", "none")}
  \cup {[k |-> "DATA", id |-> i] : i \in {"empty", "match", "mismatch", "nonnum", "badhex", "ambig"}}
  \cup {[k |-> x] : x \in {"BEGIN", "CANCEL", "ERROR", "NEGOTIATE_UNIX_FD", "BADEND", "LFSTART", "NONUL"}}
  \cup {[k |-> "UNKNOWN", v |-> "word"]}

VARIABLE whole
SrvInit == Init /\ net = <<>> /\ rbuf = <<>> /\ taken = <<>> /\ whole = <<>>
SrvNext == Next /\ UNCHANGED <<svars, whole>>

(* (b) the splitter *)
CONSTANTS SplitLen
Alphabet == {NUL, CR, LF, 65}
RECURSIVE Seqs(_)
Seqs(n) == IF n = 0 THEN {<<>>} ELSE LET S == Seqs(n - 1) IN S \cup {Append(s, c) : s \in {x \in S : Len(x) = n - 1}, c \in Alphabet}
SplInit == /\ whole \in Seqs(SplitLen) /\ net = whole /\ rbuf = <<>> /\ taken = <<>>
           /\ cfg = [mech |-> "EXT", creds |-> TRUE, canfd |-> TRUE] /\ st = "WaitAuth" /\ hist = <<>>
SplStep == SplNext /\ UNCHANGED <<whole, vars>>
SplitterAgrees == SplAgrees(whole)
=============================================================================
