CONSTANTS
  Threads = {1, 2, 3}
  PerThread = 2
  M = 8
  Start = {0, 1, 5, 6, 7}
  Atomic = TRUE
INIT SInit
NEXT SNext
INVARIANTS NeverZero Distinct
CHECK_DEADLOCK FALSE
