CONSTANTS
  DEVS = {}
  Vals = {1, 2}
  MaxLen = 2
INIT Init
NEXT Next
CONSTRAINT Bound
INVARIANTS TypeOK RegIsWhatHistoryImplies ResultOk NoPanic MirrorOk SignalsCarryCurrentProps
CHECK_DEADLOCK FALSE
