CONSTANTS
  DEVS = {}
  NCalls = 2
  KindSet = {"meth", "methmut", "get", "set", "intro", "ping"}
  BodySet <- Bodies_live
  SpawnSet = {TRUE, FALSE}
SPECIFICATION MCSpec
INVARIANTS TypeOK C29 NoLoss
PROPERTY EveryCallAnswered
