---------------------------- MODULE MC_MatchSem ----------------------------
(***************************************************************************)
(* Exhaustive check of laws the match semantics of MatchSem must satisfy,   *)
(* over the (rule, message) universe of Gen_Match: the specification's own   *)
(* sanity, independent of zbus.                                             *)
(***************************************************************************)
EXTENDS Gen_Match

EmptyRule == [args |-> <<>>, arg_paths |-> <<>>]
Without(r, f) == [g \in (DOMAIN r) \ {f} |-> r[g]]

(* a rule with no keys selects every message *)
LawEmpty == ph = 1 => Matches(EmptyRule, msg)

(* every key only restricts: dropping a key never loses a match *)
LawMonotone ==
  ph = 1 /\ Matches(rule, msg) =>
    /\ \A f \in (DOMAIN rule) \ {"args", "arg_paths"} : Matches(Without(rule, f), msg)
    /\ rule.args # <<>> => Matches([rule EXCEPT !.args = Tail(@)], msg)
    /\ rule.arg_paths # <<>> => Matches([rule EXCEPT !.arg_paths = Tail(@)], msg)

(* path='p' is stronger than path_namespace='p'; path_namespace='/' only asks for a path *)
LawPathNs ==
  ph = 1 =>
    /\ (Has(rule, "path") /\ Matches(rule, msg))
          => Matches(Without(rule, "path") @@ [path_namespace |-> rule.path], msg)
    /\ (Has(rule, "path_namespace") /\ rule.path_namespace = Root /\ Has(msg, "path"))
          => (Matches(rule, msg) <=> Matches(Without(rule, "path_namespace"), msg))

(* namespaces are ordered by containment *)
Paths == {Root, PA, PAB, PAb, PB}
LawNsOrder ==
  /\ \A p \in Paths : InNamespace(p, p) /\ InNamespace(Root, p)
  /\ \A p, q, r \in Paths : InNamespace(p, q) /\ InNamespace(q, r) => InNamespace(p, r)
  /\ \A p, q \in Paths : InNamespace(p, q) /\ InNamespace(q, p) => p = q
  /\ ~InNamespace(PA, PAb) /\ InNamespace(PA, PAB)
(* the path-like argument match is symmetric in its two strings *)
LawPathLikeSym == \A a, b \in Strs : PathLikeMatch(a, b) <=> PathLikeMatch(b, a)

(* the two readings of arg0namespace differ only for rules that have the key *)
LawLax == ph = 1 /\ Cardinality(Verdicts(rule, msg, {})) = 2 => Has(rule, "arg0ns")

(* every listed deviation is a different semantics: it only ever concerns its own key *)
LawDevScope ==
  ph = 1 =>
    /\ (MatchesD(rule, msg, {"ns_starts_with"}, FALSE) # Matches(rule, msg)) => Has(rule, "path_namespace")
    /\ (MatchesD(rule, msg, {"argpath_objpath_exact"}, FALSE) # Matches(rule, msg)) => rule.arg_paths # <<>>
    /\ (MatchesD(rule, msg, {"dest_absent_matches"}, FALSE) # Matches(rule, msg)) => Has(rule, "destination") /\ ~Has(msg, "destination")
(* constant laws: evaluated once at start-up *)
ASSUME LawNsOrder
ASSUME LawPathLikeSym
=============================================================================
