CONSTANTS
  DEVS = {"intro_holds_root"}
  NCalls = 2
  KindSet = {"methmut", "get", "set", "intro"}
  BodySet <- Bodies_dev
  SpawnSet = {TRUE}
INIT MCInit
NEXT Next
INVARIANTS NoLoss
