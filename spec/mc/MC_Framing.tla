---------------------------- MODULE MC_Framing ----------------------------
(***************************************************************************)
(* Exhaustive check of Framing for every small environment: 1..MaxN        *)
(* messages of HDR..MaxLen abstract bytes, 0..2 fds each travelling with   *)
(* the first and/or last byte, every tail (none / over-long header plus a  *)
(* junk byte / truncated message), with and without a preceding handshake  *)
(* that over-reads any number of bytes, every chunking of the transport.   *)
(* An abstract byte is a record; the first byte of a message carries the   *)
(* length the fixed header would declare.                                  *)
(***************************************************************************)
EXTENDS Framing, TLC
CONSTANTS MaxN, MaxLen, MaxLen3

MCTotal(b) == b[1].len
MCTooLarge(b) == b[1].big
MCSkip(b) == FALSE      \* (skipped messages are exercised by the trace validation: Gen_Framing stream unk1)

FdCfgs == {<<>>, <<"F">>, <<"L">>, <<"F", "F">>, <<"F", "L">>}
Shapes == [len : HDR..MaxLen, f : FdCfgs]
\* with three messages only the smaller shapes (keeps the run short)
Shapes3 == [len : HDR..MaxLen3, f : {<<>>, <<"F">>, <<"L">>}]

Bytes(i, len, big) == [k \in 1..len |-> [m |-> i, k |-> k, len |-> len, big |-> big]]
IdsOf(i, f, tag) == LET s == SelectSeq([j \in 1..Len(f) |-> [t |-> f[j], id |-> 10 * i + j]], LAMBDA r : r.t = tag)
                    IN [j \in 1..Len(s) |-> s[j].id]
MsgFds(i, f) == [j \in 1..Len(f) |-> 10 * i + j]

RECURSIVE Start(_, _)
Start(shs, i) == IF i = 1 THEN 0 ELSE Start(shs, i - 1) + shs[i - 1].len

AttOf(shs) ==
  LET ents == Flat([i \in 1..Len(shs) |->
                 (IF IdsOf(i, shs[i].f, "F") # <<>> THEN <<[pos |-> Start(shs, i) + 1, ids |-> IdsOf(i, shs[i].f, "F")]>> ELSE <<>>)
              \o (IF IdsOf(i, shs[i].f, "L") # <<>> THEN <<[pos |-> Start(shs, i) + shs[i].len, ids |-> IdsOf(i, shs[i].f, "L")]>> ELSE <<>>)])
  IN ents

Tails == {"none", "big", "partial"}
TailBytes(t, i) ==
  CASE t = "none" -> <<>>
    [] t = "big" -> Bytes(i, HDR, TRUE) \o <<[m |-> i, k |-> HDR + 1, len |-> 0, big |-> FALSE]>>
    [] t = "partial" -> SubSeq(Bytes(i, HDR + 1, FALSE), 1, HDR)   \* one byte short

EnvInit(shs, t, e) ==
  /\ sent = [i \in 1..Len(shs) |-> [bytes |-> Bytes(i, shs[i].len, FALSE), fds |-> MsgFds(i, shs[i].f)]]
  /\ stream = Flat([i \in 1..Len(shs) |-> Bytes(i, shs[i].len, FALSE)]) \o TailBytes(t, Len(shs) + 1)
  /\ att = AttOf(shs)
  /\ eof = e

Init ==
  \E n \in 1..MaxN :
    \E shs \in (IF n <= 2 THEN [1..n -> Shapes] ELSE [1..n -> Shapes3]) :
      \E t \in Tails : \E e \in BOOLEAN : \E hs \in BOOLEAN :
        EnvInit(shs, t, e) /\ ReaderInit(hs)

Spec == Init /\ [][Next]_vars
=============================================================================
