---------------------------- MODULE MC_Features ----------------------------
(***************************************************************************)
(* Exhaustive check of the resolver state machine of Features.tla on a      *)
(* small synthetic workspace that has one of everything the rules mention:  *)
(* a proc-macro, a build dependency, an optional dependency activated by    *)
(* `dep:`, by `name/feat` and NOT by the weak `name?/feat`, a default       *)
(* feature, default-features = false, features requested on an edge, a      *)
(* dev-dependency cycle (ignored), and one cfg coupling (lib.lx <-> util.g) *)
(* that the host/target split can break exactly like the zvariant one.      *)
(*                                                                         *)
(* Checked for every selection and every order of rule applications:        *)
(* Sound, Complete (confluence: every order ends in Resolution(sel)),       *)
(* ProcMacroOnHost, FeaturesOnUnits, LinksClosed, NoHostLeak, Monotone,     *)
(* Terminates; and the two facts about the coupling that make the model     *)
(* useful (SplitBreaksCoupling, SplitBreaksPair; with MC_Features_r1.cfg,   *)
(* i.e. host and target unified as resolver 1 did, the same pair is         *)
(* coherent: the defect class exists only because of the split).            *)
(***************************************************************************)
EXTENDS Features

F(p, f) == [p |-> p, f |-> f]
I(p, f, k, d, g, w) == [p |-> p, f |-> f, k |-> k, d |-> d, g |-> g, weak |-> w]
E(from, to, kind, opt, dflt, fs) ==
  [from |-> from, to |-> to, as |-> to, kind |-> kind, optional |-> opt, defaults |-> dflt, feats |-> fs,
   act |-> CASE to = "opt" -> "dep:opt" [] OTHER -> "dep:none"]

TPkgs == {"app", "lib", "mac", "util", "opt", "bld"}
TProcMacros == {"mac"}
TFeatures == {F("app", "default"), F("app", "x"), F("app", "y"), F("app", "w"), F("app", "z"), F("app", "opt"),
              F("lib", "lx"), F("lib", "default"), F("mac", "mg"), F("util", "g"), F("opt", "ox")}
TItems == {
  I("app", "default", "feat", "", "x", FALSE),
  I("app", "x", "depfeat", "lib", "lx", FALSE),      \* lib/lx
  I("app", "y", "depfeat", "mac", "mg", FALSE),      \* mac/mg   (lands in the host domain)
  I("app", "w", "depfeat", "opt", "ox", TRUE),       \* opt?/ox  (weak: does not activate opt)
  I("app", "z", "depfeat", "opt", "ox", FALSE),      \* opt/ox   (activates opt)
  I("app", "opt", "dep", "opt", "dep:opt", FALSE),   \* implicit feature of the optional dependency
  I("lib", "lx", "depfeat", "util", "g", FALSE),
  I("mac", "mg", "depfeat", "util", "g", FALSE),
  I("opt", "ox", "depfeat", "util", "g", FALSE),
  I("lib", "default", "feat", "", "lx", FALSE)}
TEdges == {
  E("app", "lib", "normal", FALSE, FALSE, {}),        \* default-features = false
  E("app", "mac", "normal", FALSE, TRUE, {}),
  E("app", "opt", "normal", TRUE, TRUE, {}),
  E("app", "bld", "build", FALSE, TRUE, {}),
  E("lib", "util", "normal", FALSE, TRUE, {}),
  E("mac", "util", "normal", FALSE, TRUE, {}),
  E("mac", "lib", "normal", FALSE, FALSE, {}),
  E("opt", "util", "normal", FALSE, TRUE, {}),
  E("bld", "util", "normal", FALSE, TRUE, {}),
  E("util", "lib", "dev", FALSE, TRUE, {"lx"})}        \* dev cycle: never part of a downstream build
TCouplings == {[id |-> "lib.lx<->util.g", user |-> "lib", uf |-> "lx", prov |-> "util", pf |-> "g", src |-> "toy"]}
TRequires == {}

Root(p, fs, dflt) == [to |-> p, feats |-> fs, defaults |-> dflt]
AppFeats == {"x", "y", "w", "z", "opt"}
TSelections ==
  {{Root("app", fs, dflt)} : fs \in {s \in SUBSET AppFeats : Cardinality(s) <= 1}, dflt \in BOOLEAN}
  \cup {{Root("app", fs, FALSE)} : fs \in {{"y", "z"}, {"x", "y"}, {"w", "opt"}}}
  \cup {{Root("lib", fs, dflt)} : fs \in SUBSET {"lx"}, dflt \in BOOLEAN}
  \cup {{Root("mac", fs, TRUE)} : fs \in SUBSET {"mg"}}
  \cup {{Root("app", {"y"}, FALSE), Root("lib", fs, FALSE)} : fs \in SUBSET {"lx"}}
  \cup {{Root("mac", {"mg"}, TRUE), Root("util", {}, TRUE)}}

MCInit == InitWith(TSelections)
MCNext == Step
MCSpec == MCInit /\ [][MCNext]_vars /\ WF_vars(MCNext)

(* The interesting consequences, stated on the toy workspace.
   app[y] enables mac/mg -> util/g on the HOST copy of util, which mac's host copy of lib (lx off) links. *)
SplitBreaksCoupling ==
  (Resolver = "2" /\ Resolved(facts) /\ sel = {Root("app", {"y"}, FALSE)})
     => Incoherences(facts) = {[id |-> "lib.lx<->util.g", dom |-> "host", lacks |-> "user"]}
(* the shape of the zbus + zvariant[gvariant] defect: the downstream crate asks for lib[lx] (target: coherent) and
   for app[y]; the proc-macro's host copy of lib has lx off but its util has g on.  Unified (resolver 1) there is
   one copy of lib, with lx, and the configuration is coherent. *)
PairSel == {Root("app", {"y"}, FALSE), Root("lib", {"lx"}, FALSE)}
SplitBreaksPair ==
  (Resolved(facts) /\ sel = PairSel)
     => IF Resolver = "2" THEN Incoherences(facts) = {[id |-> "lib.lx<->util.g", dom |-> "host", lacks |-> "user"]}
        ELSE Coherent(facts)
(* without the optional dependency being activated its weak feature goes nowhere *)
WeakDoesNotActivate ==
  (Resolved(facts) /\ sel = {Root("app", {"w"}, FALSE)}) => <<"opt", "target">> \notin Units(facts)
NonWeakActivates ==
  (Resolved(facts) /\ sel = {Root("app", {"z"}, FALSE)}) => <<"opt", "target", "ox">> \in facts
(* requesting the user feature alone is always coherent: lib/lx forwards to util/g in the same domain *)
DirectIsCoherent ==
  (Resolved(facts) /\ \E fs \in SUBSET {"lx"}, d \in BOOLEAN : sel = {Root("lib", fs, d)}) => Coherent(facts)
=============================================================================
