CONSTANTS
  HDR = 2
  MaxN = 2
  MaxLen = 3
  MaxLen3 = 2
  devs = {"leftfds_zero_pending"}
  Total <- MCTotal
  TooLarge <- MCTooLarge
  Skip <- MCSkip
INIT Init
NEXT Next
INVARIANTS Prefix FdsOwn SeqIncreasing RejectWithoutReading Complete NoFdsError
CHECK_DEADLOCK FALSE
