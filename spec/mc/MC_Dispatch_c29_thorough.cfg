CONSTANTS
  DEVS = {}
  NCalls = 4
  KindSet = {"meth", "methmut"}
  BodySet <- Bodies_c29
  SpawnSet = {TRUE, FALSE}
INIT MCInit
NEXT Next
INVARIANTS TypeOK C29 NoLoss
