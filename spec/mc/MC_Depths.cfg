INIT DInit
NEXT DNext
INVARIANTS CountersExact WithinLimits
PROPERTY RefusedOnlyWhenOver
VIEW DView
CHECK_DEADLOCK FALSE
