--------------------------- MODULE MC_MatchBook ---------------------------
EXTENDS MatchBook
MB_Streams == {"s1", "s2", "s3", "s4"}
MB_RuleOf == [s \in MB_Streams |-> IF s = "s4" THEN "B" ELSE "A"]
MBView == <<sst, count, lock, onbus, tasks>>
=============================================================================
