----------------------------- MODULE MC_XmlDoc -----------------------------
(***************************************************************************)
(* Exhaustive check of the laws of XmlDoc over the documents of Gen_Xml:     *)
(* the denotation is injective (Abstract is its inverse), insensitive to     *)
(* the canonical reordering, and every listed deviation changes the tree     *)
(* only for the documents it is about.                                       *)
(***************************************************************************)
EXTENDS Gen_Xml

LawInverse == Abstract(Denote(d)) = d
LawCanon   == Canon(Denote(d)).tag = "node" /\ Canon(Denote(d)) = Canon(DenoteD(d, {}))
LawDevScope ==
  /\ DenoteD(d, {"root_tag_Node"}) # Denote(d)
  /\ (DenoteD(d, {"absent_attr_written_empty"}) # Denote(d)) <=> (AbsentDirection(d) \/ EmptyNames(d) # d)
  /\ AbsentDirection(d) => DenoteD(d, {"absent_attr_written_empty"}) # Denote(d)
LawWs == /\ WsNorm(<<9,13,10>>, 1) = <<32,32>> /\ WsNorm(<<13,13,10,97>>, 1) = <<32,32,97>>
         /\ WsNorm(<<97,32,98>>, 1) = <<97,32,98>>
(* constant laws: evaluated once at start-up *)
ASSUME LawWs
=============================================================================
