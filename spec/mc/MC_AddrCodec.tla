---------------------------- MODULE MC_AddrCodec ----------------------------
(***************************************************************************)
(* Exhaustive check of the laws of AddrCodec over the address universe of    *)
(* Gen_Addr and over all short byte strings: the specification's own sanity. *)
(***************************************************************************)
EXTENDS Gen_Addr

(* escaping is invertible, produces only optionally-escaped bytes and '%', and
   leaves optionally-escaped bytes alone *)
Bytes == {0, 32, 37, 44, 45, 47, 58, 61, 65, 92, 97, 122, 127, 128, 255}
Short == {<<>>} \cup {<<x>> : x \in Bytes} \cup {<<x, y>> : x \in Bytes, y \in Bytes}
LawPct ==
  \A s \in Short :
    /\ PctDecode(PctEncode(s)) = [ok |-> TRUE, v |-> s]
    /\ \A i \in 1..Len(PctEncode(s)) : OptEsc(PctEncode(s)[i]) \/ PctEncode(s)[i] = PCT
    /\ ((\A i \in 1..Len(s) : OptEsc(s[i])) <=> PctEncode(s) = s)
(* malformed escapes and raw special bytes are errors *)
LawPctErr ==
  /\ ~PctDecode(<<37>>).ok /\ ~PctDecode(<<37,52>>).ok /\ ~PctDecode(<<37,52,103>>).ok
  /\ ~PctDecode(<<97,32>>).ok /\ ~PctDecode(<<44>>).ok
  /\ PctDecode(<<37,52,49>>) = [ok |-> TRUE, v |-> <<65>>] /\ PctDecode(<<37,102,70>>) = [ok |-> TRUE, v |-> <<255>>]

(* the canonical spelling of every address denotes that address *)
LawDenote == Denote(Fmt(a), {}) = [ok |-> TRUE, addr |-> a]
(* every deviation changes the denotation only of its own transport, and only
   when some value needed escaping *)
LawDevScope ==
  /\ Denote(Fmt(a), {"unix_no_decode"}) # Denote(Fmt(a), {}) => a.transport = "unix" /\ PctEncode(a.value) # a.value
  /\ Denote(Fmt(a), {"unixexec_no_decode"}) # Denote(Fmt(a), {}) => a.transport = "unixexec"
  /\ Denote(Fmt(a), {"tcp_host_no_decode"}) # Denote(Fmt(a), {}) => a.transport = "tcp" /\ PctEncode(a.host) # a.host
  /\ Denote(Fmt(a), {"tcp_bind_rejected"}) # Denote(Fmt(a), {}) => Has(a, "bind")
LawNorm == NormAddr(a) = a
(* constant laws: evaluated once at start-up *)
ASSUME LawPct
ASSUME LawPctErr
=============================================================================
