CONSTANTS
  Streams <- MB_Streams
  Rules = {"A", "B"}
  RuleOf <- MB_RuleOf
INIT MInit
NEXT MNext
INVARIANTS NoDoubleAdd NoRemoveWhileInUse Mirror
CHECK_DEADLOCK FALSE
