CONSTANTS
  Handles = {"conn", "clone", "stream"}
  Calls = {1, 2}
  NOTIFY_ALL = TRUE
SPECIFICATION LSpec
INVARIANTS ClosedOnlyWhenUnreferenced ShutdownAfterReplies
PROPERTIES ClosesEventually ShutdownCompletes
CHECK_DEADLOCK FALSE
