CONSTANTS
  Handles = {"conn", "clone", "stream", "proxy"}
  Calls = {1, 2}
SPECIFICATION LSpec
INVARIANTS ClosedOnlyWhenUnreferenced ShutdownAfterReplies
PROPERTIES ClosesEventually ShutdownCompletes
CHECK_DEADLOCK FALSE
