------------------------------ MODULE NameBook ------------------------------
(***************************************************************************)
(* C36: well-known name bookkeeping of a bus connection follows the bus.     *)
(* The connection answers request_name for a name it believes it owns or is  *)
(* queued for *locally* (AlreadyOwner / InQueue without asking the bus), and *)
(* release_name for a name it does not believe it holds locally (false).     *)
(* The property: such local answers are given exactly when the bus last      *)
(* granted / queued the name and has not since taken it away; answers that   *)
(* come from the bus are passed through; only the bus driver's NameAcquired  *)
(* / NameLost signals (never a peer's forgeries) change that knowledge.      *)
(*                                                                           *)
(* Part 1: the knowledge K a client has from the messages it received, in    *)
(* receive order (the property monitor), and a model of the client as built  *)
(* with named deviations (for known findings).  Used by the trace validator. *)
(* Part 2: state machine = a bus that follows the D-Bus specification's      *)
(* RequestName / ReleaseName / queueing rules + an in-order channel + the    *)
(* client; TLC checks that K is always the bus' actual state at quiescence   *)
(* and that the client never gives a wrong local answer.                     *)
(***************************************************************************)
EXTENDS Naturals, Sequences, FiniteSets, TLC

(***************************************************************************)
(* Part 1.  Knowledge from a received history.                               *)
(*   K = "none"    not held                                                  *)
(*       "owner"   granted (PrimaryOwner / AlreadyOwner reply, NameAcquired) *)
(*       "queued"  InQueue reply                                             *)
(*       "lostq"   NameLost received for a grant made without DoNotQueue:    *)
(*                 the bus has put us back in the queue but never said so;   *)
(*                 a client may treat this as not held (both are accepted)   *)
(* dnq = the grant was requested with DoNotQueue.                            *)
(***************************************************************************)
Has(flags, f) == \E i \in 1..Len(flags) : flags[i] = f

KInit == [K |-> "none", allow |-> FALSE, dnq |-> FALSE]
KReqReply(k, code, flags) ==
  CASE code \in {"PrimaryOwner", "AlreadyOwner"} -> [K |-> "owner", allow |-> Has(flags, "allow"), dnq |-> Has(flags, "dnq")]
    [] code = "InQueue" -> [K |-> "queued", allow |-> Has(flags, "allow"), dnq |-> Has(flags, "dnq")]
    [] OTHER -> [k EXCEPT !.K = "none"]                    \* Exists, or an error
KRelReply(k) == [k EXCEPT !.K = "none"]
KSignal(k, what, genuine, ours) ==
  IF ~genuine \/ ~ours THEN k                              \* forged, or about another name: nothing changes
  ELSE IF what = "acq" THEN [k EXCEPT !.K = "owner"]
  ELSE IF k.K = "owner" THEN [k EXCEPT !.K = IF k.dnq THEN "none" ELSE "lostq"]
  ELSE k
Held(k) == k.K \in {"owner", "queued"}
NotHeld(k) == k.K \in {"none", "lostq"}

ReqResultOf(code) == IF code = "Exists" THEN "NameTaken" ELSE code

(* The monitor over a recorded log.  Log entries (in the order they happened):
     [k |-> "call", op |-> "req"|"rel", flags]       API call started
     [k |-> "bus", m]                                 the client sent RequestName / ReleaseName
     [k |-> "recv", what |-> "reply", code]           bus reply read by the client
     [k |-> "recv", what |-> "acq"|"lost", gen, name] signal read by the client
     [k |-> "result", op, res]                        API call returned
     [k |-> "pending", op]                            API call still not returned at quiescence
   Result: sequence of [at, clause, detail] for every violated clause. *)
RECURSIVE MonF(_, _, _, _)
MonF(log, i, st, bad) ==
  IF i > Len(log) THEN bad
  ELSE LET e == log[i] IN
    CASE e.k = "call" ->
           MonF(log, i + 1, [st EXCEPT !.op = e.op, !.flags = IF e.op = "req" THEN e.flags ELSE <<>>,
                                       !.viaBus = FALSE, !.code = "", !.k0 = st.kn], bad)
      [] e.k = "bus" -> MonF(log, i + 1, [st EXCEPT !.viaBus = TRUE], bad)
      [] e.k = "recv" /\ e.what = "reply" ->
           MonF(log, i + 1,
                [st EXCEPT !.code = e.code,
                           !.kn = IF st.op = "req" THEN KReqReply(st.kn, e.code, st.flags) ELSE KRelReply(st.kn)], bad)
      [] e.k = "recv" /\ e.what # "reply" -> MonF(log, i + 1, [st EXCEPT !.kn = KSignal(st.kn, e.what, e.gen, e.name = "N")], bad)
      [] e.k = "pending" -> MonF(log, i + 1, st, Append(bad, [at |-> i, clause |-> "call-hangs", detail |-> e.op]))
      [] e.k = "result" ->
           LET v == IF e.op = "req"
                    THEN IF st.viaBus
                         THEN IF e.res = ReqResultOf(st.code) THEN "" ELSE "req-result-differs-from-bus-reply"
                         ELSE IF st.k0.K = "owner" /\ e.res = "AlreadyOwner" THEN ""
                              ELSE IF st.k0.K \in {"queued", "lostq"} /\ e.res = "InQueue" THEN ""   \* lostq: the bus re-queued us
                              ELSE "req-local-answer-not-backed-by-bus"
                    ELSE IF st.viaBus
                         THEN IF e.res = (IF st.code = "Released" THEN "true" ELSE "false") THEN "" ELSE "rel-result-differs-from-bus-reply"
                         ELSE IF NotHeld(st.k0) /\ e.res = "false" THEN ""
                              ELSE IF Held(st.k0) THEN "rel-local-answer-while-held"
                              ELSE "rel-local-answer-wrong"
           IN MonF(log, i + 1, st,
                   IF v = "" THEN bad
                   ELSE Append(bad, [at |-> i, clause |-> v,
                                     detail |-> [knowledge |-> st.k0.K, via_bus |-> st.viaBus, reply |-> st.code, result |-> e.res]]))
      [] OTHER -> MonF(log, i + 1, st, bad)
Monitor(log) == MonF(log, 1, [kn |-> KInit, k0 |-> KInit, op |-> "", flags |-> <<>>, viaBus |-> FALSE, code |-> ""], <<>>)

(* The client as built, as a function of the same log: its local status L and whether the whole log is what
   this client would do (which calls go to the bus, what the local answers are).
   Deviations:
     "lost_forgets_name": after NameLost the name is forgotten altogether -- a later NameAcquired (the bus
        had re-queued us because the grant was made without DoNotQueue) is not noticed. *)
LInit == [L |-> "none", allow |-> FALSE]
RECURSIVE ClientF(_, _, _, _)
ClientF(log, i, st, devs) ==
  IF i > Len(log) THEN TRUE
  ELSE LET e == log[i] IN
    CASE e.k = "call" ->
           ClientF(log, i + 1, [st EXCEPT !.op = e.op, !.flags = IF e.op = "req" THEN e.flags ELSE <<>>, !.viaBus = FALSE,
                                          !.l0 = st.L, !.L = IF e.op = "rel" THEN "none" ELSE st.L], devs)
      [] e.k = "bus" -> ClientF(log, i + 1, [st EXCEPT !.viaBus = TRUE], devs)
      [] e.k = "recv" /\ e.what = "reply" ->
           ClientF(log, i + 1,
             [st EXCEPT !.code = e.code,
                        !.L = IF st.op = "req"
                              THEN (CASE e.code \in {"PrimaryOwner", "AlreadyOwner"} -> "owner" [] e.code = "InQueue" -> "queued" [] OTHER -> "none")
                              ELSE "none",
                        !.allow = IF st.op = "req" THEN Has(st.flags, "allow") ELSE st.allow,
                        !.watch = FALSE], devs)
      [] e.k = "recv" /\ e.what # "reply" ->
           ClientF(log, i + 1,
             IF ~e.gen \/ e.name # "N" THEN st
             ELSE IF e.what = "acq"
                  THEN IF st.L = "queued" \/ (st.watch /\ "lost_forgets_name" \notin devs) THEN [st EXCEPT !.L = "owner", !.watch = FALSE] ELSE st
                  ELSE IF st.L = "owner" /\ st.allow THEN [st EXCEPT !.L = "none", !.watch = TRUE] ELSE st,
             devs)
      [] e.k = "result" ->
           /\ (e.op = "req" => (st.viaBus <=> st.l0 = "none")
                              /\ (~st.viaBus => e.res = (IF st.l0 = "owner" THEN "AlreadyOwner" ELSE "InQueue"))
                              /\ (st.viaBus => e.res = ReqResultOf(st.code)))
           /\ (e.op = "rel" => (st.viaBus <=> st.l0 # "none")
                              /\ (~st.viaBus => e.res = "false")
                              /\ (st.viaBus => e.res = (IF st.code = "Released" THEN "true" ELSE "false")))
           /\ ClientF(log, i + 1, st, devs)
      [] e.k = "pending" -> FALSE
      [] OTHER -> ClientF(log, i + 1, st, devs)
ClientExplains(log, devs) ==
  ClientF(log, 1, [L |-> "none", l0 |-> "none", allow |-> FALSE, watch |-> FALSE, op |-> "", flags |-> <<>>, viaBus |-> FALSE, code |-> ""], devs)
KnownDevs == {"lost_forgets_name"}

(***************************************************************************)
(* Part 2.  State machine: bus + channel + client.                          *)
(***************************************************************************)
CONSTANTS MaxSteps,        \* bound on bus / API steps
          MaxForged,       \* bound on forged signals
          DevLostForgets   \* TRUE = client as built (must violate NoWrongLocalAnswer)

FlagSets == {<<>>, <<"allow">>, <<"replace", "dnq">>, <<"allow", "dnq">>}

VARIABLES holder, inq, ballow, bdnq,   \* bus: who owns the name ("free" | "us" | "other"), are we queued, our flags
          chan,                        \* bus -> client, in order
          call,                        \* API call in progress: <<>> or <<[op, flags, stage]>>, stage "sent" | "answered"
          kn,                          \* monitor: knowledge from the received messages
          cl,                          \* client: [L, allow, watch]
          steps, forged,
          wrong                        \* a local answer contradicted the knowledge (monitor verdict)
vars == <<holder, inq, ballow, bdnq, chan, call, kn, cl, steps, forged, wrong>>

Init == /\ holder \in {"free", "other"} /\ inq = FALSE /\ ballow = FALSE /\ bdnq = FALSE
        /\ chan = <<>> /\ call = <<>> /\ kn = KInit /\ cl = [L |-> "none", allow |-> FALSE, watch |-> FALSE]
        /\ steps = 0 /\ forged = 0 /\ wrong = FALSE

Tick == steps < MaxSteps /\ steps' = steps + 1
Sig(what, gen) == [k |-> "sig", what |-> what, gen |-> gen]
Rep(code) == [k |-> "reply", code |-> code]

\* --- other peers, as far as they concern our name ---
OtherTakes == /\ Tick /\ holder = "free" /\ holder' = "other"
              /\ UNCHANGED <<inq, ballow, bdnq, chan, call, kn, cl, forged, wrong>>
OtherReplacesUs == /\ Tick /\ holder = "us" /\ ballow /\ holder' = "other" /\ inq' = ~bdnq
                   /\ chan' = Append(chan, Sig("lost", TRUE))
                   /\ UNCHANGED <<ballow, bdnq, call, kn, cl, forged, wrong>>
OtherReleases == /\ Tick /\ holder = "other"
                 /\ IF inq THEN holder' = "us" /\ inq' = FALSE /\ chan' = Append(chan, Sig("acq", TRUE))
                    ELSE holder' = "free" /\ UNCHANGED <<inq, chan>>
                 /\ UNCHANGED <<ballow, bdnq, call, kn, cl, forged, wrong>>
Forge(what) == /\ forged < MaxForged /\ forged' = forged + 1 /\ chan' = Append(chan, Sig(what, FALSE))
               /\ UNCHANGED <<holder, inq, ballow, bdnq, call, kn, cl, steps, wrong>>

\* --- the bus driver handles our call (D-Bus specification, "RequestName" / "ReleaseName") ---
BusRequest ==
  /\ call # <<>> /\ call[1].op = "req" /\ call[1].stage = "sent"
  /\ LET f == call[1].flags IN
     /\ ballow' = Has(f, "allow") /\ bdnq' = Has(f, "dnq")
     /\ \/ /\ holder = "us" /\ chan' = Append(chan, Rep("AlreadyOwner")) /\ UNCHANGED <<holder, inq>>
        \/ /\ holder = "free" \/ (holder = "other" /\ Has(f, "replace"))    \* replace: only if the other allows it
           /\ holder' = "us" /\ inq' = FALSE
           /\ chan' = chan \o <<Sig("acq", TRUE), Rep("PrimaryOwner")>>
        \/ /\ holder = "other"
           /\ IF Has(f, "dnq") THEN inq' = FALSE /\ chan' = Append(chan, Rep("Exists"))
              ELSE inq' = TRUE /\ chan' = Append(chan, Rep("InQueue"))
           /\ UNCHANGED holder
  /\ call' = <<[call[1] EXCEPT !.stage = "answered"]>>
  /\ UNCHANGED <<kn, cl, steps, forged, wrong>>
BusRelease ==
  /\ call # <<>> /\ call[1].op = "rel" /\ call[1].stage = "sent"
  /\ \/ /\ holder = "us" /\ holder' \in {"free", "other"} /\ inq' = FALSE
        /\ chan' = chan \o <<Sig("lost", TRUE), Rep("Released")>>
     \/ /\ holder # "us" /\ inq /\ inq' = FALSE /\ chan' = Append(chan, Rep("Released")) /\ UNCHANGED holder
     \/ /\ holder = "other" /\ ~inq /\ chan' = Append(chan, Rep("NotOwner")) /\ UNCHANGED <<holder, inq>>
     \/ /\ holder = "free" /\ ~inq /\ chan' = Append(chan, Rep("NonExistent")) /\ UNCHANGED <<holder, inq>>
  /\ call' = <<[call[1] EXCEPT !.stage = "answered"]>>
  /\ UNCHANGED <<ballow, bdnq, kn, cl, steps, forged, wrong>>

\* --- the client reads one message: the monitor updates its knowledge, the client its local status ---
ClientSignal(c, what) ==
  IF what = "acq"
  THEN IF c.L = "queued" \/ (c.watch /\ ~DevLostForgets) THEN [c EXCEPT !.L = "owner", !.watch = FALSE] ELSE c
  ELSE IF c.L = "owner" /\ c.allow THEN [c EXCEPT !.L = "none", !.watch = TRUE] ELSE c
Recv ==
  /\ chan # <<>> /\ chan' = Tail(chan)
  /\ LET m == Head(chan) IN
     IF m.k = "sig"
     THEN /\ kn' = KSignal(kn, m.what, m.gen, TRUE)
          /\ cl' = IF m.gen THEN ClientSignal(cl, m.what) ELSE cl      \* forged: the match rule names the driver
          /\ UNCHANGED call
     ELSE LET f == call[1].flags IN
          /\ kn' = IF call[1].op = "req" THEN KReqReply(kn, m.code, f) ELSE KRelReply(kn)
          /\ cl' = IF call[1].op = "req"
                   THEN [L |-> (CASE m.code \in {"PrimaryOwner", "AlreadyOwner"} -> "owner" [] m.code = "InQueue" -> "queued" [] OTHER -> "none"),
                         allow |-> Has(f, "allow"), watch |-> FALSE]
                   ELSE [cl EXCEPT !.L = "none", !.watch = FALSE]
          /\ call' = <<>>                                               \* the API call returns what the bus said
  /\ UNCHANGED <<holder, inq, ballow, bdnq, steps, forged, wrong>>

\* --- API calls, made when nothing is in flight ---
Idle == call = <<>> /\ chan = <<>>
ApiRequest(f) ==
  /\ Tick /\ Idle
  /\ IF cl.L # "none"
     THEN /\ wrong' = (wrong \/ kn.K # cl.L) /\ UNCHANGED call                     \* local AlreadyOwner / InQueue
     ELSE /\ call' = <<[op |-> "req", flags |-> f, stage |-> "sent"]>> /\ UNCHANGED wrong
  /\ UNCHANGED <<holder, inq, ballow, bdnq, chan, kn, cl, forged>>
ApiRelease ==
  /\ Tick /\ Idle
  /\ IF cl.L = "none"
     THEN /\ wrong' = (wrong \/ Held(kn)) /\ UNCHANGED <<call, cl>>                 \* local "false"
     ELSE /\ call' = <<[op |-> "rel", flags |-> <<>>, stage |-> "sent"]>> /\ cl' = [cl EXCEPT !.L = "none", !.watch = FALSE]
          /\ UNCHANGED wrong
  /\ UNCHANGED <<holder, inq, ballow, bdnq, chan, kn, forged>>

Next == OtherTakes \/ OtherReplacesUs \/ OtherReleases \/ (\E w \in {"acq", "lost"} : Forge(w))
        \/ BusRequest \/ BusRelease \/ Recv \/ (\E f \in FlagSets : ApiRequest(f)) \/ ApiRelease
Spec == Init /\ [][Next]_vars

\* C36
NoWrongLocalAnswer == ~wrong
\* the knowledge rules of Part 1 are right about a bus that follows the specification
KnowledgeIsBusState ==
  Idle => /\ (kn.K = "owner") <=> (holder = "us")
          /\ (kn.K = "queued") => (inq /\ holder = "other")
          /\ (kn.K = "lostq") => (inq /\ holder = "other")
          /\ (kn.K = "none") => (~inq /\ holder # "us")
          /\ (holder = "us") => (kn.allow = ballow /\ kn.dnq = bdnq)
=============================================================================
