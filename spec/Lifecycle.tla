----------------------------- MODULE Lifecycle -----------------------------
(***************************************************************************)
(* Dropping and shutting down a connection (property C39).  The connection's  *)
(* inner state lives as long as something refers to it: user handles           *)
(* (Connection clones, streams, proxies) and in-flight method handlers (each    *)
(* handler task holds a reference until it has sent its reply).  When the last   *)
(* reference goes, the transport halves are dropped (the peer sees the socket     *)
(* close) and everybody waiting for that is notified.  graceful_shutdown()        *)
(* registers a listener for that notification, drops the caller's handle and       *)
(* completes when notified.  Connection is Clone: any number of handles may be      *)
(* waiting in graceful_shutdown() at the same time, and all of them complete.        *)
(* NOTIFY_ALL = FALSE is the mutant "the drop notifies one listener" (must           *)
(* violate ShutdownCompletes).                                                       *)
(***************************************************************************)
EXTENDS Naturals, FiniteSets
CONSTANTS Handles, Calls, NOTIFY_ALL

VARIABLES held,      \* user handles not yet dropped
          hstate,    \* [Calls -> {"none","running","replied"}] in-flight handlers
          closed,    \* transport dropped
          shut,      \* [Handles -> "no" | "waiting" | "done"]   graceful_shutdown called through that handle
          woken      \* listeners notified by the drop of the inner state
lvars == <<held, hstate, closed, shut, woken>>
Refs == Cardinality(held) + Cardinality({c \in Calls : hstate[c] = "running"})
Waiting == {h \in Handles : shut[h] = "waiting"}

LInit == /\ held = Handles /\ hstate = [c \in Calls |-> "none"] /\ closed = FALSE
         /\ shut = [h \in Handles |-> "no"] /\ woken = {}
Arrive(c)  == /\ hstate[c] = "none" /\ ~closed /\ hstate' = [hstate EXCEPT ![c] = "running"] /\ UNCHANGED <<held, closed, shut, woken>>
\* the handler sends its reply, then releases its reference
Finish(c)  == /\ hstate[c] = "running" /\ hstate' = [hstate EXCEPT ![c] = "replied"] /\ UNCHANGED <<held, closed, shut, woken>>
DropH(h)   == /\ h \in held /\ held' = held \ {h} /\ UNCHANGED <<hstate, closed, shut, woken>>
\* the last reference is gone: drop the transport, notify the listeners registered so far
Close      == /\ ~closed /\ Refs = 0 /\ closed' = TRUE
              /\ IF NOTIFY_ALL \/ Waiting = {} THEN woken' = Waiting ELSE \E h \in Waiting : woken' = {h}
              /\ UNCHANGED <<held, hstate, shut>>
\* listen, then give up the handle (one step: nothing can come in between that matters)
ShutStart(h) == /\ h \in held /\ shut[h] = "no" /\ held' = held \ {h}
                /\ shut' = [shut EXCEPT ![h] = "waiting"] /\ UNCHANGED <<hstate, closed, woken>>
ShutDone(h)  == /\ shut[h] = "waiting" /\ h \in woken /\ shut' = [shut EXCEPT ![h] = "done"] /\ UNCHANGED <<held, hstate, closed, woken>>
LNext == (\E c \in Calls : Arrive(c) \/ Finish(c)) \/ (\E h \in Handles : DropH(h) \/ ShutStart(h) \/ ShutDone(h)) \/ Close
LSpec == LInit /\ [][LNext]_lvars /\ WF_lvars(LNext)

ClosedOnlyWhenUnreferenced == closed => Refs = 0
ShutdownAfterReplies == \A h \in Handles : shut[h] = "done" => (closed /\ \A c \in Calls : hstate[c] # "running")
\* once nothing refers to the connection it closes, and every waiting shutdown completes
ClosesEventually == (Refs = 0) ~> closed
ShutdownCompletes == \A h \in Handles : (shut[h] = "waiting" /\ Refs = 0) ~> (shut[h] = "done")
=============================================================================
