----------------------------- MODULE Lifecycle -----------------------------
(***************************************************************************)
(* Dropping and shutting down a connection (property C39).  The connection's  *)
(* inner state lives as long as something refers to it: user handles           *)
(* (Connection clones, streams, proxies) and in-flight method handlers (each    *)
(* handler task holds a reference until it has sent its reply).  When the last   *)
(* reference goes, the transport halves are dropped (the peer sees the socket     *)
(* close).  graceful_shutdown() drops the caller's handle and completes when the   *)
(* inner state is gone.                                                            *)
(***************************************************************************)
EXTENDS Naturals, FiniteSets
CONSTANTS Handles, Calls

VARIABLES held,      \* user handles not yet dropped
          hstate,    \* [Calls -> {"none","running","replied"}] in-flight handlers
          closed,    \* transport dropped
          shut       \* "no" | "waiting" | "done"   (graceful_shutdown by the owner of handle h0)
lvars == <<held, hstate, closed, shut>>
Refs == Cardinality(held) + Cardinality({c \in Calls : hstate[c] = "running"})

LInit == held = Handles /\ hstate = [c \in Calls |-> "none"] /\ closed = FALSE /\ shut = "no"
Arrive(c)  == /\ hstate[c] = "none" /\ ~closed /\ hstate' = [hstate EXCEPT ![c] = "running"] /\ UNCHANGED <<held, closed, shut>>
\* the handler sends its reply, then releases its reference
Finish(c)  == /\ hstate[c] = "running" /\ hstate' = [hstate EXCEPT ![c] = "replied"] /\ UNCHANGED <<held, closed, shut>>
DropH(h)   == /\ h \in held /\ held' = held \ {h} /\ UNCHANGED <<hstate, closed, shut>>
Close      == /\ ~closed /\ Refs = 0 /\ closed' = TRUE /\ UNCHANGED <<held, hstate, shut>>
ShutStart  == /\ shut = "no" /\ held # {} /\ \E h \in held : held' = held \ {h}
              /\ shut' = "waiting" /\ UNCHANGED <<hstate, closed>>
ShutDone   == /\ shut = "waiting" /\ closed /\ shut' = "done" /\ UNCHANGED <<held, hstate, closed>>
LNext == (\E c \in Calls : Arrive(c) \/ Finish(c)) \/ (\E h \in Handles : DropH(h)) \/ Close \/ ShutStart \/ ShutDone
LSpec == LInit /\ [][LNext]_lvars /\ WF_lvars(LNext)

ClosedOnlyWhenUnreferenced == closed => Refs = 0
ShutdownAfterReplies == shut = "done" => \A c \in Calls : hstate[c] # "running"
\* once nothing refers to the connection it closes, and a waiting shutdown completes
ClosesEventually == (Refs = 0) ~> closed
ShutdownCompletes == (shut = "waiting" /\ Refs = 0) ~> (shut = "done")
=============================================================================
