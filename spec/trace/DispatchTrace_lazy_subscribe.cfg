CONSTANTS
  DEVS = {"lazy_subscribe"}
INIT TInit
NEXT TNext
CHECK_DEADLOCK FALSE
