----------------------------- MODULE SigCheck -----------------------------
(***************************************************************************)
(* C06: validation of observations of zvariant's signature API against the  *)
(* grammar (SigGrammar) and the laws (SigLaws).  impl -> spec direction.     *)
(*                                                                         *)
(* Every line of the ndjson file IOEnv.TRACE is one input string `s` with   *)
(* the observation of the plain build under "n" and of the GVariant build   *)
(* under "g", or "same": TRUE when both builds behaved identically (format: *)
(* harness/gram/src/sig.rs).  Every line is an initial state; a violated    *)
(* clause prints one MISMATCH record, the run never stops at the first one. *)
(*                                                                         *)
(* Clauses (field `what`):                                                  *)
(*   accept   some construction path accepts / rejects / panics differently *)
(*            from ParseSig(s, gv).ok; detail.devs lists the minimal sets   *)
(*            of named deviations (SigLaws) that would explain an           *)
(*            acceptance, detail.dir is the direction                       *)
(*   format   to_string / Display / to_string_no_parens differ from         *)
(*            DisplayOf / NoParensOf of the parse tree                      *)
(*   strlen   string_len differs from the length of the display form        *)
(*   eqhash   a re-parsed / cloned form is not ==, hashes or orders         *)
(*            differently                                                   *)
(*   repr     the same signature built with the static / dynamic            *)
(*            constructors formats, compares or hashes differently          *)
(*   streq    PartialEq<&str> / PartialEq<str> is wrong for some string;    *)
(*            detail.dev names the deviation class that explains it, if any *)
(*   pair     == between the parses of two different strings is wrong       *)
(* When the acceptance itself is a deviation, the laws are evaluated on the *)
(* parse tree under that deviation and detail.under names it.               *)
(***************************************************************************)
EXTENDS SigLaws, Json, IOUtils, TLC

Rec == ndJsonDeserialize(IOEnv.TRACE)
VARIABLE l
Init == l \in 1..Len(Rec)
Next == UNCHANGED l

Has(r, f) == f \in DOMAIN r

Report(bk, what, detail) ==
  PrintT(<<"MISMATCH", ToJson([line |-> l, id |-> Rec[l].id, what |-> what, build |-> bk, detail |-> detail])>>)

Applicable(acc) == {i \in 1..Len(acc) : acc[i] # 3}

LawChecks(bk, s, gv, ts, o, under) ==
  LET R(what, d) == Report(bk, what, [under |-> under, d |-> d])
      disp == DisplayOf(ts)
      np   == NoParensOf(ts)
      flat == FmtSeq(ts)
      slen == Len(disp) IN
  /\ ((o.disp = disp /\ o.fmt = o.disp /\ o.np = np /\ o.npw = o.np)
        \/ R("format", [disp |-> o.disp, fmt |-> o.fmt, np |-> o.np, npw |-> o.npw, want |-> disp, want_np |-> np]))
  /\ (o.len = slen \/ R("strlen", [got |-> o.len, want |-> slen]))
  \* the display form of a signature of several types is two bytes longer and one struct deeper than
  \* the string: at the limits it is not a valid signature itself, and then need not parse back
  /\ LET dispValid == IF Len(ts) >= 2 THEN ParseSig(disp, gv).ok ELSE TRUE IN
     ((o.re = <<1,1,1>> /\ (dispValid => o.rd = <<1,1,1,1>>) /\ o.cl = <<1,1,1>>)
        \/ R("eqhash", [reparsed |-> o.re, display_reparsed |-> o.rd, clone |-> o.cl]))
  /\ \A key \in {"st", "dy"} :
       Has(o, key) =>
         LET b == o[key] IN
         (b.disp = disp /\ b.len = slen /\ b.laws = <<1,1,1>>) \/ R("repr", [ctor |-> key, got |-> b, want |-> disp])
  /\ \A i \in 1..Len(o.nb) :
       LET n == o.nb[i]
           must == IF n.t = s \/ n.t = disp THEN "T" ELSE IF n.t = np \/ n.t = flat THEN "U" ELSE "F" IN
       /\ ((must = "T" => n.se = 1) /\ (must = "F" => n.se = 0))
            \/ R("streq", [t |-> n.t, got |-> n.se, must |-> must, dev |-> StrEqExplainedBy(s, ts, n.t, n.se)])
       /\ Has(n, "p") =>
            LET q == ParseSig(n.t, gv) IN
            q.ok =>
              ((SameSig(ts, q.ts) => n.p = <<1,1,1>>) /\ (CertainlyDiff(ts, q.ts) => n.p[1] = 0))
                \/ R("pair", [t |-> n.t, got |-> n.p, same |-> SameSig(ts, q.ts)])

(* o: the observation of one build; gv: whether that build has the GVariant extension *)
BuildChecks(bk, gv, s, o) ==
  LET p == ParseSig(s, gv)
      want == IF p.ok THEN 1 ELSE 0
      app == Applicable(o.acc)
      agree == \A i \in app : o.acc[i] = want
      allAccept == \A i \in app : o.acc[i] = 1
      devs == IF ~p.ok /\ allAccept THEN ExplainingDevs(s, gv) ELSE {}
      dir == IF \E i \in app : o.acc[i] = 2 THEN "panic"
             ELSE IF p.ok THEN "rejects-valid"
             ELSE IF allAccept THEN "accepts-invalid" ELSE "paths-disagree" IN
  /\ agree \/ Report(bk, "accept", [dir |-> dir, paths |-> o.acc, spec |-> p.ok, len |-> Len(s),
                                    devs |-> devs])
  /\ Has(o, "disp") =>
       IF p.ok THEN LawChecks(bk, s, gv, p.ts, o, {})
       ELSE IF devs # {} THEN
         LET D == CHOOSE D \in devs : TRUE IN
         LawChecks(bk, s, gv, ParseSigD(s, gv, D).ts, o, D)
       ELSE TRUE
  /\ Has(o, "fmt_panic") => Report(bk, "format", [under |-> {}, d |-> [panic |-> o.fmt_panic]])

(* The two builds differ only in the treatment of 'm' (109): for a string without it, identical
   observations need to be judged once. *)
LineOk ==
  LET r == Rec[l]
      hasM == \E i \in 1..Len(r.s) : r.s[i] = 109 IN
  /\ Has(r, "n") => BuildChecks(IF Has(r, "same") /\ ~hasM THEN "n+g" ELSE "n", FALSE, r.s, r.n)
  /\ Has(r, "g") => BuildChecks("g", TRUE, r.s, r.g)
  /\ (Has(r, "same") /\ hasM) => BuildChecks("g", TRUE, r.s, r.n)
Inv == LineOk \/ TRUE
=============================================================================
