----------------------------- MODULE FeatCheck -----------------------------
(***************************************************************************)
(* C35 validator (impl -> spec).  Every line of the ndjson file TRACE is one *)
(* configuration class representative with what cargo said about it:        *)
(*                                                                         *)
(*   sel    the downstream selection [{to, feats, defaults}]                *)
(*   units  (optional) the unit table the generator emitted for it          *)
(*   tree   (optional) the unit table observed from `cargo tree` (cargo's   *)
(*          own feature resolution): [{p, d, fs}]                            *)
(*   cargo  {status}: "ok" | "fail" (cargo check exit status) |            *)
(*          "offline" (a needed crate is not available offline) | "not-run" *)
(*                                                                         *)
(* The line is resolved again with Features.tla (one initial state per      *)
(* line, the resolution is carried in `facts`) and classified:              *)
(*                                                                         *)
(*   MISMATCH build-fails      the property clause "it builds" is false for *)
(*            this configuration.  `coupling`/`dom` name the broken         *)
(*            coupling that explains the failure ("unexplained" if the      *)
(*            model predicts a coherent, supported configuration).          *)
(*   MISMATCH spec-selfcheck   generator and validator disagree (tool bug). *)
(*   DRIFT    the model does not mirror cargo / the code: cargo's unit      *)
(*            table differs from the model's, or a configuration predicted  *)
(*            incoherent / declared unsupported builds.  Never a violation. *)
(*   NOTE     unbuildable offline.                                          *)
(* A build that fails for a configuration that violates a declared          *)
(* requirement (Requires) is not reported: it is not a supported            *)
(* configuration.                                                           *)
(***************************************************************************)
EXTENDS Features, Json, IOUtils, Sequences

RecFile == ndJsonDeserialize(IOEnv.TRACE)
\* TLC does not cache RecFile: the record of the line is carried in the state
VARIABLES l, rec
cvars == <<sel, facts, l, rec>>

Has(r, f) == f \in DOMAIN r
Range(s) == {s[i] : i \in DOMAIN s}
SelOf(r) == {[to |-> e.to, feats |-> Range(e.feats), defaults |-> e.defaults] : e \in Range(r.sel)}
TableOf(t) == {[p |-> u.p, d |-> u.d, fs |-> Range(u.fs)] : u \in Range(t)}

Init == LET R == RecFile IN
        \E i \in 1..Len(R) : /\ l = i /\ rec = R[i]
                             /\ sel = SelOf(R[i])
                             /\ facts = Resolution(SelOf(R[i]))
Next == UNCHANGED cvars

Report(tag, what, detail) ==
  PrintT(<<tag, ToJson([line |-> l, id |-> rec.id, what |-> what, detail |-> detail])>>)

(* `cargo tree` prints features, not the `dep:` activations the model also records *)
DepMarks == {i.g : i \in {j \in Items : j.k = "dep"}} \cup {e.act : e \in Edges}
NoDeps(T) == {[p |-> u.p, d |-> u.d, fs |-> u.fs \ DepMarks] : u \in T}

SelfCheck ==
  IF Has(rec, "units") /\ TableOf(rec.units) # UnitTable(facts)
  THEN Report("MISMATCH", "spec-selfcheck", [generator |-> rec.units, validator |-> UnitTable(facts)])
  ELSE TRUE

TreeCheck ==
  IF Has(rec, "tree") /\ NoDeps(TableOf(rec.tree)) # NoDeps(UnitTable(facts))
  THEN Report("DRIFT", "resolver-model",
              [only_cargo |-> NoDeps(TableOf(rec.tree)) \ NoDeps(UnitTable(facts)),
               only_model |-> NoDeps(UnitTable(facts)) \ NoDeps(TableOf(rec.tree))])
  ELSE TRUE

BuildCheck ==
  LET st == rec.cargo.status
      inc == Incoherences(facts)
      sup == Supported(facts)
  IN CASE st = "offline" -> Report("NOTE", "unbuildable-offline", rec.cargo.err)
       [] st = "fail" /\ inc # {} ->
            \* the clause fails; the model explains it: one record per broken coupling
            \A x \in inc : Report("MISMATCH", "build-fails", [coupling |-> x.id, dom |-> x.dom, lacks |-> x.lacks, err |-> rec.cargo.err])
       [] st = "fail" /\ inc = {} /\ sup ->
            Report("MISMATCH", "build-fails", [coupling |-> "unexplained", dom |-> "", lacks |-> "", err |-> rec.cargo.err])
       [] st = "fail" /\ inc = {} /\ ~sup -> TRUE      \* declared unsupported configuration
       [] st = "ok" /\ inc # {} -> Report("DRIFT", "predicted-incoherent-but-builds", inc)
       [] st = "ok" /\ ~sup -> Report("DRIFT", "declared-unsupported-but-builds", {r.p : r \in Unmet(facts)})
       [] OTHER -> TRUE

Inv == /\ IF SelfCheck THEN TRUE ELSE TRUE
       /\ IF TreeCheck THEN TRUE ELSE TRUE
       /\ IF BuildCheck THEN TRUE ELSE TRUE
=============================================================================
