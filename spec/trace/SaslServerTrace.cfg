CONSTANTS
  Cfgs = {}
  Cmds = {}
  MaxLen = 0
INIT TInit
NEXT TNext
INVARIANT Inv
CHECK_DEADLOCK FALSE
