CONSTANTS
  CCfgs = {}
  CCmds = {}
  CMaxLen = 0
INIT TInit
NEXT TNext
INVARIANT Inv
CHECK_DEADLOCK FALSE
