CONSTANTS
  HDR = 16
  devs = {}
  Total <- RealTotal
  TooLarge <- RealTooLarge
  Skip <- RealSkip
INIT TInit
NEXT TNext
INVARIANT Done
CHECK_DEADLOCK FALSE
