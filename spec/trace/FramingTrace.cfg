CONSTANTS
  HDR = 16
  devs = {}
  Total <- RealTotal
  TooLarge <- RealTooLarge
INIT TInit
NEXT TNext
INVARIANT Done
CHECK_DEADLOCK FALSE
