------------------------------ MODULE XmlCheck ------------------------------
(***************************************************************************)
(* C34, impl -> spec.  Each `Xml` line of the ndjson file named by TRACE:    *)
(*   doc    the abstract document the case is about                         *)
(*   xml0   the harness's own XML text for doc; tree0 = that text parsed by  *)
(*          a strict XML parser (Python xml.etree / expat)                   *)
(*   first  Node::from_reader(xml0): the value under test, as doc1 read      *)
(*          through the public getters                                       *)
(*   write  node1.to_writer(..) -> xml1; tree1 = xml1 parsed strictly        *)
(*   second Node::from_reader(xml1) -> doc2, node2 == node1                  *)
(*   third  Node::try_from(&str xml1) -> doc3, node3 == node1 (doc3 omitted  *)
(*          and same = TRUE when the two read-backs are identical)           *)
(* Clauses (MISMATCH; `dev` / `devs` name the listed deviations of XmlDoc    *)
(* that reproduce the observation):                                          *)
(*   harness-input  tree0 is Denote(doc)            (tool sanity)            *)
(*   write-fails    to_writer returned an error                              *)
(*   roundtrip      doc2 = doc1 and node2 == node1  (from_reader)            *)
(*   roundtrip-str  doc3 = doc1 and node3 == node1  (TryFrom<&str>)          *)
(*   write-wellformed / write-denotes   xml1 is well-formed XML and denotes  *)
(*                  doc1 for a conforming reader (Denote(doc1))              *)
(* NOTE records (no verdict): zbus_xml could not read the harness's XML, or  *)
(* read it as a different document than meant (then doc1 is simply another   *)
(* value under test).                                                        *)
(***************************************************************************)
EXTENDS XmlDoc, Json, IOUtils

Rec == ndJsonDeserialize(IOEnv.TRACE)
\* TLC does not cache Rec: the record of a line is carried in the state so the file is parsed once
VARIABLES l, rec
Init == LET R == Rec IN \E i \in 1..Len(R) : l = i /\ rec = R[i]
Next == UNCHANGED <<l, rec>>

Report(what, detail) == PrintT(<<"MISMATCH", ToJson([line |-> l, id |-> rec.id, what |-> what, detail |-> detail])>>)
Note(what, detail)   == PrintT(<<"NOTE", ToJson([line |-> l, id |-> rec.id, what |-> what, detail |-> detail])>>)

RECURSIVE AsSeq(_)
AsSeq(S) == IF S = {} THEN <<>> ELSE LET x == CHOOSE y \in S : TRUE IN <<x>> \o AsSeq(S \ {x})

Back(r, doc1, clause) ==
  LET good == r.ok /\ r.eq /\ r.doc = doc1
      dev  == IF ~r.ok /\ AbsentDirection(doc1) THEN "absent_direction_unreadable"
              ELSE IF r.ok /\ r.doc # doc1 /\ r.doc = EmptyNames(doc1) THEN "absent_name_reads_empty"
              ELSE "none"
  IN  good \/ Report(clause, [dev |-> dev, got |-> IF r.ok THEN [ok |-> TRUE, eq |-> r.eq, same_doc |-> r.doc = doc1] ELSE r])

(* subsets of the listed deviations, smallest first: the first one that reproduces the written tree is reported *)
DevSets == << {}, {"root_tag_Node"}, {"absent_attr_written_empty"}, {"attr_ws_literal"},
              {"root_tag_Node", "absent_attr_written_empty"}, {"root_tag_Node", "attr_ws_literal"},
              {"absent_attr_written_empty", "attr_ws_literal"}, Devs34 >>
Written(r, doc1) ==
  IF ~r.tree1.ok THEN Report("write-wellformed", [err |-> r.tree1.err, devs |-> <<"none">>])
  ELSE
    LET got == Canon(TreeOfJson(r.tree1.tree))
        ok(D) == got = Canon(DenoteD(doc1, D))
        RECURSIVE First(_)
        First(i) == IF i > Len(DevSets) THEN 0 ELSE IF ok(DevSets[i]) THEN i ELSE First(i + 1)
        hit == First(1)
    IN  hit = 1
        \/ Report("write-denotes", [devs |-> IF hit = 0 THEN <<"none">> ELSE AsSeq(DevSets[hit]), root |-> got.tag])

XmlChecks(r) ==
  /\ ((r.tree0.ok /\ Canon(TreeOfJson(r.tree0.tree)) = Canon(Denote(r.doc))) \/ Report("harness-input", r.tree0))
  /\ IF ~r.first.ok THEN Note("first-read-fails", r.first)
     ELSE
       LET doc1 == r.first.doc IN
       /\ (doc1 = r.doc \/ Note("first-read-differs", [x |-> 0]))
       /\ IF ~r.write.ok THEN Report("write-fails", r.write)
          ELSE /\ Back(r.second, doc1, "roundtrip")
               /\ Back(IF r.third.ok /\ r.third.same THEN [ok |-> TRUE, eq |-> r.third.eq, doc |-> r.second.doc] ELSE r.third,
                       doc1, "roundtrip-str")
               /\ Written(r, doc1)

LineOk == LET r == rec IN IF r.ev = "Xml" THEN XmlChecks(r) ELSE TRUE
Inv == LineOk \/ TRUE
=============================================================================
