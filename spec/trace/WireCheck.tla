----------------------------- MODULE WireCheck -----------------------------
(***************************************************************************)
(* Validation of observations recorded from zvariant against the reference  *)
(* definitions in DBusWire (impl -> spec direction, shape A of DESIGN.md).  *)
(* Every line of the ndjson file named by the environment variable TRACE is *)
(* one call of the real code: an `Enc` line (encode + decode back) or a     *)
(* `Dec` line (decode of arbitrary bytes).  Each line is one initial state, *)
(* so TLC's workers evaluate the lines in parallel; the invariant never     *)
(* fails -- a line the specification does not explain prints a MISMATCH     *)
(* record naming the violated clause, and the run classifies all lines.     *)
(***************************************************************************)
EXTENDS DBusWire, GVariantWire, Json, IOUtils, TLC

Rec == ndJsonDeserialize(IOEnv.TRACE)
\* TLC does not cache Rec: the record of a line is carried in the state so the file is parsed once
VARIABLES l, rec
Init == LET R == Rec IN \E i \in 1..Len(R) : l = i /\ rec = R[i]
Next == UNCHANGED <<l, rec>>

Has(r, f) == f \in DOMAIN r

(* Normal form for comparing denoted values: dict arrays are maps (zvariant
   keeps them ordered by key), and a signature value of several complete types
   is the same value as the struct signature around them (documented). *)
RECURSIVE Norm(_,_)
Norm(T, v) ==
  CASE T.k = "a" /\ T.e.k = "e" -> [d |-> {Norm(T.e, v.a[i]) : i \in 1..Len(v.a)}]
    [] T.k = "a" -> [a |-> [i \in 1..Len(v.a) |-> Norm(T.e, v.a[i])]]
    [] T.k = "r" -> [r |-> [i \in 1..Len(v.r) |-> Norm(T.f[i], v.r[i])]]
    [] T.k = "e" -> [r |-> <<Norm(T.key, v.r[1]), Norm(T.val, v.r[2])>>]
    [] T.k = "v" -> [t |-> v.t, v |-> Norm(v.t, v.v)]
    [] T.k = "m" -> IF v.m = <<>> THEN v ELSE [m |-> <<Norm(T.e, v.m[1])>>]
    [] T.k = "g" -> LET p == ParseSig(v.s, FALSE) IN
                    IF p.ok /\ Len(p.ts) >= 2 THEN [s |-> <<40>> \o v.s \o <<41>>] ELSE [s |-> v.s]
    [] OTHER -> v

(* The D-Bus specification calls a dict with a repeated key corrupt but lets
   implementations accept it; what such an encoding denotes is unspecified, so
   the denoted-value clause is not applied to it. *)
RECURSIVE HasDupKeys(_,_)
HasDupKeys(T, v) ==
  CASE T.k = "a" /\ T.e.k = "e" ->
         \/ \E i, j \in 1..Len(v.a) : i < j /\ v.a[i].r[1] = v.a[j].r[1]
         \/ \E i \in 1..Len(v.a) : HasDupKeys(T.e.val, v.a[i].r[2])
    [] T.k = "a" -> \E i \in 1..Len(v.a) : HasDupKeys(T.e, v.a[i])
    [] T.k = "r" -> \E i \in 1..Len(v.r) : HasDupKeys(T.f[i], v.r[i])
    [] T.k = "v" -> HasDupKeys(v.t, v.v)
    [] OTHER -> FALSE

Report(what, detail) == PrintT(<<"MISMATCH", ToJson([line |-> l, id |-> rec.id, what |-> what, detail |-> detail])>>)

(* --- Enc lines: C01 (bytes, size, fds), C02 (round trip), C03 (valid encodings decode) --- *)
EncChecks(r) ==
  IF r.outcome # "ok" THEN Report("enc-outcome", r.outcome)
  ELSE
    LET exp == Marshal(r.T, r.v, r.pos, r.le) IN
    /\ (r.bytes = exp \/ Report("enc-bytes", [expected |-> exp, got |-> r.bytes]))
    /\ (r.size = Len(r.bytes) \/ Report("enc-size", [size |-> r.size, written |-> Len(r.bytes)]))
    /\ ((r.nfds = NumFds(r.T, r.v) /\ r.size_nfds = r.nfds) \/
           Report("enc-nfds", [expected |-> NumFds(r.T, r.v), attached |-> r.nfds, reported |-> r.size_nfds]))
    /\ (r.type_same \/ Report("enc-type", "value_signature differs from the type it was built for"))
    /\ IF r.dec.outcome # "ok" THEN Report("rt-outcome", r.dec)
       ELSE /\ ((r.dec.T = r.T /\ Norm(r.T, r.dec.v) = Norm(r.T, r.v)) \/ Report("rt-value", [got |-> r.dec.v, want |-> r.v]))
            /\ (r.dec.consumed = Len(r.bytes) \/ Report("rt-consumed", [consumed |-> r.dec.consumed, len |-> Len(r.bytes)]))
    /\ LET d == Decode(r.T, exp, r.pos, r.le, NumFds(r.T, r.v)) IN   \* the specification's own law: Decode o Marshal = id
         \/ (d.ok /\ Norm(r.T, d.v) = Norm(r.T, r.v) /\ d.next = Len(exp) + 1)
         \/ Report("spec-selfcheck", d)

(* --- Dec lines: C03 (accept exactly the valid encodings, denote the right value) --- *)
DecChecks(r) ==
  LET d == Decode(r.T, r.bytes, r.pos, r.le, r.nfds) IN
  IF r.dec.outcome = "panic" THEN Report("dec-panic", r.dec.msg)
  ELSE IF d.ok /\ r.dec.outcome # "ok" THEN Report("dec-rejects-valid", [spec |-> d, got |-> r.dec])
  ELSE IF ~d.ok /\ r.dec.outcome = "ok" THEN Report("dec-accepts-invalid", [why |-> d.why, got |-> r.dec])
  ELSE IF d.ok THEN
      /\ (HasDupKeys(r.T, d.v) \/ (r.dec.T = r.T /\ Norm(r.T, r.dec.v) = Norm(r.T, d.v)) \/ Report("dec-value", [got |-> r.dec.v, want |-> d.v]))
      /\ (r.dec.consumed = d.next - 1 \/ Report("dec-consumed", [consumed |-> r.dec.consumed, want |-> d.next - 1]))
  ELSE TRUE

(* --- GVariant Enc lines: C05 (normal-form bytes), C02 (round trip) --- *)
GvEncChecks(r) ==
  IF r.outcome # "ok" THEN Report("gv-enc-outcome", r.outcome)
  ELSE
    LET exp == GvMarshal(r.T, r.v, r.pos, r.le) IN
    /\ (r.bytes = exp \/
          \* explained only by named deviations?  report the smallest explaining set (known-finding key)
          LET expl == {d \in SUBSET AllGvDevs : GvMarshalD(r.T, r.v, r.pos, r.le, d) = r.bytes}
              mins == {d \in expl : \A e \in expl : ~(e \subseteq d /\ e # d)}
          IN Report("gv-enc-bytes", [expected |-> exp, got |-> r.bytes, devs |-> mins]))
    /\ (r.size = Len(r.bytes) \/ Report("gv-enc-size", [size |-> r.size, written |-> Len(r.bytes)]))
    /\ (r.type_same \/ Report("gv-enc-type", "value_signature differs from the type it was built for"))
    /\ LET \* does the value contain a container whose members are all empty (named deviation)?
           emptydrop == GVD(r.T, r.v, r.le, {"no_offsets_when_body_empty"}) # GVD(r.T, r.v, r.le, {}) IN
       IF r.dec.outcome # "ok" THEN Report("gv-rt-outcome", [dec |-> r.dec, emptydrop |-> emptydrop])
       ELSE /\ ((r.dec.T = r.T /\ Norm(r.T, r.dec.v) = Norm(r.T, r.v)) \/ Report("gv-rt-value", [got |-> r.dec.v, want |-> r.v, emptydrop |-> emptydrop]))
            /\ (r.dec.consumed = Len(r.bytes) \/ Report("gv-rt-consumed", [consumed |-> r.dec.consumed, len |-> Len(r.bytes)]))

LineOk ==
  LET r == rec IN
  CASE r.ev = "Enc" /\ r.fmt = "dbus" -> EncChecks(r)
    [] r.ev = "Dec" /\ r.fmt = "dbus" -> DecChecks(r)
    [] r.ev = "Enc" /\ r.fmt = "gvariant" -> GvEncChecks(r)
    [] OTHER -> TRUE
Inv == LineOk \/ TRUE
=============================================================================
