---------------------------- MODULE PropCacheTrace ----------------------------
(***************************************************************************)
(* C31, impl -> spec: every line of the ndjson file TRACE is one scenario    *)
(* replayed on the fake bus: the received history (GetAll reply,             *)
(* PropertiesChanged signals) with the quiescent points, at each of which    *)
(* after `ready` the harness recorded cached_property of every property; at  *)
(* the end what the property streams reported and what get_property          *)
(* returned.  Each line is one initial state; the monitor is PropCache!Fold. *)
(* Every violated clause prints one MISMATCH.                                *)
(***************************************************************************)
EXTENDS Integers, Sequences, FiniteSets, TLC, Json, IOUtils

PC == INSTANCE PropCache WITH MaxMsgs <- 0, Changes <- {},
        sent <- 0, replied <- 0, wire <- 0, chgQ <- 0, rep <- 0, pc <- 0, cache <- 0, ready <- 0, hist <- 0

Rec == ndJsonDeserialize(IOEnv.TRACE)
VARIABLE l
Init == l \in 1..Len(Rec)
Next == UNCHANGED l

Report(what, detail) ==
  PrintT(<<"MISMATCH", ToJson([line |-> l, id |-> Rec[l].id, what |-> what, detail |-> detail, explained_by |-> {}])>>)

Live(p) == CASE p = "P" -> 901 [] p = "Q" -> 902 [] p = "U" -> 903 [] OTHER -> 904
Cached(st, p) == IF p \in PC!Props THEN st.cache[p] ELSE PC!None      \* "R" does not exist
Pos(evs, kind) == {i \in 1..Len(evs) : evs[i].k = kind}

Check(r) ==
  IF r.ev = "Panic" THEN Report("panic", r.msg)
  ELSE
  LET evs == r.evs
      n == Len(evs)
      final == PC!Fold(evs, n)
      readyAt == Pos(evs, "ready")
      replyAt == Pos(evs, "reply")
      streamsAt == Pos(evs, "streams")
  IN
  \* readiness: reported exactly when the snapshot has been received (at the next quiescent point)
  /\ (final.ready = r.ready \/ Report("ready", [expected |-> final.ready, got |-> r.ready, err |-> r.ready_err]))
  /\ \A i \in readyAt : (PC!Fold(evs, i).ready \/ Report("ready-before-snapshot", i))
  \* the cache at every quiescent point after ready
  /\ \A i \in Pos(evs, "obs") :
       LET st == PC!Fold(evs, i) IN
       \A p \in DOMAIN evs[i].cached :
         \/ evs[i].cached[p] = Cached(st, p)
         \/ Report(IF p \in PC!Uncached THEN "uncached-property-cached"
                   ELSE IF \E j \in 1..i : evs[j].k = "chg" /\ ~PC!Ours(evs[j]) /\ p \in (DOMAIN evs[j].changed) \cup PC!InvalSet(evs[j].inval)
                                          /\ Cached(st, p) # evs[i].cached[p]
                                          /\ (evs[j].changed # <<>> /\ p \in DOMAIN evs[j].changed /\ evs[j].changed[p] = evs[i].cached[p])
                        THEN "foreign-signal-applied"
                   ELSE "cache-value",
                   [at |-> i, prop |-> p, expected |-> Cached(st, p), got |-> evs[i].cached[p]])
  \* get_property: the cached value, else the live value fetched from the service
  /\ \A p \in DOMAIN r.gets :
       LET want == IF Cached(final, p) # PC!None THEN Cached(final, p) ELSE Live(p) IN
       \/ ~r.ready \/ r.gets[p].val = want
       \/ Report("get-property", [prop |-> p, expected |-> want, got |-> r.gets[p]])
  \* property streams: every reported value is the latest; a value that differs from the one at stream creation is reported
  /\ \A p \in DOMAIN r.streams :
       LET items == r.streams[p]
           want == IF Cached(final, p) # PC!None THEN Cached(final, p) ELSE Live(p)
           atCreate == IF streamsAt = {} THEN PC!None ELSE Cached(PC!Fold(evs, CHOOSE i \in streamsAt : TRUE), p)
       IN
       /\ \A k \in 1..Len(items) : (items[k] = want \/ Report("stream-stale-value", [prop |-> p, expected |-> want, got |-> items]))
       /\ (~r.ready \/ streamsAt = {} \/ Len(items) >= 1 \/ (Cached(final, p) = atCreate /\ atCreate = PC!None)
             \/ Report("stream-missed-change", [prop |-> p, latest |-> Cached(final, p), at_creation |-> atCreate]))

Inv == Check(Rec[l]) \/ TRUE
=============================================================================
