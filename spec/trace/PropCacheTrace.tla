---------------------------- MODULE PropCacheTrace ----------------------------
(***************************************************************************)
(* C31, impl -> spec: every line of the ndjson file TRACE is one scenario    *)
(* replayed on the fake bus: the received history (GetAll reply,             *)
(* PropertiesChanged signals) with the quiescent points, at each of which    *)
(* after `ready` the harness recorded cached_property of every property; at  *)
(* the end what the property streams reported and what get_property          *)
(* returned.  Each line is one initial state; the monitor is PropCache!Fold. *)
(* Every violated clause prints one MISMATCH.                                *)
(***************************************************************************)
EXTENDS Integers, Sequences, FiniteSets, TLC, Json, IOUtils

PC == INSTANCE PropCache WITH MaxMsgs <- 0, Changes <- {},
        sent <- 0, replied <- 0, wire <- 0, chgQ <- 0, rep <- 0, pc <- 0, cache <- 0, ready <- 0, hist <- 0

Rec == ndJsonDeserialize(IOEnv.TRACE)
\* TLC does not cache Rec: the record of a line is carried in the state so the file is parsed once
VARIABLES l, rec
Init == LET R == Rec IN \E i \in 1..Len(R) : l = i /\ rec = R[i]
Next == UNCHANGED <<l, rec>>

Report(what, detail, devs) ==
  PrintT(<<"MISMATCH", ToJson([line |-> l, id |-> rec.id, what |-> what, detail |-> detail, explained_by |-> devs])>>)

Live(p) == CASE p = "P" -> 901 [] p = "Q" -> 902 [] p = "U" -> 903 [] OTHER -> 904
Cached(st, p) == IF p \in PC!Props THEN st.cache[p] ELSE PC!None      \* "R" does not exist
Pos(evs, kind) == {i \in 1..Len(evs) : evs[i].k = kind}
V(what, detail) == [what |-> what, detail |-> detail]

\* a foreign signal (other interface / sender / object) whose value shows up in the cache
Foreign(evs, i, p, got) ==
  \E j \in 1..i : /\ evs[j].k = "chg" /\ ~PC!Ours(evs[j])
                   /\ evs[j].changed # <<>> /\ p \in DOMAIN evs[j].changed /\ evs[j].changed[p] = got

(* The set of violated clauses of observation r when the cache is predicted by the fold with deviations devs. *)
Viol(r, devs) ==
  LET evs == r.evs
      n == Len(evs)
      final == PC!FoldD(evs, n, devs)
      streamsAt == Pos(evs, "streams")
      Want(p) == IF Cached(final, p) # PC!None THEN Cached(final, p) ELSE Live(p)
  IN
  \* readiness: reported exactly when the snapshot has been received (at the next quiescent point)
  (IF final.ready = r.ready THEN {} ELSE {V("ready", [expected |-> final.ready, got |-> r.ready, err |-> r.ready_err])})
  \cup {V("ready-before-snapshot", i) : i \in {j \in Pos(evs, "ready") : ~PC!FoldD(evs, j, devs).ready}}
  \* the cache at every quiescent point after ready
  \cup UNION {
       LET st == PC!FoldD(evs, i, devs) IN
       {V(IF p \in PC!Uncached THEN "uncached-property-cached"
          ELSE IF Foreign(evs, i, p, evs[i].cached[p]) THEN "foreign-signal-applied" ELSE "cache-value",
          [at |-> i, prop |-> p, expected |-> Cached(st, p), got |-> evs[i].cached[p]])
        : p \in {q \in DOMAIN evs[i].cached : evs[i].cached[q] # Cached(st, q)}}
     : i \in Pos(evs, "obs")}
  \* the value PropertyChanged::get returned is the one the service sent, or the latest value received meanwhile
  \cup {V("fetched-value", [at |-> i, got |-> evs[i].val])
        : i \in {j \in Pos(evs, "fetched") :
                   /\ ~\E k \in 1..j : evs[k].k = "getreply" /\ evs[k].val = evs[j].val
                   /\ ~\E k \in 1..j : evs[k].k = "fetch" /\ Cached(PC!FoldD(evs, j, devs), evs[k].prop) = evs[j].val}}
  \* get_property: the cached value, else the live value fetched from the service
  \cup (IF ~r.ready THEN {} ELSE
        {V("get-property", [prop |-> p, expected |-> Want(p), got |-> r.gets[p]]) : p \in {q \in DOMAIN r.gets : r.gets[q].val # Want(q)}})
  \* property streams: every reported value is the latest; a value that differs from the one at stream creation is reported
  \cup UNION {
       LET items == r.streams[p]
           atCreate == IF streamsAt = {} THEN PC!None ELSE Cached(PC!FoldD(evs, CHOOSE i \in streamsAt : TRUE, devs), p)
       IN (IF \E k \in 1..Len(items) : items[k] # Want(p)
           THEN {V("stream-stale-value", [prop |-> p, expected |-> Want(p), got |-> items])} ELSE {})
          \cup (IF r.ready /\ streamsAt # {} /\ Len(items) = 0 /\ Cached(final, p) # atCreate /\ Pos(evs, "fetch") = {}
                THEN {V("stream-missed-change", [prop |-> p, latest |-> Cached(final, p), at_creation |-> atCreate])} ELSE {})
     : p \in DOMAIN r.streams}

Check(r) ==
  IF r.ev = "Panic" THEN Report("panic", r.msg, {})
  ELSE LET v0 == Viol(r, {}) IN
       IF v0 = {} THEN TRUE
       ELSE LET expl == {d \in PC!KnownDevs : Viol(r, {d}) = {}} IN
            \A v \in v0 : Report(v.what, v.detail, expl)

Inv == Check(rec) \/ TRUE
=============================================================================
