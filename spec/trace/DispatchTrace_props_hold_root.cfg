CONSTANTS
  DEVS = {"props_hold_root"}
INIT TInit
NEXT TNext
CHECK_DEADLOCK FALSE
