------------------------------ MODULE RpcTrace ------------------------------
(***************************************************************************)
(* Validation of calls recorded from the real object server / proxies       *)
(* (harness/iface) against Rpc.tla (impl -> spec).  Every line of the       *)
(* ndjson file TRACE is one independent observation and one initial state:  *)
(*   Call     a hand-built method call sent by the p2p client, the handler  *)
(*            runs it caused and every reply that came back (C26)           *)
(*   PCall    a call through a generated proxy (C33)                        *)
(*   PGet / PSet   a property read / write through a generated proxy (C33)  *)
(*   PSignal  one signal emitted by the interface and what the proxy's      *)
(*            signal stream yielded (C33)                                   *)
(* The program (shapes, trees) is read from the files TLC itself emitted    *)
(* (SHAPES, TREES), not from the harness.  A line the predicates of Rpc.tla *)
(* do not accept prints one MISMATCH record: the violated clause and the    *)
(* smallest set of named deviations that would explain it (empty = none).   *)
(***************************************************************************)
EXTENDS Rpc, Json, IOUtils

(* TLC re-reads the file on every evaluation of ndJsonDeserialize (the definition is not cached),  *)
(* so the three files are read once, by the main thread, into TLC registers that all workers see.  *)
ASSUME TLCSet(1, ndJsonDeserialize(IOEnv.TRACE))
ASSUME TLCSet(2, ndJsonDeserialize(IOEnv.SHAPES))
ASSUME TLCSet(3, ndJsonDeserialize(IOEnv.TREES))
Rec     == TLCGet(1)
FShapes == TLCGet(2)
FTrees  == TLCGet(3)
(* constants of the state-machine part of Rpc.tla are not used here *)
NoProg == [shapes |-> <<>>, regs |-> <<>>]
NoCalls == {}
NoDevs == {}

VARIABLE l
TInit == /\ l \in 1..Len(Rec)
         /\ call = 0 /\ pc = "trace" /\ verdict = 0 /\ handlers = <<>> /\ replies = <<>>
TNext == UNCHANGED <<l, call, pc, verdict, handlers, replies>>
r == Rec[l]
prog == [shapes |-> FShapes,
         regs |-> IF "tid" \in DOMAIN r THEN FTrees[CHOOSE j \in 1..Len(FTrees) : FTrees[j].tid = r.tid].regs ELSE FTrees[1].regs]

Report(what, detail) == PrintT(<<"MISMATCH", ToJson([line |-> l, id |-> r.id, what |-> what, detail |-> detail])>>)

(* ---- C26: raw calls ---- *)
CallChecks ==
  LET obs  == [sent |-> r.sent, handlers |-> r.handlers, replies |-> r.replies]
      ex   == Explanation(prog, obs) IN
  /\ (r.sent.sig = SigSeq(TypesOf(r.sent.args)) \/ Report("harness-sent-signature", r.sent.sig))
  /\ (ex.ok \/ Report(FailingClause(prog, obs),
                      [devs |-> SetToSeq(ex.devs), explained |-> ex.devs # {}, cls |-> r.case.cls,
                       allowed |-> SetToSeq({IF v.kind = "run" THEN "run " \o v.m.name ELSE IF v.kind = "error" THEN v.name ELSE "any"
                                              : v \in Allowed(prog, obs.sent, {})}),
                       nhandlers |-> Len(r.handlers), nreplies |-> Len(r.replies),
                       reply |-> IF Len(r.replies) > 0 THEN [type |-> r.replies[1].type, name |-> r.replies[1].name, sig |-> r.replies[1].sig] ELSE [type |-> "none"]]))
  /\ (HandlerArgsOk(obs) \/ Report("c33-handler-args", [cls |-> r.case.cls]))
  /\ (r.stray = 0 \/ Report("c26-stray-message", r.stray))

(* ---- C33: proxies ---- *)
ShapeK(k) == ShapeById(prog.shapes, k)
MethodK(k, name) == CHOOSE m \in MethodsNamed(ShapeK(k), name) : TRUE
PropK(k, name) == LET sh == ShapeK(k) IN sh.props[CHOOSE i \in 1..Len(sh.props) : sh.props[i].name = name]

PCallChecks ==
  LET pobs == [m |-> MethodK(r.iface, r.member), args |-> r.args, fail |-> r.fail, handlers |-> r.handlers, ret |-> r.ret] IN
  \/ ProxyCallOk(pobs)
  \/ Report("c33-call", [member |-> r.member, mode |-> r.mode, ret |-> r.ret.kind, nhandlers |-> Len(r.handlers),
                         insig |-> InSig(pobs.m), outsig |-> OutSig(pobs.m)])

(* a read through the proxy observes the server's value *)
PGetChecks ==
  LET p == PropK(r.iface, r.prop) IN
  \/ /\ r.ret.kind = "ok" /\ Len(r.ret.outs) = 1
     /\ r.ret.outs[1].T = p.ty
     /\ CanonTV(r.ret.outs[1]) = CanonTV(r.server[r.prop])
  \/ Report("c33-property-get", [prop |-> r.prop, mode |-> r.mode, ret |-> r.ret.kind, ty |-> SigStr(p.ty)])

(* a write through the proxy changes the server's value *)
PSetChecks ==
  LET p == PropK(r.iface, r.prop) IN
  \/ /\ r.ret.kind = "ok"
     /\ CanonTV(r.server[r.prop]) = CanonTV(r.value)
  \/ Report("c33-property-set", [prop |-> r.prop, mode |-> r.mode, ret |-> r.ret.kind, ty |-> SigStr(p.ty)])

PSignalChecks ==
  \/ r.note = "" /\ ProxySignalOk([args |-> r.args, items |-> r.items])
  \/ Report("c33-signal", [signal |-> r.signal, mode |-> r.mode, note |-> r.note, nitems |-> Len(r.items)])

LineOk ==
  CASE r.ev = "Call"    -> CallChecks
    [] r.ev = "PCall"   -> PCallChecks
    [] r.ev = "PGet"    -> PGetChecks
    [] r.ev = "PSet"    -> PSetChecks
    [] r.ev = "PSignal" -> PSignalChecks
    [] OTHER -> Report("harness-unknown-event", r.ev)
Inv == LineOk \/ TRUE
=============================================================================
