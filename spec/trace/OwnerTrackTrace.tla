--------------------------- MODULE OwnerTrackTrace ---------------------------
(***************************************************************************)
(* C32, impl -> spec: every line of the ndjson file TRACE is one scenario    *)
(* replayed on the fake bus: the bus history in receive order (with the      *)
(* points where the client was run to quiescence and the point from which    *)
(* the stream existed) and the ids the real SignalStream yielded.  Each line *)
(* is one initial state.  The property monitor is OwnerTrack!Ideal; a line   *)
(* it does not accept prints a MISMATCH naming the clause and the recorded   *)
(* deviations of the client model (OwnerTrack!Sim) that explain it.          *)
(***************************************************************************)
EXTENDS Naturals, Sequences, FiniteSets, TLC, Json, IOUtils

OT == INSTANCE OwnerTrack WITH MaxMsgs <- 0, DevBufferedRelease <- FALSE,
        own <- 0, looked <- 0, n <- 0, wire <- 0, nocQ <- 0, sigQ <- 0, rep <- 0, c <- 0, trk <- 0,
        live <- 0, out <- 0, exp <- 0

Rec == ndJsonDeserialize(IOEnv.TRACE)
\* TLC does not cache Rec: the record of a line is carried in the state so the file is parsed once
VARIABLES l, rec
Init == LET R == Rec IN \E i \in 1..Len(R) : l = i /\ rec = R[i]
Next == UNCHANGED <<l, rec>>

Report(what, detail, devs) ==
  PrintT(<<"MISMATCH", ToJson([line |-> l, id |-> rec.id, what |-> what, detail |-> detail, explained_by |-> devs])>>)

Range(s) == {s[i] : i \in 1..Len(s)}

(* Where the specification puts the "subscribed" marker: the stream set-up finishes at the first quiescent
   point after the first lookup-relevant message (lookup reply or genuine NameOwnerChanged) was received.
   Used for the specification's own consistency check (Sim without deviations = Ideal), which must not depend
   on what the implementation did; an observed marker elsewhere is reported as drift, never as an error. *)
Strip(evs) == SelectSeq(evs, LAMBDA e : e.k # "subscribed")
Predicted(evs) ==
  LET s == Strip(evs)
      rel == {i \in 1..Len(s) : s[i].k \in {"reply", "noc"}}
  IN IF rel = {} THEN s
     ELSE LET f == CHOOSE i \in rel : \A j \in rel : i <= j
              qs == {j \in (f + 1)..Len(s) : s[j].k = "q"}
          IN IF qs = {} THEN s
             ELSE LET q == CHOOSE j \in qs : \A k \in qs : j <= k
                  IN SubSeq(s, 1, q - 1) \o <<[k |-> "subscribed"]>> \o SubSeq(s, q, Len(s))
SigOf(evs, id) == CHOOSE e \in Range(evs) : e.k = "sig" /\ e.id = id

Check(r) ==
  IF r.ev = "Panic" THEN Report("panic", r.msg, {})
  ELSE
  LET ideal == OT!Ideal(r.mode, r.init, r.evs)
      got == r.yields
      expl == IF r.extra # <<>> THEN {} ELSE {d \in OT!KnownDevs : OT!Sim(r.mode, r.init, r.evs, {d}) = got}
      spurious == Range(got) \ Range(ideal)
      missing == Range(ideal) \ Range(got)
  IN
  /\ LET pe == Predicted(r.evs) IN
       (OT!Sim(r.mode, r.init, pe, {}) = OT!Ideal(r.mode, r.init, pe) \/ Report("spec-selfcheck", "Sim without deviations differs from Ideal", {}))
  /\ (r.evs = Predicted(r.evs) \/ PrintT(<<"DRIFT", ToJson([line |-> l, id |-> rec.id, what |-> "stream set-up finished at an unexpected point"])>>))
  /\ IF got = ideal /\ r.extra = <<>> THEN TRUE
     ELSE IF r.extra # <<>> THEN Report("yield-foreign-message", r.extra, expl)
     ELSE IF spurious # {} THEN
          LET id == CHOOSE x \in spurious : TRUE IN
          IF ~ \E e \in Range(r.evs) : e.k = "sig" /\ e.id = id THEN Report("yield-unknown", id, expl)
          ELSE IF ~OT!Matching(r.mode, SigOf(r.evs, id)) THEN Report("yield-nonmatching", [id |-> id, ideal |-> ideal, got |-> got], expl)
          ELSE Report("yield-from-non-owner", [id |-> id, from |-> SigOf(r.evs, id).from, ideal |-> ideal, got |-> got], expl)
     ELSE IF missing # {} THEN Report("owner-signal-dropped", [ideal |-> ideal, got |-> got, err |-> r.err], expl)
     ELSE Report("yield-order", [ideal |-> ideal, got |-> got], expl)

Inv == Check(rec) \/ TRUE
=============================================================================
