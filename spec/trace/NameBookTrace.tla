---------------------------- MODULE NameBookTrace ----------------------------
(***************************************************************************)
(* C36, impl -> spec: every line of the ndjson file TRACE is the log of one  *)
(* scenario replayed on the fake bus (API calls, whether each reached the    *)
(* bus, messages given to the client in receive order, results).  Each line  *)
(* is one initial state.  The property monitor is NameBook!Monitor; for a    *)
(* rejected line every violated clause is printed as MISMATCH together with  *)
(* the recorded deviations of the client model that explain the whole log.   *)
(***************************************************************************)
EXTENDS Naturals, Sequences, FiniteSets, TLC, Json, IOUtils

NB == INSTANCE NameBook WITH MaxSteps <- 0, MaxForged <- 0, DevLostForgets <- FALSE,
        holder <- 0, inq <- 0, ballow <- 0, bdnq <- 0, chan <- 0, call <- 0, kn <- 0, cl <- 0,
        steps <- 0, forged <- 0, wrong <- 0

Rec == ndJsonDeserialize(IOEnv.TRACE)
\* TLC does not cache Rec: the record of a line is carried in the state so the file is parsed once
VARIABLES l, rec
Init == LET R == Rec IN \E i \in 1..Len(R) : l = i /\ rec = R[i]
Next == UNCHANGED <<l, rec>>

Report(what, detail, devs) ==
  PrintT(<<"MISMATCH", ToJson([line |-> l, id |-> rec.id, what |-> what, detail |-> detail, explained_by |-> devs])>>)

Check(r) ==
  IF r.ev = "Panic" THEN Report("panic", r.msg, {})
  ELSE
  LET bad == NB!Monitor(r.log)
      drift == \E i \in 1..Len(r.log) : r.log[i].k = "unscripted"
  IN
  /\ (drift => PrintT(<<"DRIFT", ToJson([line |-> l, id |-> rec.id, what |-> "unscripted-bus-call"])>>))
  /\ IF bad = <<>> THEN TRUE
     ELSE LET expl == {d \in NB!KnownDevs : NB!ClientExplains(r.log, {d})} IN
          \A i \in 1..Len(bad) : Report(bad[i].clause, [at |-> bad[i].at, info |-> bad[i].detail], expl)

Inv == Check(rec) \/ TRUE
=============================================================================
