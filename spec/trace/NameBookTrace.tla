---------------------------- MODULE NameBookTrace ----------------------------
(***************************************************************************)
(* C36, impl -> spec: every line of the ndjson file TRACE is the log of one  *)
(* scenario replayed on the fake bus (API calls, whether each reached the    *)
(* bus, messages given to the client in receive order, results).  Each line  *)
(* is one initial state.  The property monitor is NameBook!Monitor; for a    *)
(* rejected line every violated clause is printed as MISMATCH together with  *)
(* the recorded deviations of the client model that explain the whole log.   *)
(***************************************************************************)
EXTENDS Naturals, Sequences, FiniteSets, TLC, Json, IOUtils

NB == INSTANCE NameBook WITH MaxSteps <- 0, MaxForged <- 0, DevLostForgets <- FALSE,
        holder <- 0, inq <- 0, ballow <- 0, bdnq <- 0, chan <- 0, call <- 0, kn <- 0, cl <- 0,
        steps <- 0, forged <- 0, wrong <- 0

Rec == ndJsonDeserialize(IOEnv.TRACE)
\* TLC does not cache Rec: the record of a line is carried in the state so the file is parsed once
VARIABLES l, rec
Init == LET R == Rec IN \E i \in 1..Len(R) : l = i /\ rec = R[i]
Next == UNCHANGED <<l, rec>>

Report(what, detail, devs) ==
  PrintT(<<"MISMATCH", ToJson([line |-> l, id |-> rec.id, what |-> what, detail |-> detail, explained_by |-> devs])>>)

Check(r) ==
  IF r.ev = "Panic" THEN Report("panic", r.msg, {})
  ELSE
  \* "unscripted": the client went to the bus where the script (steered by the client model) has no reply for it, and the
  \* harness then abandoned that API call in mid-flight to go on with the script.  Cancelling a call half-way is outside
  \* the property's statement (calls are made at quiescent points), and what the client's table holds afterwards cannot be
  \* compared with the monitor's knowledge any more: only the log up to that point is judged; the rest is reported as DRIFT.
  LET U == {i \in 1..Len(r.log) : r.log[i].k = "unscripted"}
      drift == U # {}
      judged == IF drift THEN SubSeq(r.log, 1, (CHOOSE i \in U : \A j \in U : i <= j) - 1) ELSE r.log
      bad == NB!Monitor(judged)
  IN
  /\ (drift => PrintT(<<"DRIFT", ToJson([line |-> l, id |-> rec.id, what |-> "unscripted-bus-call"])>>))
  /\ IF bad = <<>> THEN TRUE
     ELSE LET expl == {d \in NB!KnownDevs : NB!ClientExplains(judged, {d})} IN
          \A i \in 1..Len(bad) : Report(bad[i].clause, [at |-> bad[i].at, info |-> bad[i].detail], expl)

Inv == Check(rec) \/ TRUE
=============================================================================
