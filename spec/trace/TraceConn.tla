----------------------------- MODULE TraceConn -----------------------------
(***************************************************************************)
(* Trace validation of the *system model* spec/Conn.tla (advisory: a trace    *)
(* the model cannot explain is MODEL-DRIFT, not a violation - DESIGN 1.3).    *)
(* Observable events of call scenarios are bound to Conn's actions; lock,      *)
(* subscribe, reader and non-final poll steps are silent.  The search stops    *)
(* at the first state that has consumed the whole trace (reported through the   *)
(* "Accepted" pseudo-invariant); otherwise the longest explained prefix is       *)
(* kept in TLC register 1.                                                        *)
(***************************************************************************)
EXTENDS Conn, Json, IOUtils, TLCExt
Rec == ndJsonDeserialize(IOEnv.TRACE)

\* (Callers and NoReply are written into the generated .cfg by lib/props/conn.py: substituted constant
\* expressions would be re-evaluated - and the trace file re-parsed - at every use)
TC_Empty == {}
TC_EmptyFn == [x \in {} |-> 0]

VARIABLES tr, l, ser      \* remaining events, position, <<caller, serial>> pairs seen on the wire
tvars == <<vars, tr, l, ser>>

CallerOf(s) == LET S == {p \in ser : p[2] = s} IN IF S = {} THEN 0 ELSE (CHOOSE p \in S : TRUE)[1]
Consume == tr' = Tail(tr) /\ l' = l + 1
Stutter == UNCHANGED vars

ResetAll ==
  /\ pc' = [c \in Callers |-> "idle"] /\ cur' = [c \in Callers |-> 0] /\ cact' = [c \in Callers |-> FALSE]
  /\ res' = [c \in Callers |-> R("none", 0)]
  /\ wlock' = NoHolder /\ wire' = <<>> /\ net' = <<>> /\ rd' = RIdle
  /\ q' = [ch \in Chans |-> <<>>] /\ head' = [ch \in Chans |-> 0]
  /\ open' = [ch \in Chans |-> ch = MR] /\ closed' = [ch \in Chans |-> FALSE]
  /\ subs' = [r \in Rules |-> 0] /\ sst' = [s \in Streams |-> "none"] /\ scur' = [s \in Streams |-> 0]
  /\ should' = [s \in Streams |-> <<>>] /\ got' = [s \in Streams |-> <<>>]
  /\ answered' = {} /\ strays' = 0 /\ sigsSent' = {} /\ faults' = 0 /\ faulted' = FALSE

TInit == Init /\ tr = Rec /\ l = 1 /\ ser = {} /\ TLCSet(1, 1)

Observable ==
  /\ tr # <<>>
  /\ LET e == Head(tr) IN
     CASE e.ev = "Reset" -> ResetAll /\ ser' = {} /\ Consume
       [] e.ev = "Wire" /\ e.type = "call" /\ e.id \in Callers ->
            /\ ser' = ser \cup {<<e.id, e.serial>>} /\ Consume
            \* the frame is logged when the driver next looks at the wire: the write itself may already have been
            \* taken as a silent step (e.g. when the same poll of the caller also completed the call)
            /\ IF \E i \in 1..Len(wire) : wire[i] = e.id THEN Stutter ELSE CWrite(e.id)
       [] e.ev = "CallDone" /\ e.outcome = "noreply" ->
            /\ UNCHANGED ser /\ Consume
            /\ IF \E i \in 1..Len(wire) : wire[i] = e.c THEN Stutter ELSE CWrite(e.c)
       [] e.ev = "CallDone" ->
            /\ UNCHANGED ser /\ Consume
            /\ \/ (CPoll(e.c) /\ pc'[e.c] = "drop" /\
                     res'[e.c].k = (IF e.outcome = "ok" THEN "ret" ELSE IF e.err = "method_error" THEN "err" ELSE "ioerr"))
               \/ (CStartAfterFault(e.c) /\ e.outcome = "err")
       [] e.ev = "PeerSend" /\ e.kind \in {"return", "error"} ->
            /\ UNCHANGED ser /\ Consume
            /\ PeerAnswer(CallerOf(e.reply_serial), IF e.kind = "return" THEN "ret" ELSE "err")
       [] e.ev = "PeerSend" /\ e.kind = "stray" -> PeerStray /\ UNCHANGED ser /\ Consume
       [] e.ev = "Fault" /\ e.where = "read" -> Fault /\ UNCHANGED ser /\ Consume
       [] OTHER -> Stutter /\ UNCHANGED ser /\ Consume        \* CallStart, Quiescent, io events, ...

Silent ==
  /\ UNCHANGED <<tr, l, ser>>
  /\ \/ \E c \in Callers : CStart(c) \/ CLock(c) \/ CWrite(c) \/ CDrop(c) \/ (CPoll(c) /\ pc'[c] = "await")
     \/ RRead \/ RReadFail \/ (\E ch \in Chans : RBcast(ch)) \/ RDone

TNext == Observable \/ Silent

Reached == IF l > TLCGet(1) THEN TLCSet(1, l) ELSE TRUE
\* "violated" exactly when the whole trace has been explained: TLC stops at the first accepting state
NotYetAccepted == tr # <<>>
Post == PrintT(<<"PREFIX", ToJson([explained |-> TLCGet(1) - 1])>>)
=============================================================================
