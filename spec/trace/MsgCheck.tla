----------------------------- MODULE MsgCheck -----------------------------
(***************************************************************************)
(* Validation of observations recorded from zbus's message code against     *)
(* spec/MsgLayout.tla (impl -> spec, shape A).  One ndjson line = one       *)
(* initial state; a line the specification does not explain prints one      *)
(* MISMATCH record per violated clause (never stops at the first).          *)
(*   Build   (C11) a message built with the builder API, its bytes, and the *)
(*           message re-parsed from those bytes                             *)
(*   Hostile (C12) arbitrary bytes pushed through from_bytes and every      *)
(*           accessor; outcome domain {ok, err} per call                    *)
(*   Compat  (C13) a stream with an odd-but-valid message between normal    *)
(*           ones: from_bytes on the odd one, and what a connection's       *)
(*           MessageStream delivered                                        *)
(***************************************************************************)
EXTENDS Gen_MsgBase, Json, IOUtils, TLC      \* Gen_MsgBase (EXTENDS MsgLayout): the normal messages of the C13 streams

Rec == ndJsonDeserialize(IOEnv.TRACE)
(* The record of the line is kept in the state: TLC re-evaluates the definition `Rec` (i.e. parses
   the whole file again) at every use, so `Rec[l]` per line would make validation quadratic. *)
VARIABLES l, rec
Init == LET R == Rec IN \E i \in 1..Len(R) : l = i /\ rec = R[i]
Next == UNCHANGED <<l, rec>>

Has(r, f) == f \in DOMAIN r
Report(what, detail) == PrintT(<<"MISMATCH", ToJson([line |-> l, id |-> rec.id, what |-> what, detail |-> detail])>>)
Diag(what, detail)   == PrintT(<<"DIAG", ToJson([line |-> l, id |-> rec.id, what |-> what, detail |-> detail])>>)

(* Normal form of denoted values (as in WireCheck): dict arrays are maps, and a
   signature value of several complete types equals the struct around them. *)
RECURSIVE Norm(_,_)
Norm(T, v) ==
  CASE T.k = "a" /\ T.e.k = "e" -> [d |-> {Norm(T.e, v.a[i]) : i \in 1..Len(v.a)}]
    [] T.k = "a" -> [a |-> [i \in 1..Len(v.a) |-> Norm(T.e, v.a[i])]]
    [] T.k = "r" -> [r |-> [i \in 1..Len(v.r) |-> Norm(T.f[i], v.r[i])]]
    [] T.k = "e" -> [r |-> <<Norm(T.key, v.r[1]), Norm(T.val, v.r[2])>>]
    [] T.k = "v" -> [t |-> v.t, v |-> Norm(v.t, v.v)]
    [] T.k = "g" -> LET p == ParseSig(v.s, FALSE) IN
                    IF p.ok /\ Len(p.ts) >= 2 THEN [s |-> <<40>> \o v.s \o <<41>>] ELSE [s |-> v.s]
    [] OTHER -> v
NormSeq(ts, vs) == [i \in 1..Len(vs) |-> Norm(ts[i], vs[i])]

(* How zbus's API shows a body signature: zvariant's Signature has no "sequence
   of types"; several arguments are shown as the struct of them (documented), so
   "su" and "(su)" are the same API value.  The bytes on the wire are compared
   exactly (clause hdr-fields); only the API view is compared modulo this. *)
ApiSig(ts) == IF Len(ts) = 0 THEN [k |-> "unit"] ELSE IF Len(ts) = 1 THEN ts[1] ELSE [k |-> "r", f |-> ts]
\* ... and the fields of the body read as a dynamic Structure
ApiArgsT(ts) == IF Len(ts) = 1 /\ ts[1].k = "r" THEN ts[1].f ELSE ts
ApiArgsV(ts, vs) == IF Len(ts) = 1 /\ ts[1].k = "r" THEN vs[1].r ELSE vs

\* default-valued body fields may be present or omitted
Defaulted(f) == \/ (f.c = F_SIGNATURE /\ f.v.s = <<>>)
                \/ (f.c = F_UNIX_FDS /\ f.v.b = <<0, 0, 0, 0>>)
Essential(FS) == {f \in FS : ~Defaulted(f)}

(* ------------------------------ C11 ------------------------------------ *)
BuildChecks(r) ==
  IF r.outcome # "ok" THEN Report("build-outcome", [outcome |-> r.outcome, msg |-> r.msg])
  ELSE
  LET want  == WithBodyFields(r.hdr, r.body)         \* user fields + SIGNATURE / UNIX_FDS
      wantS == FieldSet(want.fields)
      p     == ParseMsg(r.bytes)
      bb    == BodyBytes(r.body, r.le)
  IN
  IF ~p.ok THEN Report("hdr-invalid", [why |-> p.why, sub |-> p.sub])
  ELSE
    \* the header bytes are what the format prescribes for this header: same fixed part, same
    \* field set (order free), and byte-identical with the marshalling of those fields in the
    \* order they appear
    /\ ((p.le = r.le /\ p.type = r.hdr.type /\ p.flags = r.hdr.flags /\ p.serial = r.hdr.serial)
          \/ Report("hdr-fixed", [le |-> p.le, type |-> p.type, flags |-> p.flags, serial |-> p.serial]))
    /\ ((Essential(FieldSet(p.fields)) = Essential(wantS) /\ p.ignored = {})
          \/ Report("hdr-fields", [got |-> p.fields, want |-> want.fields, ignored |-> p.ignored]))
    /\ (r.bytes = MsgBytes([r.hdr EXCEPT !.fields = p.fields], r.body, r.le)
          \/ Report("hdr-bytes", [want |-> MsgBytes([r.hdr EXCEPT !.fields = p.fields], r.body, r.le), got |-> r.bytes]))
    \* body on an 8-byte boundary, exactly the marshalled arguments
    /\ (p.boff % 8 = 0 \/ Report("body-align", p.boff))
    /\ (SubSeq(r.bytes, p.boff + 1, Len(r.bytes)) = bb
          \/ Report("body-bytes", [want |-> bb, got |-> SubSeq(r.bytes, p.boff + 1, Len(r.bytes))]))
    \* declared body length and descriptor count are the actual ones
    /\ ((p.blen = Len(bb) /\ Len(r.bytes) = p.boff + p.blen)
          \/ Report("body-len", [declared |-> p.blen, actual |-> Len(r.bytes) - p.boff]))
    /\ ((p.nfds = BodyFds(r.body) /\ r.nfds = p.nfds)
          \/ Report("unix-fds", [declared |-> p.nfds, attached |-> r.nfds, in_body |-> BodyFds(r.body)]))
    \* the re-parsed message is the one that was built
    /\ IF r.re.outcome # "ok" THEN Report("re-outcome", r.re)
       ELSE
         /\ ((r.re.hdr.type = r.hdr.type /\ r.re.hdr.flags = r.hdr.flags /\ r.re.hdr.serial = r.hdr.serial
                /\ r.re.hdr.le = r.le /\ r.re.hdr.body_len = p.blen)
               \/ Report("re-hdr", r.re.hdr))
         /\ (Essential(FieldSet(r.re.hdr.fields)) = Essential({f \in wantS : f.c # F_SIGNATURE})
               \/ Report("re-fields", [got |-> r.re.hdr.fields, want |-> want.fields]))
         /\ ((r.re.sig = ApiSig(r.body.ts) /\ r.re.body_sig_same) \/ Report("re-sig", [got |-> r.re.sig, want |-> ApiSig(r.body.ts)]))
         /\ (r.re.nfds = r.nfds \/ Report("re-nfds", r.re.nfds))
         /\ IF r.body.ts = <<>> THEN (r.re.body.outcome = "none" \/ Report("re-body", r.re.body))
            ELSE IF r.re.body.outcome # "ok" THEN Report("re-body", r.re.body)
            ELSE ((r.re.body.ts = ApiArgsT(r.body.ts)
                     /\ NormSeq(r.re.body.ts, r.re.body.vs) = NormSeq(ApiArgsT(r.body.ts), ApiArgsV(r.body.ts, r.body.vs)))
                   \/ Report("re-body", [got |-> r.re.body, want |-> r.body]))
         /\ (r.own_same \/ Report("own-differs", "accessors of the built message differ from those of the re-parsed one"))

(* ------------------------------ C12 ------------------------------------ *)
(* Outcome domain: every call on every input ends in ok or err.  A panic is   *)
(* reported once per root call group (Display / Debug call header() and       *)
(* body(), so their panics are attributed to those when those panic too).     *)
Panicked(r, c) == c \in DOMAIN r.calls /\ r.calls[c] \notin {"ok", "err"}
HostileChecks(r) ==
  LET hp  == Panicked(r, "header") \/ Panicked(r, "header_debug")
      bp  == \E c \in {"body", "body_sig", "body_de", "body_str", "body_unchecked"} : Panicked(r, c)
      own == {c \in {"primary", "display", "debug", "drop"} : Panicked(r, c)}
      fc  == FrameClass(r.bytes)
      Rep(g) == Report("hostile-panic", [group |-> g, frame |-> fc, cls |-> r.cls, panics |-> r.panics])
      p   == ParseMsg(r.bytes)
      ctxOk == Len(r.bytes) >= 1 /\ (r.bytes[1] = 108) = r.ctx_le
  IN
  /\ (~Panicked(r, "parse") \/ Rep("parse"))
  /\ (~hp \/ Rep("header"))
  /\ (~bp \/ Rep("body"))
  /\ \A c \in own : (c \in {"display", "debug"} /\ (hp \/ bp)) \/ Rep(c)
  \* diagnostics only (the property demands totality, not a verdict)
  /\ IF ~r.diag THEN TRUE
     ELSE IF r.calls.parse = "ok" /\ ~p.ok THEN Diag("accepts-invalid", [why |-> p.why, sub |-> p.sub, cls |-> r.cls])
     ELSE IF r.calls.parse = "err" /\ p.ok /\ ctxOk /\ ~p.skip THEN Diag("rejects-valid", [cls |-> r.cls])
     ELSE TRUE

(* ------------------------------ C13 ------------------------------------ *)
Devs == {"unknown_field_rejected", "unknown_flag_rejected", "unknown_type_rejected"}
(* Memoization only: the two normal messages of the generated streams recur in every line; their
   parse results are a constant-level definition, which TLC evaluates once. *)
KnownParses == [m \in {NormA(TRUE), NormA(FALSE), NormB(TRUE), NormB(FALSE)} |-> ParseMsg(m)]
ParseC(B) == IF B \in DOMAIN KnownParses THEN KnownParses[B] ELSE ParseMsg(B)
RECURSIVE MsgPrefix(_)
MsgPrefix(items) == IF items = <<>> \/ Head(items).k # "msg" THEN <<>> ELSE <<Head(items).serial>> \o MsgPrefix(Tail(items))
WantSerials(stream, ps, devs) ==       \* ps = parse results of the stream's messages
  LET d == ReaderRunP(ReaderInit, ps, devs).delivered IN [i \in 1..Len(d) |-> SerialOf(stream[d[i]])]
CompatChecks(r) ==
  LET ps    == [i \in 1..Len(r.stream) |-> ParseC(r.stream[i])]
      p     == ps[r.odd]
      want0 == WantSerials(r.stream, ps, {})
  IN
  IF r.kind \in {"type0", "invalid"} THEN TRUE      \* not valid messages: C13 demands nothing
  ELSE IF ~p.ok THEN Report("tool-odd-invalid", p)
  ELSE
    \* (a) the message alone: unknown fields / flag bits are ignored, everything known is read
    /\ IF p.skip THEN TRUE                           \* unknown type: skipping is the connection's business
       ELSE IF r.single.outcome # "ok"
         THEN Report("single-rejected", [devs |-> {d \in Devs : ~Deviate(p, {d}).ok}, got |-> r.single.outcome])
       ELSE ((r.single.hdr.type = p.type /\ r.single.hdr.flags = KnownFlags(p.flags) /\ r.single.hdr.serial = p.serial
                /\ Essential(FieldSet(r.single.hdr.fields)) = Essential({f \in FieldSet(p.fields) : f.c # F_SIGNATURE})
                /\ r.single.sig = ApiSig(p.ts))
              \/ Report("single-header", [got |-> r.single.hdr, want |-> HeaderOf(p)]))
    \* (b) in a stream: delivered = the messages of known type, in order, no error before the end
    /\ \A i \in 1..Len(r.conns) :
         LET cn   == r.conns[i]
             got  == MsgPrefix(cn.items)
             rest == SubSeq(cn.items, Len(got) + 1, Len(cn.items))
             clean == \A j \in 1..Len(rest) : rest[j].k = "err"     \* nothing delivered after an error item
         IN IF got = want0 /\ clean /\ cn.ended THEN TRUE
            ELSE Report("conn-delivery", [mode |-> cn.mode, devs |-> {d \in Devs : got = WantSerials(r.stream, ps, {d}) /\ clean},
                                          got |-> got, want |-> want0, ended |-> cn.ended])

LineOk ==
  LET r == rec IN
  CASE r.ev = "Build" -> BuildChecks(r)
    [] r.ev = "Hostile" -> HostileChecks(r)
    [] r.ev = "Compat" -> CompatChecks(r)
    [] OTHER -> TRUE
Inv == LineOk \/ TRUE
=============================================================================
