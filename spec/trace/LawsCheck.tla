----------------------------- MODULE LawsCheck -----------------------------
(***************************************************************************)
(* C08: every line of IOEnv.TRACE is one observation table of dynamic       *)
(* values recorded by harness/gram (src/laws.rs); TLC evaluates every law   *)
(* of ValueLaws on every table.  Every table is an initial state; for each  *)
(* violated law one or two MISMATCH records are printed (never stopping at  *)
(* the first):                                                              *)
(*    [what |-> law, dev |-> "",    count, witness]  counterexamples among  *)
(*                                  values that contain no NaN              *)
(*    [what |-> law, dev |-> "nan", count, witness]  counterexamples that   *)
(*                                  involve a value containing a NaN        *)
(* The split is the named deviation of this property (DESIGN 2.6):          *)
(*   "nan": equality of zvariant::Value is the derived PartialEq, under     *)
(*   which a NaN is unequal to itself, while Eq, Ord and Hash are           *)
(*   implemented as if it were not; every law can therefore fail on tuples  *)
(*   that contain a NaN-carrying value.  Counterexamples among NaN-free     *)
(*   values are never attributed to it.                                     *)
(* witness = index tuple into the table (1-based) plus the Debug text of    *)
(* the values concerned.                                                    *)
(***************************************************************************)
EXTENDS ValueLaws, Json, IOUtils, TLC

Rec == ndJsonDeserialize(IOEnv.TRACE)
VARIABLE l
Init == l \in 1..Len(Rec)
Next == UNCHANGED l

\* value-indexed laws (their counterexamples are tuples of value indexes) vs. the conversion list
ListLawNames == {"std-roundtrip", "constructible"}
ValueLawNames == OrderLawNames \cup (OtherLawNames \ ListLawNames)

InvolvesNaN(T, w) == \E k \in 1..Len(w) : T.nan[w[k]] = 1

Show(T, law, dev, part) ==
  LET w == CHOOSE x \in part : TRUE IN
  PrintT(<<"MISMATCH", ToJson([line |-> l, id |-> T.id, what |-> law, dev |-> dev, count |-> Cardinality(part),
                               witness |-> w,
                               values |-> IF law = "std-roundtrip" THEN <<T.std[w[1]].ty>>
                                          ELSE IF law = "constructible" THEN <<ToJson(T.unbuildable[w[1]])>>
                                          ELSE [k \in 1..Len(w) |-> T.dbg[w[k]]]])>>)

LawOk(T, law) ==
  LET bad == TLCEval(Bad(T, law)) IN
  bad = {} \/
    IF law \in ListLawNames THEN Show(T, law, "", bad)
    ELSE LET withNaN == TLCEval({w \in bad : InvolvesNaN(T, w)})
             clean == bad \ withNaN IN
         /\ clean = {} \/ Show(T, law, "", clean)
         /\ withNaN = {} \/ Show(T, law, "nan", withNaN)

TableOk == LET T == Rec[l] IN \A law \in ValueLawNames \cup ListLawNames : LawOk(T, law)
Inv == TableOk \/ TRUE
=============================================================================
