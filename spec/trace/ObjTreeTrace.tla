---------------------------- MODULE ObjTreeTrace ----------------------------
(***************************************************************************)
(* Validation of at/remove histories recorded from a real zbus             *)
(* ObjectServer (harness/obj, `tree-replay` / `tree-rand`) against ObjTree *)
(* -- both directions of the C24 / C25 conformance use this module (the    *)
(* replayed histories were enumerated by TLC from Gen_ObjTree, the random  *)
(* ones by the harness).                                                   *)
(*                                                                         *)
(* Every line of the file named by the environment variable TRACE is one   *)
(* scenario: the operations performed on a fresh server and, after each    *)
(* of them, the projection of everything observable (see tree.rs).  Each   *)
(* scenario is one initial state, so scenarios are validated independently *)
(* (and in parallel); within a scenario the steps are consumed in order.   *)
(*                                                                         *)
(* A step is *explained* when some candidate successor of the current      *)
(* specification state -- ObjTree!Eff without deviations, else with a set  *)
(* of the named deviations -- agrees with the observation in every clause: *)
(*   result     abstract result of the call (added / refused / ok / err)   *)
(*   lookup     pairs found by ObjectServer::interface, with their values  *)
(*   call       pairs that answer a method call, with the value returned   *)
(*   introspect pairs listed by Introspect of the four nodes               *)
(*   children   every object with a registered pair at or below it is      *)
(*              reachable through the child lists (extra empty nodes are   *)
(*              not the property's business)                               *)
(*   hung       no projection call was left without an answer              *)
(*   listing    GetManagedObjects of every manager = Listing               *)
(*   mirror     the client's mirror (snapshot, then the signals actually   *)
(*              received, in order) = the specification's mirror           *)
(* Output records (PrintT, parsed by lib/props/obj_tree.py):               *)
(*   DEV       a step needed deviation `dev` (known-finding candidates for *)
(*             C24: "prune", "root_panic"), or (dev = "mirror") the C25    *)
(*             predicate `mirror = listing` failed on an explained step,   *)
(*             with the deviations used so far in the scenario             *)
(*   MISMATCH  one record per clause of a step that no candidate explains, *)
(*             measured against the deviation-free candidate; plus the     *)
(*             pure C25 predicates "prop-mirror" / "prop-props" evaluated  *)
(*             on the observation alone.  The scenario stops there.        *)
(*   DONE      the scenario was consumed completely.                       *)
(***************************************************************************)
EXTENDS ObjTree, Json, IOUtils

Rec == ndJsonDeserialize(IOEnv.TRACE)

\* TLC does not cache Rec: every reference parses the file again.  It is therefore read once, in TInit, and
\* the scenario travels in state variables: its id, the steps not yet consumed, the number consumed.
VARIABLES id, tr, k, used, st, mflag
tvars == <<reg, mirror, hist, last, id, tr, k, used, st, mflag>>

ToSet(s) == {s[j] : j \in 1..Len(s)}
HasM(o, m) == m \in DOMAIN o.listing

\* signals of one step as ObjTree signal records, in arrival order, for manager m
SigsOf(o, m) == LET ss == SelectSeq(o.sigs, LAMBDA x : x.m = m)
                IN [j \in 1..Len(ss) |-> Sig(ss[j].m, ss[j].k, ss[j].p, ToSet(ss[j].ifs))]

\* the tracking client, run on what was actually received
ObsMirrorStep(mir, o) ==
  [m \in Paths |->
     IF ~HasM(o, m) THEN NoMirror
     ELSE IF ~mir[m].on THEN [on |-> TRUE, s |-> ToSet(o.listing[m])]
     ELSE [on |-> TRUE, s |-> ApplySeq(mir[m].s, SigsOf(o, m))]]

Cand(o, d) ==
  IF o.op = "atrm"
  THEN LET e == AtRmEff(reg, [op |-> o.op, p |-> o.p, i |-> o.i, v |-> o.v], d)
       IN [reg |-> TLCEval(e.second.reg), res |-> e.res, used |-> e.first.used \cup e.second.used,
           mirror |-> TLCEval(MirrorStep(MirrorStep(mirror, e.first.reg, e.first.sigs), e.second.reg, e.second.sigs))]
  ELSE LET e == Eff(reg, [op |-> o.op, p |-> o.p, i |-> o.i, v |-> o.v], d)
       IN [reg |-> TLCEval(e.reg), res |-> e.res, used |-> e.used, mirror |-> TLCEval(MirrorStep(mirror, e.reg, e.sigs))]

KidsOk(r, o) == \A p \in Paths \ {Root} :
                  (\E x \in PresentPairs(r) : x[1] = p \/ x[1] \in Below(p)) => <<Parent[p], Leaf[p]>> \in ToSet(o.kids)
ListingOk(r, o) == \A m \in Paths : /\ HasM(o, m) = (r[<<m, OM>>] # 0)
                                    /\ HasM(o, m) => ToSet(o.listing[m]) = Listing(r, m)

\* names of the clauses in which observation o (with observed mirror om) differs from candidate c
Failing(c, o, om) ==
     (IF o.res = c.res THEN {} ELSE {"result"})
  \cup (IF ToSet(o.look) = Present(c.reg) THEN {} ELSE {"lookup"})
  \cup (IF ToSet(o.call) = Present(c.reg) THEN {} ELSE {"call"})
  \cup (IF ToSet(o.intro) = PresentPairs(c.reg) THEN {} ELSE {"introspect"})
  \cup (IF KidsOk(c.reg, o) THEN {} ELSE {"children"})
  \* an operation that fails (refused registration, failed removal) leaves the tree as it was: no node appears or
  \* disappears in any child list (`last` = the child lists after the previous step; none before the first)
  \cup (IF o.res \in {"refused", "err"} /\ ToSet(o.kids) # ToSet(last) THEN {"ghost-children"} ELSE {})
  \cup (IF o.hung = 0 THEN {} ELSE {"hung"})
  \cup (IF ListingOk(c.reg, o) THEN {} ELSE {"listing"})
  \cup (IF om = c.mirror THEN {} ELSE {"mirror"})

\* C25 stated on the observation alone
PropMirror(o, om) == \A m \in Paths : HasM(o, m) => om[m].s = ToSet(o.listing[m])
PropProps(r, o) ==
  /\ \A m \in Paths : HasM(o, m) => \A t \in ToSet(o.listing[m]) : <<t[1], t[2]>> \in Pairs => t[3] = r[<<t[1], t[2]>>]
  /\ \A j \in 1..Len(o.sigs) : o.sigs[j].k = "IA" =>
        \A x \in ToSet(o.sigs[j].ifs) : (o.sigs[j].p \in Paths /\ x[1] \in Ifaces) => x[2] = r[<<o.sigs[j].p, x[1]>>]

Out(tag, rec) == PrintT(<<tag, ToJson(rec)>>)
RECURSIVE OutSet(_, _)
OutSet(tag, S) == IF S = {} THEN TRUE ELSE LET x == CHOOSE y \in S : TRUE IN Out(tag, x) /\ OutSet(tag, S \ {x})
OutAll(tag, S, mk(_)) == OutSet(tag, {mk(x) : x \in S})
SetToSeq(S) == LET RECURSIVE f(_)
                   f(T) == IF T = {} THEN <<>> ELSE LET x == CHOOSE y \in T : TRUE IN <<x>> \o f(T \ {x})
               IN f(S)

TInit == /\ \E R \in {Rec} : \E i \in 1..Len(R) : id = R[i].id /\ tr = R[i].steps
         /\ k = 1 /\ used = {} /\ st = "run" /\ mflag = FALSE
         /\ reg = TLCEval(EmptyReg)
         /\ mirror = TLCEval([m \in Paths |-> NoMirror])
         /\ hist = <<>> /\ last = <<>>

Finish == /\ tr = <<>>
          /\ Out("DONE", [id |-> id, steps |-> k - 1, used |-> SetToSeq(used)])
          /\ st' = "done"
          /\ UNCHANGED <<reg, mirror, hist, last, id, tr, k, used, mflag>>

\* (`\E x \in {e}` binds x to the *value* of e: TLC evaluates e once instead of once per use)
Step ==
  /\ tr # <<>>
  /\ \E o \in {Head(tr)} :
     \E om \in {ObsMirrorStep(mirror, o)} :
     \E c0 \in {Cand(o, {})} :
     \E f0 \in {Failing(c0, o, om)} :
     \E good \in {IF f0 = {} THEN {c0}
                  ELSE {c \in {Cand(o, d) : d \in (SUBSET AllDevs) \ {{}}} : Failing(c, o, om) = {}}} :
     IF good = {}
     THEN /\ OutAll("MISMATCH", f0,
                    LAMBDA w : [id |-> id, step |-> k, what |-> w, op |-> <<o.op, o.p, o.i>>,
                                expected |-> [res |-> c0.res, present |-> SetToSeq(Present(c0.reg))],
                                got |-> [res |-> o.res, look |-> o.look, call |-> o.call, intro |-> o.intro,
                                         listing |-> o.listing, sigs |-> o.sigs, hung |-> o.hung]])
          \* (IF, not \/: a disjunction inside an action would be explored as two alternatives)
          /\ IF PropMirror(o, om) THEN TRUE
             ELSE Out("MISMATCH", [id |-> id, step |-> k, what |-> "prop-mirror",
                                   op |-> <<o.op, o.p, o.i>>, listing |-> o.listing, sigs |-> o.sigs])
          /\ IF PropProps(IF o.op = "atrm" THEN AtRmEff(reg, [op |-> o.op, p |-> o.p, i |-> o.i, v |-> o.v], {}).first.reg
                          ELSE c0.reg, o) THEN TRUE
             ELSE Out("MISMATCH", [id |-> id, step |-> k, what |-> "prop-props",
                                   op |-> <<o.op, o.p, o.i>>, listing |-> o.listing, sigs |-> o.sigs])
          /\ st' = "fail"
          /\ UNCHANGED <<reg, mirror, hist, last, id, tr, k, used, mflag>>
     ELSE \E c \in {CHOOSE c \in good : \A e \in good : Cardinality(c.used) <= Cardinality(e.used)} :
          \E bad \in {~mflag /\ ~PropMirror(o, om)} :
             /\ OutAll("DEV", c.used \ {"nearest_only"},
                       LAMBDA w : [id |-> id, step |-> k, dev |-> w, op |-> <<o.op, o.p, o.i>>])
             /\ IF bad THEN Out("DEV", [id |-> id, step |-> k, dev |-> "mirror",
                                        used |-> SetToSeq(used \cup c.used), op |-> <<o.op, o.p, o.i>>])
                ELSE TRUE
             /\ reg' = c.reg
             /\ mirror' = c.mirror
             /\ used' = used \cup c.used
             /\ mflag' = (mflag \/ bad)
             /\ k' = k + 1
             /\ tr' = Tail(tr)
             /\ last' = o.kids
             /\ UNCHANGED <<hist, id, st>>

TNext == st = "run" /\ (Step \/ Finish)
=============================================================================
