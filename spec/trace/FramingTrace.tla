---------------------------- MODULE FramingTrace ----------------------------
(***************************************************************************)
(* Validation of scenario traces recorded from zbus' receiving side against *)
(* Framing (impl -> spec; also used for the TLC-enumerated cases after they *)
(* were replayed through the real code).  One ndjson file holds many        *)
(* scenarios:                                                               *)
(*   Reset(msgs, tail, att, via, hs_len, eof)   what the scripted peer sends *)
(*   Recvmsg(phase, buflen, n, fds)             every read zbus performed    *)
(*   HsDone(outcome)                            connection built            *)
(*   Delivered(bytes, fds, gt_prev)             item of the MessageStream    *)
(*   StreamErr / StreamEnd, End(panic)                                      *)
(* The reader's internal steps are not logged (silent); since the reader is  *)
(* deterministic between reads they are taken eagerly, so a trace is one     *)
(* behaviour.  An event the specification cannot take prints a MISMATCH with *)
(* what = "drift" and the scenario is only *monitored* from then on; at End  *)
(* the property predicates are evaluated on the observations alone and each  *)
(* violated clause prints its own MISMATCH (never stops at the first).       *)
(***************************************************************************)
EXTENDS Framing, Json, IOUtils, TLC

\* TLC does not cache this definition (every use would parse the file again): TInit parses the file once
\* into TLC register 1 and every other use reads the register.
RecFile == ndJsonDeserialize(IOEnv.TRACE)
Rec == TLCGet(1)
N == Len(Rec)

(* --- the real fixed header: "l"/"B", type, flags, version, body length u32, *)
(* serial u32, header-field array length u32.  TLC integers are 32-bit, so    *)
(* lengths >= 2^27 (already above the 128 MiB limit) are recognised by their  *)
(* top byte before any arithmetic.                                            *)
IsLE(b) == b[1] = 108
U32(b, o) == IF IsLE(b) THEN b[o+1] + 256 * b[o+2] + 65536 * b[o+3] + 16777216 * b[o+4]
                        ELSE b[o+4] + 256 * b[o+3] + 65536 * b[o+2] + 16777216 * b[o+1]
TopByte(b, o) == IF IsLE(b) THEN b[o+4] ELSE b[o+1]
Pad8(n) == (8 - (n % 8)) % 8
MAXMSG == 134217728
RealTotal(b) == 16 + U32(b, 12) + Pad8(U32(b, 12)) + U32(b, 4)
RealSkip(b) == b[2] \notin 1..4          \* message type byte: 1..4 are the types of this version of the specification
RealTooLarge(b) == \/ TopByte(b, 4) >= 8 \/ TopByte(b, 12) >= 8
                   \/ RealTotal(b) > MAXMSG

VARIABLES l,      \* next event
          rs,     \* index of the Reset record of the current scenario
          hsRem,  \* handshake-line bytes not yet read
          bad,    \* the specification lost track of this scenario (drift)
          dl,     \* observed deliveries
          cons,   \* observed: stream bytes taken from the transport
          hsObs,  \* observed: stream bytes taken during the handshake
          errs,   \* observed: stream errors
          nsc     \* scenarios seen
mon == <<rs, hsRem, dl, cons, hsObs, errs, nsc>>
tvars == <<vars, l, bad, mon>>

Emit(what, detail) ==
  PrintT(<<"MISMATCH", ToJson([line |-> l, sc |-> Rec[rs].sc, what |-> what, detail |-> detail])>>)

RECURSIVE StartOf(_, _)
StartOf(ms, i) == IF i = 1 THEN 0 ELSE StartOf(ms, i - 1) + Len(ms[i - 1])

AttIds(a, lo, hi) ==
  LET sel == SelectSeq(a, LAMBDA r : r.pos >= lo /\ r.pos <= hi)
  IN Flat([i \in 1..Len(sel) |-> sel[i].ids])

TInit ==
  /\ TLCSet(1, RecFile)
  /\ l = 1 /\ rs = 1 /\ hsRem = 0 /\ bad = FALSE /\ dl = <<>> /\ cons = 0 /\ hsObs = 0 /\ errs = 0 /\ nsc = 0
  /\ sent = <<>> /\ stream = <<>> /\ att = <<>> /\ eof = FALSE
  /\ ReaderInit(FALSE)

State == [phase |-> phase, buflen |-> Len(buf), total |-> total, rd |-> rd, left |-> Len(left),
          leftFds |-> leftFds, gotFds |-> gotFds, status |-> status, out |-> Len(out)]

\* take spec step A if the specification is still tracking and `guard` holds, else drift
Track(guard, A, e) ==
  IF ~bad /\ guard THEN A /\ bad' = bad
  ELSE /\ UNCHANGED vars /\ bad' = TRUE
       /\ (IF bad THEN TRUE ELSE Emit("drift", [event |-> e.ev, state |-> State]))

DoReset(e) ==
  /\ rs' = l /\ hsRem' = e.hs_len /\ dl' = <<>> /\ cons' = 0 /\ hsObs' = 0 /\ errs' = 0 /\ nsc' = nsc + 1
  /\ bad' = FALSE
  \* (messages of unknown type are not delivered: they and their fds are skipped)
  /\ sent' = SelectSeq([i \in 1..Len(e.msgs) |->
                         [bytes |-> e.msgs[i],
                          fds |-> AttIds(e.att, StartOf(e.msgs, i) + 1, StartOf(e.msgs, i) + Len(e.msgs[i]))]],
                       LAMBDA m : ~RealSkip(m.bytes))
  /\ stream' = Flat(e.msgs) \o e.tail
  /\ att' = e.att
  /\ eof' = e.eof
  /\ rd' = 0 /\ hsOver' = 0 /\ left' = <<>> /\ leftFds' = <<>>
  /\ phase' = (IF e.via = "auth" THEN "hdr" ELSE "hs")
  /\ buf' = <<>> /\ gotFds' = <<>> /\ msgFds' = <<>> /\ total' = 0 /\ base' = 0
  /\ seq' = 0 /\ out' = <<>> /\ status' = "run"

DoRecv(e) ==
  IF e.phase = "hs" THEN
    LET k == Min(e.n, hsRem)
        over == e.n - k IN
    /\ hsRem' = hsRem - k /\ cons' = cons + over /\ hsObs' = hsObs + over
    /\ UNCHANGED <<rs, dl, errs, nsc>>
    /\ IF over = 0 THEN UNCHANGED vars /\ bad' = bad
       ELSE Track(phase = "hs" /\ over <= Len(stream) - rd /\ FdsIn(rd + 1, rd + over) = e.fds,
                  HsOverRead(over), e)
  ELSE
    /\ cons' = cons + e.n
    /\ UNCHANGED <<rs, hsRem, dl, hsObs, errs, nsc>>
    /\ IF e.n = 0
         THEN Track(eof /\ rd = Len(stream) /\ phase \in {"hdrRecv", "rest"}, Eof, e)
         ELSE Track(/\ e.n <= Len(stream) - rd
                    /\ FdsIn(rd + 1, rd + e.n) = e.fds
                    /\ \/ phase = "hdrRecv" /\ e.n <= HDR - Len(buf)
                       \/ phase = "rest" /\ e.n <= total - Len(buf),
                    RecvHeader(e.n) \/ RecvRest(e.n), e)

DoHsDone(e) ==
  /\ UNCHANGED mon
  /\ IF Rec[rs].via = "auth" THEN UNCHANGED vars /\ bad' = bad
     ELSE Track(e.outcome = "authenticated" /\ phase = "hs" /\ hsRem = 0, HsDone, e)

DoDelivered(e) ==
  /\ dl' = Append(dl, [bytes |-> e.bytes, fds |-> e.fds, gt |-> e.gt_prev])
  /\ UNCHANGED <<rs, hsRem, cons, hsObs, errs, nsc>>
  /\ Track(/\ Len(dl) < Len(out)
           /\ out[Len(dl) + 1].bytes = e.bytes /\ out[Len(dl) + 1].fds = e.fds
           /\ e.gt_prev,
           UNCHANGED vars, e)

DoStreamErr(e) ==
  /\ errs' = errs + 1
  /\ UNCHANGED <<rs, hsRem, dl, cons, hsObs, nsc>>
  /\ Track(status # "run" /\ Len(dl) = Len(out), UNCHANGED vars, e)

(* ------------- the property (C14) evaluated on the observations alone ------------- *)
Monitor(e) ==
  LET r == Rec[rs]
      n == Len(dl)
      k == Min(n, Len(sent))
      prefixOk == n <= Len(sent) /\ \A i \in 1..k : dl[i].bytes = sent[i].bytes
      fdsOk == \A i \in 1..k : dl[i].fds = sent[i].fds
      seqOk == \A i \in 1..n : dl[i].gt
      complete == n >= Len(sent)
      rejectOk == r.tailkind = "toolarge" =>
                    /\ errs >= 1
                    /\ cons <= Max(hsObs, SentLen + HDR)
      noSpurious == (r.tailkind # "toolarge" /\ ~r.eof) => errs = 0
      lostFirst == IF n < Len(sent) THEN [index |-> n + 1, nfds |-> Len(sent[n + 1].fds), hsObs |-> hsObs] ELSE [index |-> 0]
  IN
  /\ (IF prefixOk THEN TRUE ELSE Emit("prefix", [delivered |-> n, sent |-> Len(sent)]))
  /\ (IF fdsOk THEN TRUE ELSE Emit("fds-own", [got |-> [i \in 1..k |-> dl[i].fds], want |-> [i \in 1..k |-> sent[i].fds]]))
  /\ (IF seqOk THEN TRUE ELSE Emit("seq-increasing", [gt |-> [i \in 1..n |-> dl[i].gt]]))
  /\ (IF complete THEN TRUE ELSE Emit("complete", [delivered |-> n, sent |-> Len(sent), errs |-> errs, first_lost |-> lostFirst,
                                     leftover_fds_pending |-> (hsObs > 0 /\ AttIds(r.att, 1, hsObs) # <<>>)]))
  /\ (IF rejectOk THEN TRUE ELSE Emit("reject-unread", [errs |-> errs, consumed |-> cons, allowed |-> Max(hsObs, SentLen + HDR)]))
  /\ (IF noSpurious THEN TRUE ELSE Emit("no-spurious-error", [errs |-> errs, delivered |-> n]))
  /\ (IF e.panic = "" THEN TRUE ELSE Emit("no-panic", e.panic))

DoEnd(e) ==
  /\ Monitor(e)
  /\ UNCHANGED mon /\ UNCHANGED vars /\ bad' = bad

TNext ==
  /\ l <= N
  /\ LET e == Rec[l] IN
     IF e.ev # "Reset" /\ ~bad /\ InternalEnabled
       THEN Internal /\ UNCHANGED <<l, bad, mon>>
       ELSE /\ l' = l + 1
            /\ CASE e.ev = "Reset" -> DoReset(e)
                 [] e.ev = "Recvmsg" -> DoRecv(e)
                 [] e.ev = "HsDone" -> DoHsDone(e)
                 [] e.ev = "Delivered" -> DoDelivered(e)
                 [] e.ev = "StreamErr" -> DoStreamErr(e)
                 [] e.ev = "End" -> DoEnd(e)
                 [] OTHER -> UNCHANGED <<vars, bad, mon>>

\* acceptance: the whole file was consumed
Done == (l = N + 1) => PrintT(<<"DONE", ToJson([events |-> N, scenarios |-> nsc])>>)
=============================================================================
