CONSTANTS
  DEVS = {}
  Vals = {1}
INIT TInit
NEXT TNext
CHECK_DEADLOCK FALSE
