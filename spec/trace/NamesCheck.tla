---------------------------- MODULE NamesCheck ----------------------------
(***************************************************************************)
(* C10: validation of observations of the validated string types            *)
(* (zbus_names::*, zvariant::ObjectPath) against the predicates of Names.   *)
(*                                                                         *)
(* Every line of IOEnv.TRACE is one input string `s` (bytes, valid UTF-8)   *)
(* with, per kind of name, the outcome of every construction path           *)
(* (harness/gram/src/names.rs: 0 = refused, 1 = accepted and reads back as  *)
(* the input, 2 = panic, 3 = not applicable, 5 = accepted but altered).     *)
(* The property: every path accepts s iff Valid(kind, s).  Every line is an *)
(* initial state; a line on which some kind's paths do not all agree with   *)
(* the predicate prints one MISMATCH record listing, per such kind, the     *)
(* failing paths (1-based indexes into the path list of names.rs).          *)
(*                                                                         *)
(* Named deviation (DESIGN 2.6), off in the property itself:                *)
(*   "value_conversion_unvalidated": for the name types whose conversions   *)
(*   from zvariant::Value / OwnedValue are derived (all but BusName), those *)
(*   conversions wrap any string without validating it.  A failing path is  *)
(*   attributed to it iff it is one of ValuePaths of such a kind and the    *)
(*   outcome is "accepted" for an invalid string.                           *)
(***************************************************************************)
EXTENDS Names, Json, IOUtils, TLC

Rec == ndJsonDeserialize(IOEnv.TRACE)
VARIABLE l
Init == l \in 1..Len(Rec)
Next == UNCHANGED l

\* positions in names.rs NAME_PATHS of: TryFrom<Value>, TryFrom<OwnedValue>, Owned::TryFrom<Value>,
\* Owned::TryFrom<OwnedValue>, Deserialize from a variant
ValuePaths == {9, 10, 11, 12, 15}
DerivedKinds == {"unique", "wellknown", "interface", "member", "error", "property"}

(* The predicates are evaluated once per kind and line (TLCEval forces the set, which TLC would
   otherwise re-evaluate on every membership test).  A line on which some kind's paths do not all
   agree with the predicate prints one MISMATCH record:
     - if every failing path is explained by the named deviation: the compact form
       [dev |-> "value_conversion_unvalidated", kinds |-> {kinds concerned}]
     - otherwise, per failing kind, the outcomes and the failing path indexes, split into those the
       deviation explains and the unexplained ones (sets are printed as JSON arrays). *)
LineOk ==
  LET r == Rec[l]
      validKinds == TLCEval({kind \in DOMAIN r.k : Valid(kind, r.s)})
      \* all <<kind, path index>> whose outcome disagrees with the predicate (3 = not applicable)
      bad == TLCEval(UNION {{<<kind, i>> : i \in {j \in 1..Len(r.k[kind]) :
                                                   /\ r.k[kind][j] # 3
                                                   /\ r.k[kind][j] # (IF kind \in validKinds THEN 1 ELSE 0)}} :
                            kind \in DOMAIN r.k})
      \* explained by the deviation: an accepted invalid string on a value-conversion path of a derived kind
      expl == TLCEval({p \in bad : p[1] \in DerivedKinds /\ p[2] \in ValuePaths /\ r.k[p[1]][p[2]] = 1})
      failing == {p[1] : p \in bad} IN
  IF bad = {} THEN TRUE
  ELSE IF bad = expl THEN
    PrintT(<<"MISMATCH", ToJson([line |-> l, id |-> r.id, what |-> "accept",
                                 dev |-> "value_conversion_unvalidated", kinds |-> failing])>>)
  ELSE
    PrintT(<<"MISMATCH", ToJson([line |-> l, id |-> r.id, what |-> "accept", len |-> Len(r.s), dev |-> "",
              kinds |-> [kind \in failing |->
                           [valid |-> kind \in validKinds, outcomes |-> r.k[kind],
                            unexplained |-> {p[2] : p \in {q \in bad \ expl : q[1] = kind}},
                            value_conversion_unvalidated |-> {p[2] : p \in {q \in expl : q[1] = kind}}]]])>>)
Inv == LineOk \/ TRUE
=============================================================================
