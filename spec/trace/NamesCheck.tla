---------------------------- MODULE NamesCheck ----------------------------
(***************************************************************************)
(* C10: validation of observations of the validated string types            *)
(* (zbus_names::*, zvariant::ObjectPath) against the predicates of Names.   *)
(*                                                                         *)
(* Every line of IOEnv.TRACE is one input string `s` (bytes, valid UTF-8)   *)
(* with, per kind of name, the outcome of every construction path           *)
(* (harness/gram/src/names.rs: 0 = refused, 1 = accepted and reads back as  *)
(* the input, 2 = panic, 3 = not applicable, 5 = accepted but altered).     *)
(* The property: every path accepts s iff Valid(kind, s).  Every line is an *)
(* initial state; each kind whose paths do not all agree with the predicate *)
(* prints one MISMATCH record listing the failing paths (1-based indexes    *)
(* into the path list of names.rs) with their outcomes.                     *)
(*                                                                         *)
(* Named deviation (DESIGN 2.6), off in the property itself:                *)
(*   "value_conversion_unvalidated": for the name types whose conversions   *)
(*   from zvariant::Value / OwnedValue are derived (all but BusName), those *)
(*   conversions wrap any string without validating it.  A failing path is  *)
(*   attributed to it iff it is one of ValuePaths of such a kind and the    *)
(*   outcome is "accepted" for an invalid string.                           *)
(***************************************************************************)
EXTENDS Names, Json, IOUtils, TLC

Rec == ndJsonDeserialize(IOEnv.TRACE)
VARIABLE l
Init == l \in 1..Len(Rec)
Next == UNCHANGED l

\* positions in names.rs NAME_PATHS of: TryFrom<Value>, TryFrom<OwnedValue>, Owned::TryFrom<Value>,
\* Owned::TryFrom<OwnedValue>, Deserialize from a variant
ValuePaths == {9, 10, 11, 12, 15}
DerivedKinds == {"unique", "wellknown", "interface", "member", "error", "property"}

SetToSeq(S) == CHOOSE f \in [1..Cardinality(S) -> S] : \A i, j \in 1..Cardinality(S) : i # j => f[i] # f[j]

KindOk(r, kind) ==
  LET v == r.k[kind]
      ok == Valid(kind, r.s)
      want == IF ok THEN 1 ELSE 0
      bad == {i \in 1..Len(v) : v[i] # want /\ v[i] # 3}
      explained == {i \in bad : kind \in DerivedKinds /\ i \in ValuePaths /\ v[i] = 1 /\ ~ok} IN
  bad = {} \/
    PrintT(<<"MISMATCH", ToJson([line |-> l, id |-> r.id, what |-> "accept", kind |-> kind, valid |-> ok, len |-> Len(r.s),
                                 outcomes |-> v,
                                 unexplained |-> SetToSeq(bad \ explained),
                                 value_conversion_unvalidated |-> SetToSeq(explained)])>>)

LineOk == LET r == Rec[l] IN \A kind \in DOMAIN r.k : KindOk(r, kind)
Inv == LineOk \/ TRUE
=============================================================================
