CONSTANTS
  Table <- NoTable
  InitVal <- NoInit
  SetValues <- NoValues
INIT TInit
NEXT TNext
INVARIANT Inv
CHECK_DEADLOCK FALSE
