CONSTANTS
  DEVS = {}
INIT TInitDiag
NEXT TNext
CONSTRAINT Reached
POSTCONDITION Report
CHECK_DEADLOCK FALSE
