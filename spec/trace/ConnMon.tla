------------------------------ MODULE ConnMon ------------------------------
(***************************************************************************)
(* Property monitor for traces of the connection harness (harness/bus).     *)
(* The trace is consumed event by event, in the order the single-threaded    *)
(* driver produced it; the monitor keeps exactly the facts the properties    *)
(* C18, C19, C20, C38 talk about and prints one MISMATCH per violated clause. *)
(* It never stops at a mismatch.  Only observables are used: what the caller  *)
(* got back, what the scripted peer saw on the wire and sent, what streams    *)
(* yielded, when the transport was failed.  (Conformance with the full system  *)
(* model spec/Conn.tla is a separate, advisory check: MODEL-DRIFT.)            *)
(***************************************************************************)
EXTENDS Naturals, Sequences, FiniteSets, Json, IOUtils, TLC

Rec == ndJsonDeserialize(IOEnv.TRACE)

VARIABLES tr,      \* events still to consume
          pos,     \* number of events consumed
          ms       \* monitor state (reset at every Reset event)

Fresh == [scn |-> 0, timeout |-> 0,
          started |-> {}, noreply |-> {}, done |-> {}, cancelled |-> {},
          wired |-> {},                 \* <<caller, serial>> seen completely on the wire
          sentRet |-> {}, sentErr |-> {}, \* reply_serials the peer answered with a return / an error
          faulted |-> FALSE, wfaulted |-> FALSE, connDropped |-> FALSE, allcredit |-> FALSE, slept |-> 0,
          sigs |-> <<>>,                \* signals the peer released, in order: [id, member]
          st |-> <<>>,                  \* streams, in creation order: [s, member, state, from, got, lastseq]
          sends |-> <<>>,               \* messages handed to send(): [task, k, id, nfds, bytes]
          sendok |-> {},                \* ids whose send() returned Ok
          wires |-> <<>>,               \* frames seen on the wire: [off, len, id, bytes]
          fdwrites |-> {} ]             \* <<off, nfds>> of sendmsg calls that carried fds

Init == tr = Rec /\ pos = 0 /\ ms = Fresh

Report(e, what, detail) ==
  PrintT(<<"MISMATCH", ToJson([line |-> pos + 1, id |-> ms.scn, what |-> what, detail |-> detail])>>)

SerialOf(c) == LET S == {w \in ms.wired : w[1] = c} IN IF S = {} THEN 0 ELSE (CHOOSE w \in S : TRUE)[2]
StreamIdx(s) == LET I == {i \in 1..Len(ms.st) : ms.st[i].s = s} IN IF I = {} THEN 0 ELSE CHOOSE i \in I : \A j \in I : j <= i
SigIndex(id) == LET I == {i \in 1..Len(ms.sigs) : ms.sigs[i].id = id} IN IF I = {} THEN 0 ELSE CHOOSE i \in I : TRUE
MatchesStream(x, sg) == x.member = "" \/ x.member = sg.member
IsSubSeq(a, b) ==      \* a is a subsequence of b (order preserved); ids are unique
  /\ \A i \in 1..Len(a) : \E j \in 1..Len(b) : b[j] = a[i]
  /\ \A i, j \in 1..Len(a) : i < j =>
        (CHOOSE x \in 1..Len(b) : b[x] = a[i]) < (CHOOSE y \in 1..Len(b) : b[y] = a[j])
Ids(seq) == [i \in 1..Len(seq) |-> seq[i].id]

(* ------------------------------------------------------------------ per-event checks *)
OnCallDone(e) ==
  LET c == e.c
      s == SerialOf(c) IN
  /\ (c \notin ms.done \/ Report(e, "c19-completed-twice", e))
  /\ CASE e.outcome = "ok" ->
            /\ ((s # 0 /\ e.reply_serial = s) \/ Report(e, "c19-foreign-reply", [call_serial |-> s, got |-> e]))
            /\ (e.reply_serial \in ms.sentRet \/ Report(e, "c19-reply-never-sent", e))
            /\ (e.id = 1000 + c \/ Report(e, "c19-foreign-body", e))
       [] e.outcome = "err" /\ e.err = "method_error" ->
            /\ ((s # 0 /\ e.reply_serial = s) \/ Report(e, "c19-foreign-reply", [call_serial |-> s, got |-> e]))
            /\ (e.reply_serial \in ms.sentErr \/ Report(e, "c19-reply-never-sent", e))
       [] e.outcome = "err" ->
            (ms.faulted \/ ms.wfaulted \/ ms.timeout > 0 \/ ms.connDropped \/ Report(e, "c19-spurious-error", e))
       [] e.outcome = "noreply" ->
            (c \in ms.noreply \/ Report(e, "c19-noreply-mismatch", e))
       [] OTHER -> Report(e, "c19-unknown-outcome", e)

OnDelivered(e) ==
  LET i == StreamIdx(e.stream) IN
  IF i = 0 THEN Report(e, "c20-unknown-stream", e)
  ELSE LET x == ms.st[i]
           k == SigIndex(e.id) IN
    /\ (x.state = "active" \/ Report(e, "c20-delivery-to-inactive-stream", e))
    /\ IF e.type # "signal" THEN (x.member = "" \/ Report(e, "c20-unexpected-message", e))
       ELSE /\ ((k # 0 /\ MatchesStream(x, ms.sigs[k])) \/ Report(e, "c20-unexpected-message", e))
            /\ ((\A j \in 1..Len(x.got) : x.got[j] # e.id) \/ Report(e, "c20-duplicate", e))
            /\ IF Len(x.got) = 0 \/ k = 0 THEN TRUE
               ELSE (SigIndex(x.got[Len(x.got)]) < k \/ Report(e, "c20-order", [stream |-> x.s, after |-> x.got, id |-> e.id]))
    /\ (e.rseq > x.lastseq \/ Report(e, "c20-receive-position-not-increasing", e))

\* what a stream must have yielded by now: matching signals released after it was subscribed (and before it was dropped)
Must(x) == LET I == {j \in 1..Len(ms.sigs) : j > x.from /\ (x.upto = 0 \/ j <= x.upto) /\ MatchesStream(x, ms.sigs[j])}
           IN  [n \in 1..Cardinality(I) |-> ms.sigs[CHOOSE j \in I : Cardinality({h \in I : h < j}) = n - 1].id]

OnQuiescent(e) ==
  /\ \A c \in (ms.started \ ms.done) \ ms.cancelled :
        IF c \in ms.noreply THEN Report(e, "c19-noreply-call-waits", [c |-> c])
        ELSE IF ms.faulted \/ ms.connDropped THEN Report(e, "c38-call-pending-after-failure", [c |-> c])
        ELSE IF ms.timeout > 0 /\ ms.slept >= 2 * ms.timeout THEN Report(e, "c19-timeout-not-applied", [c |-> c, slept |-> ms.slept])
        ELSE IF SerialOf(c) # 0 /\ SerialOf(c) \in (ms.sentRet \cup ms.sentErr)
             THEN Report(e, "c19-reply-lost", [c |-> c, serial |-> SerialOf(c)])
        ELSE TRUE
  /\ \A i \in 1..Len(ms.st) :
        LET x == ms.st[i] IN
        /\ (x.state # "active" \/ ~ms.allcredit \/ IsSubSeq(Must(x), x.got)
              \/ Report(e, IF ms.faulted THEN "c38-stream-lost-messages" ELSE "c20-missing-messages", [stream |-> x.s, must |-> Must(x), got |-> x.got]))
        /\ (x.state # "active" \/ ~ms.allcredit \/ ~ms.faulted \/ Report(e, "c38-stream-not-ended", [stream |-> x.s]))
        /\ (x.state # "pending" \/ ~ms.allcredit \/ Report(e, "c20-subscribe-hangs", [stream |-> x.s, faulted |-> ms.faulted]))
  /\ \* C18: everything handed to send() is on the wire, whole, once, in per-task order, fds with the first bytes
     LET W == ms.wires  S == ms.sends IN
     /\ \A i \in 1..Len(S) :
           LET F == {j \in 1..Len(W) : W[j].id = S[i].id} IN
           \/ ms.faulted \/ S[i].id \notin ms.sendok        \* send() has not returned yet
           \/ (Cardinality(F) = 1 /\ W[CHOOSE j \in F : TRUE].bytes = S[i].bytes)
           \/ Report(e, "c18-message-not-whole-on-wire", [task |-> S[i].task, k |-> S[i].k, frames |-> Cardinality(F)])
     /\ \A i, j \in 1..Len(W) : (i < j /\ W[i].id >= 0 /\ W[j].id >= 0 /\ W[i].id \div 100 = W[j].id \div 100 /\ W[i].id > W[j].id)
           => Report(e, "c18-per-task-order", [first |-> W[i].id, second |-> W[j].id])
     /\ \A i \in 1..Len(S) : S[i].nfds > 0 =>
           LET F == {j \in 1..Len(W) : W[j].id = S[i].id} IN
           \/ F = {} \/ <<W[CHOOSE j \in F : TRUE].off, S[i].nfds>> \in ms.fdwrites
           \/ Report(e, "c18-fds-not-with-first-bytes", [task |-> S[i].task, k |-> S[i].k, fdwrites |-> ms.fdwrites])
     /\ \A fw \in ms.fdwrites : (\E j \in 1..Len(W) : W[j].off = fw[1]) \/ ms.faulted
           \/ (\E i \in 1..Len(S) : S[i].id \notin ms.sendok)  \* a message is still being written: frames incomplete
           \/ Report(e, "c18-fds-inside-a-message", [at |-> fw])

(* ------------------------------------------------------------------ checks and state update *)
(* NB: TLC explores the disjuncts of a disjunction inside an *action* as alternative branches (no
   short-circuit), so all checks are evaluated as the condition of an IF, i.e. as plain expressions. *)
UpdSt(i, F(_)) == [ms EXCEPT !.st = [ms.st EXCEPT ![i] = F(ms.st[i])]]

Check(e) ==
  CASE e.ev = "WireGarbage" -> Report(e, "c18-garbage-on-wire", e)
    [] e.ev = "CallDone" -> OnCallDone(e)
    [] e.ev = "Subscribed" -> (e.result \in {"ok", "clone"} \/ ms.faulted \/ ms.connDropped \/ Report(e, "c20-subscribe-failed", e))
    [] e.ev = "Delivered" -> OnDelivered(e)
    [] e.ev = "StreamEnd" ->
         LET i == StreamIdx(e.stream) IN
         /\ (ms.faulted \/ ms.connDropped \/ Report(e, "c20-stream-ended-while-subscribed", [stream |-> e.stream]))
         /\ (~ms.faulted \/ i = 0 \/ IsSubSeq(Must(ms.st[i]), ms.st[i].got) \/ Report(e, "c38-stream-lost-messages", [stream |-> e.stream, must |-> Must(ms.st[i]), got |-> ms.st[i].got]))
    [] e.ev = "StreamErr" -> (ms.faulted \/ Report(e, "c20-stream-error-without-failure", e))
    [] e.ev = "SendDone" -> (e.ok \/ ms.faulted \/ ms.wfaulted \/ Report(e, "c18-send-failed", e))
    [] e.ev = "Quiescent" -> OnQuiescent(e)
    [] e.ev = "Panic" -> Report(e, "panic", e)
    [] e.ev = "ReaderSpin" -> Report(e, "c38-reader-ignores-end-of-file", e)
    [] OTHER -> TRUE

Upd(e) ==
  CASE e.ev = "Reset" -> [Fresh EXCEPT !.scn = e.scn, !.timeout = IF "timeout_ms" \in DOMAIN e THEN e.timeout_ms ELSE 0]
    [] e.ev = "CallStart" -> [ms EXCEPT !.started = @ \cup {e.c}, !.noreply = IF e.noreply THEN @ \cup {e.c} ELSE @]
    [] e.ev = "CallCancelled" -> [ms EXCEPT !.cancelled = @ \cup {e.c}]
    [] e.ev = "Wire" ->
         [ms EXCEPT !.wired = IF e.type = "call" /\ e.id >= 0 THEN @ \cup {<<e.id, e.serial>>} ELSE @,
                    !.wires = IF "bytes" \in DOMAIN e THEN Append(@, [off |-> e.off, len |-> e.len, id |-> e.id, bytes |-> e.bytes]) ELSE @]
    [] e.ev = "PeerSend" ->
         [ms EXCEPT !.sentRet = IF e.kind = "return" THEN @ \cup {e.reply_serial} ELSE @,
                    !.sentErr = IF e.kind = "error" THEN @ \cup {e.reply_serial} ELSE @,
                    !.sigs = IF e.kind = "signal" THEN Append(@, [id |-> e.id, member |-> e.member]) ELSE @]
    [] e.ev = "CallDone" -> [ms EXCEPT !.done = @ \cup {e.c}]
    \* a failure of the read direction ends the connection (the reader stops); a failure of the write direction
    \* alone makes sends fail but leaves the reader running, so calls already sent may still be answered
    [] e.ev = "Fault" -> IF e.where = "read" THEN [ms EXCEPT !.faulted = TRUE] ELSE [ms EXCEPT !.wfaulted = TRUE]
    [] e.ev = "HandleDrop" -> [ms EXCEPT !.connDropped = TRUE]
    [] e.ev = "AllCredit" -> [ms EXCEPT !.allcredit = TRUE]
    [] e.ev = "Slept" -> [ms EXCEPT !.slept = @ + e.ms]
    [] e.ev = "SubStart" ->
         [ms EXCEPT !.st = Append(@, [s |-> e.stream, member |-> e.member, state |-> "pending", from |-> 0, upto |-> 0, got |-> <<>>, lastseq |-> 0])]
    [] e.ev = "Subscribed" ->
         LET i == StreamIdx(e.stream) IN
         IF e.result = "clone" THEN
            LET p == StreamIdx(e.parent) IN
            [ms EXCEPT !.st = Append(@, [s |-> e.stream, member |-> IF p = 0 THEN "" ELSE ms.st[p].member, state |-> "active",
                                         from |-> Len(ms.sigs), upto |-> 0, got |-> <<>>, lastseq |-> 0])]
         ELSE IF i = 0 THEN ms
         ELSE IF e.result = "ok" THEN UpdSt(i, LAMBDA x : [x EXCEPT !.state = "active", !.from = Len(ms.sigs)])
         ELSE UpdSt(i, LAMBDA x : [x EXCEPT !.state = "failed"])
    [] e.ev = "Delivered" ->
         LET i == StreamIdx(e.stream) IN
         IF i = 0 THEN ms
         ELSE UpdSt(i, LAMBDA x : [x EXCEPT !.got = IF e.type = "signal" THEN Append(@, e.id) ELSE @, !.lastseq = e.rseq])
    [] e.ev = "StreamDrop" ->
         LET i == StreamIdx(e.stream) IN IF i = 0 THEN ms ELSE UpdSt(i, LAMBDA x : [x EXCEPT !.state = "dropped", !.upto = Len(ms.sigs)])
    [] e.ev = "StreamEnd" ->
         LET i == StreamIdx(e.stream) IN IF i = 0 THEN ms ELSE UpdSt(i, LAMBDA x : [x EXCEPT !.state = "ended", !.upto = Len(ms.sigs)])
    [] e.ev = "SendStart" -> [ms EXCEPT !.sends = Append(@, [task |-> e.task, k |-> e.k, id |-> e.id, nfds |-> e.nfds, bytes |-> e.bytes])]
    [] e.ev = "SendDone" -> [ms EXCEPT !.sendok = IF e.ok THEN @ \cup {e.id} ELSE @]
    [] e.ev = "Sendmsg" -> [ms EXCEPT !.fdwrites = IF e.nfds > 0 /\ e.accepted > 0 THEN @ \cup {<<e.off, e.nfds>>} ELSE @]
    [] OTHER -> ms

Next == /\ tr # <<>>
        /\ IF Check(Head(tr)) THEN TRUE ELSE TRUE
        /\ ms' = Upd(Head(tr))
        /\ tr' = Tail(tr) /\ pos' = pos + 1
=============================================================================
