---------------------------- MODULE RuleStrCheck ----------------------------
(***************************************************************************)
(* C22, impl -> spec.  Lines of the ndjson file named by TRACE:              *)
(*  RuleStr : a rule built through MatchRule::builder(); `str` = the bytes   *)
(*            of rule.to_string(); `reparse` = MatchRule::try_from(str)      *)
(*            (abstract form through the getters, zbus's own ==, the string  *)
(*            it formats to); `self` = the built rule through the getters.   *)
(*  ParseStr: a rule string drawn from the specification's grammar; if zbus  *)
(*            accepts it: r1 = parse(s), s2 = format(r1), second =           *)
(*            parse(s2) with its format s3.                                  *)
(* Clauses (MISMATCH records; `dev` names the listed deviation of MatchSem   *)
(* that reproduces the observation, "none" otherwise; `class` = input class):*)
(*  str-conformant : ParseRule(str) is the rule   (a conformant reader)      *)
(*  zbus-reparse   : zbus reads str back as an equal rule                    *)
(*  fmt-stable     : format(parse(str)) = str                                *)
(*  pfp-stable     : accepted s => parse(format(parse(s))) = parse(s), and   *)
(*                   formatting it again gives the same string               *)
(* NOTE records (no verdict: outside the property's statement): zbus's       *)
(* reading of an accepted string differs from ParseRule, or zbus rejects a   *)
(* string the grammar allows.                                                *)
(***************************************************************************)
EXTENDS MatchSem, Json, IOUtils

Rec == ndJsonDeserialize(IOEnv.TRACE)
\* TLC does not cache Rec: the record of a line is carried in the state so the file is parsed once
VARIABLES l, rec
Init == LET R == Rec IN \E i \in 1..Len(R) : l = i /\ rec = R[i]
Next == UNCHANGED <<l, rec>>

Report(what, detail) == PrintT(<<"MISMATCH", ToJson([line |-> l, id |-> rec.id, what |-> what, detail |-> detail])>>)
Note(what, detail)   == PrintT(<<"NOTE", ToJson([line |-> l, id |-> rec.id, what |-> what, detail |-> detail])>>)

Values(r) == {r.args[j].v : j \in 1..Len(r.args)}
(* input classes: what the quoting rules are about, per clause *)
ClassA(rule) ==      \* for the formatter
  IF \E v \in Values(rule) : Contains(v, APOS) THEN "apostrophe-in-value" ELSE "no-apostrophe"
ClassC(rule) ==      \* for zbus's reader
  IF rule = [args |-> <<>>, arg_paths |-> <<>>] THEN "empty-rule"
  ELSE IF \E v \in Values(rule) : Contains(v, COMMA) THEN "comma-in-value"
  ELSE "no-comma"

(* outcome of a zbus parse in the shape of MatchSem!ParseRule's result *)
Outcome(p) == IF p.ok THEN [ok |-> TRUE, rule |-> NormRule(p.rule)] ELSE [ok |-> FALSE]
Shape(p)   == IF p.ok THEN [ok |-> TRUE, rule |-> p.rule] ELSE [ok |-> FALSE]

(* a rule with its argument lists as sets: what the getters show after builder calls given in any order *)
AsSets(x) == [x EXCEPT !.args = {x.args[j] : j \in 1..Len(x.args)}, !.arg_paths = {x.arg_paths[j] : j \in 1..Len(x.arg_paths)}]

RuleStrChecks(r) ==
  IF ~r.built THEN Report("not-built", r.err)
  ELSE
    LET rule == NormRule(r.rule)
        want == [ok |-> TRUE, rule |-> rule]
    IN
    /\ (NormRule(r.self) = rule
        \* after builder calls in any order: what the getters show is judged through the string form below
        \* (order: zbus-reparse; an index kept twice: str-conformant), not taken for a harness fault
        \/ (Has(r.rule, "ops") /\ (AsSets(NormRule(r.self)) = AsSets(rule) \/ Report("builder-last-wins", [self |-> r.self, class |-> "builder-calls", dev |-> "none"])))
        \/ Report("harness-self", [self |-> r.self]))
    /\ (ParseRule(r.str) = want
        \/ Report("str-conformant",
                  [class |-> ClassA(rule), spec_reads |-> Shape(ParseRule(r.str)),
                   dev |-> IF r.str = RuleStrRaw(rule) THEN "display_unescaped" ELSE "none"]))
    /\ ((r.reparse.ok /\ r.reparse.eq /\ NormRule(r.reparse.rule) = rule)
        \/ Report("zbus-reparse",
                  [class |-> ClassC(rule), got |-> r.reparse,
                   dev |-> IF Outcome(r.reparse) = Shape(ParseRuleNaive(r.str)) THEN "parser_naive_split" ELSE "none"]))
    /\ (~r.reparse.ok \/ r.reparse.str2 = r.str
        \/ Report("fmt-stable", [class |-> ClassC(rule), str2 |-> r.reparse.str2, dev |-> "none"]))

ParseStrChecks(r) ==
  LET spec == ParseRule(r.s) IN
  IF ~r.accepted THEN (~spec.ok \/ Note("rejects-valid-string", [style |-> r.style]))
  ELSE
    LET r1 == NormRule(r.r1) IN
    /\ ((r.second.ok /\ r.second.eq /\ NormRule(r.second.rule) = r1 /\ r.second.s3 = r.s2)
        \/ Report("pfp-stable", [class |-> ClassC(r1), second |-> r.second, dev |-> "none"]))
    /\ (Shape(spec) = [ok |-> TRUE, rule |-> r1]
        \/ Note("reads-differently", [spec_reads |-> Shape(spec), style |-> r.style]))

LineOk ==
  LET r == rec IN
  CASE r.ev = "RuleStr" -> RuleStrChecks(r)
    [] r.ev = "ParseStr" -> ParseStrChecks(r)
    [] OTHER -> TRUE
Inv == LineOk \/ TRUE
=============================================================================
