----------------------------- MODULE TypeCheck -----------------------------
(***************************************************************************)
(* C09: for every generated Rust type the declared signature must be the one *)
(* TypeShapes!ExpectedSig prescribes, the encoding of a value must be a valid *)
(* D-Bus encoding of that signature (DBusWire!Decode) denoting the expected    *)
(* abstract value, and the typed round trip must return the original.          *)
(***************************************************************************)
EXTENDS DBusWire, TypeShapes, Json, IOUtils, TLC
Rec == ndJsonDeserialize(IOEnv.TRACE)
VARIABLES l, rec
Init == LET R == Rec IN \E i \in 1..Len(R) : l = i /\ rec = R[i]
Next == UNCHANGED <<l, rec>>
Report(what, detail) == PrintT(<<"MISMATCH", ToJson([line |-> l, id |-> rec.id, what |-> what, detail |-> detail])>>)
LineOk ==
  LET want == ExpectedSig(rec.shape) IN
  /\ (want = rec.exp_sig \/ Report("spec-selfcheck", [generator |-> rec.exp_sig, spec |-> want]))
  /\ (rec.sig = want \/ Report("c09-declared-signature", [declared |-> rec.sig, expected |-> want]))
  /\ IF rec.outcome # "ok" THEN Report("c09-encode-failed", [outcome |-> rec.outcome, msg |-> rec.msg])
     ELSE LET p == ParseSig(want, FALSE)
              d == Decode(p.ts[1], rec.bytes, 0, TRUE, 0) IN
          /\ ((d.ok /\ d.next = Len(rec.bytes) + 1) \/ Report("c09-bytes-do-not-conform-to-signature", [decode |-> d, bytes |-> rec.bytes]))
          /\ (~d.ok \/ d.v = rec.exp_v \/ Report("c09-bytes-denote-another-value", [got |-> d.v, want |-> rec.exp_v]))
          /\ ((rec.rt_ok /\ rec.consumed = Len(rec.bytes)) \/ Report("c09-round-trip", [rt_ok |-> rec.rt_ok, consumed |-> rec.consumed]))
          /\ (rec.size_ok \/ Report("c09-size", "serialized_size differs from the bytes written"))
Inv == LineOk \/ TRUE
=============================================================================
