CONSTANTS
  HDR = 16
  devs = {"leftfds_zero_pending"}
  Total <- RealTotal
  TooLarge <- RealTooLarge
  Skip <- RealSkip
INIT TInit
NEXT TNext
INVARIANT Done
CHECK_DEADLOCK FALSE
