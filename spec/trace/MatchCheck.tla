----------------------------- MODULE MatchCheck -----------------------------
(***************************************************************************)
(* C21, impl -> spec: every line of the ndjson file named by TRACE is one    *)
(* call rule.matches(&msg) of the real code on a rule built through          *)
(* MatchRule::builder() and a message built through the Message builders.   *)
(* TLC evaluates MatchSem on the pair and prints one MISMATCH record per     *)
(* line the specification does not explain, naming the smallest set of       *)
(* listed deviations (MatchSem!Devs21) that would explain the observed       *)
(* verdict ("none" when there is no such set).                               *)
(***************************************************************************)
EXTENDS MatchSem, Json, IOUtils

Rec == ndJsonDeserialize(IOEnv.TRACE)
\* TLC does not cache Rec: the record of a line is carried in the state so the file is parsed once
VARIABLES l, rec
Init == LET R == Rec IN \E i \in 1..Len(R) : l = i /\ rec = R[i]
Next == UNCHANGED <<l, rec>>

Report(what, detail) == PrintT(<<"MISMATCH", ToJson([line |-> l, id |-> rec.id, what |-> what, detail |-> detail])>>)


RECURSIVE AsSeq(_)
AsSeq(S) == IF S = {} THEN <<>> ELSE LET x == CHOOSE y \in S : TRUE IN <<x>> \o AsSeq(S \ {x})

MatchChecks(r) ==
  IF ~r.built THEN Report("not-built", r.err)
  ELSE
    LET rule == NormRule(r.rule)
        msg  == r.msg
        ok(D) == (r.got = "true" /\ TRUE \in Verdicts(rule, msg, D)) \/ (r.got = "false" /\ FALSE \in Verdicts(rule, msg, D))
    IN  IF r.got \notin {"true", "false"} THEN Report("match-error", r.got)
        ELSE IF ok({}) THEN TRUE
        ELSE LET expl == {D \in SUBSET Devs21 : ok(D)}
                 best == IF expl = {} THEN {} ELSE CHOOSE D \in expl : \A E \in expl : Cardinality(D) <= Cardinality(E)
             IN  Report("match", [expected |-> Matches(rule, msg), got |-> r.got,
                                  devs |-> IF expl = {} THEN <<"none">> ELSE AsSeq(best)])

LineOk == LET r == rec IN IF r.ev = "Match" THEN MatchChecks(r) ELSE TRUE
Inv == LineOk \/ TRUE
=============================================================================
