----------------------------- MODULE DepthCheck -----------------------------
(***************************************************************************)
(* C07: validates Depth observations against spec/Depths.tla.  A line holds  *)
(* the nesting (outermost first) and, per format, the outcome of encoding the *)
(* value built through the API and of decoding the specification's reference  *)
(* encoding.  Expected: success iff Depths!StackOk(stack); a refusal of an     *)
(* over-limit value must be a depth error.                                     *)
(***************************************************************************)
EXTENDS Depths, Json, IOUtils, TLC
Rec == ndJsonDeserialize(IOEnv.TRACE)
VARIABLES l, rec
Init == /\ LET R == Rec IN \E i \in 1..Len(R) : l = i /\ rec = R[i]
        /\ DInit
Next == UNCHANGED <<l, rec, dvars>>

Report(what, detail) == PrintT(<<"MISMATCH", ToJson([line |-> l, id |-> rec.id, what |-> what, detail |-> detail])>>)

(* A nesting whose over-limit part lies within ONE signature (more than 32 arrays or 32 structs between two
   variants) is already refused when that signature is parsed (property C06), with a signature error; the error
   kind "depth" is demanded only when every signature involved is valid, i.e. the limit is crossed through variants. *)
RECURSIVE SegOver(_,_,_)
SegOver(s, a, r) == IF s = <<>> THEN FALSE
                    ELSE IF Head(s) = "v" THEN SegOver(Tail(s), 0, 0)
                    ELSE LET a2 == a + (IF Head(s) = "a" THEN 1 ELSE 0)
                             r2 == r + (IF Head(s) = "r" THEN 1 ELSE 0)
                         IN a2 > MaxA \/ r2 > MaxR \/ SegOver(Tail(s), a2, r2)
SigOver == SegOver(rec.stack, 0, 0)

FmtChecks(f, o, ok) ==
  /\ IF ok THEN
        /\ (o.enc.outcome = "ok" \/ Report("depth-enc-rejects-within-limits", [fmt |-> f, got |-> o.enc]))
        /\ (o.dec.outcome = "ok" \/ Report("depth-dec-rejects-within-limits", [fmt |-> f, got |-> o.dec]))
        /\ (o.enc.outcome # "ok" \/ o.enc.same_as_spec \/ Report("depth-enc-bytes", [fmt |-> f]))
        /\ (o.dec.outcome # "ok" \/ (o.dec.value_same /\ o.dec.consumed = o.len) \/ Report("depth-dec-value", [fmt |-> f, got |-> o.dec]))
     ELSE
        \* over the limits: encoding fails - or the value cannot even be built, because its signature is refused
        /\ (o.enc.outcome \in {"err", "unbuildable"} \/ Report("depth-enc-accepts-over-limit", [fmt |-> f, got |-> o.enc]))
        /\ (o.dec.outcome = "err" \/ Report("depth-dec-accepts-over-limit", [fmt |-> f, got |-> o.dec]))
        /\ (o.enc.outcome # "err" \/ (o.enc.both_err /\ (o.enc.bytes_err = "depth" \/ SigOver)) \/ Report("depth-enc-error-kind", [fmt |-> f, got |-> o.enc]))
        /\ (o.dec.outcome # "err" \/ o.dec.kind = "depth" \/ SigOver \/ Report("depth-dec-error-kind", [fmt |-> f, got |-> o.dec]))

LineOk ==
  LET ok == StackOk(rec.stack) IN
  /\ FmtChecks("dbus", rec.dbus, ok)
  /\ ("gv" \notin DOMAIN rec \/ FmtChecks("gvariant", rec.gv, ok))
Inv == LineOk \/ TRUE
=============================================================================
