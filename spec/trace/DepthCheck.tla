----------------------------- MODULE DepthCheck -----------------------------
(***************************************************************************)
(* C07: validates Depth observations against spec/Depths.tla.  A line holds  *)
(* the nesting (outermost first) and, per format, the outcome of encoding the *)
(* value built through the API and of decoding the specification's reference  *)
(* encoding.  Expected: success iff Depths!StackOk(stack); a refusal of an     *)
(* over-limit value must be a depth error.                                     *)
(***************************************************************************)
EXTENDS Depths, Json, IOUtils, TLC
Rec == ndJsonDeserialize(IOEnv.TRACE)
VARIABLES l, rec
Init == /\ LET R == Rec IN \E i \in 1..Len(R) : l = i /\ rec = R[i]
        /\ DInit
Next == UNCHANGED <<l, rec, dvars>>

Report(what, detail) == PrintT(<<"MISMATCH", ToJson([line |-> l, id |-> rec.id, what |-> what, detail |-> detail])>>)

FmtChecks(f, o, ok) ==
  /\ IF ok THEN
        /\ (o.enc.outcome = "ok" \/ Report("depth-enc-rejects-within-limits", [fmt |-> f, got |-> o.enc]))
        /\ (o.dec.outcome = "ok" \/ Report("depth-dec-rejects-within-limits", [fmt |-> f, got |-> o.dec]))
        /\ (o.enc.outcome # "ok" \/ o.enc.same_as_spec \/ Report("depth-enc-bytes", [fmt |-> f]))
        /\ (o.dec.outcome # "ok" \/ (o.dec.value_same /\ o.dec.consumed = o.len) \/ Report("depth-dec-value", [fmt |-> f, got |-> o.dec]))
     ELSE
        /\ (o.enc.outcome = "err" \/ Report("depth-enc-accepts-over-limit", [fmt |-> f, got |-> o.enc]))
        /\ (o.dec.outcome = "err" \/ Report("depth-dec-accepts-over-limit", [fmt |-> f, got |-> o.dec]))
        /\ (o.enc.outcome # "err" \/ (o.enc.both_err /\ o.enc.bytes_err = "depth") \/ Report("depth-enc-error-kind", [fmt |-> f, got |-> o.enc]))
        /\ (o.dec.outcome # "err" \/ o.dec.kind = "depth" \/ Report("depth-dec-error-kind", [fmt |-> f, got |-> o.dec]))

LineOk ==
  LET ok == StackOk(rec.stack) IN
  /\ FmtChecks("dbus", rec.dbus, ok)
  /\ ("gv" \notin DOMAIN rec \/ FmtChecks("gvariant", rec.gv, ok))
Inv == LineOk \/ TRUE
=============================================================================
