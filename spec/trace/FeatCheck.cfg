CONSTANTS
  Pkgs <- MetaPkgs
  ProcMacros <- MetaProcMacros
  Features <- MetaFeatures
  Items <- MetaItems
  Edges <- MetaEdges
  Couplings <- ZbusCouplings
  Requires <- ZbusRequires
  Resolver = "2"
INIT Init
NEXT Next
INVARIANT Inv
CHECK_DEADLOCK FALSE
