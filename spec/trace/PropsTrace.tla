----------------------------- MODULE PropsTrace -----------------------------
(***************************************************************************)
(* Trace validation of Properties histories recorded from the real object   *)
(* server (harness/iface `props`) against Props.tla (impl -> spec, C28).    *)
(* The file TRACE is a sequence of scenarios; each starts with a Reset      *)
(* event (interface, ground-truth initial values read from the server-side  *)
(* object) followed by one event per call with everything the client saw:   *)
(* number / type of replies, decoded payload, the PropertiesChanged signals *)
(* that arrived before quiescence, and the server-side values afterwards.   *)
(* The specification state `val` is driven by the *inputs* of the events    *)
(* through the reference functions of Props.tla; the *outputs* are compared *)
(* clause by clause and every violated clause prints one MISMATCH (the run  *)
(* never stops at the first).  After a mismatch in a Set the state is       *)
(* re-synchronised from the observed server values, so one lost update is   *)
(* reported once.  A final DONE record carries the number of consumed       *)
(* events (acceptance: all lines consumed).                                 *)
(***************************************************************************)
EXTENDS Props, Json, IOUtils

ASSUME TLCSet(1, ndJsonDeserialize(IOEnv.TRACE))
ASSUME TLCSet(2, ndJsonDeserialize(IOEnv.SHAPES))
Rec     == TLCGet(1)
FShapes == TLCGet(2)
NoTable == <<>>
NoInit == <<>>
NoValues == {}

VARIABLES l, table, ifn, opath      \* event index; property table, interface name and object path of the scenario
tvars == <<l, table, ifn, opath, val, resp, sigs, lastSet>>
e == Rec[l]

Report(what, detail) ==
  PrintT(<<"MISMATCH", ToJson([line |-> l, hid |-> e.hid, what |-> what, op |-> e.ev, detail |-> detail])>>)

TInit == /\ l = 1 /\ table = <<>> /\ ifn = "" /\ opath = ""
         /\ val = <<>> /\ resp = [kind |-> "none"] /\ sigs = <<>> /\ lastSet = <<>>

ValOf(obj) == [n \in DOMAIN obj |-> obj[n].v]
CanonMap(tbl, m) == [n \in DOMAIN m |-> IF n \in Names(tbl) THEN Canon(PropOf(tbl, n).ty, m[n]) ELSE m[n]]
CanonProps(obj) == [n \in DOMAIN obj |-> CanonTV(obj[n])]

(* ---- the comparison of one event with the specification, in the state before the event ---- *)
(* (a state predicate: TLC evaluates `A \/ Report(..)` left to right here, whereas inside the    *)
(* next-state relation every disjunct would be explored)                                        *)
OneReply == (e.nreplies = 1 /\ e.stray = 0) \/ Report("c28-exactly-one-reply", [nreplies |-> e.nreplies, stray |-> e.stray])
NoSignals == e.signals = <<>> \/ Report("c28-signal-without-set", Len(e.signals))
ServerIs(v) == CanonMap(table, ValOf(e.server)) = CanonMap(table, v)
                 \/ Report("c28-server-value", [prop |-> e.prop])

ResetChecks ==
  DOMAIN e.init = Names(ShapeById(FShapes, e.iface).props) \/ Report("harness-props-of-shape", DOMAIN e.init)

GetChecks ==
  LET want == GetResp(table, val, e.ifname = ifn, e.prop) IN
  /\ OneReply /\ NoSignals /\ ServerIs(val)
  /\ IF want.kind = "value"
     THEN \/ (e.rtype = "return" /\ e.decoded /\ CanonTV(e.got) = CanonTV(want.tv))
          \/ Report("c28-get-value", [prop |-> e.prop, rtype |-> e.rtype, rname |-> e.rname, rsig |-> e.rsig,
                                       access |-> PropOf(table, e.prop).access, ty |-> SigStr(want.tv.T)])
     ELSE \/ e.rtype = "error"
          \/ Report("c28-get-must-fail", [prop |-> e.prop, rtype |-> e.rtype, known |-> e.prop \in Names(table), ifok |-> e.ifname = ifn])

GetAllChecks ==
  LET want == GetAllResp(table, val, e.ifname = ifn) IN
  /\ OneReply /\ NoSignals /\ ServerIs(val)
  /\ IF want.kind = "all"
     THEN \/ (e.rtype = "return" /\ e.decoded /\ CanonProps(e.all) = CanonProps(want.props))
          \/ Report("c28-getall", [rtype |-> e.rtype, rname |-> e.rname, got |-> DOMAIN e.all, want |-> DOMAIN want.props])
     ELSE \/ e.rtype = "error"
          \/ Report("c28-getall-must-fail", [rtype |-> e.rtype])

SigNorm(s) == [ifname |-> s.ifname, changed |-> CanonProps(s.changed), invalidated |-> {s.invalidated[i] : i \in 1..Len(s.invalidated)}]
WantSigNorm(s) == [ifname |-> ifn, changed |-> CanonProps(s.changed), invalidated |-> s.invalidated]
SetOkHere == SetAccepted(table, e.ifname = ifn, e.prop, e.value)
SetClass ==
  IF e.ifname # ifn THEN "unknown-interface"
  ELSE IF e.prop \notin Names(table) THEN "unknown-property"
  ELSE IF ~Writable(PropOf(table, e.prop)) THEN "read-only"
  ELSE IF ~SetOkHere THEN "wrong-type:" \o SigStr(PropOf(table, e.prop).ty) \o "<-" \o SigStr(e.value.T)
  ELSE "ok:" \o EffEmits(PropOf(table, e.prop))

(* the clauses of a Set under a set of named deviations: outcome, new server value, signals *)
SetJudge(devs) ==
  LET ok    == SetAcceptedD(table, e.ifname = ifn, e.prop, e.value, devs)
      stv   == StoredD(table, e.ifname = ifn, e.prop, e.value, devs)
      nval  == IF ok THEN [val EXCEPT ![e.prop] = stv.v] ELSE val
      wsigs == IF ok THEN SetSignals(table, e.prop, stv) ELSE <<>> IN
  [outcome |-> IF ok THEN e.rtype = "return" /\ e.decoded ELSE e.rtype = "error",
   server  |-> CanonMap(table, ValOf(e.server)) = CanonMap(table, nval),
   signals |-> /\ Len(e.signals) = Len(wsigs)
               /\ \A i \in 1..Len(wsigs) : SigNorm(e.signals[i]) = WantSigNorm(wsigs[i]) /\ e.signals[i].path = opath,
   nsig    |-> Len(wsigs)]
AllOk(j) == j.outcome /\ j.server /\ j.signals

SetChecks ==
  LET j0 == SetJudge({}) IN
  /\ OneReply
  /\ \/ AllOk(j0)
     \/ LET ex == {D \in (SUBSET PropDevs) \ {{}} : AllOk(SetJudge(D))}
            dv == IF ex = {} THEN <<>> ELSE SetToSeq(CHOOSE D \in ex : TRUE)
            d(what) == [cls |-> SetClass, prop |-> e.prop, rtype |-> e.rtype, rname |-> e.rname, devs |-> dv,
                        nsignals |-> Len(e.signals), want_signals |-> j0.nsig] IN
        /\ (j0.outcome \/ Report(IF SetOkHere THEN "c28-set-must-succeed" ELSE "c28-set-must-fail", d("outcome")))
        /\ (j0.server \/ Report("c28-server-value", d("server")))
        /\ (j0.signals \/ Report("c28-signals", d("signals")))

EventOk ==
  CASE e.ev = "Reset"  -> ResetChecks
    [] e.ev = "Get"    -> GetChecks
    [] e.ev = "GetAll" -> GetAllChecks
    [] e.ev = "Set"    -> SetChecks
    [] OTHER -> Report("harness-unknown-event", e.ev)

(* ---- the behaviour: one step per event, the specification state follows the inputs ---- *)
T_Reset ==
  /\ e.ev = "Reset"
  /\ table' = ShapeById(FShapes, e.iface).props /\ ifn' = ShapeById(FShapes, e.iface).name /\ opath' = e.path
  /\ val' = ValOf(e.init) /\ lastSet' = ValOf(e.init)
  /\ resp' = [kind |-> "none"] /\ sigs' = <<>>

T_Get ==
  /\ e.ev = "Get"
  /\ resp' = GetResp(table, val, e.ifname = ifn, e.prop)
  /\ sigs' = <<>> /\ UNCHANGED <<table, ifn, opath, val, lastSet>>

T_GetAll ==
  /\ e.ev = "GetAll"
  /\ resp' = GetAllResp(table, val, e.ifname = ifn)
  /\ sigs' = <<>> /\ UNCHANGED <<table, ifn, opath, val, lastSet>>

(* After a Set the state is taken from the observed server values: equal to the specified new     *)
(* state unless SetChecks reported "c28-server-value", and then later events are judged on their  *)
(* own.                                                                                           *)
T_Set ==
  /\ e.ev = "Set"
  /\ val' = ValOf(e.server) /\ lastSet' = ValOf(e.server)
  /\ resp' = IF SetOkHere THEN [kind |-> "done", prop |-> e.prop] ELSE ErrorResp
  /\ sigs' = IF SetOkHere THEN SetSignals(table, e.prop, e.value) ELSE <<>>
  /\ UNCHANGED <<table, ifn, opath>>

TNext ==
  /\ l <= Len(Rec)
  /\ l' = l + 1
  /\ (T_Reset \/ T_Get \/ T_GetAll \/ T_Set)
(* the invariant performs the comparison for the event about to be consumed; at the end it prints *)
(* the number of consumed events (acceptance: all lines consumed)                                 *)
Inv == IF l <= Len(Rec) THEN EventOk \/ TRUE
       ELSE PrintT(<<"DONE", ToJson([consumed |-> l - 1])>>)
=============================================================================
