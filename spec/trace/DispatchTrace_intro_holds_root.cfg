CONSTANTS
  DEVS = {"intro_holds_root"}
INIT TInit
NEXT TNext
CHECK_DEADLOCK FALSE
