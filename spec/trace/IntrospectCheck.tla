-------------------------- MODULE IntrospectCheck --------------------------
(***************************************************************************)
(* Validation of introspection documents recorded from the real object      *)
(* server against Introspect.tla (C27).  Every line of TRACE is one         *)
(* independent observation and one initial state:                           *)
(*   Intro       the Introspect reply of one node of one registration tree: *)
(*               the document as parsed by a strict XML parser (`py`, with  *)
(*               `py_ok` = well-formed) and as read back by zbus_xml (`zx`) *)
(*   WireMethod  for one method: the in/out types its introspection         *)
(*               declares, and the signature of a call the server accepted  *)
(*               and of the reply it sent                                   *)
(*   WireProp    declared property type vs the type inside the Get reply    *)
(*               and the type accepted by Set                               *)
(*   WireSignal  declared signal arguments vs the emitted signal's body     *)
(* Violated clauses are printed as MISMATCH records; `devs` names the       *)
(* deviation that explains the observation, if any.                         *)
(***************************************************************************)
EXTENDS Introspect, Json, IOUtils

ASSUME TLCSet(1, ndJsonDeserialize(IOEnv.TRACE))
ASSUME TLCSet(2, ndJsonDeserialize(IOEnv.SHAPES))
ASSUME TLCSet(3, ndJsonDeserialize(IOEnv.TREES))
Rec     == TLCGet(1)
FShapes == TLCGet(2)
FTrees  == TLCGet(3)

VARIABLE l
Init == l \in 1..Len(Rec)
Next == UNCHANGED l
r == Rec[l]
prog == [shapes |-> FShapes, regs |-> FTrees[CHOOSE j \in 1..Len(FTrees) : FTrees[j].tid = r.tid].regs]

Report(what, detail) == PrintT(<<"MISMATCH", ToJson([line |-> l, id |-> r.id, what |-> what, detail |-> detail])>>)

IntroChecks ==
  IF r.nreplies # 1 \/ r.rtype # "return" \/ r.stray # 0
  THEN Report("c27-introspect-reply", [nreplies |-> r.nreplies, rtype |-> r.rtype, rname |-> r.rname])
  ELSE IF ~r.py_ok
  THEN Report("c27-wellformed", [path |-> r.path, err |-> r.py_err,
                                 devs |-> IF SubtreeHasBadDoc(prog, r.segs) THEN <<"doc_comment_unescaped">> ELSE <<>>])
  ELSE
    /\ (r.zx_ok \/ Report("c27-zbus-xml-readback",
                           [path |-> r.path, err |-> r.zx_err, child_elements |-> ChildNodeElems(r.py),
                            devs |-> IF ReadbackLimitCanApply(r.py) THEN <<"readback_event_limit">> ELSE <<>>]))
    /\ (~r.zx_ok \/ r.zx = r.py \/ Report("c27-zbus-xml-differs", [path |-> r.path, devs |-> <<>>]))
    /\ LET faults == NodeFaults(prog, r.py, r.segs) IN
       \A f \in faults : Report(f, [path |-> r.path, devs |-> <<>>])
    (* doc text is not part of the property; a difference is reported as drift *)
    /\ \A i \in 1..Len(r.docs) :
         LET d == r.docs[i] IN
         (~IsGenerated(prog, d.iface) \/ d.member \notin DOMAIN ExpDocs(ShapeNamed(prog, d.iface))
            \/ ExpDocs(ShapeNamed(prog, d.iface))[d.member] = d.lines
            \/ ExpDocs(ShapeNamed(prog, d.iface))[d.member] \in BadDocs   \* cut short by its own "-->" (known finding)
            \/ Report("drift-doc-text", [iface |-> d.iface, member |-> d.member]))

WireMethodChecks ==
  /\ (r.accepted /\ r.declared_in = r.sent_sig) \/ Report("c27-declared-in-types", [iface |-> r.ifname, member |-> r.member, declared |-> r.declared_in, accepted |-> r.sent_sig, ran |-> r.accepted, devs |-> <<>>])
  /\ (r.declared_out = r.reply_sig) \/ Report("c27-declared-out-types", [iface |-> r.ifname, member |-> r.member, declared |-> r.declared_out, sent |-> r.reply_sig, devs |-> <<>>])
WirePropChecks ==
  /\ (~r.readable \/ (r.get_ok /\ r.declared = r.get_sig)) \/ Report("c27-declared-property-type", [iface |-> r.ifname, prop |-> r.prop, declared |-> r.declared, sent |-> r.get_sig, devs |-> <<>>])
  /\ (~r.writable \/ (r.set_ok /\ r.declared = r.set_sig)) \/ Report("c27-declared-property-type-set", [iface |-> r.ifname, prop |-> r.prop, declared |-> r.declared, accepted |-> r.set_sig, ok |-> r.set_ok, devs |-> <<>>])
  /\ (r.readable = r.get_ok) \/ Report("c27-declared-access", [iface |-> r.ifname, prop |-> r.prop, access |-> r.access, get_ok |-> r.get_ok, devs |-> <<>>])
  /\ (r.writable = r.set_ok) \/ Report("c27-declared-access", [iface |-> r.ifname, prop |-> r.prop, access |-> r.access, set_ok |-> r.set_ok, devs |-> <<>>])
WireSignalChecks ==
  (r.count = 1 /\ r.declared = r.sig) \/ Report("c27-declared-signal-types", [iface |-> r.ifname, signal |-> r.signal, declared |-> r.declared, sent |-> r.sig, count |-> r.count, devs |-> <<>>])

LineOk ==
  CASE r.ev = "Intro"      -> IntroChecks
    [] r.ev = "WireMethod" -> WireMethodChecks
    [] r.ev = "WireProp"   -> WirePropChecks
    [] r.ev = "WireSignal" -> WireSignalChecks
    [] OTHER -> Report("harness-unknown-event", r.ev)
Inv == LineOk \/ TRUE
=============================================================================
