----------------------------- MODULE FuzzCheck -----------------------------
(***************************************************************************)
(* C04 outcome domain.  A Fuzz line summarises all decode calls made on one  *)
(* corpus entry and its seeded mutations.  Every call must end in "ok" or     *)
(* "err" (never "panic"; an abort shows up as outcome "abort" written by the   *)
(* driver), with peak allocation at most AllocBase + AllocFactor * (input + signature length):
(* far-beyond-input allocation (e.g. a buffer sized by an untrusted length field) is what is excluded;   *)
(* the constant allows the bounded, quadratic cost of a deeply nested <= 255 byte signature.            *)  *)
(* `bad` lists the calls outside that domain.                                  *)
(***************************************************************************)
EXTENDS Naturals, Sequences, Json, IOUtils, TLC
Rec == ndJsonDeserialize(IOEnv.TRACE)
VARIABLES l, rec
Init == LET R == Rec IN \E i \in 1..Len(R) : l = i /\ rec = R[i]
Next == UNCHANGED <<l, rec>>
AllocFactor == 256
AllocBase == 2097152
Report(what, detail) == PrintT(<<"MISMATCH", ToJson([line |-> l, id |-> rec.id, what |-> what, detail |-> detail])>>)
CallOk(c, len) == c.outcome \in {"ok", "err"} /\ c.alloc_peak <= AllocBase + AllocFactor * len
LineOk ==
  /\ (rec.outcome # "abort" \/ Report("abort", rec))
  /\ \A i \in 1..Len(rec.bad) :
        LET c == rec.bad[i] IN
        CallOk(c, Len(c.bytes) + c.siglen) \/ Report(IF c.outcome = "panic" THEN "panic" ELSE "alloc", c)
Inv == LineOk \/ TRUE
=============================================================================
