---------------------------- MODULE SerialCheck ----------------------------
(***************************************************************************)
(* C15 on observations: a line is one run of `threads` real threads each      *)
(* building `per` messages after the process-wide counter was preset (hook).   *)
(* Serials are logged as <<hi, lo>> 16-bit halves (TLC integers are 32 bit).    *)
(* Checked: never <<0,0>>; pairwise distinct; each thread's serials strictly    *)
(* increase modulo the wrap (the counter only moves forward).                   *)
(***************************************************************************)
EXTENDS Naturals, Sequences, FiniteSets, Json, IOUtils, TLC
Rec == ndJsonDeserialize(IOEnv.TRACE)
VARIABLES l, rec
Init == LET R == Rec IN \E i \in 1..Len(R) : l = i /\ rec = R[i]
Next == UNCHANGED <<l, rec>>
Report(what, detail) == PrintT(<<"MISMATCH", ToJson([line |-> l, id |-> rec.id, what |-> what, detail |-> detail])>>)
All == UNION {{rec.serials[t][i] : i \in 1..Len(rec.serials[t])} : t \in 1..Len(rec.serials)}
Count == LET RECURSIVE Sum(_) Sum(t) == IF t = 0 THEN 0 ELSE Len(rec.serials[t]) + Sum(t - 1) IN Sum(Len(rec.serials))
\* distance from the start value, modulo 2^32, as a pair comparison: serials after the wrap are "later"
Before(a, b) == a[1] < b[1] \/ (a[1] = b[1] /\ a[2] < b[2])
Start == <<rec.start_hi, rec.start_lo>>
Wrapped(a) == Before(a, Start)          \* numerically below the start value => fetched after the wrap
Later(a, b) == IF Wrapped(a) = Wrapped(b) THEN Before(a, b) ELSE Wrapped(b)
LineOk ==
  /\ (<<0, 0>> \notin All \/ Report("c15-zero-serial", rec.start_lo))
  /\ (Cardinality(All) = Count \/ Report("c15-duplicate-serial", [distinct |-> Cardinality(All), built |-> Count]))
  /\ \A t \in 1..Len(rec.serials) : \A i \in 1..(Len(rec.serials[t]) - 1) :
        Later(rec.serials[t][i], rec.serials[t][i+1]) \/ Report("c15-not-increasing", [thread |-> t, at |-> i])
Inv == LineOk \/ TRUE
=============================================================================
