------------------------------ MODULE LifeMon ------------------------------
(***************************************************************************)
(* C39 monitor: transport closes exactly when the last handle goes; graceful  *)
(* shutdown (through any number of handles at once) completes after, and only  *)
(* after, in-flight handlers have replied.                                     *)
(***************************************************************************)
EXTENDS Naturals, Sequences, FiniteSets, Json, IOUtils, TLC
Rec == ndJsonDeserialize(IOEnv.TRACE)
VARIABLES tr, pos, ms
Fresh == [scn |-> 0, calls |-> {}, started |-> {}, replied |-> {}, shut |-> 0, shutdone |-> 0, rclosed |-> FALSE, wclosed |-> FALSE, faulted |-> FALSE]
Init == tr = Rec /\ pos = 0 /\ ms = Fresh
Report(what, detail) == PrintT(<<"MISMATCH", ToJson([line |-> pos + 1, id |-> ms.scn, what |-> what, detail |-> detail])>>)
SerialOfCall(k) == LET S == {c \in ms.calls : c[1] = k} IN IF S = {} THEN 0 ELSE (CHOOSE c \in S : TRUE)[2]
Running == {k \in ms.started : SerialOfCall(k) \notin ms.replied}
Check(e) ==
  CASE e.ev = "ShutdownDone" ->
         /\ (Running = {} \/ Report("c39-shutdown-completed-before-replies", [running |-> Running]))
         /\ (ms.wclosed \/ Report("c39-shutdown-completed-before-close", e))
    [] e.ev \in {"ReadHalfDropped", "WriteHalfDropped"} -> TRUE
    [] e.ev = "Quiescent" ->
         /\ ((e.read_closed /\ e.write_closed) => (e.handles = 0 /\ Running = {})
                \/ Report("c39-transport-closed-while-handles-remain", [handles |-> e.handles, running |-> Running]))
         /\ ((e.handles = 0 /\ Running = {}) => (e.read_closed /\ e.write_closed)
                \/ Report("c39-transport-not-closed-after-last-handle", e))
         \* every graceful_shutdown() started through some handle has completed (ms.shut counts the waiting ones)
         /\ ((ms.shut > 0 /\ Running = {} /\ e.handles = 0) => Report("c39-shutdown-hangs", [waiting |-> ms.shut, completed |-> ms.shutdone]))
    [] e.ev = "Panic" -> Report("panic", e)
    [] OTHER -> TRUE
Upd(e) ==
  CASE e.ev = "Reset" -> [Fresh EXCEPT !.scn = e.scn]
    [] e.ev = "PeerCall" -> [ms EXCEPT !.calls = @ \cup {<<e.k, e.serial>>}]
    [] e.ev = "HandlerStart" -> [ms EXCEPT !.started = @ \cup {e.k}]
    [] e.ev = "Wire" -> IF e.type \in {"return", "error"} THEN [ms EXCEPT !.replied = @ \cup {e.reply_serial}] ELSE ms
    [] e.ev = "ShutdownStart" -> [ms EXCEPT !.shut = @ + 1]
    [] e.ev = "ShutdownDone" -> [ms EXCEPT !.shut = IF @ > 0 THEN @ - 1 ELSE 0, !.shutdone = @ + 1]
    [] e.ev = "ReadHalfDropped" -> [ms EXCEPT !.rclosed = TRUE]
    [] e.ev = "WriteHalfDropped" -> [ms EXCEPT !.wclosed = TRUE]
    [] OTHER -> ms
Next == /\ tr # <<>> /\ (IF Check(Head(tr)) THEN TRUE ELSE TRUE) /\ ms' = Upd(Head(tr)) /\ tr' = Tail(tr) /\ pos' = pos + 1
=============================================================================
