CONSTANTS
  DEVS = {"props_hold_root", "intro_holds_root", "lazy_subscribe"}
INIT TInit
NEXT TNext
CHECK_DEADLOCK FALSE
