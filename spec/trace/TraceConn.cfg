CONSTANTS
  Callers <- TC_Callers
  NoReply <- TC_NoReply
  Streams <- TC_Empty
  RuleOf <- TC_EmptyFn
  Rules <- TC_Empty
  Cap = 1
  CapMR = 8
  Sigs <- TC_Empty
  SigRules <- TC_EmptyFn
  MaxStray = 100
  MaxFault = 1
  SubscribeFirst = TRUE
  CloneCounts = TRUE
INIT TInit
NEXT TNext
CONSTRAINT Reached
INVARIANT NotYetAccepted
CHECK_DEADLOCK FALSE
