------------------------------ MODULE MatchMon ------------------------------
(***************************************************************************)
(* C37 monitor over traces of bus-mode scenarios (harness/bus with the fake   *)
(* bus): AddMatch / RemoveMatch calls as seen by the bus versus live streams.  *)
(***************************************************************************)
EXTENDS Naturals, Sequences, FiniteSets, Json, IOUtils, TLC
Rec == ndJsonDeserialize(IOEnv.TRACE)
VARIABLES tr, pos, ms
Fresh == [scn |-> 0, onbus |-> {}, live |-> <<>>, rules |-> <<>>, proxies |-> {}, faulted |-> FALSE, cloned |-> FALSE]
\* live: sequence of [s, rule] for streams subscribed and not dropped; rules: [s |-> rule] as a sequence of pairs
Init == tr = Rec /\ pos = 0 /\ ms = Fresh
Report(what, detail) == PrintT(<<"MISMATCH", ToJson([line |-> pos + 1, id |-> ms.scn, what |-> what, detail |-> detail])>>)
RuleOfS(s) == LET I == {i \in 1..Len(ms.rules) : ms.rules[i][1] = s} IN IF I = {} THEN "" ELSE ms.rules[CHOOSE i \in I : TRUE][2]
TypeOfS(s) == LET I == {i \in 1..Len(ms.rules) : ms.rules[i][1] = s} IN IF I = {} THEN "signal" ELSE ms.rules[CHOOSE i \in I : TRUE][3]
\* a signal subscription: the rule asks for signals, or names no message type at all (then it matches signals too)
IsSignalSub(x) == x[3] \in {"signal", ""}
LiveRules == {ms.live[i][2] : i \in {j \in 1..Len(ms.live) : IsSignalSub(ms.live[j])}}
Check(e) ==
  CASE e.ev = "BusAddMatch" -> (e.rule \notin ms.onbus \/ Report("c37-rule-added-twice", e))
    [] e.ev = "BusRemoveMatch" ->
         /\ (e.rule \in ms.onbus \/ Report("c37-remove-of-unregistered-rule", e))
         /\ (e.rule \notin LiveRules \/ Report("c37-rule-removed-while-in-use", [rule |-> e.rule, live |-> ms.live]))
    [] e.ev = "Quiescent" /\ e.pending_bus = 0 ->
         \* simple streams: exact mirror; rules owned by proxies are only required to be gone once the proxies are
         /\ \A r \in LiveRules : r \in ms.onbus \/ ms.faulted \/ Report("c37-live-rule-not-registered", [rule |-> r])
         /\ (ms.proxies # {} \/ ms.faulted \/ ms.onbus \subseteq LiveRules \/ Report("c37-stale-registration", [registered |-> ms.onbus, live |-> LiveRules]))
    [] e.ev = "Panic" -> Report("panic", e)
    [] OTHER -> TRUE
Upd(e) ==
  CASE e.ev = "Reset" -> [Fresh EXCEPT !.scn = e.scn]
    [] e.ev = "BusAddMatch" -> [ms EXCEPT !.onbus = @ \cup {e.rule}]
    [] e.ev = "BusRemoveMatch" -> [ms EXCEPT !.onbus = @ \ {e.rule}]
    [] e.ev = "SubStart" -> [ms EXCEPT !.rules = Append(@, <<e.stream, e.rule, IF "rtype" \in DOMAIN e THEN e.rtype ELSE "signal">>)]
    [] e.ev = "Subscribed" -> IF e.result = "ok" THEN [ms EXCEPT !.live = Append(@, <<e.stream, RuleOfS(e.stream), TypeOfS(e.stream)>>)]
                              ELSE IF e.result = "clone" THEN [ms EXCEPT !.live = Append(@, <<e.stream, RuleOfS(e.parent), TypeOfS(e.parent)>>),
                                                                         !.rules = Append(@, <<e.stream, RuleOfS(e.parent), TypeOfS(e.parent)>>), !.cloned = TRUE]
                              ELSE ms
    [] e.ev \in {"StreamDrop", "StreamEnd"} -> [ms EXCEPT !.live = SelectSeq(@, LAMBDA x : x[1] # e.stream)]
    [] e.ev = "ProxySubscribed" -> [ms EXCEPT !.proxies = @ \cup {e.proxy}]
    [] e.ev \in {"ProxyDrop", "ProxyStreamEnd"} -> [ms EXCEPT !.proxies = @ \ {e.proxy}]
    [] e.ev = "Fault" -> [ms EXCEPT !.faulted = TRUE]
    [] OTHER -> ms
Next == /\ tr # <<>> /\ (IF Check(Head(tr)) THEN TRUE ELSE TRUE) /\ ms' = Upd(Head(tr)) /\ tr' = Tail(tr) /\ pos' = pos + 1
=============================================================================
