INIT Init
NEXT Next
INVARIANT Inv
CHECK_DEADLOCK FALSE
