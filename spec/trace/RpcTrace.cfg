CONSTANTS
  Prog <- NoProg
  Calls <- NoCalls
  DEVS <- NoDevs
INIT TInit
NEXT TNext
INVARIANT Inv
CHECK_DEADLOCK FALSE
