----------------------------- MODULE GuidCheck -----------------------------
(***************************************************************************)
(* C10 (server GUID part), impl -> spec.  Each `Guid` line: a candidate      *)
(* string s (bytes) and, per construction path of zbus::Guid / OwnedGuid,    *)
(* whether the path accepted it (`ok`) and whether the constructed value     *)
(* reads back as s (`same`).  A GUID is exactly 32 hexadecimal digits        *)
(* (GuidGrammar!GuidOk) whichever way it is constructed.                     *)
(* MISMATCH per path: guid-accepts-invalid / guid-rejects-valid /            *)
(* guid-value-changed; `dev` = "uuid_crate_forms" when s is one of the RFC   *)
(* 4122 text forms a general UUID parser takes.                              *)
(***************************************************************************)
EXTENDS GuidGrammar, Json, IOUtils, TLC

Rec == ndJsonDeserialize(IOEnv.TRACE)
\* TLC does not cache Rec: the record of a line is carried in the state so the file is parsed once
VARIABLES l, rec
Init == LET R == Rec IN \E i \in 1..Len(R) : l = i /\ rec = R[i]
Next == UNCHANGED <<l, rec>>

Report(what, detail) == PrintT(<<"MISMATCH", ToJson([line |-> l, id |-> rec.id, what |-> what, detail |-> detail])>>)

PathOk(s, p) ==
  LET want == GuidOk(s) IN
  /\ (p.ok = want
      \/ Report(IF p.ok THEN "guid-accepts-invalid" ELSE "guid-rejects-valid",
                [path |-> p.p, dev |-> IF p.ok /\ UuidForms(s) THEN "uuid_crate_forms" ELSE "none"]))
  /\ (~p.ok \/ p.same \/ Report("guid-value-changed", [path |-> p.p, dev |-> "none"]))

LineOk == LET r == rec IN IF r.ev = "Guid" THEN \A j \in 1..Len(r.paths) : PathOk(r.s, r.paths[j]) ELSE TRUE
Inv == LineOk \/ TRUE
=============================================================================
