---------------------------- MODULE DispatchTrace ----------------------------
(***************************************************************************)
(* Validation of dispatch traces recorded by harness/obj (`disp-replay`,   *)
(* `disp-rand`) against Dispatch, with silent internal steps (DESIGN 2.3 / *)
(* D.2).  One scenario per line of the file named by TRACE; each scenario  *)
(* is an initial state (its configuration comes from the line), so the     *)
(* scenarios are validated independently and in parallel.                  *)
(*                                                                         *)
(* Logged events and the actions they are bound to:                        *)
(*   Create -> CreateOS        Send k -> ClientSend (k = next index)       *)
(*   Start k -> HStart(k)      Pass k -> HYield(k)   Emitted k -> HEmit(k) *)
(*   Wrote k -> HWrote(k)      End k  -> HEnd(k)                           *)
(*   Reply k -> ClientReply(k) Quiescent P -> Stuck /\ Unanswered = P      *)
(* Not logged (silent): the socket reader, the dispatcher's first run and  *)
(* its take/lookup/spawn step, every lock acquisition, the reply write.    *)
(*                                                                         *)
(* A scenario is accepted (DONE record) when some interleaving of silent   *)
(* steps lets the specification -- with the deviations DEVS of the config  *)
(* file, {} first -- consume every event.  Independently of that, the      *)
(* property predicates are evaluated on the events alone (MONITOR record): *)
(*   answered  every written call got a successful reply and (unless it is *)
(*             an Introspect / Ping) its handler ran from Start to End;    *)
(*             nothing is pending at quiescence      (C30; C29 with spawn) *)
(*   ordered   for a spawn-disabled interface: of two method calls whose    *)
(*             handlers ran, the one written first ran first and had       *)
(*             returned before the other started                     (C29) *)
(***************************************************************************)
EXTENDS Dispatch, Json, IOUtils

Rec == ndJsonDeserialize(IOEnv.TRACE)

\* TLC does not cache Rec (every reference parses the file again): it is read once, in TInit, and the
\* scenario record travels in the state variable scn.
VARIABLES scn, l
tvars == <<vars, scn, l>>

Ev     == scn.ev
ToSet(s) == {s[j] : j \in 1..Len(s)}
Out(tag, rec) == PrintT(<<tag, ToJson(rec)>>)

CfgOf(r) == [spawn |-> r.spawn,
             calls |-> [j \in 1..Len(r.calls) |-> [kind |-> r.calls[j].kind, body |-> r.calls[j].body]]]

TInit == /\ \E R \in {Rec} : \E i \in 1..Len(R) :
              scn = [id |-> R[i].id, spawn |-> R[i].spawn, calls |-> R[i].calls, ev |-> R[i].ev]
         /\ l = 1
         /\ InitWith(CfgOf(scn))

(* ---- the property predicates, on the recorded events alone ---- *)
Has(e, k)  == \E i \in 1..Len(Ev) : Ev[i].e = e /\ Ev[i].k = k
Idx(e, k)  == CHOOSE i \in 1..Len(Ev) : Ev[i].e = e /\ Ev[i].k = k
Count(e, k) == Cardinality({i \in 1..Len(Ev) : Ev[i].e = e /\ Ev[i].k = k})
Written    == {Ev[i].k : i \in {i \in 1..Len(Ev) : Ev[i].e = "Send"}}
Pending    == ToSet(Ev[Len(Ev)].pending)
KindOf(k)  == scn.calls[k].kind
Answered ==
  /\ Ev[Len(Ev)].e = "Quiescent" /\ Pending = {}
  /\ \A k \in Written : /\ IF NoReply(KindOf(k)) THEN Count("Reply", k) = 0
                                                     ELSE Count("Reply", k) = 1 /\ Ev[Idx("Reply", k)].ok
                        /\ KindOf(k) \notin {"intro", "ping"} => Count("Start", k) = 1 /\ Count("End", k) = 1
SeqWritten == IF scn.spawn THEN {} ELSE {k \in Written : KindOf(k) \in UserKinds}
\* (a call that never started -- lost or stuck -- is `answered`'s business, not an ordering failure)
Ordered == \A j, k \in SeqWritten : (j < k /\ Has("Start", j) /\ Has("Start", k)) =>
                                       (Has("End", j) /\ Idx("End", j) < Idx("Start", k))

(* ---- events ---- *)
IsEv(e) == l <= Len(Ev) /\ Ev[l].e = e /\ l' = l + 1
K == Ev[l].k

T_Create == /\ IsEv("Create") /\ CreateOS
            /\ Out("MONITOR", [id |-> scn.id, answered |-> Answered, ordered |-> Ordered])
T_Send   == IsEv("Send") /\ ClientSend /\ sent' = K
T_Start  == IsEv("Start") /\ HStart(K)
T_Pass   == IsEv("Pass") /\ HYield(K)
T_Emit   == IsEv("Emitted") /\ HEmit(K)
T_Wrote  == IsEv("Wrote") /\ HWrote(K)
T_End    == IsEv("End") /\ HEnd(K)
T_Reply  == IsEv("Reply") /\ Ev[l].ok /\ ClientReply(K)
T_Quiet  == IsEv("Quiescent") /\ Stuck /\ Unanswered = ToSet(Ev[l].pending) /\ UNCHANGED vars
T_Done   == /\ l = Len(Ev) + 1
            /\ Out("DONE", [id |-> scn.id])
            /\ l' = l + 1 /\ UNCHANGED vars

Silent == /\ UNCHANGED l
          /\ \/ ReaderDeliver \/ DispInit \/ DispTake
             \/ \E k \in Calls : \/ AcqRootR(k) \/ AcqIfR(k) \/ AnnounceIfW(k) \/ GetIfW(k)
                                \/ HWantWrite(k) \/ HAnnounceW(k) \/ Finish(k)

TNext == /\ UNCHANGED scn
         /\ \/ T_Create \/ T_Send \/ T_Start \/ T_Pass \/ T_Emit \/ T_Wrote \/ T_End \/ T_Reply \/ T_Quiet \/ T_Done
            \/ Silent

\* diagnostics for a rejected scenario (run alone): the longest prefix some behaviour consumed
Reached == IF l > TLCGet(1) THEN TLCSet(1, l) ELSE TRUE
TInitDiag == TInit /\ TLCSet(1, 1)
Report == PrintT(<<"PREFIX", ToJson([consumed |-> TLCGet(1) - 1])>>)
=============================================================================
