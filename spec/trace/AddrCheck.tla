----------------------------- MODULE AddrCheck -----------------------------
(***************************************************************************)
(* C23, impl -> spec.  Lines of the ndjson file named by TRACE:              *)
(*  Addr    : an address value built through the zbus constructors; `str` =  *)
(*            bytes of to_string(); `reparse` = Address::from_str(str)       *)
(*            (fields through the getters, zbus's ==); `self` = the built    *)
(*            value through the getters.                                     *)
(*  ParseStr: a valid address string (random key order, random optional      *)
(*            escapes); `parsed` = Address::from_str(s).                     *)
(* Clauses (MISMATCH; `dev` = the listed deviation of AddrCodec that          *)
(* reproduces the observation, "none" otherwise):                            *)
(*  fmt-denotes   : the string form denotes the value (AddrCodec!Denote)     *)
(*  roundtrip     : from_str(to_string(a)) = a                               *)
(*  parse-decodes : the fields parsed from a valid string are the unescaped  *)
(*                  values the string denotes                                *)
(***************************************************************************)
EXTENDS AddrCodec, Json, IOUtils

Rec == ndJsonDeserialize(IOEnv.TRACE)
\* TLC does not cache Rec: the record of a line is carried in the state so the file is parsed once
VARIABLES l, rec
Init == LET R == Rec IN \E i \in 1..Len(R) : l = i /\ rec = R[i]
Next == UNCHANGED <<l, rec>>

Report(what, detail) == PrintT(<<"MISMATCH", ToJson([line |-> l, id |-> rec.id, what |-> what, detail |-> detail])>>)

Outcome(p) == IF p.ok THEN [ok |-> TRUE, addr |-> NormAddr(p.addr)] ELSE [ok |-> FALSE]
Shape(d)   == IF d.ok THEN [ok |-> TRUE, addr |-> d.addr] ELSE [ok |-> FALSE]
(* the single listed deviation under which the specification predicts `got` for string s *)
DevFor(s, got) ==
  LET ds == {d \in Devs23 : Shape(Denote(s, {d})) = got} IN
  IF ds = {} THEN "none" ELSE CHOOSE d \in ds : TRUE

AddrChecks(r) ==
  IF ~r.built THEN Report("not-built", r.err)
  ELSE
    LET a == NormAddr(r.addr)
        want == [ok |-> TRUE, addr |-> a]
    IN
    /\ (NormAddr(r.self) = a \/ Report("harness-self", [self |-> r.self]))
    /\ (Shape(Denote(r.str, {})) = want
        \/ Report("fmt-denotes", [transport |-> a.transport, denotes |-> Shape(Denote(r.str, {})), dev |-> "none"]))
    /\ ((r.reparse.ok /\ r.reparse.eq /\ NormAddr(r.reparse.addr) = a)
        \/ Report("roundtrip", [transport |-> a.transport, got |-> r.reparse, dev |-> DevFor(r.str, Outcome(r.reparse))]))

ParseStrChecks(r) ==
  LET d == Shape(Denote(r.s, {})) IN
  IF ~d.ok THEN TRUE          \* not a valid address for the specification: nothing is claimed
  ELSE (Outcome(r.parsed) = d
        \/ Report("parse-decodes", [transport |-> d.addr.transport, got |-> r.parsed, denotes |-> d,
                                    dev |-> DevFor(r.s, Outcome(r.parsed))]))

LineOk ==
  LET r == rec IN
  CASE r.ev = "Addr" -> AddrChecks(r)
    [] r.ev = "ParseStr" -> ParseStrChecks(r)
    [] OTHER -> TRUE
Inv == LineOk \/ TRUE
=============================================================================
