-------------------------- MODULE SaslClientTrace --------------------------
(***************************************************************************)
(* Validation of client-handshake observations against SaslClient (C17).   *)
(* One ndjson line = one run of the real client handshake against a        *)
(* scripted server: cfg (can the transport pass fds, expected GUID), the    *)
(* byte stream the server sent (handshake lines, then message bytes; fds    *)
(* attached to stream positions), where it was cut into reads, and what was *)
(* observed: outcome, the GUID the connection reports, whether sending an   *)
(* fd is permitted afterwards, the messages delivered by the MessageStream. *)
(* Each line is an initial state.  Everything is read from the bytes.       *)
(*  1. Explained(D): outcome, GUID, capability and deliveries are a         *)
(*     behaviour allowed by SaslClient!AllowedC with deviations D.          *)
(*  2. Otherwise the property clauses are evaluated on the observation:     *)
(*     ok-required, guid-expected, capfd-iff-agreed, leftover-delivered,    *)
(*     no-panic; none violated => drift.                                    *)
(***************************************************************************)
EXTENDS SaslClient, Json, IOUtils

\* TLC does not cache this definition (every use would parse the file again): TInit parses the file once
\* into TLC register 1 and every other use reads the register.
RecFile == ndJsonDeserialize(IOEnv.TRACE)
Rec == TLCGet(1)
VARIABLES l,
  cmds,      \* the complete lines of the stream as server commands, with their lengths
  outcome, ocap, oguid, delivered, expectedMsgs, hsLen, panicTxt, rel, eofSeen
ovars == <<cmds, outcome, ocap, oguid, delivered, expectedMsgs, hsLen, panicTxt, rel, eofSeen>>

RECURSIVE FlatB(_)
FlatB(ss) == IF ss = <<>> THEN <<>> ELSE Head(ss) \o FlatB(Tail(ss))
RECURSIVE SumLen(_, _)
SumLen(cs, n) == IF n = 0 THEN 0 ELSE cs[n].len + SumLen(cs, n - 1)

AttIds(a, lo, hi) ==
  LET sel == SelectSeq(a, LAMBDA r : r.pos >= lo /\ r.pos <= hi)
  IN FlatB([i \in 1..Len(sel) |-> sel[i].ids])
RECURSIVE StartOf(_, _)
StartOf(ms, i) == IF i = 1 THEN 0 ELSE StartOf(ms, i - 1) + Len(ms[i - 1])

TInit ==
  /\ TLCSet(1, RecFile)
  /\ l \in 1..Len(Rec)
  /\ LET r == Rec[l]
         lns == TakeLines(r.stream, 100000).lines
     IN /\ cmds = [i \in 1..Len(lns) |-> [c |-> ServerCmd(lns[i]), len |-> lns[i].len]]
        /\ outcome = r.outcome /\ ocap = r.cap_fd /\ oguid = r.guid /\ delivered = r.delivered
        /\ hsLen = r.hs_len /\ panicTxt = r.panic /\ rel = r.rel /\ eofSeen = r.eof
        \* the valid messages the server sent right after its handshake lines, each with the fds travelling with it
        /\ expectedMsgs = [i \in 1..Len(r.trail_msgs) |->
               [bytes |-> r.trail_msgs[i], from |-> r.hs_len + StartOf(r.trail_msgs, i) + 1,
                fds |-> AttIds(r.att, r.hs_len + StartOf(r.trail_msgs, i) + 1, r.hs_len + StartOf(r.trail_msgs, i) + Len(r.trail_msgs[i]))]]
        /\ ccfg = [canfd |-> r.cfg.canfd, exp |-> r.cfg.expected]
  /\ cst = "x" /\ cap = FALSE /\ chist = <<>> /\ guid = <<>>
  /\ net = <<>> /\ rbuf = <<>> /\ taken = <<>>
TNext == UNCHANGED <<l, cvars, svars, ovars>>

Report(what, detail) == PrintT(<<"MISMATCH", ToJson([line |-> l, id |-> Rec[l].id, var |-> Rec[l].var, what |-> what, detail |-> detail])>>)

Terminal(s) == s \in {"Done", "Failed", "Panic"}
\* set of [st, cap, n (lines consumed), g (guid taken)]
RECURSIVE Walk(_, _, _)
Walk(i, P, D) ==
  IF i > Len(cmds) \/ P = {} THEN P
  ELSE LET c == cmds[i].c
           step(p) == IF Terminal(p.st) THEN {p}
                      ELSE {[st |-> a.st, cap |-> a.cap, n |-> i,
                             g |-> IF p.st = "WaitOK" /\ a.st \in {"WaitFd", "Done"} THEN c.guid ELSE p.g]
                            : a \in AllowedC(ccfg, p.st, c, D)}
       IN Walk(i + 1, UNION {step(p) : p \in P}, D)

\* the read that brought the last handshake line also brought everything up to the next release point
OverEnd(n) == LET c == SumLen(cmds, n)
                  later == {i \in 1..Len(rel) : rel[i] >= c}
              IN IF later = {} THEN c ELSE rel[CHOOSE i \in later : \A j \in later : i <= j]
\* (deviation of the leftover hand-over) message m is refused: none of its own fds was read during
\* the handshake but fds of later messages were
StopsAt(m, over) ==
  /\ \A q \in 1..Len(Rec[l].att) :
        (Rec[l].att[q].pos >= expectedMsgs[m].from /\ Rec[l].att[q].pos < expectedMsgs[m].from + Len(expectedMsgs[m].bytes))
          => Rec[l].att[q].pos > over
  /\ \E q \in 1..Len(Rec[l].att) :
        Rec[l].att[q].pos >= expectedMsgs[m].from + Len(expectedMsgs[m].bytes) /\ Rec[l].att[q].pos <= over
MustDeliver(n, D) ==
  IF "leftfds_zero_pending" \in D /\ \E m \in 1..Len(expectedMsgs) : StopsAt(m, OverEnd(n))
    THEN (CHOOSE m \in 1..Len(expectedMsgs) : StopsAt(m, OverEnd(n)) /\ \A k \in 1..(m - 1) : ~StopsAt(k, OverEnd(n))) - 1
    ELSE Len(expectedMsgs)
DeliveredOkD(n, D) ==
  \* after consuming n lines: if that is exactly the intended handshake part, the messages that follow come out first
  SumLen(cmds, n) = hsLen =>
    /\ Len(delivered) >= MustDeliver(n, D)
    /\ \A i \in 1..MustDeliver(n, D) : delivered[i].bytes = expectedMsgs[i].bytes /\ delivered[i].fds = expectedMsgs[i].fds
DeliveredOk(n) == DeliveredOkD(n, {})

Explained(D) ==
  \E p \in Walk(1, {[st |-> "WaitOK", cap |-> FALSE, n |-> 0, g |-> <<>>]}, D) :
    CASE outcome = "authenticated" -> /\ p.st = "Done" /\ p.g = oguid /\ ocap = (IF p.cap THEN "yes" ELSE "no")
                                      /\ DeliveredOkD(p.n, D)
      [] outcome = "failed" -> p.st = "Failed" \/ (eofSeen /\ ~Terminal(p.st))
      [] outcome = "panic" -> p.st = "Panic"
      [] OTHER -> ~Terminal(p.st)

ExplainingDevs ==
  LET ok == {D \in SUBSET CDevs : Explained(D)} IN
  IF ok = {} THEN {} ELSE {CHOOSE D \in ok : \A E \in ok : Cardinality(D) <= Cardinality(E)}

Summary == [cfg |-> [canfd |-> ccfg.canfd, expected |-> Len(ccfg.exp)],
            cmds |-> [i \in 1..Len(cmds) |-> [k |-> cmds[i].c.k, g |-> IF cmds[i].c.k = "OK" THEN cmds[i].c.g ELSE ""]],
            outcome |-> outcome, cap |-> ocap, guid_len |-> Len(oguid), delivered |-> Len(delivered), expected_msgs |-> Len(expectedMsgs)]

(* ---- the property on the observation alone ---- *)
NLines == IF ccfg.canfd THEN 2 ELSE 1
Auth == outcome = "authenticated"
OkRequired == Auth => (Len(cmds) >= 1 /\ cmds[1].c.k = "OK" /\ cmds[1].c.g = "valid" /\ cmds[1].c.guid = oguid)
GuidExpected == (Auth /\ ccfg.exp # <<>>) => (Len(cmds) >= 1 /\ cmds[1].c.k = "OK" /\ cmds[1].c.guid = ccfg.exp)
Agreed == ccfg.canfd /\ Len(cmds) >= 2 /\ cmds[2].c.k = "AGREE_UNIX_FD"
CapOk == Auth => ((ocap = "yes") <=> Agreed)
LeftoverOk == (Auth /\ Len(cmds) >= NLines) => DeliveredOk(NLines)
PanicOk == outcome # "panic" /\ panicTxt = ""

LineOk ==
  IF Explained({}) THEN TRUE
  ELSE LET ds == ExplainingDevs IN
    IF ds # {} THEN Report("known", [devs |-> CHOOSE D \in ds : TRUE, obs |-> Summary])
    ELSE /\ (PanicOk \/ Report("no-panic", Summary))
         /\ (OkRequired \/ Report("ok-required", Summary))
         /\ (GuidExpected \/ Report("guid-expected", Summary))
         /\ (CapOk \/ Report("capfd-iff-agreed", Summary))
         /\ (LeftoverOk \/ Report("leftover-delivered", Summary))
         /\ (~(PanicOk /\ OkRequired /\ GuidExpected /\ CapOk /\ LeftoverOk) \/ Report("drift", Summary))
Inv == LineOk \/ TRUE
=============================================================================
