---- MODULE PropsTrace_TTrace_1790032965 ----
EXTENDS Sequences, TLCExt, Toolbox, Naturals, TLC, PropsTrace

_expression ==
    LET PropsTrace_TEExpression == INSTANCE PropsTrace_TEExpression
    IN PropsTrace_TEExpression!expression
----

_trace ==
    LET PropsTrace_TETrace == INSTANCE PropsTrace_TETrace
    IN PropsTrace_TETrace!trace
----

_inv ==
    ~(
        TLCGet("level") = Len(_TETrace)
        /\
        ifn = ("org.verif.I1")
        /\
        val = ([Alpha |-> [a |-> <<>>], BetaGamma |-> [b |-> <<163, 113, 69, 138>>]])
        /\
        resp = ([kind |-> "none"])
        /\
        sigs = (<<>>)
        /\
        l = (54)
        /\
        lastSet = ([Alpha |-> [a |-> <<>>], BetaGamma |-> [b |-> <<163, 113, 69, 138>>]])
        /\
        table = (<<[ty |-> [e |-> [val |-> [k |-> "v"], k |-> "e", key |-> [k |-> "s"]], k |-> "a"], access |-> "readwrite", name |-> "Alpha", emits |-> "const", rust |-> "alpha", async |-> FALSE, doc |-> <<"Plain text.">>, mutset |-> FALSE], [ty |-> [k |-> "u"], access |-> "readwrite", name |-> "BetaGamma", emits |-> "true", rust |-> "beta_gamma", async |-> TRUE, doc |-> <<"see --force">>, mutset |-> FALSE]>>)
    )
----

_init ==
    /\ ifn = _TETrace[1].ifn
    /\ sigs = _TETrace[1].sigs
    /\ val = _TETrace[1].val
    /\ l = _TETrace[1].l
    /\ resp = _TETrace[1].resp
    /\ lastSet = _TETrace[1].lastSet
    /\ table = _TETrace[1].table
----

_next ==
    /\ \E i,j \in DOMAIN _TETrace:
        /\ \/ /\ j = i + 1
              /\ i = TLCGet("level")
        /\ ifn  = _TETrace[i].ifn
        /\ ifn' = _TETrace[j].ifn
        /\ sigs  = _TETrace[i].sigs
        /\ sigs' = _TETrace[j].sigs
        /\ val  = _TETrace[i].val
        /\ val' = _TETrace[j].val
        /\ l  = _TETrace[i].l
        /\ l' = _TETrace[j].l
        /\ resp  = _TETrace[i].resp
        /\ resp' = _TETrace[j].resp
        /\ lastSet  = _TETrace[i].lastSet
        /\ lastSet' = _TETrace[j].lastSet
        /\ table  = _TETrace[i].table
        /\ table' = _TETrace[j].table

\* Uncomment the ASSUME below to write the states of the error trace
\* to the given file in Json format. Note that you can pass any tuple
\* to `JsonSerialize`. For example, a sub-sequence of _TETrace.
    \* ASSUME
    \*     LET J == INSTANCE Json
    \*         IN J!JsonSerialize("PropsTrace_TTrace_1790032965.json", _TETrace)

=============================================================================

 Note that you can extract this module `PropsTrace_TEExpression`
  to a dedicated file to reuse `expression` (the module in the 
  dedicated `PropsTrace_TEExpression.tla` file takes precedence 
  over the module `PropsTrace_TEExpression` below).

---- MODULE PropsTrace_TEExpression ----
EXTENDS Sequences, TLCExt, Toolbox, Naturals, TLC, PropsTrace

expression == 
    [
        \* To hide variables of the `PropsTrace` spec from the error trace,
        \* remove the variables below.  The trace will be written in the order
        \* of the fields of this record.
        ifn |-> ifn
        ,sigs |-> sigs
        ,val |-> val
        ,l |-> l
        ,resp |-> resp
        ,lastSet |-> lastSet
        ,table |-> table
        
        \* Put additional constant-, state-, and action-level expressions here:
        \* ,_stateNumber |-> _TEPosition
        \* ,_ifnUnchanged |-> ifn = ifn'
        
        \* Format the `ifn` variable as Json value.
        \* ,_ifnJson |->
        \*     LET J == INSTANCE Json
        \*     IN J!ToJson(ifn)
        
        \* Lastly, you may build expressions over arbitrary sets of states by
        \* leveraging the _TETrace operator.  For example, this is how to
        \* count the number of times a spec variable changed up to the current
        \* state in the trace.
        \* ,_ifnModCount |->
        \*     LET F[s \in DOMAIN _TETrace] ==
        \*         IF s = 1 THEN 0
        \*         ELSE IF _TETrace[s].ifn # _TETrace[s-1].ifn
        \*             THEN 1 + F[s-1] ELSE F[s-1]
        \*     IN F[_TEPosition - 1]
    ]

=============================================================================



Parsing and semantic processing can take forever if the trace below is long.
 In this case, it is advised to uncomment the module below to deserialize the
 trace from a generated binary file.

\*
\*---- MODULE PropsTrace_TETrace ----
\*EXTENDS IOUtils, TLC, PropsTrace
\*
\*trace == IODeserialize("PropsTrace_TTrace_1790032965.bin", TRUE)
\*
\*=============================================================================
\*

---- MODULE PropsTrace_TETrace ----
EXTENDS TLC, PropsTrace

trace == 
    <<
    ([ifn |-> "",val |-> <<>>,resp |-> [kind |-> "none"],sigs |-> <<>>,l |-> 1,lastSet |-> <<>>,table |-> <<>>]),
    ([ifn |-> "org.verif.I0",val |-> [Alpha |-> [b |-> <<237, 84, 176, 138>>]],resp |-> [kind |-> "none"],sigs |-> <<>>,l |-> 2,lastSet |-> [Alpha |-> [b |-> <<237, 84, 176, 138>>]],table |-> <<[ty |-> [k |-> "u"], access |-> "read", name |-> "Alpha", emits |-> "true", rust |-> "alpha", async |-> FALSE, doc |-> <<"Plain text.">>, mutset |-> FALSE]>>]),
    ([ifn |-> "org.verif.I0",val |-> [Alpha |-> [b |-> <<237, 84, 176, 138>>]],resp |-> [kind |-> "error"],sigs |-> <<>>,l |-> 3,lastSet |-> [Alpha |-> [b |-> <<237, 84, 176, 138>>]],table |-> <<[ty |-> [k |-> "u"], access |-> "read", name |-> "Alpha", emits |-> "true", rust |-> "alpha", async |-> FALSE, doc |-> <<"Plain text.">>, mutset |-> FALSE]>>]),
    ([ifn |-> "org.verif.I0",val |-> [Alpha |-> [b |-> <<237, 84, 176, 138>>]],resp |-> [kind |-> "error"],sigs |-> <<>>,l |-> 4,lastSet |-> [Alpha |-> [b |-> <<237, 84, 176, 138>>]],table |-> <<[ty |-> [k |-> "u"], access |-> "read", name |-> "Alpha", emits |-> "true", rust |-> "alpha", async |-> FALSE, doc |-> <<"Plain text.">>, mutset |-> FALSE]>>]),
    ([ifn |-> "org.verif.I0",val |-> [Alpha |-> [b |-> <<237, 84, 176, 138>>]],resp |-> [kind |-> "error"],sigs |-> <<>>,l |-> 5,lastSet |-> [Alpha |-> [b |-> <<237, 84, 176, 138>>]],table |-> <<[ty |-> [k |-> "u"], access |-> "read", name |-> "Alpha", emits |-> "true", rust |-> "alpha", async |-> FALSE, doc |-> <<"Plain text.">>, mutset |-> FALSE]>>]),
    ([ifn |-> "org.verif.I0",val |-> [Alpha |-> [b |-> <<237, 84, 176, 138>>]],resp |-> [kind |-> "error"],sigs |-> <<>>,l |-> 6,lastSet |-> [Alpha |-> [b |-> <<237, 84, 176, 138>>]],table |-> <<[ty |-> [k |-> "u"], access |-> "read", name |-> "Alpha", emits |-> "true", rust |-> "alpha", async |-> FALSE, doc |-> <<"Plain text.">>, mutset |-> FALSE]>>]),
    ([ifn |-> "org.verif.I0",val |-> [Alpha |-> [b |-> <<237, 84, 176, 138>>]],resp |-> [kind |-> "error"],sigs |-> <<>>,l |-> 7,lastSet |-> [Alpha |-> [b |-> <<237, 84, 176, 138>>]],table |-> <<[ty |-> [k |-> "u"], access |-> "read", name |-> "Alpha", emits |-> "true", rust |-> "alpha", async |-> FALSE, doc |-> <<"Plain text.">>, mutset |-> FALSE]>>]),
    ([ifn |-> "org.verif.I0",val |-> [Alpha |-> [b |-> <<237, 84, 176, 138>>]],resp |-> [kind |-> "all", props |-> [Alpha |-> [v |-> [b |-> <<237, 84, 176, 138>>], T |-> [k |-> "u"]]]],sigs |-> <<>>,l |-> 8,lastSet |-> [Alpha |-> [b |-> <<237, 84, 176, 138>>]],table |-> <<[ty |-> [k |-> "u"], access |-> "read", name |-> "Alpha", emits |-> "true", rust |-> "alpha", async |-> FALSE, doc |-> <<"Plain text.">>, mutset |-> FALSE]>>]),
    ([ifn |-> "org.verif.I0",val |-> [Alpha |-> [b |-> <<237, 84, 176, 138>>]],resp |-> [kind |-> "error"],sigs |-> <<>>,l |-> 9,lastSet |-> [Alpha |-> [b |-> <<237, 84, 176, 138>>]],table |-> <<[ty |-> [k |-> "u"], access |-> "read", name |-> "Alpha", emits |-> "true", rust |-> "alpha", async |-> FALSE, doc |-> <<"Plain text.">>, mutset |-> FALSE]>>]),
    ([ifn |-> "org.verif.I0",val |-> [Alpha |-> [b |-> <<237, 84, 176, 138>>]],resp |-> [kind |-> "error"],sigs |-> <<>>,l |-> 10,lastSet |-> [Alpha |-> [b |-> <<237, 84, 176, 138>>]],table |-> <<[ty |-> [k |-> "u"], access |-> "read", name |-> "Alpha", emits |-> "true", rust |-> "alpha", async |-> FALSE, doc |-> <<"Plain text.">>, mutset |-> FALSE]>>]),
    ([ifn |-> "org.verif.I0",val |-> [Alpha |-> [b |-> <<237, 84, 176, 138>>]],resp |-> [kind |-> "error"],sigs |-> <<>>,l |-> 11,lastSet |-> [Alpha |-> [b |-> <<237, 84, 176, 138>>]],table |-> <<[ty |-> [k |-> "u"], access |-> "read", name |-> "Alpha", emits |-> "true", rust |-> "alpha", async |-> FALSE, doc |-> <<"Plain text.">>, mutset |-> FALSE]>>]),
    ([ifn |-> "org.verif.I0",val |-> [Alpha |-> [b |-> <<237, 84, 176, 138>>]],resp |-> [kind |-> "error"],sigs |-> <<>>,l |-> 12,lastSet |-> [Alpha |-> [b |-> <<237, 84, 176, 138>>]],table |-> <<[ty |-> [k |-> "u"], access |-> "read", name |-> "Alpha", emits |-> "true", rust |-> "alpha", async |-> FALSE, doc |-> <<"Plain text.">>, mutset |-> FALSE]>>]),
    ([ifn |-> "org.verif.I0",val |-> [Alpha |-> [b |-> <<237, 84, 176, 138>>]],resp |-> [kind |-> "error"],sigs |-> <<>>,l |-> 13,lastSet |-> [Alpha |-> [b |-> <<237, 84, 176, 138>>]],table |-> <<[ty |-> [k |-> "u"], access |-> "read", name |-> "Alpha", emits |-> "true", rust |-> "alpha", async |-> FALSE, doc |-> <<"Plain text.">>, mutset |-> FALSE]>>]),
    ([ifn |-> "org.verif.I0",val |-> [Alpha |-> [b |-> <<237, 84, 176, 138>>]],resp |-> [kind |-> "error"],sigs |-> <<>>,l |-> 14,lastSet |-> [Alpha |-> [b |-> <<237, 84, 176, 138>>]],table |-> <<[ty |-> [k |-> "u"], access |-> "read", name |-> "Alpha", emits |-> "true", rust |-> "alpha", async |-> FALSE, doc |-> <<"Plain text.">>, mutset |-> FALSE]>>]),
    ([ifn |-> "org.verif.I0",val |-> [Alpha |-> [b |-> <<237, 84, 176, 138>>]],resp |-> [kind |-> "value", tv |-> [v |-> [b |-> <<237, 84, 176, 138>>], T |-> [k |-> "u"]]],sigs |-> <<>>,l |-> 15,lastSet |-> [Alpha |-> [b |-> <<237, 84, 176, 138>>]],table |-> <<[ty |-> [k |-> "u"], access |-> "read", name |-> "Alpha", emits |-> "true", rust |-> "alpha", async |-> FALSE, doc |-> <<"Plain text.">>, mutset |-> FALSE]>>]),
    ([ifn |-> "org.verif.I0",val |-> [Alpha |-> [b |-> <<237, 84, 176, 138>>]],resp |-> [kind |-> "error"],sigs |-> <<>>,l |-> 16,lastSet |-> [Alpha |-> [b |-> <<237, 84, 176, 138>>]],table |-> <<[ty |-> [k |-> "u"], access |-> "read", name |-> "Alpha", emits |-> "true", rust |-> "alpha", async |-> FALSE, doc |-> <<"Plain text.">>, mutset |-> FALSE]>>]),
    ([ifn |-> "org.verif.I0",val |-> [Alpha |-> [b |-> <<237, 84, 176, 138>>]],resp |-> [kind |-> "all", props |-> [Alpha |-> [v |-> [b |-> <<237, 84, 176, 138>>], T |-> [k |-> "u"]]]],sigs |-> <<>>,l |-> 17,lastSet |-> [Alpha |-> [b |-> <<237, 84, 176, 138>>]],table |-> <<[ty |-> [k |-> "u"], access |-> "read", name |-> "Alpha", emits |-> "true", rust |-> "alpha", async |-> FALSE, doc |-> <<"Plain text.">>, mutset |-> FALSE]>>]),
    ([ifn |-> "org.verif.I0",val |-> [Alpha |-> [b |-> <<237, 84, 176, 138>>]],resp |-> [kind |-> "error"],sigs |-> <<>>,l |-> 18,lastSet |-> [Alpha |-> [b |-> <<237, 84, 176, 138>>]],table |-> <<[ty |-> [k |-> "u"], access |-> "read", name |-> "Alpha", emits |-> "true", rust |-> "alpha", async |-> FALSE, doc |-> <<"Plain text.">>, mutset |-> FALSE]>>]),
    ([ifn |-> "org.verif.I0",val |-> [Alpha |-> [b |-> <<237, 84, 176, 138>>]],resp |-> [kind |-> "error"],sigs |-> <<>>,l |-> 19,lastSet |-> [Alpha |-> [b |-> <<237, 84, 176, 138>>]],table |-> <<[ty |-> [k |-> "u"], access |-> "read", name |-> "Alpha", emits |-> "true", rust |-> "alpha", async |-> FALSE, doc |-> <<"Plain text.">>, mutset |-> FALSE]>>]),
    ([ifn |-> "org.verif.I0",val |-> [Alpha |-> [b |-> <<237, 84, 176, 138>>]],resp |-> [kind |-> "error"],sigs |-> <<>>,l |-> 20,lastSet |-> [Alpha |-> [b |-> <<237, 84, 176, 138>>]],table |-> <<[ty |-> [k |-> "u"], access |-> "read", name |-> "Alpha", emits |-> "true", rust |-> "alpha", async |-> FALSE, doc |-> <<"Plain text.">>, mutset |-> FALSE]>>]),
    ([ifn |-> "org.verif.I0",val |-> [Alpha |-> [b |-> <<237, 84, 176, 138>>]],resp |-> [kind |-> "error"],sigs |-> <<>>,l |-> 21,lastSet |-> [Alpha |-> [b |-> <<237, 84, 176, 138>>]],table |-> <<[ty |-> [k |-> "u"], access |-> "read", name |-> "Alpha", emits |-> "true", rust |-> "alpha", async |-> FALSE, doc |-> <<"Plain text.">>, mutset |-> FALSE]>>]),
    ([ifn |-> "org.verif.I0",val |-> [Alpha |-> [b |-> <<237, 84, 176, 138>>]],resp |-> [kind |-> "error"],sigs |-> <<>>,l |-> 22,lastSet |-> [Alpha |-> [b |-> <<237, 84, 176, 138>>]],table |-> <<[ty |-> [k |-> "u"], access |-> "read", name |-> "Alpha", emits |-> "true", rust |-> "alpha", async |-> FALSE, doc |-> <<"Plain text.">>, mutset |-> FALSE]>>]),
    ([ifn |-> "org.verif.I0",val |-> [Alpha |-> [b |-> <<237, 84, 176, 138>>]],resp |-> [kind |-> "error"],sigs |-> <<>>,l |-> 23,lastSet |-> [Alpha |-> [b |-> <<237, 84, 176, 138>>]],table |-> <<[ty |-> [k |-> "u"], access |-> "read", name |-> "Alpha", emits |-> "true", rust |-> "alpha", async |-> FALSE, doc |-> <<"Plain text.">>, mutset |-> FALSE]>>]),
    ([ifn |-> "org.verif.I0",val |-> [Alpha |-> [b |-> <<237, 84, 176, 138>>]],resp |-> [kind |-> "error"],sigs |-> <<>>,l |-> 24,lastSet |-> [Alpha |-> [b |-> <<237, 84, 176, 138>>]],table |-> <<[ty |-> [k |-> "u"], access |-> "read", name |-> "Alpha", emits |-> "true", rust |-> "alpha", async |-> FALSE, doc |-> <<"Plain text.">>, mutset |-> FALSE]>>]),
    ([ifn |-> "org.verif.I0",val |-> [Alpha |-> [b |-> <<237, 84, 176, 138>>]],resp |-> [kind |-> "error"],sigs |-> <<>>,l |-> 25,lastSet |-> [Alpha |-> [b |-> <<237, 84, 176, 138>>]],table |-> <<[ty |-> [k |-> "u"], access |-> "read", name |-> "Alpha", emits |-> "true", rust |-> "alpha", async |-> FALSE, doc |-> <<"Plain text.">>, mutset |-> FALSE]>>]),
    ([ifn |-> "org.verif.I0",val |-> [Alpha |-> [b |-> <<237, 84, 176, 138>>]],resp |-> [kind |-> "error"],sigs |-> <<>>,l |-> 26,lastSet |-> [Alpha |-> [b |-> <<237, 84, 176, 138>>]],table |-> <<[ty |-> [k |-> "u"], access |-> "read", name |-> "Alpha", emits |-> "true", rust |-> "alpha", async |-> FALSE, doc |-> <<"Plain text.">>, mutset |-> FALSE]>>]),
    ([ifn |-> "org.verif.I0",val |-> [Alpha |-> [b |-> <<237, 84, 176, 138>>]],resp |-> [kind |-> "error"],sigs |-> <<>>,l |-> 27,lastSet |-> [Alpha |-> [b |-> <<237, 84, 176, 138>>]],table |-> <<[ty |-> [k |-> "u"], access |-> "read", name |-> "Alpha", emits |-> "true", rust |-> "alpha", async |-> FALSE, doc |-> <<"Plain text.">>, mutset |-> FALSE]>>]),
    ([ifn |-> "org.verif.I0",val |-> [Alpha |-> [b |-> <<237, 84, 176, 138>>]],resp |-> [kind |-> "none"],sigs |-> <<>>,l |-> 28,lastSet |-> [Alpha |-> [b |-> <<237, 84, 176, 138>>]],table |-> <<[ty |-> [k |-> "u"], access |-> "read", name |-> "Alpha", emits |-> "true", rust |-> "alpha", async |-> FALSE, doc |-> <<"Plain text.">>, mutset |-> FALSE]>>]),
    ([ifn |-> "org.verif.I0",val |-> [Alpha |-> [b |-> <<237, 84, 176, 138>>]],resp |-> [kind |-> "all", props |-> [Alpha |-> [v |-> [b |-> <<237, 84, 176, 138>>], T |-> [k |-> "u"]]]],sigs |-> <<>>,l |-> 29,lastSet |-> [Alpha |-> [b |-> <<237, 84, 176, 138>>]],table |-> <<[ty |-> [k |-> "u"], access |-> "read", name |-> "Alpha", emits |-> "true", rust |-> "alpha", async |-> FALSE, doc |-> <<"Plain text.">>, mutset |-> FALSE]>>]),
    ([ifn |-> "org.verif.I0",val |-> [Alpha |-> [b |-> <<237, 84, 176, 138>>]],resp |-> [kind |-> "error"],sigs |-> <<>>,l |-> 30,lastSet |-> [Alpha |-> [b |-> <<237, 84, 176, 138>>]],table |-> <<[ty |-> [k |-> "u"], access |-> "read", name |-> "Alpha", emits |-> "true", rust |-> "alpha", async |-> FALSE, doc |-> <<"Plain text.">>, mutset |-> FALSE]>>]),
    ([ifn |-> "org.verif.I0",val |-> [Alpha |-> [b |-> <<237, 84, 176, 138>>]],resp |-> [kind |-> "error"],sigs |-> <<>>,l |-> 31,lastSet |-> [Alpha |-> [b |-> <<237, 84, 176, 138>>]],table |-> <<[ty |-> [k |-> "u"], access |-> "read", name |-> "Alpha", emits |-> "true", rust |-> "alpha", async |-> FALSE, doc |-> <<"Plain text.">>, mutset |-> FALSE]>>]),
    ([ifn |-> "org.verif.I0",val |-> [Alpha |-> [b |-> <<237, 84, 176, 138>>]],resp |-> [kind |-> "all", props |-> [Alpha |-> [v |-> [b |-> <<237, 84, 176, 138>>], T |-> [k |-> "u"]]]],sigs |-> <<>>,l |-> 32,lastSet |-> [Alpha |-> [b |-> <<237, 84, 176, 138>>]],table |-> <<[ty |-> [k |-> "u"], access |-> "read", name |-> "Alpha", emits |-> "true", rust |-> "alpha", async |-> FALSE, doc |-> <<"Plain text.">>, mutset |-> FALSE]>>]),
    ([ifn |-> "org.verif.I0",val |-> [Alpha |-> [b |-> <<237, 84, 176, 138>>]],resp |-> [kind |-> "error"],sigs |-> <<>>,l |-> 33,lastSet |-> [Alpha |-> [b |-> <<237, 84, 176, 138>>]],table |-> <<[ty |-> [k |-> "u"], access |-> "read", name |-> "Alpha", emits |-> "true", rust |-> "alpha", async |-> FALSE, doc |-> <<"Plain text.">>, mutset |-> FALSE]>>]),
    ([ifn |-> "org.verif.I0",val |-> [Alpha |-> [b |-> <<237, 84, 176, 138>>]],resp |-> [kind |-> "error"],sigs |-> <<>>,l |-> 34,lastSet |-> [Alpha |-> [b |-> <<237, 84, 176, 138>>]],table |-> <<[ty |-> [k |-> "u"], access |-> "read", name |-> "Alpha", emits |-> "true", rust |-> "alpha", async |-> FALSE, doc |-> <<"Plain text.">>, mutset |-> FALSE]>>]),
    ([ifn |-> "org.verif.I0",val |-> [Alpha |-> [b |-> <<237, 84, 176, 138>>]],resp |-> [kind |-> "error"],sigs |-> <<>>,l |-> 35,lastSet |-> [Alpha |-> [b |-> <<237, 84, 176, 138>>]],table |-> <<[ty |-> [k |-> "u"], access |-> "read", name |-> "Alpha", emits |-> "true", rust |-> "alpha", async |-> FALSE, doc |-> <<"Plain text.">>, mutset |-> FALSE]>>]),
    ([ifn |-> "org.verif.I0",val |-> [Alpha |-> [b |-> <<237, 84, 176, 138>>]],resp |-> [kind |-> "error"],sigs |-> <<>>,l |-> 36,lastSet |-> [Alpha |-> [b |-> <<237, 84, 176, 138>>]],table |-> <<[ty |-> [k |-> "u"], access |-> "read", name |-> "Alpha", emits |-> "true", rust |-> "alpha", async |-> FALSE, doc |-> <<"Plain text.">>, mutset |-> FALSE]>>]),
    ([ifn |-> "org.verif.I0",val |-> [Alpha |-> [b |-> <<237, 84, 176, 138>>]],resp |-> [kind |-> "error"],sigs |-> <<>>,l |-> 37,lastSet |-> [Alpha |-> [b |-> <<237, 84, 176, 138>>]],table |-> <<[ty |-> [k |-> "u"], access |-> "read", name |-> "Alpha", emits |-> "true", rust |-> "alpha", async |-> FALSE, doc |-> <<"Plain text.">>, mutset |-> FALSE]>>]),
    ([ifn |-> "org.verif.I0",val |-> [Alpha |-> [b |-> <<237, 84, 176, 138>>]],resp |-> [kind |-> "error"],sigs |-> <<>>,l |-> 38,lastSet |-> [Alpha |-> [b |-> <<237, 84, 176, 138>>]],table |-> <<[ty |-> [k |-> "u"], access |-> "read", name |-> "Alpha", emits |-> "true", rust |-> "alpha", async |-> FALSE, doc |-> <<"Plain text.">>, mutset |-> FALSE]>>]),
    ([ifn |-> "org.verif.I0",val |-> [Alpha |-> [b |-> <<237, 84, 176, 138>>]],resp |-> [kind |-> "error"],sigs |-> <<>>,l |-> 39,lastSet |-> [Alpha |-> [b |-> <<237, 84, 176, 138>>]],table |-> <<[ty |-> [k |-> "u"], access |-> "read", name |-> "Alpha", emits |-> "true", rust |-> "alpha", async |-> FALSE, doc |-> <<"Plain text.">>, mutset |-> FALSE]>>]),
    ([ifn |-> "org.verif.I0",val |-> [Alpha |-> [b |-> <<237, 84, 176, 138>>]],resp |-> [kind |-> "error"],sigs |-> <<>>,l |-> 40,lastSet |-> [Alpha |-> [b |-> <<237, 84, 176, 138>>]],table |-> <<[ty |-> [k |-> "u"], access |-> "read", name |-> "Alpha", emits |-> "true", rust |-> "alpha", async |-> FALSE, doc |-> <<"Plain text.">>, mutset |-> FALSE]>>]),
    ([ifn |-> "org.verif.I0",val |-> [Alpha |-> [b |-> <<237, 84, 176, 138>>]],resp |-> [kind |-> "error"],sigs |-> <<>>,l |-> 41,lastSet |-> [Alpha |-> [b |-> <<237, 84, 176, 138>>]],table |-> <<[ty |-> [k |-> "u"], access |-> "read", name |-> "Alpha", emits |-> "true", rust |-> "alpha", async |-> FALSE, doc |-> <<"Plain text.">>, mutset |-> FALSE]>>]),
    ([ifn |-> "org.verif.I0",val |-> [Alpha |-> [b |-> <<237, 84, 176, 138>>]],resp |-> [kind |-> "error"],sigs |-> <<>>,l |-> 42,lastSet |-> [Alpha |-> [b |-> <<237, 84, 176, 138>>]],table |-> <<[ty |-> [k |-> "u"], access |-> "read", name |-> "Alpha", emits |-> "true", rust |-> "alpha", async |-> FALSE, doc |-> <<"Plain text.">>, mutset |-> FALSE]>>]),
    ([ifn |-> "org.verif.I0",val |-> [Alpha |-> [b |-> <<237, 84, 176, 138>>]],resp |-> [kind |-> "error"],sigs |-> <<>>,l |-> 43,lastSet |-> [Alpha |-> [b |-> <<237, 84, 176, 138>>]],table |-> <<[ty |-> [k |-> "u"], access |-> "read", name |-> "Alpha", emits |-> "true", rust |-> "alpha", async |-> FALSE, doc |-> <<"Plain text.">>, mutset |-> FALSE]>>]),
    ([ifn |-> "org.verif.I0",val |-> [Alpha |-> [b |-> <<237, 84, 176, 138>>]],resp |-> [kind |-> "error"],sigs |-> <<>>,l |-> 44,lastSet |-> [Alpha |-> [b |-> <<237, 84, 176, 138>>]],table |-> <<[ty |-> [k |-> "u"], access |-> "read", name |-> "Alpha", emits |-> "true", rust |-> "alpha", async |-> FALSE, doc |-> <<"Plain text.">>, mutset |-> FALSE]>>]),
    ([ifn |-> "org.verif.I0",val |-> [Alpha |-> [b |-> <<237, 84, 176, 138>>]],resp |-> [kind |-> "error"],sigs |-> <<>>,l |-> 45,lastSet |-> [Alpha |-> [b |-> <<237, 84, 176, 138>>]],table |-> <<[ty |-> [k |-> "u"], access |-> "read", name |-> "Alpha", emits |-> "true", rust |-> "alpha", async |-> FALSE, doc |-> <<"Plain text.">>, mutset |-> FALSE]>>]),
    ([ifn |-> "org.verif.I0",val |-> [Alpha |-> [b |-> <<237, 84, 176, 138>>]],resp |-> [kind |-> "error"],sigs |-> <<>>,l |-> 46,lastSet |-> [Alpha |-> [b |-> <<237, 84, 176, 138>>]],table |-> <<[ty |-> [k |-> "u"], access |-> "read", name |-> "Alpha", emits |-> "true", rust |-> "alpha", async |-> FALSE, doc |-> <<"Plain text.">>, mutset |-> FALSE]>>]),
    ([ifn |-> "org.verif.I0",val |-> [Alpha |-> [b |-> <<237, 84, 176, 138>>]],resp |-> [kind |-> "value", tv |-> [v |-> [b |-> <<237, 84, 176, 138>>], T |-> [k |-> "u"]]],sigs |-> <<>>,l |-> 47,lastSet |-> [Alpha |-> [b |-> <<237, 84, 176, 138>>]],table |-> <<[ty |-> [k |-> "u"], access |-> "read", name |-> "Alpha", emits |-> "true", rust |-> "alpha", async |-> FALSE, doc |-> <<"Plain text.">>, mutset |-> FALSE]>>]),
    ([ifn |-> "org.verif.I0",val |-> [Alpha |-> [b |-> <<237, 84, 176, 138>>]],resp |-> [kind |-> "error"],sigs |-> <<>>,l |-> 48,lastSet |-> [Alpha |-> [b |-> <<237, 84, 176, 138>>]],table |-> <<[ty |-> [k |-> "u"], access |-> "read", name |-> "Alpha", emits |-> "true", rust |-> "alpha", async |-> FALSE, doc |-> <<"Plain text.">>, mutset |-> FALSE]>>]),
    ([ifn |-> "org.verif.I0",val |-> [Alpha |-> [b |-> <<237, 84, 176, 138>>]],resp |-> [kind |-> "error"],sigs |-> <<>>,l |-> 49,lastSet |-> [Alpha |-> [b |-> <<237, 84, 176, 138>>]],table |-> <<[ty |-> [k |-> "u"], access |-> "read", name |-> "Alpha", emits |-> "true", rust |-> "alpha", async |-> FALSE, doc |-> <<"Plain text.">>, mutset |-> FALSE]>>]),
    ([ifn |-> "org.verif.I0",val |-> [Alpha |-> [b |-> <<237, 84, 176, 138>>]],resp |-> [kind |-> "error"],sigs |-> <<>>,l |-> 50,lastSet |-> [Alpha |-> [b |-> <<237, 84, 176, 138>>]],table |-> <<[ty |-> [k |-> "u"], access |-> "read", name |-> "Alpha", emits |-> "true", rust |-> "alpha", async |-> FALSE, doc |-> <<"Plain text.">>, mutset |-> FALSE]>>]),
    ([ifn |-> "org.verif.I0",val |-> [Alpha |-> [b |-> <<237, 84, 176, 138>>]],resp |-> [kind |-> "all", props |-> [Alpha |-> [v |-> [b |-> <<237, 84, 176, 138>>], T |-> [k |-> "u"]]]],sigs |-> <<>>,l |-> 51,lastSet |-> [Alpha |-> [b |-> <<237, 84, 176, 138>>]],table |-> <<[ty |-> [k |-> "u"], access |-> "read", name |-> "Alpha", emits |-> "true", rust |-> "alpha", async |-> FALSE, doc |-> <<"Plain text.">>, mutset |-> FALSE]>>]),
    ([ifn |-> "org.verif.I0",val |-> [Alpha |-> [b |-> <<237, 84, 176, 138>>]],resp |-> [kind |-> "error"],sigs |-> <<>>,l |-> 52,lastSet |-> [Alpha |-> [b |-> <<237, 84, 176, 138>>]],table |-> <<[ty |-> [k |-> "u"], access |-> "read", name |-> "Alpha", emits |-> "true", rust |-> "alpha", async |-> FALSE, doc |-> <<"Plain text.">>, mutset |-> FALSE]>>]),
    ([ifn |-> "org.verif.I0",val |-> [Alpha |-> [b |-> <<237, 84, 176, 138>>]],resp |-> [kind |-> "value", tv |-> [v |-> [b |-> <<237, 84, 176, 138>>], T |-> [k |-> "u"]]],sigs |-> <<>>,l |-> 53,lastSet |-> [Alpha |-> [b |-> <<237, 84, 176, 138>>]],table |-> <<[ty |-> [k |-> "u"], access |-> "read", name |-> "Alpha", emits |-> "true", rust |-> "alpha", async |-> FALSE, doc |-> <<"Plain text.">>, mutset |-> FALSE]>>]),
    ([ifn |-> "org.verif.I1",val |-> [Alpha |-> [a |-> <<>>], BetaGamma |-> [b |-> <<163, 113, 69, 138>>]],resp |-> [kind |-> "none"],sigs |-> <<>>,l |-> 54,lastSet |-> [Alpha |-> [a |-> <<>>], BetaGamma |-> [b |-> <<163, 113, 69, 138>>]],table |-> <<[ty |-> [e |-> [val |-> [k |-> "v"], k |-> "e", key |-> [k |-> "s"]], k |-> "a"], access |-> "readwrite", name |-> "Alpha", emits |-> "const", rust |-> "alpha", async |-> FALSE, doc |-> <<"Plain text.">>, mutset |-> FALSE], [ty |-> [k |-> "u"], access |-> "readwrite", name |-> "BetaGamma", emits |-> "true", rust |-> "beta_gamma", async |-> TRUE, doc |-> <<"see --force">>, mutset |-> FALSE]>>])
    >>
----


=============================================================================

---- CONFIG PropsTrace_TTrace_1790032965 ----
CONSTANTS
    Table <- NoTable
    InitVal <- NoInit
    SetValues <- NoValues

INVARIANT
    _inv

CHECK_DEADLOCK
    \* CHECK_DEADLOCK off because of PROPERTY or INVARIANT above.
    FALSE

INIT
    _init

NEXT
    _next

CONSTANT
    _TETrace <- _trace

ALIAS
    _expression
=============================================================================
\* Generated on Mon Sep 21 23:23:01 UTC 2026