-------------------------- MODULE SaslServerTrace --------------------------
(***************************************************************************)
(* Validation of server-handshake observations against SaslServer (C16).   *)
(* One ndjson line = one run of the real server handshake over a scripted  *)
(* socket: cfg, the chunks the client sent, every byte the server wrote,   *)
(* the outcome (authenticated | failed | waiting | panic).  Each line is an *)
(* initial state (independent observations).  Everything is read from the   *)
(* *bytes*: the stream is split into lines and commands by Sasl, the server's*)
(* output into reply kinds.                                                 *)
(*  1. Explained(D): the replies and the outcome are one of the behaviours  *)
(*     allowed by SaslServer!Allowed with deviations D.  D = {} passes; a   *)
(*     minimal non-empty D prints what = "known" (the check matches it      *)
(*     against the listed findings).                                        *)
(*  2. Otherwise the property itself is evaluated on the observed history   *)
(*     (the model-checked invariants of SaslServer, with the server's state *)
(*     inferred from its own replies); each violated clause prints a        *)
(*     MISMATCH; if none is violated the line is "drift".                   *)
(***************************************************************************)
EXTENDS SaslServer, Json, IOUtils

Rec == ndJsonDeserialize(IOEnv.TRACE)
VARIABLE l

RECURSIVE FlatB(_)
FlatB(ss) == IF ss = <<>> THEN <<>> ELSE Head(ss) \o FlatB(Tail(ss))

Stream(r) == FlatB(r.chunks)
HasNul(r) == Stream(r) # <<>> /\ Stream(r)[1] = NUL
Lines(r) == TakeLines(IF HasNul(r) THEN Tail(Stream(r)) ELSE Stream(r), 100000).lines
Cmd(r, i) ==
  LET ln == Lines(r)[i] IN
  IF i = 1 /\ ~HasNul(r) THEN (IF ln.end = "lfstart" THEN [k |-> "LFSTART"] ELSE [k |-> "NONUL"])
  ELSE ClientCmd(ln, r.cfg.uid)
Replies(r) == LET t == TakeLines(r.written, 100000) IN
              [i \in 1..Len(t.lines) |-> ReplyKind(t.lines[i])] \o (IF t.rest = <<>> THEN <<>> ELSE <<"MALFORMED">>)

Terminal(s) == s \in {"Done", "Failed", "Panic"}
OutcomeOf(s) == CASE s = "Done" -> "authenticated" [] s = "Failed" -> "failed" [] s = "Panic" -> "panic" [] OTHER -> "waiting"

(* --- 1. explanation by the reference relation: set of [st, j] = possible state, next reply index --- *)
RECURSIVE Walk(_, _, _, _)
Walk(r, i, P, D) ==
  IF i > Len(Lines(r)) \/ P = {} THEN P
  ELSE LET c == Cmd(r, i)
           rs == Replies(r)
           step(p) ==
             IF Terminal(p.st) THEN {p}
             ELSE LET al == Allowed(r.cfg, p.st, c, D) IN
                  {[st |-> a.st, j |-> p.j + 1] : a \in {x \in al : x.reply # "none" /\ p.j <= Len(rs) /\ rs[p.j] = x.reply}}
                  \cup {[st |-> a.st, j |-> p.j] : a \in {x \in al : x.reply = "none"}}
       IN Walk(r, i + 1, UNION {step(p) : p \in P}, D)
Explained(r, D) ==
  \E p \in Walk(r, 1, {[st |-> "WaitAuth", j |-> 1]}, D) :
     p.j = Len(Replies(r)) + 1 /\ OutcomeOf(p.st) = r.outcome

(* --- 2. the observed history: reply i answers line i; the line after the last reply is where the
   server finished, gave up or panicked; the server's state is inferred from its own replies --- *)
AfterReply(from, reply) ==
  CASE reply = "OK" -> "WaitBegin" [] reply = "REJECTED" -> "WaitAuth" [] reply = "DATA" -> "WaitData" [] OTHER -> from
RECURSIVE FromAt(_, _)
FromAt(r, i) == IF i = 1 THEN "WaitAuth" ELSE AfterReply(FromAt(r, i - 1), Replies(r)[i - 1])
ObsHist(r) ==
  LET n == Len(Replies(r))
      nl == Len(Lines(r))
      k == IF n < nl THEN n ELSE nl
      answered == [i \in 1..k |-> [cmd |-> Cmd(r, i), from |-> FromAt(r, i), reply |-> Replies(r)[i]]]
      last == IF r.outcome # "waiting" /\ nl > n /\ n = k
                THEN <<[cmd |-> Cmd(r, n + 1), from |-> FromAt(r, n + 1), reply |-> "none"]>> ELSE <<>>
  IN answered \o last
ObsSt(r) == CASE r.outcome = "authenticated" -> "Done" [] r.outcome = "failed" -> "Failed" [] r.outcome = "panic" -> "Panic"
              [] OTHER -> FromAt(r, Len(Replies(r)) + 1)

TInit == /\ l \in 1..Len(Rec)
        /\ cfg = [mech |-> Rec[l].cfg.mech, creds |-> Rec[l].cfg.creds, canfd |-> Rec[l].cfg.canfd]
        /\ hist = ObsHist(Rec[l]) /\ st = ObsSt(Rec[l])
        /\ net = <<>> /\ rbuf = <<>> /\ taken = <<>>
TNext == UNCHANGED <<l, vars, svars>>

Report(what, detail) == PrintT(<<"MISMATCH", ToJson([line |-> l, id |-> Rec[l].id, var |-> Rec[l].var, what |-> what, detail |-> detail])>>)

\* a smallest set of listed deviations that explains the observation (if any)
ExplainingDevs(r) ==
  LET ok == {D \in SUBSET Devs : Explained(r, D)} IN
  IF ok = {} THEN {} ELSE {CHOOSE D \in ok : \A E \in ok : Cardinality(D) <= Cardinality(E)}

Summary(r) == [cfg |-> cfg, cmds |-> [i \in 1..Len(hist) |-> hist[i].cmd], replies |-> Replies(r), outcome |-> r.outcome,
               nlines |-> Len(Lines(r))]
\* the server answered a line it should not have seen, or wrote something that is not a reply line
WellFormedObs(r) == Len(Replies(r)) <= Len(Lines(r)) /\ \A i \in 1..Len(Replies(r)) : Replies(r)[i] # "MALFORMED"

LineOk ==
  LET r == Rec[l] IN
  IF Explained(r, {}) THEN TRUE
  ELSE LET ds == ExplainingDevs(r) IN
    IF ds # {} THEN Report("known", [devs |-> CHOOSE D \in ds : TRUE, obs |-> Summary(r)])
    ELSE
      LET panicOk == NeverPanic
          sound == OkSound /\ AuthSound
          rej == RejectedForUnsupported
          err == ErrorForUnknownOrMisplaced
          compl == RightPeerAccepted /\
                   (\A i \in 1..Len(hist) : (hist[i].cmd.k = "BEGIN" /\ hist[i].from = "WaitBegin" /\ sound) => (i = Len(hist) /\ st = "Done"))
          wf == WellFormedObs(r)
      IN /\ (panicOk \/ Report("no-panic", Summary(r)))
         /\ (sound \/ Report("auth-sound", Summary(r)))
         /\ (rej \/ Report("rejected-reply", Summary(r)))
         /\ (err \/ Report("error-reply", Summary(r)))
         /\ (compl \/ Report("auth-complete", Summary(r)))
         /\ ((~wf \/ ~(panicOk /\ sound /\ rej /\ err /\ compl)) \/ Report("drift", Summary(r)))
         /\ (wf \/ Report("drift", [malformed |-> TRUE, obs |-> Summary(r)]))
Inv == LineOk \/ TRUE
=============================================================================
