-------------------------- MODULE SaslServerTrace --------------------------
(***************************************************************************)
(* Validation of server-handshake observations against SaslServer (C16).   *)
(* One ndjson line = one run of the real server handshake over a scripted  *)
(* socket: cfg, the byte stream the client sent (and where it was cut into reads), every byte the server wrote,   *)
(* the outcome (authenticated | failed | waiting | panic).  Each line is an *)
(* initial state (independent observations).  Everything is read from the   *)
(* *bytes*: the stream is split into lines and commands by Sasl, the server's*)
(* output into reply kinds.                                                 *)
(*  1. Explained(D): the replies and the outcome are one of the behaviours  *)
(*     allowed by SaslServer!Allowed with deviations D.  D = {} passes; a   *)
(*     minimal non-empty D prints what = "known" (the check matches it      *)
(*     against the listed findings).                                        *)
(*  2. Otherwise the property itself is evaluated on the observed history   *)
(*     (the model-checked invariants of SaslServer, with the server's state *)
(*     inferred from its own replies); each violated clause prints a        *)
(*     MISMATCH; if none is violated the line is "drift".                   *)
(***************************************************************************)
EXTENDS SaslServer, Json, IOUtils

\* TLC does not cache this definition (every use would parse the file again): TInit parses the file once
\* into TLC register 1 and every other use reads the register.
RecFile == ndJsonDeserialize(IOEnv.TRACE)
Rec == TLCGet(1)
VARIABLE l

\* what was observed, read once per line of the file into state variables:
VARIABLES cmds,     \* the commands the client sent (complete lines only), as the server must read them
          reps,     \* kinds of the reply lines the server wrote
          outcome,  \* authenticated | failed | waiting | panic
          wf        \* the server's output consists of complete reply lines
ovars == <<cmds, reps, outcome, wf>>

Terminal(s) == s \in {"Done", "Failed", "Panic"}
OutcomeOf(s) == CASE s = "Done" -> "authenticated" [] s = "Failed" -> "failed" [] s = "Panic" -> "panic" [] OTHER -> "waiting"

(* --- 1. explanation by the reference relation: set of [st, j] = possible state, next reply index --- *)
RECURSIVE Walk(_, _, _)
Walk(i, P, D) ==
  IF i > Len(cmds) \/ P = {} THEN P
  ELSE LET c == cmds[i]
           step(p) ==
             IF Terminal(p.st) THEN {p}
             ELSE LET al == Allowed(cfg, p.st, c, D) IN
                  {[st |-> a.st, j |-> p.j + 1] : a \in {x \in al : x.reply # "none" /\ p.j <= Len(reps) /\ reps[p.j] = x.reply}}
                  \cup {[st |-> a.st, j |-> p.j] : a \in {x \in al : x.reply = "none"}}
       IN Walk(i + 1, UNION {step(p) : p \in P}, D)
Explained(D) ==
  \E p \in Walk(1, {[st |-> "WaitAuth", j |-> 1]}, D) :
     p.j = Len(reps) + 1 /\ OutcomeOf(p.st) = outcome

(* --- 2. the observed history: reply i answers line i; the line after the last reply is where the
   server finished, gave up, panicked or stalled; the server's state is inferred from its own replies --- *)
AfterReply(from, reply) ==
  CASE reply = "OK" -> "WaitBegin" [] reply = "REJECTED" -> "WaitAuth" [] reply = "DATA" -> "WaitData" [] OTHER -> from
RECURSIVE FromAt(_, _)
FromAt(rp, i) == IF i = 1 THEN "WaitAuth" ELSE AfterReply(FromAt(rp, i - 1), rp[i - 1])
ObsHist(cm, rp, oc) ==
  LET n == Len(rp)
      nl == Len(cm)
      k == IF n < nl THEN n ELSE nl
      answered == [i \in 1..k |-> [cmd |-> cm[i], from |-> FromAt(rp, i), reply |-> rp[i]]]
      last == IF nl > n /\ n = k
                THEN <<[cmd |-> cm[n + 1], from |-> FromAt(rp, n + 1), reply |-> "none"]>> ELSE <<>>
  IN answered \o last
ObsSt(rp, oc) == CASE oc = "authenticated" -> "Done" [] oc = "failed" -> "Failed" [] oc = "panic" -> "Panic"
                   [] OTHER -> FromAt(rp, Len(rp) + 1)

TInit ==
  /\ TLCSet(1, RecFile)
  /\ l \in 1..Len(Rec)
  /\ LET r == Rec[l]
         strm == r.stream
         hasNul == strm # <<>> /\ strm[1] = NUL
         lns == TakeLines(IF hasNul THEN Tail(strm) ELSE strm, 100000).lines
         cm == [i \in 1..Len(lns) |->
                  IF i = 1 /\ ~hasNul THEN (IF lns[i].end = "lfstart" THEN [k |-> "LFSTART"] ELSE [k |-> "NONUL"])
                  ELSE ClientCmd(lns[i], r.cfg.uid)]
         t == TakeLines(r.written, 100000)
         rp == [i \in 1..Len(t.lines) |-> ReplyKind(t.lines[i])]
     IN /\ cmds = cm /\ reps = rp /\ outcome = r.outcome
        /\ wf = (t.rest = <<>> /\ Len(rp) <= Len(cm) /\ \A i \in 1..Len(rp) : rp[i] \notin {"MALFORMED", "OTHER"})
        /\ cfg = [mech |-> r.cfg.mech, creds |-> r.cfg.creds, canfd |-> r.cfg.canfd]
        /\ hist = ObsHist(cm, rp, r.outcome) /\ st = ObsSt(rp, r.outcome)
  /\ net = <<>> /\ rbuf = <<>> /\ taken = <<>>
TNext == UNCHANGED <<l, vars, svars, ovars>>

Report(what, detail) == PrintT(<<"MISMATCH", ToJson([line |-> l, id |-> Rec[l].id, var |-> Rec[l].var, what |-> what, detail |-> detail])>>)

\* a smallest set of listed deviations that explains the observation (if any)
ExplainingDevs ==
  LET ok == {D \in SUBSET Devs : Explained(D)} IN
  IF ok = {} THEN {} ELSE {CHOOSE D \in ok : \A E \in ok : Cardinality(D) <= Cardinality(E)}

Summary == [cfg |-> cfg, cmds |-> cmds, replies |-> reps, outcome |-> outcome]

LineVerdict ==
  IF Explained({}) THEN TRUE
  ELSE LET ds == ExplainingDevs IN
    IF ds # {} THEN Report("known", [devs |-> CHOOSE D \in ds : TRUE, obs |-> Summary])
    ELSE
      LET panicOk == NeverPanic
          sound == OkSound /\ AuthSound
          rej == RejectedForUnsupported
          err == ErrorForUnknownOrMisplaced
          compl == RightPeerAccepted /\
                   (\A i \in 1..Len(hist) : (hist[i].cmd.k = "BEGIN" /\ hist[i].from = "WaitBegin" /\ sound) => (i = Len(hist) /\ st = "Done"))
      IN /\ (panicOk \/ Report("no-panic", Summary))
         /\ (sound \/ Report("auth-sound", Summary))
         /\ (rej \/ Report("rejected-reply", Summary))
         /\ (err \/ Report("error-reply", Summary))
         /\ (compl \/ Report("auth-complete", Summary))
         /\ ((~wf \/ ~(panicOk /\ sound /\ rej /\ err /\ compl)) \/ Report("drift", Summary))
         /\ (wf \/ Report("drift", [malformed |-> TRUE, obs |-> Summary]))
\* enumerated cases: the commands read back from the bytes are the commands the generator meant
NormCmd(c) == IF c.k = "UNKNOWN" THEN [k |-> "UNKNOWN"] ELSE c
AbsOk == LET a == Rec[l].abs IN
         ("lines" \in DOMAIN a /\ a.nul) =>
            /\ Len(cmds) = Len(a.lines)
            /\ \A i \in 1..Len(cmds) : NormCmd(cmds[i]) = NormCmd(a.lines[i])

LineOk ==
  /\ (AbsOk \/ Report("spec-selfcheck", [read |-> cmds, meant |-> Rec[l].abs]))
  /\ LineVerdict
Inv == LineOk \/ TRUE
=============================================================================
