----------------------------- MODULE SaslClient -----------------------------
(***************************************************************************)
(* C17 -- the client side of the SASL handshake succeeds only on a proper  *)
(* server acceptance.                                                      *)
(*                                                                         *)
(* The client (Client::perform) sends AUTH and reads one line; on OK it     *)
(* sends [NEGOTIATE_UNIX_FD if the transport can pass fds] BEGIN in one go  *)
(* and, if it negotiated, reads exactly one more line.  Everything after    *)
(* those lines already belongs to the message stream.                      *)
(*                                                                         *)
(* cfg = [canfd : BOOLEAN, exp : the expected GUID as bytes, <<>> if none]. *)
(* Input: server lines as read by Sasl!ServerCmd.  AllowedC is the relation *)
(* of reactions the property permits: completing needs an OK with a valid   *)
(* (32 hex digit) GUID equal to the expected one; the fd capability is on   *)
(* iff the line answering NEGOTIATE_UNIX_FD is AGREE_UNIX_FD; never panic.  *)
(* Where the statement is silent (what to do after REJECTED / DATA / an     *)
(* unknown line) giving up or waiting on are both allowed.                  *)
(*                                                                         *)
(* devs (known deviations, off by default):                                 *)
(*   "guid_uuid_forms"  OK with a textual UUID form (hyphenated, braced,    *)
(*                      urn:uuid:) is accepted as if it were a D-Bus GUID   *)
(*   "panic_lf_start"   a line feed at the start of a line panics           *)
(*   "leftfds_zero_pending"  (the C14 deviation of Framing, visible here in  *)
(*                      the hand-over of leftovers) a message that needs     *)
(*                      none of the fds read during the handshake is refused *)
(*                      while such fds are pending for a later message       *)
(***************************************************************************)
EXTENDS Sasl, TLC

CDevs == {"guid_uuid_forms", "panic_lf_start", "leftfds_zero_pending"}

C(st, cap) == [st |-> st, cap |-> cap]

GuidAcceptable(cfg, cmd, devs) ==
  /\ cmd.k = "OK"
  /\ cmd.g = "valid" \/ (cmd.g = "uuidform" /\ "guid_uuid_forms" \in devs)
  /\ cfg.exp = <<>> \/ cmd.guid = cfg.exp

AllowedC(cfg, st, cmd, devs) ==
  IF cmd.k = "LFSTART" THEN {C("Failed", FALSE)} \cup (IF "panic_lf_start" \in devs THEN {C("Panic", FALSE)} ELSE {})
  ELSE IF cmd.k = "BADEND" THEN {C("Failed", FALSE)}
  ELSE CASE st = "WaitOK" ->
         IF cmd.k = "OK" THEN
            (IF GuidAcceptable(cfg, cmd, devs) THEN {C(IF cfg.canfd THEN "WaitFd" ELSE "Done", FALSE)} ELSE {C("Failed", FALSE)})
         ELSE {C("Failed", FALSE), C("WaitOK", FALSE)}
       [] st = "WaitFd" ->
         CASE cmd.k = "AGREE_UNIX_FD" -> {C("Done", TRUE)}
           [] cmd.k = "ERROR" -> {C("Done", FALSE)}
           [] OTHER -> {C("Failed", FALSE), C("Done", FALSE)}
       [] OTHER -> {}

-----------------------------------------------------------------------------
CONSTANTS CCfgs, CCmds, CMaxLen
VARIABLES ccfg, cst, cap, chist, guid    \* chist: sequence of [cmd, from]; guid: the GUID the client took
cvars == <<ccfg, cst, cap, chist, guid>>

CInit == ccfg \in CCfgs /\ cst = "WaitOK" /\ cap = FALSE /\ chist = <<>> /\ guid = <<>>
CStep(cmd) ==
  /\ cst \in {"WaitOK", "WaitFd"} /\ Len(chist) < CMaxLen
  /\ \E r \in AllowedC(ccfg, cst, cmd, {}) :
       /\ cst' = r.st /\ cap' = r.cap
       /\ guid' = IF cst = "WaitOK" /\ r.st \in {"WaitFd", "Done"} THEN cmd.guid ELSE guid
  /\ chist' = Append(chist, [cmd |-> cmd, from |-> cst])
  /\ UNCHANGED ccfg
CNext == \E cmd \in CCmds : CStep(cmd)

(* ---- the property over the history ---- *)
\* completion needs an OK carrying a valid GUID, equal to the expected one, answering the AUTH
DoneOnlyOnOk ==
  cst = "Done" =>
    \E i \in 1..Len(chist) :
      /\ chist[i].from = "WaitOK" /\ chist[i].cmd.k = "OK" /\ chist[i].cmd.g = "valid"
      /\ ccfg.exp = <<>> \/ chist[i].cmd.guid = ccfg.exp
      /\ guid = chist[i].cmd.guid
      /\ \A j \in (i + 1)..Len(chist) : chist[j].from # "WaitOK"
\* the fd capability is on exactly when the server agreed to it
CapIffAgreed ==
  cst = "Done" =>
    (cap <=> (ccfg.canfd /\ chist[Len(chist)].from = "WaitFd" /\ chist[Len(chist)].cmd.k = "AGREE_UNIX_FD"))
\* the handshake consumes the OK line and, if it negotiated, one more: the rest is the message stream
ConsumedLines == cst = "Done" => Len(chist) >= (IF ccfg.canfd THEN 2 ELSE 1) /\ chist[Len(chist)].from = (IF ccfg.canfd THEN "WaitFd" ELSE "WaitOK")
CNeverPanic == cst # "Panic"
=============================================================================
