------------------------------- MODULE Depths -------------------------------
(***************************************************************************)
(* Container nesting limits (property C07).  The encoder and the decoder     *)
(* keep one counter per container kind while they descend into a value:      *)
(* entering an array (kind "a"), a structure ("r") or a variant ("v")         *)
(* increments its counter, leaving decrements it.  Entering fails exactly     *)
(* when arrays > 32, structures > 32, or arrays + structures + variants > 64. *)
(* A value is processed successfully iff no Enter on the way down fails.      *)
(***************************************************************************)
EXTENDS Naturals, Sequences

MaxA == 32
MaxR == 32
MaxTotal == 64
Kinds == {"a", "r", "v"}

VARIABLES arr, str, var,   \* counters
          stack,           \* kinds entered and not yet left (innermost last)
          failed           \* an Enter was refused
dvars == <<arr, str, var, stack, failed>>

Within(a, r, v) == a <= MaxA /\ r <= MaxR /\ a + r + v <= MaxTotal

DInit == arr = 0 /\ str = 0 /\ var = 0 /\ stack = <<>> /\ failed = FALSE

Enter(kd) ==
  /\ ~failed
  /\ LET a == arr + (IF kd = "a" THEN 1 ELSE 0)
         r == str + (IF kd = "r" THEN 1 ELSE 0)
         v == var + (IF kd = "v" THEN 1 ELSE 0)
     IN IF Within(a, r, v)
        THEN arr' = a /\ str' = r /\ var' = v /\ stack' = Append(stack, kd) /\ failed' = FALSE
        ELSE failed' = TRUE /\ UNCHANGED <<arr, str, var, stack>>

Leave ==
  /\ ~failed /\ stack # <<>>
  /\ LET kd == stack[Len(stack)] IN
       /\ arr' = arr - (IF kd = "a" THEN 1 ELSE 0)
       /\ str' = str - (IF kd = "r" THEN 1 ELSE 0)
       /\ var' = var - (IF kd = "v" THEN 1 ELSE 0)
  /\ stack' = SubSeq(stack, 1, Len(stack) - 1)
  /\ UNCHANGED failed

DNext == (\E kd \in Kinds : Enter(kd)) \/ Leave
DSpec == DInit /\ [][DNext]_dvars

Count(s, kd) == Len(SelectSeq(s, LAMBDA x : x = kd))
\* the counters always equal the number of open containers of each kind, and stay within the limits
CountersExact == arr = Count(stack, "a") /\ str = Count(stack, "r") /\ var = Count(stack, "v")
WithinLimits  == Within(arr, str, var)
\* an Enter is refused only when it would exceed a limit (checked as an action property)
RefusedOnlyWhenOver ==
  [][failed' /\ ~failed => (arr = MaxA \/ str = MaxR \/ arr + str + var = MaxTotal)]_dvars

(* The verdict for a whole nesting (outermost kind first): every prefix must be within the limits. *)
StackOk(s) == \A n \in 1..Len(s) :
                Within(Count(SubSeq(s, 1, n), "a"), Count(SubSeq(s, 1, n), "r"), Count(SubSeq(s, 1, n), "v"))
=============================================================================
