------------------------------ MODULE MsgLayout ------------------------------
(***************************************************************************)
(* The D-Bus message format ("Message Protocol / Message Format" of the     *)
(* D-Bus specification), written from the specification text and on top of  *)
(* the reference marshaller DBusWire, not from zbus's builder / parser.     *)
(*                                                                         *)
(*   message = fixed header  yyyyuu   endianness 'l'|'B', type, flags,      *)
(*                                    protocol version 1, body length,      *)
(*                                    serial (non-zero)                     *)
(*             header fields a(yv)    marshalled at message offset 12       *)
(*             zero padding to an 8-byte boundary                           *)
(*             body                   the arguments marshalled one after    *)
(*                                    the other from (8-aligned) offset 0   *)
(*                                    of the body; SIGNATURE = their types  *)
(*                                    concatenated (no enclosing parens)    *)
(*                                                                         *)
(* Abstract header:  [type |-> 0..255, flags |-> 0..255,                    *)
(*                    serial |-> <<4 bytes, big-endian>>,                   *)
(*                    fields |-> << [c |-> code, t |-> T, v |-> V], .. >>]  *)
(* Abstract body:    [ts |-> <<T..>>, vs |-> <<V..>>]   (the arguments)     *)
(*                                                                         *)
(* The ORDER of the header fields on the wire is not prescribed by the      *)
(* specification (zbus emits them by ascending code).  MsgBytes marshals    *)
(* the fields in the order given; properties that compare with bytes        *)
(* produced by an implementation compare the field *set* and re-marshal in  *)
(* the observed order (see MsgCheck), so they are byte-exact without fixing *)
(* an order.                                                               *)
(*                                                                         *)
(* Part 2 is the total parser with the forward-compatibility rules, part 3  *)
(* the reader of a connection as far as tolerance is concerned (C13).       *)
(***************************************************************************)
EXTENDS DBusWire, FiniteSets

(******************************* vocabulary ********************************)
F_PATH == 1  F_INTERFACE == 2  F_MEMBER == 3  F_ERROR_NAME == 4  F_REPLY_SERIAL == 5
F_DESTINATION == 6  F_SENDER == 7  F_SIGNATURE == 8  F_UNIX_FDS == 9
KnownCodes == 1..9
\* type of the variant each known field must carry (table "Header Fields")
FieldKind(c) == CASE c = 1 -> "o" [] c \in {2, 3, 4, 6, 7} -> "s" [] c \in {5, 9} -> "u" [] c = 8 -> "g"

MT_CALL == 1  MT_RETURN == 2  MT_ERROR == 3  MT_SIGNAL == 4
KnownTypes == 1..4
\* fields a message of a known type must carry (table "Message Types")
Required(ty) == CASE ty = 1 -> {1, 3} [] ty = 2 -> {5} [] ty = 3 -> {4, 5} [] ty = 4 -> {1, 2, 3} [] OTHER -> {}
\* NO_REPLY_EXPECTED 0x1, NO_AUTO_START 0x2, ALLOW_INTERACTIVE_AUTHORIZATION 0x4; all other bits unknown
KnownFlagMask == 7
KnownFlags(fl) == fl % 8

Ty(c) == [k |-> c]
FieldsT == [k |-> "a", e |-> [k |-> "r", f |-> <<Ty("y"), Ty("v")>>]]
FieldsV(fs) == [a |-> [i \in 1..Len(fs) |-> [r |-> << [b |-> <<fs[i].c>>], [t |-> fs[i].t, v |-> fs[i].v] >>]]]

MaxFieldsLen == 67108864       \* 2^26: maximum length of an array
MaxMsgLen    == 134217728      \* 2^27: maximum length of a message

(**************************** part 1: layout *******************************)
BodyBytes(body, le) == MSeq(body.ts, body.vs, 0, le)
BodySig(body)       == FmtSeq(body.ts)
BodyFds(body)       == NumFdsSeq(body.ts, body.vs)

\* The two fields that describe the body.  Either may be omitted when it has its
\* default value (empty signature, zero descriptors); zbus omits them then.
BodyFields(body) ==
  (IF body.ts = <<>> THEN <<>> ELSE << [c |-> F_SIGNATURE, t |-> Ty("g"), v |-> [s |-> BodySig(body)]] >>)
  \o (IF BodyFds(body) = 0 THEN <<>> ELSE << [c |-> F_UNIX_FDS, t |-> Ty("u"), v |-> [b |-> U32BE(BodyFds(body))]] >>)

\* Lowest level: every part given explicitly (used by the mutation generators to
\* write inconsistent messages).
Assemble(endByte, ty, fl, ver, bodyLen4, serial4, fieldBytes, padBytes, bodyBytes) ==
  <<endByte, ty, fl, ver>> \o bodyLen4 \o serial4 \o fieldBytes \o padBytes \o bodyBytes

FieldBytes(fs, le) == Marshal(FieldsT, FieldsV(fs), 12, le)     \* u32 length, elements 8-aligned

\* hdr.fields must already contain SIGNATURE / UNIX_FDS as wanted (see WithBodyFields)
MsgBytes(hdr, body, le) ==
  LET bb == BodyBytes(body, le)
      fb == FieldBytes(hdr.fields, le)
  IN  Assemble(IF le THEN 108 ELSE 66, hdr.type, hdr.flags, 1, U32(Len(bb), le), Ord(hdr.serial, le),
               fb, Zeros(Pad(12 + Len(fb), 8)), bb)

WithBodyFields(hdr, body) == [hdr EXCEPT !.fields = @ \o BodyFields(body)]
HeaderLen(hdr, le) == 12 + Len(FieldBytes(hdr.fields, le))
BodyOffset(hdr, le) == HeaderLen(hdr, le) + Pad(HeaderLen(hdr, le), 8)

(* Length of the whole message from its first 16 bytes (what a reader needs to
   frame the stream); Huge when the declared lengths are not acceptable. *)
TotalLen(first16) ==
  LET le   == first16[1] = 108
      blen == U32Val(Ord(Slice(first16, 5, 4), le))
      flen == U32Val(Ord(Slice(first16, 13, 4), le))
  IN IF flen > MaxFieldsLen \/ blen > MaxMsgLen THEN Huge
     ELSE LET t == 16 + flen + Pad(16 + flen, 8) + blen IN IF t > MaxMsgLen THEN Huge ELSE t


(****************************** names ***************************************)
(* "Valid Names" of the D-Bus specification, as far as header fields use     *)
(* them.  All names are at most 255 bytes.  Interface and error names: two   *)
(* or more '.'-separated non-empty elements of [A-Za-z0-9_] not starting     *)
(* with a digit.  Member names: one such element.  Bus names: two or more    *)
(* elements of [A-Za-z0-9_-]; unique names start with ':' and only their     *)
(* elements may start with a digit.  SENDER is "the unique name of the       *)
(* sending connection"; the message bus itself sends as org.freedesktop.DBus,*)
(* so any valid bus name is accepted there.                                  *)
IsDigit(b) == b >= 48 /\ b <= 57
IsAlpha_(b) == (b >= 65 /\ b <= 90) \/ (b >= 97 /\ b <= 122) \/ b = 95
Dotted(s, dash, digitFirst) ==
  /\ Len(s) >= 3 /\ s[1] # 46 /\ s[Len(s)] # 46
  /\ \E i \in 1..Len(s) : s[i] = 46
  /\ \A i \in 1..Len(s) :
       \/ (s[i] = 46 /\ s[i + 1] # 46)                      \* i < Len(s): the last byte is not '.'
       \/ IsAlpha_(s[i]) \/ (dash /\ s[i] = 45)
       \/ (IsDigit(s[i]) /\ (digitFirst \/ (i > 1 /\ s[i - 1] # 46)))
NameOk(kind, s) ==
  /\ Len(s) <= 255
  /\ CASE kind \in {"interface", "error"} -> Dotted(s, FALSE, FALSE)
       [] kind = "member" -> Len(s) >= 1 /\ ~IsDigit(s[1]) /\ \A i \in 1..Len(s) : IsAlpha_(s[i]) \/ IsDigit(s[i])
       [] kind = "bus" -> IF Len(s) >= 1 /\ s[1] = 58 THEN Dotted(Tail(s), TRUE, TRUE) ELSE Dotted(s, TRUE, FALSE)
       [] OTHER -> TRUE
NameKind(c) == CASE c \in {2} -> "interface" [] c = 3 -> "member" [] c = 4 -> "error" [] c \in {6, 7} -> "bus" [] OTHER -> "none"

(************************ part 2: the total parser *************************)
(* ParseMsg(B): B is presented as one complete message.                      *)
(*   [ok |-> FALSE, why, sub]  the bytes are not a valid message, or         *)
(*   [ok |-> TRUE, le, type, flags, serial, fields, ignored, ts, vs, nfds,   *)
(*    boff, blen, skip]                                                     *)
(* Forward compatibility (must-rules of the specification):                  *)
(*   * a header field with a code this version does not know is accepted     *)
(*     and ignored, whatever (valid) variant it carries: `ignored` lists the *)
(*     codes, `fields` holds the known ones in wire order;                   *)
(*   * unknown flag bits are ignored: `flags` is the raw byte, KnownFlags()  *)
(*     the part that has a meaning;                                          *)
(*   * a message of unknown type (5..255) is valid and must be ignored:      *)
(*     skip = TRUE (type 0 is INVALID and makes the message invalid).        *)
PErr(w, s) == [ok |-> FALSE, why |-> w, sub |-> s]
Dp0 == [a |-> 0, r |-> 0, v |-> 0]

FieldRec(e) == [c |-> e.r[1].b[1], t |-> e.r[2].t, v |-> e.r[2].v]
CodesOf(fs) == {fs[i].c : i \in 1..Len(fs)}
FieldOf(fs, c) == fs[CHOOSE i \in 1..Len(fs) : fs[i].c = c]
HasField(fs, c) == \E i \in 1..Len(fs) : fs[i].c = c
IsKnownCode(f) == f.c \in KnownCodes

ParseMsg(B) ==
  IF Len(B) = 0 THEN PErr("empty", "")
  ELSE IF B[1] \notin {108, 66} THEN PErr("endian", "")
  ELSE IF Len(B) < 16 THEN PErr("short-fixed-header", "")
  ELSE
  LET le     == B[1] = 108
      ty     == B[2]
      fl     == B[3]
      blen   == U32Val(Ord(Slice(B, 5, 4), le))
      serial == Ord(Slice(B, 9, 4), le)
      flen   == U32Val(Ord(Slice(B, 13, 4), le))
  IN
  IF B[4] # 1 THEN PErr("version", "")
  ELSE IF ty = 0 THEN PErr("type-invalid", "")
  ELSE IF serial = <<0, 0, 0, 0>> THEN PErr("serial-zero", "")
  ELSE IF flen > MaxFieldsLen THEN PErr("fields-too-long", "")
  ELSE IF blen > MaxMsgLen THEN PErr("message-too-long", "")
  ELSE
  LET hlen == 16 + flen
      boff == hlen + Pad(hlen, 8)
  IN
  IF boff + blen > MaxMsgLen THEN PErr("message-too-long", "")
  ELSE IF Len(B) < boff THEN PErr("short-header", "")
  ELSE IF Len(B) < boff + blen THEN PErr("short-body", "")
  ELSE IF Len(B) > boff + blen THEN PErr("trailing-bytes", "")
  ELSE
  LET fa == D(FieldsT, SubSeq(B, 1, hlen), 0, 13, le, Huge, Dp0) IN
  IF ~fa.ok THEN PErr("fields", fa.why)
  ELSE IF fa.next # hlen + 1 THEN PErr("fields", "length")
  ELSE IF \E j \in (hlen + 1)..boff : B[j] # 0 THEN PErr("nonzero-padding", "")
  ELSE
  LET all   == [i \in 1..Len(fa.v.a) |-> FieldRec(fa.v.a[i])]
      known == SelectSeq(all, IsKnownCode)
      ign   == {all[i].c : i \in {j \in 1..Len(all) : all[j].c \notin KnownCodes}}
  IN
  IF 0 \in ign THEN PErr("field-code-0", "")
  ELSE IF \E i \in 1..Len(known) : known[i].t # Ty(FieldKind(known[i].c)) THEN PErr("field-type", "")
  ELSE IF \E i \in 1..Len(known) : NameKind(known[i].c) # "none" /\ ~NameOk(NameKind(known[i].c), known[i].v.s) THEN PErr("bad-name", "")
  ELSE IF Cardinality(CodesOf(known)) # Len(known) THEN PErr("duplicate-field", "")
  ELSE IF ~(Required(ty) \subseteq CodesOf(known)) THEN PErr("missing-required-field", "")
  ELSE IF HasField(known, F_REPLY_SERIAL) /\ FieldOf(known, F_REPLY_SERIAL).v.b = <<0, 0, 0, 0>> THEN PErr("reply-serial-zero", "")
  ELSE
  LET sg   == IF HasField(known, F_SIGNATURE) THEN FieldOf(known, F_SIGNATURE).v.s ELSE <<>>
      nfds == IF HasField(known, F_UNIX_FDS) THEN U32Val(FieldOf(known, F_UNIX_FDS).v.b) ELSE 0
      ts   == ParseSig(sg, FALSE).ts            \* valid: it was decoded as a 'g'
      bd   == DSeq(ts, B, 0, boff + 1, le, nfds, Dp0, <<>>)
  IN
  IF ~bd.ok THEN PErr("body", bd.why)
  ELSE IF bd.next # Len(B) + 1 THEN PErr("body", "length")
  ELSE [ok |-> TRUE, le |-> le, type |-> ty, flags |-> fl, serial |-> serial, fields |-> known, ignored |-> ign,
        ts |-> ts, vs |-> bd.v, nfds |-> nfds, boff |-> boff, blen |-> blen, skip |-> ty \notin KnownTypes]

(* Named deviations (known findings of C13; all off = what the property demands):
   an implementation that refuses valid messages using something unknown. *)
Deviate(p, devs) ==
  IF ~p.ok THEN p
  ELSE IF "unknown_type_rejected" \in devs /\ p.skip THEN PErr("dev", "unknown_type_rejected")
  ELSE IF "unknown_flag_rejected" \in devs /\ p.flags >= 8 THEN PErr("dev", "unknown_flag_rejected")
  ELSE IF "unknown_field_rejected" \in devs /\ p.ignored # {} THEN PErr("dev", "unknown_field_rejected")
  ELSE p
ParseMsgD(B, devs) == Deviate(ParseMsg(B), devs)

(* Framing class of an input, independent of every other validity aspect: how the
   input's length relates to the lengths its own fixed header declares. *)
FrameClass(B) ==
  IF Len(B) = 0 THEN "empty"
  ELSE IF Len(B) < 16 THEN "short-fixed-header"
  ELSE IF B[1] \notin {108, 66} THEN "endian"
  ELSE LET le   == B[1] = 108
           blen == U32Val(Ord(Slice(B, 5, 4), le))
           flen == U32Val(Ord(Slice(B, 13, 4), le))
           boff == 16 + flen + Pad(16 + flen, 8)
       IN IF flen > MaxFieldsLen THEN "oversize"
          ELSE IF Len(B) < boff THEN "shorter-than-body-offset"       \* whatever the body length says
          ELSE IF blen > MaxMsgLen THEN "oversize"
          ELSE IF Len(B) < boff + blen THEN "short-body"
          ELSE IF Len(B) > boff + blen THEN "trailing-bytes"
          ELSE "framed"
SerialOf(B) == Ord(Slice(B, 9, 4), B[1] = 108)


\* The abstract header a valid message denotes (what an API shows): unknown flag
\* bits and unknown fields are not part of it.
HeaderOf(p) == [type |-> p.type, flags |-> KnownFlags(p.flags), serial |-> p.serial,
                fields |-> {p.fields[i] : i \in 1..Len(p.fields)}]
FieldSet(fs) == {fs[i] : i \in 1..Len(fs)}

(* Laws of the two halves, checked by TLC over the generated spaces (MC_MsgLayout):
   ParseMsg(MsgBytes(h, b, le)) gives back h and b; the body starts on an
   8-byte boundary; TotalLen of the first 16 bytes is the length. *)
RoundTripLaw(hdr, body, le) ==
  LET h == WithBodyFields(hdr, body)
      B == MsgBytes(h, body, le)
      p == ParseMsg(B)
  IN /\ p.ok
     /\ p.le = le /\ p.type = hdr.type /\ p.flags = hdr.flags /\ p.serial = hdr.serial
     /\ p.fields = SelectSeq(h.fields, IsKnownCode)
     /\ p.ts = body.ts /\ p.vs = body.vs
     /\ p.boff % 8 = 0 /\ p.boff = BodyOffset(h, le)
     /\ p.blen = Len(BodyBytes(body, le))
     /\ p.nfds = BodyFds(body)
     /\ TotalLen(SubSeq(B, 1, 16)) = Len(B)

(********************* part 3: the tolerant reader (C13) *******************)
(* The reader of a connection takes the framed messages of the byte stream   *)
(* one after the other.  One step per message:                              *)
(*   Deliver  a valid message of a known type is handed to the streams,      *)
(*            unknown fields / flag bits notwithstanding;                    *)
(*   Skip     a valid message of unknown type is consumed and dropped;       *)
(*   Stop     an invalid message ends the connection (nothing after it is    *)
(*            delivered).                                                   *)
(* State: [status |-> "Reading" | "Stopped", delivered |-> <<message index>>,*)
(*         pos |-> number of messages consumed].                            *)
ReaderInit == [status |-> "Reading", delivered |-> <<>>, pos |-> 0]
\* p: the parse result of the next message of the stream
ActionOf(p, devs) == LET q == Deviate(p, devs) IN IF ~q.ok THEN "Stop" ELSE IF q.skip THEN "Skip" ELSE "Deliver"
ReaderStep(st, p, devs) ==
  IF st.status # "Reading" THEN st
  ELSE LET a == ActionOf(p, devs) IN
    CASE a = "Deliver" -> [st EXCEPT !.delivered = Append(@, st.pos + 1), !.pos = @ + 1]
      [] a = "Skip"    -> [st EXCEPT !.pos = @ + 1]
      [] a = "Stop"    -> [st EXCEPT !.status = "Stopped", !.pos = @ + 1]
ReaderAction(B, devs)   == ActionOf(ParseMsg(B), devs)
ReaderRead(st, B, devs) == ReaderStep(st, ParseMsg(B), devs)
RECURSIVE ReaderRunP(_,_,_)
ReaderRunP(st, ps, devs) ==            \* ps: parse results of the messages of a stream
  IF ps = <<>> THEN st ELSE ReaderRunP(ReaderStep(st, Head(ps), devs), Tail(ps), devs)
ReaderRun(st, stream, devs) == ReaderRunP(st, [i \in 1..Len(stream) |-> ParseMsg(stream[i])], devs)

\* What C13 demands of a stream of *valid* messages, stated without the machine:
Tolerated(B) == ParseMsg(B).ok
ExpectedDelivery(stream) == SelectSeq([i \in 1..Len(stream) |-> i], LAMBDA i : ~ParseMsg(stream[i]).skip)
=============================================================================
