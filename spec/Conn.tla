-------------------------------- MODULE Conn --------------------------------
(***************************************************************************)
(* The core of zbus::Connection: method calls, the socket reader task, the   *)
(* broadcast channels (async-broadcast semantics), message streams with       *)
(* shared subscriptions, and transport faults.  One action per critical       *)
(* section of connection/mod.rs, connection/socket_reader.rs and              *)
(* message_stream.rs.                                                         *)
(*                                                                           *)
(* Channels.  There is one channel per subscription rule plus the built-in    *)
(* method-return channel "mr" (capacity CapMR).  A channel is a queue of      *)
(* <<message, waiters>> with an absolute position `head` of its first entry.  *)
(* Each active receiver has a cursor (absolute position of the next entry it  *)
(* will see).  Sending to a channel with no active receiver drops the message *)
(* for that channel; sending to a full channel blocks the sender (the socket   *)
(* reader) until a receiver makes room.  A new receiver starts at the tail; a  *)
(* cloned receiver starts at its original's cursor.  Dropping a receiver       *)
(* releases the entries it has not seen.  An entry leaves the queue when it is *)
(* at the head and nobody waits for it.  Closing (all senders dropped) lets    *)
(* receivers drain the queue and then see the end of the stream.               *)
(*                                                                           *)
(* Callers (method calls):  build -> activate a receiver on "mr" -> take the   *)
(* write lock -> write -> unlock -> poll until the reply whose reply_serial is  *)
(* the call's serial shows up (other entries are skipped) -> drop receiver.     *)
(* Reader: read one inbound message (or hit the fault); with the senders map    *)
(* locked, broadcast it to every channel whose rule matches; on a read error    *)
(* broadcast the error to every channel, close them all and stop.               *)
(* Peer: may answer any call that is completely on the wire (return or error),  *)
(* send stray replies, send signals, and the transport may fail once.           *)
(***************************************************************************)
EXTENDS Naturals, Sequences, FiniteSets, TLC

CONSTANTS Callers,      \* set of caller ids (a caller's serial is its id)
          NoReply,      \* subset of Callers that set NoReplyExpected
          Streams,      \* set of stream ids
          RuleOf,       \* [Streams -> Rules]
          Rules,        \* set of signal rules (each has one channel when subscribed)
          Cap,          \* capacity of a rule channel
          CapMR,        \* capacity of the method-return channel
          Sigs,         \* set of signal ids the peer may send (each at most once)
          SigRules,     \* [Sigs -> SUBSET Rules]: which rules a signal matches
          MaxStray,     \* number of stray replies the peer may send
          MaxFault,     \* 0 or 1: may the transport fail
          SubscribeFirst, \* TRUE = the implementation's order; FALSE = mutant (subscribe after send)
          CloneCounts     \* TRUE = cloning a stream adds a subscription (what C20 demands);
                          \* FALSE = named deviation "clone_no_refcount": the clone shares the rule but is not counted

None == "none"
NoHolder == 0      \* callers are positive integers
R(k, rs) == [k |-> k, rs |-> rs]   \* a call result
MR == "mr"
Chans == Rules \cup {MR}

VARIABLES
  pc,        \* [Callers -> {"idle","sub","lock","write","unlock","await","drop","done"}]
  cur,       \* [Callers -> Nat]  cursor on MR (meaningful when active)
  cact,      \* [Callers -> BOOLEAN] caller holds an active receiver on MR
  res,       \* [Callers -> result]  None | "noreply" | <<"ret", serial>> | <<"err", serial>> | "ioerr"
  wlock,     \* holder of the socket write lock, or None
  wire,      \* sequence of serials written completely
  net,       \* inbound messages not yet read: records [k, rs, id]
  rd,        \* reader: "idle" | "stopped" | [m |-> msg, todo |-> set of channels still to broadcast to]
  q, head,   \* [Chans -> Seq(<<msg, waiters>>)], [Chans -> Nat]
  open,      \* [Chans -> BOOLEAN] channel has a sender registered in the reader's map
  closed,    \* [Chans -> BOOLEAN] all senders dropped (after a reader failure)
  subs,      \* [Rules -> Nat] subscription refcount
  sst,       \* [Streams -> {"none","active","dropped","ended"}]
  scur,      \* [Streams -> Nat]
  should,    \* [Streams -> Seq(ids)]  matching messages read while the stream was subscribed (history)
  got,       \* [Streams -> Seq(ids)]  what the stream yielded (history)
  answered,  \* set of serials the peer has answered
  strays, sigsSent, faults, faulted

vars == <<pc, cur, cact, res, wlock, wire, net, rd, q, head, open, closed, subs, sst, scur, should, got,
          answered, strays, sigsSent, faults, faulted>>

Msg(k, rs, id) == [k |-> k, rs |-> rs, id |-> id]
\* reader states (always a record: TLC cannot compare a record with a string)
RIdle    == [st |-> "idle", m |-> Msg("none", 0, 0), todo |-> {}]
RStopped == [st |-> "stopped", m |-> Msg("none", 0, 0), todo |-> {}]
ErrMsg == Msg("ioerror", 0, 0)          \* what the reader broadcasts when reading fails

Init ==
  /\ pc = [c \in Callers |-> "idle"] /\ cur = [c \in Callers |-> 0] /\ cact = [c \in Callers |-> FALSE]
  /\ res = [c \in Callers |-> R("none", 0)]
  /\ wlock = NoHolder /\ wire = <<>> /\ net = <<>> /\ rd = RIdle
  /\ q = [ch \in Chans |-> <<>>] /\ head = [ch \in Chans |-> 0]
  /\ open = [ch \in Chans |-> ch = MR] /\ closed = [ch \in Chans |-> FALSE]
  /\ subs = [r \in Rules |-> 0]
  /\ sst = [s \in Streams |-> "none"] /\ scur = [s \in Streams |-> 0]
  /\ should = [s \in Streams |-> <<>>] /\ got = [s \in Streams |-> <<>>]
  /\ answered = {} /\ strays = 0 /\ sigsSent = {} /\ faults = 0 /\ faulted = FALSE

(* ---------------- channel primitives ---------------- *)
ActiveOn(ch) == IF ch = MR THEN Cardinality({c \in Callers : cact[c]})
                ELSE Cardinality({s \in Streams : sst[s] = "active" /\ RuleOf[s] = ch})
\* queue after the receiver at absolute position p consumed that entry
Consumed(ch, p) ==
  LET i  == p - head[ch] + 1
      e  == q[ch][i]
      q1 == [q[ch] EXCEPT ![i] = <<e[1], e[2] - 1>>]
  IN  IF i = 1 /\ q1[1][2] = 0 THEN [qq |-> Tail(q1), hh |-> head[ch] + 1] ELSE [qq |-> q1, hh |-> head[ch]]
\* queue after a receiver at position p is dropped: every entry from p on loses one waiter; pop finished heads
RECURSIVE PopDone(_,_)
PopDone(qq, hh) == IF qq # <<>> /\ qq[1][2] = 0 THEN PopDone(Tail(qq), hh + 1) ELSE [qq |-> qq, hh |-> hh]
Released(ch, p) ==
  LET q1 == [i \in 1..Len(q[ch]) |-> IF head[ch] + i - 1 >= p THEN <<q[ch][i][1], q[ch][i][2] - 1>> ELSE q[ch][i]]
  IN  PopDone(q1, head[ch])
\* Tail of a sequence (name clash with Tail(ch) avoided by using SubSeq)
Tl(s) == SubSeq(s, 2, Len(s))

(* ---------------- callers ---------------- *)
Subscribe(c) == /\ cact' = [cact EXCEPT ![c] = TRUE]
                /\ cur'  = [cur EXCEPT ![c] = head[MR] + Len(q[MR])]
CStart(c) ==
  /\ pc[c] = "idle"
  /\ IF SubscribeFirst THEN Subscribe(c) /\ pc' = [pc EXCEPT ![c] = "lock"]
     ELSE UNCHANGED <<cact, cur>> /\ pc' = [pc EXCEPT ![c] = "lock"]
  /\ UNCHANGED <<res, wlock, wire, net, rd, q, head, open, closed, subs, sst, scur, should, got, answered, strays, sigsSent, faults, faulted>>
CLock(c) ==
  /\ pc[c] = "lock" /\ wlock = NoHolder
  /\ wlock' = c /\ pc' = [pc EXCEPT ![c] = "write"]
  /\ UNCHANGED <<cur, cact, res, wire, net, rd, q, head, open, closed, subs, sst, scur, should, got, answered, strays, sigsSent, faults, faulted>>
CWrite(c) ==
  /\ pc[c] = "write" /\ wlock = c
  /\ wire' = Append(wire, c) /\ wlock' = NoHolder
  /\ IF c \in NoReply THEN pc' = [pc EXCEPT ![c] = "drop"] /\ res' = [res EXCEPT ![c] = R("noreply", 0)] /\ UNCHANGED <<cact, cur>>
     ELSE IF SubscribeFirst THEN pc' = [pc EXCEPT ![c] = "await"] /\ UNCHANGED <<res, cact, cur>>
     ELSE pc' = [pc EXCEPT ![c] = "latesub"] /\ UNCHANGED <<res, cact, cur>>    \* mutant: subscribe only after the send
  /\ UNCHANGED <<net, rd, q, head, open, closed, subs, sst, scur, should, got, answered, strays, sigsSent, faults, faulted>>
CLateSub(c) ==
  /\ pc[c] = "latesub" /\ Subscribe(c) /\ pc' = [pc EXCEPT ![c] = "await"]
  /\ UNCHANGED <<res, wlock, wire, net, rd, q, head, open, closed, subs, sst, scur, should, got, answered, strays, sigsSent, faults, faulted>>
\* one poll of the pending call: look at the entry under the cursor
CPoll(c) ==
  /\ pc[c] = "await" /\ cact[c]
  /\ IF cur[c] < head[MR] + Len(q[MR]) THEN
        LET e == q[MR][cur[c] - head[MR] + 1][1]
            n == Consumed(MR, cur[c]) IN
        /\ q' = [q EXCEPT ![MR] = n.qq] /\ head' = [head EXCEPT ![MR] = n.hh]
        /\ cur' = [cur EXCEPT ![c] = @ + 1]
        /\ IF e.k = "ioerror" THEN res' = [res EXCEPT ![c] = R("ioerr", 0)] /\ pc' = [pc EXCEPT ![c] = "drop"]
           ELSE IF e.rs = c /\ e.k \in {"ret", "err"} THEN res' = [res EXCEPT ![c] = R(e.k, e.rs)] /\ pc' = [pc EXCEPT ![c] = "drop"]
           ELSE UNCHANGED <<res, pc>>
     ELSE \* nothing queued: the call ends only if the channel is closed (reader gone)
        /\ closed[MR]
        /\ res' = [res EXCEPT ![c] = R("ioerr", 0)] /\ pc' = [pc EXCEPT ![c] = "drop"]
        /\ UNCHANGED <<q, head, cur>>
  /\ UNCHANGED <<cact, wlock, wire, net, rd, open, closed, subs, sst, scur, should, got, answered, strays, sigsSent, faults, faulted>>
CDrop(c) ==
  /\ pc[c] = "drop"
  /\ IF cact[c] THEN LET n == Released(MR, cur[c]) IN
                     q' = [q EXCEPT ![MR] = n.qq] /\ head' = [head EXCEPT ![MR] = n.hh] /\ cact' = [cact EXCEPT ![c] = FALSE]
     ELSE UNCHANGED <<q, head, cact>>
  /\ pc' = [pc EXCEPT ![c] = "done"]
  /\ UNCHANGED <<cur, res, wlock, wire, net, rd, open, closed, subs, sst, scur, should, got, answered, strays, sigsSent, faults, faulted>>
\* a call started after the reader stopped may also fail before anything is written (e.g. the write side is gone too)
CStartAfterFault(c) ==
  /\ pc[c] = "idle" /\ faulted /\ rd.st = "stopped"
  /\ res' = [res EXCEPT ![c] = R("ioerr", 0)] /\ pc' = [pc EXCEPT ![c] = "done"]
  /\ UNCHANGED <<cur, cact, wlock, wire, net, rd, q, head, open, closed, subs, sst, scur, should, got, answered, strays, sigsSent, faults, faulted>>

(* ---------------- peer / transport ---------------- *)
PeerAnswer(s, k) ==
  /\ ~faulted /\ s \notin NoReply /\ s \notin answered /\ \E i \in 1..Len(wire) : wire[i] = s
  /\ net' = Append(net, Msg(k, s, s)) /\ answered' = answered \cup {s}
  /\ UNCHANGED <<pc, cur, cact, res, wlock, wire, rd, q, head, open, closed, subs, sst, scur, should, got, strays, sigsSent, faults, faulted>>
PeerStray ==
  /\ ~faulted /\ strays < MaxStray
  /\ net' = Append(net, Msg("ret", 0, 0)) /\ strays' = strays + 1
  /\ UNCHANGED <<pc, cur, cact, res, wlock, wire, rd, q, head, open, closed, subs, sst, scur, should, got, answered, sigsSent, faults, faulted>>
PeerSignal(g) ==
  /\ ~faulted /\ g \notin sigsSent
  /\ net' = Append(net, Msg("sig", 0, g)) /\ sigsSent' = sigsSent \cup {g}
  /\ UNCHANGED <<pc, cur, cact, res, wlock, wire, rd, q, head, open, closed, subs, sst, scur, should, got, answered, strays, faults, faulted>>
Fault ==
  /\ faults < MaxFault /\ ~faulted
  /\ faults' = faults + 1 /\ faulted' = TRUE
  /\ UNCHANGED <<pc, cur, cact, res, wlock, wire, net, rd, q, head, open, closed, subs, sst, scur, should, got, answered, strays, sigsSent>>

(* ---------------- socket reader ---------------- *)
Matches(m, ch) == IF ch = MR THEN m.k \in {"ret", "err"} ELSE m.k = "sig" /\ ch \in SigRules[m.id]
RRead ==
  /\ rd.st = "idle" /\ net # <<>>
  /\ LET m == Head(net) IN
       /\ rd' = [st |-> "bcast", m |-> m, todo |-> {ch \in Chans : open[ch] /\ Matches(m, ch)}]
       /\ should' = [s \in Streams |-> IF sst[s] = "active" /\ open[RuleOf[s]] /\ Matches(m, RuleOf[s])
                                       THEN Append(should[s], m.id) ELSE should[s]]
  /\ net' = Tl(net)
  /\ UNCHANGED <<pc, cur, cact, res, wlock, wire, q, head, open, closed, subs, sst, scur, got, answered, strays, sigsSent, faults, faulted>>
\* end of input with the fault pending: the read fails
RReadFail ==
  /\ rd.st = "idle" /\ net = <<>> /\ faulted
  /\ rd' = [st |-> "bcast", m |-> ErrMsg, todo |-> {ch \in Chans : open[ch]}]
  /\ UNCHANGED <<pc, cur, cact, res, wlock, wire, net, q, head, open, closed, subs, sst, scur, should, got, answered, strays, sigsSent, faults, faulted>>
RBcast(ch) ==
  /\ rd.st = "bcast" /\ ch \in rd.todo
  /\ IF ActiveOn(ch) = 0 THEN UNCHANGED q                 \* no active receiver: dropped for this channel
     ELSE /\ Len(q[ch]) < (IF ch = MR THEN CapMR ELSE Cap)   \* full: the reader waits (holding the senders map)
          /\ q' = [q EXCEPT ![ch] = Append(@, <<rd.m, ActiveOn(ch)>>)]
  /\ rd' = [rd EXCEPT !.todo = @ \ {ch}]
  /\ UNCHANGED <<pc, cur, cact, res, wlock, wire, net, head, open, closed, subs, sst, scur, should, got, answered, strays, sigsSent, faults, faulted>>
RDone ==
  /\ rd.st = "bcast" /\ rd.todo = {}
  /\ IF rd.m.k = "ioerror"
     THEN /\ rd' = RStopped                               \* senders.clear(): every channel is closed
          /\ closed' = [ch \in Chans |-> TRUE] /\ open' = [ch \in Chans |-> FALSE]
     ELSE rd' = RIdle /\ UNCHANGED <<closed, open>>
  /\ UNCHANGED <<pc, cur, cact, res, wlock, wire, net, q, head, subs, sst, scur, should, got, answered, strays, sigsSent, faults, faulted>>

(* ---------------- message streams ---------------- *)
\* add_match: needs the senders map (not while the reader is broadcasting); first subscriber creates the channel
SSub(s) ==
  /\ sst[s] = "none" /\ rd.st = "idle" /\ ~closed[RuleOf[s]]
  /\ LET r == RuleOf[s] IN
       /\ subs' = [subs EXCEPT ![r] = @ + 1]
       /\ open' = [open EXCEPT ![r] = TRUE]
       /\ scur' = [scur EXCEPT ![s] = head[r] + Len(q[r])]
  /\ sst' = [sst EXCEPT ![s] = "active"]
  /\ UNCHANGED <<pc, cur, cact, res, wlock, wire, net, rd, q, head, closed, should, got, answered, strays, sigsSent, faults, faulted>>
SPoll(s) ==
  /\ sst[s] = "active"
  /\ LET r == RuleOf[s] IN
     IF scur[s] < head[r] + Len(q[r]) THEN
        LET e == q[r][scur[s] - head[r] + 1][1]
            n == Consumed(r, scur[s]) IN
        /\ q' = [q EXCEPT ![r] = n.qq] /\ head' = [head EXCEPT ![r] = n.hh]
        /\ scur' = [scur EXCEPT ![s] = @ + 1]
        /\ IF e.k = "ioerror" THEN UNCHANGED got ELSE got' = [got EXCEPT ![s] = Append(@, e.id)]
        /\ UNCHANGED sst
     ELSE /\ closed[r] /\ sst' = [sst EXCEPT ![s] = "ended"] /\ UNCHANGED <<q, head, scur, got>>
  /\ UNCHANGED <<pc, cur, cact, res, wlock, wire, net, rd, open, closed, subs, should, answered, strays, sigsSent, faults, faulted>>
\* dropping a stream releases its receiver at once and removes the subscription (a task) when it was the last
SDrop(s) ==
  /\ sst[s] = "active" /\ rd.st \in {"idle", "stopped"}
  /\ LET r == RuleOf[s]
         n == Released(r, scur[s]) IN
       /\ q' = [q EXCEPT ![r] = IF subs[r] <= 1 THEN <<>> ELSE n.qq]
       /\ head' = [head EXCEPT ![r] = IF subs[r] <= 1 THEN head[r] + Len(q[r]) ELSE n.hh]
       /\ subs' = [subs EXCEPT ![r] = IF @ > 0 THEN @ - 1 ELSE 0]
       /\ open' = [open EXCEPT ![r] = subs[r] > 1 /\ open[r]]
       \* when the last counted subscription goes, the sender is removed: remaining receivers see the end
       /\ closed' = [closed EXCEPT ![r] = IF subs[r] <= 1 /\ \E t \in Streams : t # s /\ sst[t] = "active" /\ RuleOf[t] = r THEN TRUE ELSE @]
  /\ sst' = [sst EXCEPT ![s] = "dropped"]
  /\ UNCHANGED <<pc, cur, cact, res, wlock, wire, net, rd, scur, should, got, answered, strays, sigsSent, faults, faulted>>

\* cloning a stream: the clone continues from its original's cursor
SClone(s, s2) ==
  /\ sst[s] = "active" /\ sst[s2] = "none" /\ s # s2 /\ RuleOf[s2] = RuleOf[s]
  /\ LET r == RuleOf[s] IN
       /\ q' = [q EXCEPT ![r] = [i \in 1..Len(q[r]) |-> IF head[r] + i - 1 >= scur[s] THEN <<q[r][i][1], q[r][i][2] + 1>> ELSE q[r][i]]]
       /\ scur' = [scur EXCEPT ![s2] = scur[s]]
       /\ subs' = [subs EXCEPT ![r] = IF CloneCounts THEN @ + 1 ELSE @]
       \* what the clone will see: the queued entries from the cursor on, plus a message the reader has read
       \* but not yet broadcast to this channel
       /\ should' = [should EXCEPT ![s2] = [i \in 1..(head[r] + Len(q[r]) - scur[s]) |-> q[r][scur[s] - head[r] + i][1].id]
                                              \o (IF rd.st = "bcast" /\ r \in rd.todo /\ rd.m.k = "sig" THEN <<rd.m.id>> ELSE <<>>)]
  /\ sst' = [sst EXCEPT ![s2] = "active"]
  /\ UNCHANGED <<pc, cur, cact, res, wlock, wire, net, rd, head, open, closed, got, answered, strays, sigsSent, faults, faulted>>

Next ==
  \/ \E c \in Callers : CStart(c) \/ CLock(c) \/ CWrite(c) \/ CLateSub(c) \/ CPoll(c) \/ CDrop(c) \/ CStartAfterFault(c)
  \/ \E s \in Callers : PeerAnswer(s, "ret") \/ PeerAnswer(s, "err")
  \/ PeerStray \/ (\E g \in Sigs : PeerSignal(g)) \/ Fault
  \/ RRead \/ RReadFail \/ (\E ch \in Chans : RBcast(ch)) \/ RDone
  \/ \E s \in Streams : SSub(s) \/ SPoll(s) \/ SDrop(s)
  \/ \E s, s2 \in Streams : SClone(s, s2)

\* fairness: every task of the implementation keeps running and consumers keep polling
Spec == Init /\ [][Next]_vars /\ WF_vars(Next)

(* ---------------- properties ---------------- *)
\* C19: a call completes with its own reply only
OwnReply == \A c \in Callers : res[c].k \in {"ret", "err"} => res[c].rs = c
\* C19: only a reply the peer actually sent
ReplyWasSent == \A c \in Callers : res[c].k \in {"ret", "err"} => c \in answered
\* C19: no-reply calls never wait
NoReplyImmediate == \A c \in NoReply : pc[c] \in {"drop", "done"} => res[c].k = "noreply" \/ (res[c].k = "ioerr" /\ faulted)
\* C19/C38: an I/O error result only after the transport failed
IoErrOnlyAfterFault == \A c \in Callers : res[c].k = "ioerr" => faulted
\* C20: every stream yields a prefix of what it should, in order, no duplicates
StreamPrefix == \A s \in Streams : Len(got[s]) <= Len(should[s]) /\ got[s] = SubSeq(should[s], 1, Len(got[s]))
\* C20/C37: the channel of a rule exists exactly while it has subscribers (before any failure)
SubRefcount == \A r \in Rules : ~closed[r] => (open[r] <=> subs[r] > 0) /\ subs[r] = Cardinality({s \in Streams : sst[s] = "active" /\ RuleOf[s] = r})
\* C19: the reply to a pending call is never lost: until the caller has its result the reply is still on its
\* way (not yet read, being broadcast, or queued at or after the caller's cursor)
InFlight(c) ==
  \/ \E i \in 1..Len(net) : net[i].rs = c /\ net[i].k \in {"ret", "err"}
  \/ (rd.st = "bcast" /\ rd.m.rs = c /\ MR \in rd.todo)
  \/ (cact[c] /\ \E i \in 1..Len(q[MR]) : head[MR] + i - 1 >= cur[c] /\ q[MR][i][1].rs = c)
NoLostReply == \A c \in Callers : (c \in answered /\ res[c].k = "none") => InFlight(c)
\* C20: a stream only ends because the transport failed, never because another stream was dropped
NoEarlyEnd == \A s \in Streams : sst[s] = "ended" => faulted
\* nothing left to do  =>  every call that was answered (or hit by the fault) is complete, every live stream got everything
Stuck == ~ENABLED Next
Complete ==
  Stuck => /\ \A c \in Callers : pc[c] \in {"idle", "done"} \/ (pc[c] = "await" /\ c \notin answered /\ ~faulted)
           /\ \A s \in Streams : sst[s] = "active" => got[s] = should[s]
           /\ (faulted => \A s \in Streams : sst[s] # "active")
\* liveness: an answered call eventually completes (under fairness)
AnsweredCompletes == \A c \in Callers : (c \in answered) ~> (pc[c] = "done")
=============================================================================
