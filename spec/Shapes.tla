------------------------------- MODULE Shapes -------------------------------
(***************************************************************************)
(* Interface-definition *shapes* (C26, C27, C28, C33 quantify over          *)
(* programs) and the D-Bus signatures the zbus documentation promises for   *)
(* them.                                                                    *)
(*                                                                          *)
(* A shape is a record describing one `#[zbus::interface]` impl block:      *)
(*   [id, name, rust, methods, props, signals]                              *)
(*   method = [name, rust, ins, out, async, mut, fallible, doc]             *)
(*            ins  : sequence of D-Bus types (one per Rust parameter)       *)
(*            out  : [kind, ts] with kind in                                *)
(*                   "unit"   fn f()                                        *)
(*                   "single" fn f() -> T          (T not a tuple)          *)
(*                   "tuple"  fn f() -> (T1, T2)   two out arguments        *)
(*                   "stuple" fn f() -> ((T1,T2),) ONE structure argument   *)
(*                   "vec"    fn f() -> Vec<T>                              *)
(*   prop   = [name, rust, ty, access, emits, async, mutset, doc]           *)
(*   signal = [name, rust, args, doc]                                       *)
(* lib/iface_codegen.py turns shapes into Rust source; nothing below is     *)
(* derived from the macro implementation.  The type mapping used:           *)
(*   u = u32, s = String, (..) = Rust tuple, aT = Vec<T>,                   *)
(*   a{sv} = HashMap<String, OwnedValue>, v = OwnedValue.                   *)
(* Documented rules (zbus_macros `interface` docs, book/src/service.md):    *)
(*   - every Rust parameter is one in-argument of its D-Bus type;           *)
(*   - a tuple return value is *several* out-arguments ("When returning     *)
(*     multiple values from a method ... your method must return a tuple"); *)
(*   - "If you want to return a single structure from a method, declare it  *)
(*     to return a tuple containing either a named structure or a nested    *)
(*     tuple";                                                              *)
(*   - the member name is the PascalCase form of the Rust name, setters     *)
(*     lose their `set_` prefix;                                            *)
(*   - emits_changed_signal = true | invalidates | const | false; a         *)
(*     write-only property never emits.                                     *)
(***************************************************************************)
EXTENDS Naturals, Sequences, FiniteSets, TLC

(* ---- abstract D-Bus types (DESIGN.md section 3) ---- *)
TU == [k |-> "u"]
TS == [k |-> "s"]
TV == [k |-> "v"]
TI == [k |-> "i"]
TO == [k |-> "o"]
St(fs)     == [k |-> "r", f |-> fs]
Arr(t)     == [k |-> "a", e |-> t]
Dict(a, b) == Arr([k |-> "e", key |-> a, val |-> b])
TUS  == St(<<TU, TS>>)
TAS  == Arr(TS)
TASV == Dict(TS, TV)

RECURSIVE SigStr(_), SigSeq(_)
SigStr(T) ==
  CASE T.k = "a" -> "a" \o SigStr(T.e)
    [] T.k = "e" -> "{" \o SigStr(T.key) \o SigStr(T.val) \o "}"
    [] T.k = "r" -> "(" \o SigSeq(T.f) \o ")"
    [] OTHER     -> T.k
SigSeq(ts) == IF ts = <<>> THEN "" ELSE SigStr(Head(ts)) \o SigSeq(Tail(ts))

(* ---- expected signatures of a shape (ExpectedSig of DESIGN.md section 4) ---- *)
InTypes(m)  == m.ins
OutTypes(m) ==
  CASE m.out.kind = "unit"   -> <<>>
    [] m.out.kind = "single" -> m.out.ts
    [] m.out.kind = "tuple"  -> m.out.ts
    [] m.out.kind = "stuple" -> <<St(m.out.ts)>>
    [] m.out.kind = "vec"    -> <<Arr(m.out.ts[1])>>
InSig(m)  == SigSeq(InTypes(m))
OutSig(m) == SigSeq(OutTypes(m))
PropSig(p)   == SigStr(p.ty)
SignalSig(s) == SigSeq(s.args)

Readable(p) == p.access \in {"read", "readwrite"}
Writable(p) == p.access \in {"write", "readwrite"}
(* "If a property is write-only, the change signal will not be emitted" *)
EffEmits(p) == IF p.access = "write" THEN "false" ELSE p.emits

ExpectedSig(shape) ==
  [methods |-> [i \in 1..Len(shape.methods) |->
                  [name |-> shape.methods[i].name, ins |-> InSig(shape.methods[i]), outs |-> OutSig(shape.methods[i])]],
   props   |-> [i \in 1..Len(shape.props) |-> [name |-> shape.props[i].name, ty |-> PropSig(shape.props[i])]],
   signals |-> [i \in 1..Len(shape.signals) |-> [name |-> shape.signals[i].name, args |-> SignalSig(shape.signals[i])]]]

(* ---- canonical form of abstract values for comparison: dictionaries are maps ---- *)
RECURSIVE Canon(_, _)
Canon(T, v) ==
  CASE T.k = "a" /\ T.e.k = "e" -> [d |-> {Canon(T.e, v.a[i]) : i \in 1..Len(v.a)}]
    [] T.k = "a" -> [a |-> [i \in 1..Len(v.a) |-> Canon(T.e, v.a[i])]]
    [] T.k = "r" -> [r |-> [i \in 1..Len(v.r) |-> Canon(T.f[i], v.r[i])]]
    [] T.k = "e" -> [r |-> <<Canon(T.key, v.r[1]), Canon(T.val, v.r[2])>>]
    [] T.k = "v" -> [t |-> v.t, v |-> Canon(v.t, v.v)]
    [] OTHER -> v
(* a typed value is [T |-> type, v |-> value]; sequences of them are argument lists *)
CanonTV(tv)   == [T |-> tv.T, v |-> Canon(tv.T, tv.v)]
CanonList(l)  == [i \in 1..Len(l) |-> CanonTV(l[i])]
TypesOf(l)    == [i \in 1..Len(l) |-> l[i].T]

(* ---- canonical sample values per type; n = 1, 2, 3 selects a variant ---- *)
Bytes(n) == CASE n = 1 -> <<97, 195, 169>>            \* "a" + e-acute
              [] n = 2 -> <<>>
              [] OTHER -> <<60, 38, 62, 34, 39, 45, 45>>  \* < & > " ' - -
RECURSIVE Val(_, _)
Val(T, n) ==
  CASE T.k = "u" -> [b |-> IF n = 1 THEN <<0, 0, 1, 44>> ELSE IF n = 2 THEN <<0, 0, 0, 0>> ELSE <<255, 255, 255, 254>>]
    [] T.k = "i" -> [b |-> IF n = 1 THEN <<0, 0, 1, 44>> ELSE <<255, 255, 255, 254>>]
    [] T.k = "s" -> [s |-> Bytes(n)]
    [] T.k = "o" -> [s |-> IF n = 1 THEN <<47, 97, 47, 98>> ELSE <<47>>]
    [] T.k = "v" -> IF n = 1 THEN [t |-> TU, v |-> Val(TU, 1)]
                    ELSE IF n = 2 THEN [t |-> TS, v |-> Val(TS, 3)]
                    ELSE [t |-> TUS, v |-> Val(TUS, 1)]
    [] T.k = "a" -> IF n = 1 THEN [a |-> <<Val(T.e, 1), Val(T.e, 3)>>]
                    ELSE IF n = 2 THEN [a |-> <<>>] ELSE [a |-> <<Val(T.e, 2)>>]
    [] T.k = "e" -> [r |-> <<Val(T.key, n), Val(T.val, n)>>]
    [] T.k = "r" -> [r |-> [i \in 1..Len(T.f) |-> Val(T.f[i], IF i % 2 = 1 THEN n ELSE (n % 3) + 1)]]
TVal(T, n) == [T |-> T, v |-> Val(T, n)]

(* a type with a different signature, used for wrongly typed arguments:    *)
(* Other(T) is far from T, Near(T) differs from T only in one leaf code.    *)
Other(T) == IF T.k = "s" THEN TU ELSE TS
Near(T) ==
  CASE T = TU   -> TI
    [] T = TS   -> TO
    [] T = TV   -> TS
    [] T = TUS  -> St(<<TS, TU>>)
    [] T = TAS  -> Arr(TU)
    [] T = TASV -> Dict(TS, TS)
    [] OTHER    -> TI

(* ---- the bounded space of definitions ---- *)
ArgTypes  == <<TU, TS, TUS, TAS, TASV, TV>>
PropTypes == <<TU, TS, TUS, TAS, TASV>>
Pairs(ts) == [n \in 1..(Len(ts) * Len(ts)) |-> <<ts[((n - 1) \div Len(ts)) + 1], ts[((n - 1) % Len(ts)) + 1]>>]
InLists ==
  <<<<>>>> \o [i \in 1..Len(ArgTypes) |-> <<ArgTypes[i]>>] \o Pairs(ArgTypes)
  \o << <<TU, TS, TU>>, <<TS, TASV, TV>>, <<TUS, TUS, TAS>>, <<TV, TU, TS>> >>
Outs ==
  << [kind |-> "unit", ts |-> <<>>] >>
  \o [i \in 1..5 |-> [kind |-> "single", ts |-> <<(<<TU, TS, TAS, TASV, TV>>)[i]>>]]
  \o [i \in 1..9 |-> [kind |-> "tuple", ts |-> Pairs(<<TU, TS, TAS>>)[i]]]
  \o [i \in 1..4 |-> [kind |-> "stuple", ts |-> Pairs(<<TU, TS>>)[i]]]
  \o [i \in 1..3 |-> [kind |-> "vec", ts |-> <<(<<TU, TS, TUS>>)[i]>>]]
  \o << [kind |-> "tuple", ts |-> <<TUS, TV>>], [kind |-> "tuple", ts |-> <<TASV, TU>>] >>
SignalArgLists ==
  << <<>>, <<TU>>, <<TS, TU>>, <<TUS>>, <<TAS, TASV>>, <<TV>>, <<TS>>, <<TU, TUS>>, <<TASV>>, <<TV, TS>> >>
Accesses == <<"read", "write", "readwrite">>
EmitModes == <<"true", "invalidates", "const", "false">>

(* doc comments: the last two contain text that is not allowed inside an XML comment *)
Docs ==
  << <<>>,
     <<"Plain text.">>,
     <<"a < b && c > d \"q\" 'r'">>,
     <<"First line.", "", "Third <line> & more">>,
     <<"see --force">>,
     <<"ends --> here">> >>
NDocsSafe == 4

MethodNames == << [rust |-> "ping", name |-> "Ping"], [rust |-> "get_status", name |-> "GetStatus"],
                  [rust |-> "frob_the_widget", name |-> "FrobTheWidget"], [rust |-> "x", name |-> "X"] >>
PropNames   == << [rust |-> "alpha", name |-> "Alpha"], [rust |-> "beta_gamma", name |-> "BetaGamma"],
                  [rust |-> "set_point", name |-> "SetPoint"], [rust |-> "eps_2", name |-> "Eps2"] >>
\* (a property whose name itself starts with "Set": its setter is set_set_point, and "Point" is not a property)
SignalNames == << [rust |-> "changed_state", name |-> "ChangedState"], [rust |-> "tick", name |-> "Tick"] >>

Pick(seq, n) == seq[(n % Len(seq)) + 1]
Bit(n, b) == (n \div b) % 2 = 1

(* Interfaces whose index is 1 mod 4 may carry the comment-breaking docs; all others use safe docs, *)
(* so that three quarters of the generated introspection documents stay comparable.                  *)
DocFor(j, n) == IF j % 4 = 1 THEN Pick(Docs, n) ELSE Docs[(n % NDocsSafe) + 1]

NMethods(j) == IF j % 8 = 6 THEN 2 ELSE 4
NProps(j)   == (j + 1) % 5
NSignals(j) == j % 3
(* running numbers of the methods / properties / signals over all interfaces (dense, so that the    *)
(* modular choices below cycle through their whole ranges whatever the counts per interface are)   *)
MethodNo(j, i) == 4 * j - 2 * ((j + 1) \div 8) + i
PropNo(j, i)   == 10 * (j \div 5) + (<<0, 1, 3, 6, 10>>)[(j % 5) + 1] + i
SignalNo(j, i) == 3 * (j \div 3) + (<<0, 0, 1>>)[(j % 3) + 1] + i

Method(j, i, seed) ==
  LET x == MethodNo(j, i)
      fl == x * 3 + (x \div 8) + seed IN
  [name |-> MethodNames[i + 1].name, rust |-> MethodNames[i + 1].rust,
   ins |-> Pick(InLists, x + seed),
   out |-> Pick(Outs, x * 7 + (x \div Len(InLists)) + seed),
   async |-> Bit(fl, 1), mut |-> Bit(fl, 2), fallible |-> Bit(fl, 4),
   doc |-> DocFor(j, x * 5 + seed)]

(* type index y mod 5 and (access, emits) index y mod 12: all 60 combinations in 60 consecutive properties *)
Prop(j, i, seed) ==
  LET y  == PropNo(j, i) + seed
      ae == y % 12 IN
  [name |-> PropNames[i + 1].name, rust |-> PropNames[i + 1].rust,
   ty |-> Pick(PropTypes, y),
   access |-> Accesses[(ae % 3) + 1], emits |-> EmitModes[(ae \div 3) + 1],
   async |-> Bit(y + (y \div 5), 1), mutset |-> Bit(y + (y \div 7), 2),
   doc |-> DocFor(j, y * 3 + 1)]

Signal(j, i, seed) ==
  LET z == SignalNo(j, i) + seed IN
  [name |-> SignalNames[i + 1].name, rust |-> SignalNames[i + 1].rust,
   args |-> Pick(SignalArgLists, z), doc |-> DocFor(j, z + 2)]

IfaceShape(j, seed) ==
  [id |-> j, name |-> "org.verif.I" \o ToString(j), rust |-> "I" \o ToString(j),
   methods |-> [i \in 1..NMethods(j) |-> Method(j, i - 1, seed)],
   props   |-> [i \in 1..NProps(j) |-> Prop(j, i - 1, seed)],
   signals |-> [i \in 1..NSignals(j) |-> Signal(j, i - 1, seed)]]

(* ---- registration trees: which interface lives at which object path ---- *)
(* Tree 0 is the canonical one (every interface once; nesting, shared paths); trees                  *)
(* t > 0 place pseudo-randomly chosen subsets on a small pool of paths.                             *)
(* Paths are sequences of segments (TLA+ strings cannot be split); PathStr gives the wire form.     *)
RECURSIVE PathStr(_)
PathStr(segs) == IF segs = <<>> THEN "/"
                 ELSE IF Len(segs) = 1 THEN "/" \o segs[1]
                 ELSE PathStr(SubSeq(segs, 1, Len(segs) - 1)) \o "/" \o segs[Len(segs)]
PathPool == << <<>>, <<"a">>, <<"a", "b">>, <<"a", "b", "c">>, <<"a", "d">>, <<"e">>, <<"e", "f", "g">>, <<"h">> >>
(* Interfaces with index 1 mod 4 (the ones that may carry comment-breaking docs, see DocFor) live on   *)
(* a branch of their own: zbus nests the documents of all descendants into a node's document, so an   *)
(* ill-formed document spoils those of all its ancestors.                                             *)
Tree0Segs(j) ==
  CASE j % 4 = 0 -> <<"verif", "o" \o ToString(j)>>
    [] j % 4 = 1 -> <<"quirk", "q" \o ToString(j)>>
    [] j % 4 = 2 -> <<"verif", "o" \o ToString(j - 2)>>
    [] OTHER     -> <<"verif", "o" \o ToString(j - 3), "sub", "n" \o ToString(j)>>
Reg(segs, k) == [path |-> PathStr(segs), segs |-> segs, iface |-> k]
(* Tree 1 is a *large* tree: each of the first (up to) 16 interfaces without comment-breaking docs    *)
(* is registered at 8 paths below /big, which makes the documents of / and /big several thousand       *)
(* elements long (zbus nests all descendants).                                                        *)
BigRegs(n) ==
  LET ks == SelectSeq([j \in 1..(IF n < 16 THEN n ELSE 16) |-> j - 1], LAMBDA k : k % 4 # 1) IN
  [i \in 1..(Len(ks) * 8) |->
     Reg(<<"big", "b" \o ToString(ks[((i - 1) \div 8) + 1]) \o "x" \o ToString((i - 1) % 8)>>, ks[((i - 1) \div 8) + 1])]
TreeRegs(t, n) ==
  IF t = 0 THEN [j \in 1..n |-> Reg(Tree0Segs(j - 1), j - 1)]
  ELSE IF t = 1 THEN BigRegs(n)
  ELSE LET chosen == SelectSeq([j \in 1..n |-> j - 1], LAMBDA k : (k + t) % 3 # 0 /\ (k * 5 + t) % 7 < 4 /\ (k % 4 # 1 \/ t % 4 = 0)) IN
       [i \in 1..Len(chosen) |-> Reg(Pick(PathPool, chosen[i] * t + chosen[i] + t), chosen[i])]

RECURSIVE SetToSeq(_)
SetToSeq(S) == IF S = {} THEN <<>> ELSE LET x == CHOOSE x \in S : TRUE IN <<x>> \o SetToSeq(S \ {x})

(* ---- queries on a program = <<shapes, registrations>> (both 1-based sequences) ---- *)
ShapeById(shapes, k) == shapes[CHOOSE i \in 1..Len(shapes) : shapes[i].id = k]
IsPrefix(p, q) == Len(p) <= Len(q) /\ SubSeq(q, 1, Len(p)) = p
(* every prefix of a registered path is a node of the object tree; the root always exists *)
Nodes(regs) == {<<>>} \cup UNION {{SubSeq(regs[i].segs, 1, n) : n \in 0..Len(regs[i].segs)} : i \in 1..Len(regs)}
NodeOfPath(regs, pathStr) == {p \in Nodes(regs) : PathStr(p) = pathStr}
IfacesAt(regs, segs) == {regs[i].iface : i \in {i \in 1..Len(regs) : regs[i].segs = segs}}
ChildrenOf(regs, segs) == {q[Len(segs) + 1] : q \in {q \in Nodes(regs) : IsPrefix(segs, q) /\ Len(q) > Len(segs)}}
=============================================================================
