---------------------------- MODULE GVariantWire ----------------------------
(***************************************************************************)
(* Reference definition of the GVariant serialisation format (normal form),  *)
(* written from the GVariant specification ("Serialisation Format").         *)
(* Same abstract model as DBusWire; additional type [k |-> "m", e |-> T]      *)
(* (maybe) with values [m |-> <<>>] / [m |-> <<V>>], and bool is ONE byte.    *)
(*                                                                         *)
(* A value's serialisation does not depend on where it sits, provided its    *)
(* start is aligned; GvMarshal adds the leading padding zvariant's Context    *)
(* position implies for a top-level value.                                   *)
(***************************************************************************)
EXTENDS Naturals, Sequences, SigGrammar

GPad(pos, al) == (al - (pos % al)) % al
GZeros(n)     == [i \in 1..n |-> 0]
GRev(s)       == [i \in 1..Len(s) |-> s[Len(s) + 1 - i]]
GOrd(bs, le)  == IF le THEN GRev(bs) ELSE bs

(* Named deviations (DESIGN.md 2.6): semantics switches that reproduce behaviour of the
   implementation which contradicts the GVariant specification.  The properties are stated and
   checked with devs = {}; the switches exist only so that a *listed* known finding can be told
   apart from any other disagreement.
     "bool_as_u32"               a boolean is written as 4 bytes with alignment 4 (D-Bus layout)
     "no_struct_trailing_pad"    a fixed-size struct / dict entry is not padded to its alignment
     "no_offsets_when_body_empty" framing offsets are dropped when the container's members are all empty *)
GFixedKinds == {"y","b","n","q","i","u","x","t","d","h"}
GBasicSizeD(k, devs) == CASE k = "b" -> (IF "bool_as_u32" \in devs THEN 4 ELSE 1)
                   [] k = "y" -> 1 [] k \in {"n","q"} -> 2 [] k \in {"i","u","h"} -> 4
                   [] k \in {"x","t","d"} -> 8
MaxOf(S) == CHOOSE m \in S : \A x \in S : x <= m

RECURSIVE GAlignD(_,_)
GAlignD(T, devs) ==
  CASE T.k \in GFixedKinds -> GBasicSizeD(T.k, devs)
    [] T.k \in {"s","o","g"} -> 1
    [] T.k = "v" -> 8
    [] T.k \in {"a","m"} -> GAlignD(T.e, devs)
    [] T.k = "e" -> MaxOf({GAlignD(T.key, devs), GAlignD(T.val, devs)})
    [] T.k = "r" -> MaxOf({GAlignD(T.f[i], devs) : i \in 1..Len(T.f)} \cup {1})

(* fixed size of a type, or 0 when the type is variable-sized *)
RECURSIVE GFixedD(_,_), GFixedSeqD(_,_,_,_)
\* end offset of a struct body laid out from `off` with members ts (all fixed), or 0 if a member is variable
GFixedSeqD(ts, off, al, devs) ==
  IF ts = <<>> THEN (IF off = 0 THEN 1
                     ELSE IF "no_struct_trailing_pad" \in devs THEN off ELSE off + GPad(off, al))
  ELSE LET s == GFixedD(Head(ts), devs) IN
       IF s = 0 THEN 0
       ELSE GFixedSeqD(Tail(ts), off + GPad(off, GAlignD(Head(ts), devs)) + s, al, devs)
GFixedD(T, devs) ==
  CASE T.k \in GFixedKinds -> GBasicSizeD(T.k, devs)
    [] T.k \in {"s","o","g","v","a","m"} -> 0
    [] T.k = "e" -> GFixedSeqD(<<T.key, T.val>>, 0, GAlignD(T, devs), devs)
    [] T.k = "r" -> GFixedSeqD(T.f, 0, GAlignD(T, devs), devs)
IsFixedD(T, devs) == GFixedD(T, devs) # 0

(* framing-offset width for a container whose content (without offsets) is `body` bytes and that needs n offsets *)
OffsetSize(body, n) ==
  IF n = 0 THEN 0
  ELSE IF body + n <= 255 THEN 1
  ELSE IF body + 2 * n <= 65535 THEN 2
  ELSE 4
\* one framing offset, always little-endian
OffBytes(x, sz) ==
  CASE sz = 1 -> <<x % 256>>
    [] sz = 2 -> <<x % 256, (x \div 256) % 256>>
    [] sz = 4 -> <<x % 256, (x \div 256) % 256, (x \div 65536) % 256, (x \div 16777216) % 256>>
    [] OTHER -> <<>>
RECURSIVE OffSeq(_,_)
OffSeq(offs, sz) == IF offs = <<>> THEN <<>> ELSE OffBytes(Head(offs), sz) \o OffSeq(Tail(offs), sz)
\* the framing offsets of a container with content `body`
Offsets(body, ends, devs) ==
  IF "no_offsets_when_body_empty" \in devs /\ body = <<>> THEN <<>>
  ELSE OffSeq(ends, OffsetSize(Len(body), Len(ends)))

RECURSIVE GVD(_,_,_,_), GVArrD(_,_,_,_,_,_), GVStructD(_,_,_,_,_,_)
(* array elements, each aligned: returns [body, ends] (ends = end offset of every element) *)
GVArrD(T, vs, le, body, ends, devs) ==
  IF vs = <<>> THEN [body |-> body, ends |-> ends]
  ELSE LET b1 == body \o GZeros(GPad(Len(body), GAlignD(T, devs))) \o GVD(T, Head(vs), le, devs)
       IN  GVArrD(T, Tail(vs), le, b1, Append(ends, Len(b1)), devs)
(* struct members: returns [body, ends]; ends = end offsets of the variable-size members except the
   last member, in reverse order *)
GVStructD(ts, vs, le, body, ends, devs) ==
  IF ts = <<>> THEN [body |-> body, ends |-> ends]
  ELSE LET b1 == body \o GZeros(GPad(Len(body), GAlignD(Head(ts), devs))) \o GVD(Head(ts), Head(vs), le, devs)
           e1 == IF ~IsFixedD(Head(ts), devs) /\ Len(ts) > 1 THEN <<Len(b1)>> \o ends ELSE ends
       IN  GVStructD(Tail(ts), Tail(vs), le, b1, e1, devs)
GVD(T, v, le, devs) ==
  CASE T.k = "h" -> GOrd(<<(v.h \div 16777216) % 256, (v.h \div 65536) % 256, (v.h \div 256) % 256, v.h % 256>>, le)
    [] T.k = "b" -> IF "bool_as_u32" \in devs THEN GOrd(v.b, le) ELSE <<v.b[4]>>
    [] T.k \in GFixedKinds \ {"h","b"} -> GOrd(v.b, le)
    [] T.k \in {"s","o","g"} -> v.s \o <<0>>
    [] T.k = "v" -> GVD(v.t, v.v, le, devs) \o <<0>> \o Fmt(v.t)
    [] T.k = "m" -> IF v.m = <<>> THEN <<>>
                    ELSE IF IsFixedD(T.e, devs) THEN GVD(T.e, v.m[1], le, devs)
                    ELSE GVD(T.e, v.m[1], le, devs) \o <<0>>
    [] T.k = "a" -> LET r == GVArrD(T.e, v.a, le, <<>>, <<>>, devs) IN
                    IF IsFixedD(T.e, devs) THEN r.body ELSE r.body \o Offsets(r.body, r.ends, devs)
    [] T.k \in {"r","e"} ->
         LET ts == IF T.k = "e" THEN <<T.key, T.val>> ELSE T.f
             r  == GVStructD(ts, v.r, le, <<>>, <<>>, devs)
         IN IF IsFixedD(T, devs)
            THEN (IF "no_struct_trailing_pad" \in devs THEN r.body
                  ELSE r.body \o GZeros(GPad(Len(r.body), GAlignD(T, devs))))
            ELSE r.body \o Offsets(r.body, r.ends, devs)

GvMarshalD(T, v, pos, le, devs) == GZeros(GPad(pos, GAlignD(T, devs))) \o GVD(T, v, le, devs)

(* The specification proper: no deviations. *)
GAlign(T)  == GAlignD(T, {})
GFixed(T)  == GFixedD(T, {})
IsFixed(T) == IsFixedD(T, {})
GvMarshal(T, v, pos, le) == GvMarshalD(T, v, pos, le, {})
AllGvDevs == {"bool_as_u32", "no_struct_trailing_pad", "no_offsets_when_body_empty"}
=============================================================================
