------------------------------- MODULE Writer -------------------------------
(***************************************************************************)
(* The send path of zbus::Connection (property C18): several tasks send       *)
(* messages through one socket whose sendmsg may accept only part of the       *)
(* buffer.  A sender takes the write lock, writes chunk after chunk (the file   *)
(* descriptors go with the first chunk only), and releases the lock when the    *)
(* whole message is out.  LockPerChunk = TRUE is the mutant that releases the    *)
(* lock between chunks; FdsEveryChunk = TRUE the mutant that re-sends the fds.   *)
(***************************************************************************)
EXTENDS Naturals, Sequences, FiniteSets
CONSTANTS Tasks, NMsgs, MsgLen, HasFds, LockPerChunk, FdsEveryChunk
\* task t sends messages 1..NMsgs, each MsgLen bytes; HasFds \subseteq Tasks: their messages carry fds

VARIABLES lock,   \* 0 or the task holding the write lock
          k,      \* [Tasks -> 1..NMsgs+1] message being sent
          pos,    \* [Tasks -> 0..MsgLen] bytes of it already written
          wire,   \* sequence of <<task, msg, byte index>> as seen by the peer
          fdsAt   \* set of <<task, msg, byte index of the first byte of the chunk that carried fds>>
wvars == <<lock, k, pos, wire, fdsAt>>

WInit == lock = 0 /\ k = [t \in Tasks |-> 1] /\ pos = [t \in Tasks |-> 0] /\ wire = <<>> /\ fdsAt = {}

Acquire(t) == /\ lock = 0 /\ k[t] <= NMsgs
              /\ lock' = t /\ UNCHANGED <<k, pos, wire, fdsAt>>
\* one sendmsg call accepting n bytes
Chunk(t, n) ==
  /\ lock = t /\ n \in 1..(MsgLen - pos[t])
  /\ wire' = wire \o [i \in 1..n |-> <<t, k[t], pos[t] + i>>]
  /\ fdsAt' = IF t \in HasFds /\ (pos[t] = 0 \/ FdsEveryChunk) THEN fdsAt \cup {<<t, k[t], pos[t] + 1>>} ELSE fdsAt
  /\ IF pos[t] + n = MsgLen
     THEN pos' = [pos EXCEPT ![t] = 0] /\ k' = [k EXCEPT ![t] = @ + 1] /\ lock' = 0
     ELSE pos' = [pos EXCEPT ![t] = @ + n] /\ UNCHANGED k /\ lock' = IF LockPerChunk THEN 0 ELSE t
WNext == \E t \in Tasks : Acquire(t) \/ \E n \in 1..MsgLen : Chunk(t, n)
WSpec == WInit /\ [][WNext]_wvars

\* every message arrives whole and unmixed
WireWhole == \A j \in 1..Len(wire) : wire[j][3] > 1 => (j > 1 /\ wire[j-1] = <<wire[j][1], wire[j][2], wire[j][3] - 1>>)
\* fds travel with the first byte of their message, once
FdsWithFirstBytes == \A f \in fdsAt : f[3] = 1
\* messages of one task arrive in the order sent
PerTaskOrder == \A i, j \in 1..Len(wire) : (i < j /\ wire[i][1] = wire[j][1]) => wire[i][2] <= wire[j][2]
Quiet == (\A t \in Tasks : k[t] = NMsgs + 1) => Len(wire) = Cardinality(Tasks) * NMsgs * MsgLen
=============================================================================
