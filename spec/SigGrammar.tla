---------------------------- MODULE SigGrammar ----------------------------
(***************************************************************************)
(* The D-Bus type-signature grammar, written from the D-Bus specification  *)
(* ("Type System", "Valid Signatures") and not from zvariant's parser.      *)
(*                                                                         *)
(* A signature is a byte sequence.  It is valid iff it is a sequence of     *)
(* zero or more single complete types, at most 255 bytes long, with at      *)
(* most 32 nested arrays and at most 32 nested structs.  Dict entries occur *)
(* only as array element types, have exactly two members, and the first     *)
(* (the key) is a basic type.  Structs are non-empty.  With gv = TRUE the   *)
(* GVariant "maybe" type constructor 'm' is accepted as well.               *)
(*                                                                         *)
(* Type trees (the abstract model shared by all wire modules):             *)
(*   [k |-> c]                         c in "y b n q i u x t d s o g h v"  *)
(*   [k |-> "a", e |-> T]              array                                *)
(*   [k |-> "r", f |-> <<T, ...>>]     struct                               *)
(*   [k |-> "e", key |-> T, val |-> T] dict entry (only as array element)  *)
(*   [k |-> "m", e |-> T]              maybe (GVariant only)               *)
(***************************************************************************)
EXTENDS Naturals, Sequences

MaxSigLen    == 255
MaxArrayNest == 32
MaxStructNest == 32

\* ASCII codes of the type characters
BasicBytes == {121, 98, 110, 113, 105, 117, 120, 116, 100, 115, 111, 103, 104}
KindOfByte(b) ==
  CASE b = 121 -> "y" [] b = 98  -> "b" [] b = 110 -> "n" [] b = 113 -> "q"
    [] b = 105 -> "i" [] b = 117 -> "u" [] b = 120 -> "x" [] b = 116 -> "t"
    [] b = 100 -> "d" [] b = 115 -> "s" [] b = 111 -> "o" [] b = 103 -> "g"
    [] b = 104 -> "h" [] b = 118 -> "v"
ByteOfKind(k) ==
  CASE k = "y" -> 121 [] k = "b" -> 98  [] k = "n" -> 110 [] k = "q" -> 113
    [] k = "i" -> 105 [] k = "u" -> 117 [] k = "x" -> 120 [] k = "t" -> 116
    [] k = "d" -> 100 [] k = "s" -> 115 [] k = "o" -> 111 [] k = "g" -> 103
    [] k = "h" -> 104 [] k = "v" -> 118
BasicKinds == {"y","b","n","q","i","u","x","t","d","s","o","g","h"}

PFail == [ok |-> FALSE]

(* One(s, i, ad, sd, gv): parse one single complete type starting at s[i];
   ad / sd are the numbers of enclosing arrays / structs. *)
RECURSIVE One(_,_,_,_,_), Many(_,_,_,_,_,_)
One(s, i, ad, sd, gv) ==
  IF i > Len(s) THEN PFail
  ELSE LET b == s[i] IN
    IF b \in BasicBytes \/ b = 118
      THEN [ok |-> TRUE, t |-> [k |-> KindOfByte(b)], next |-> i + 1]
    ELSE IF b = 97 THEN                                    \* 'a'
      IF ad + 1 > MaxArrayNest THEN PFail
      ELSE IF i + 1 <= Len(s) /\ s[i+1] = 123 THEN         \* "a{"
        IF i + 2 > Len(s) \/ s[i+2] \notin BasicBytes THEN PFail
        ELSE LET val == One(s, i + 3, ad + 1, sd, gv) IN
          IF ~val.ok THEN PFail
          ELSE IF val.next > Len(s) \/ s[val.next] # 125 THEN PFail
          ELSE [ok |-> TRUE,
                t  |-> [k |-> "a", e |-> [k |-> "e", key |-> [k |-> KindOfByte(s[i+2])], val |-> val.t]],
                next |-> val.next + 1]
      ELSE LET el == One(s, i + 1, ad + 1, sd, gv) IN
        IF ~el.ok THEN PFail
        ELSE [ok |-> TRUE, t |-> [k |-> "a", e |-> el.t], next |-> el.next]
    ELSE IF b = 40 THEN                                    \* '('
      IF sd + 1 > MaxStructNest THEN PFail
      ELSE LET m == Many(s, i + 1, ad, sd + 1, gv, <<>>) IN
        IF ~m.ok THEN PFail
        ELSE IF Len(m.ts) = 0 \/ m.next > Len(s) \/ s[m.next] # 41 THEN PFail
        ELSE [ok |-> TRUE, t |-> [k |-> "r", f |-> m.ts], next |-> m.next + 1]
    ELSE IF gv /\ b = 109 THEN                             \* 'm'
      LET el == One(s, i + 1, ad, sd, gv) IN
        IF ~el.ok THEN PFail
        ELSE [ok |-> TRUE, t |-> [k |-> "m", e |-> el.t], next |-> el.next]
    ELSE PFail

(* Many: zero or more complete types up to end of input or a closing ')' / '}' *)
Many(s, i, ad, sd, gv, acc) ==
  IF i > Len(s) \/ s[i] = 41 \/ s[i] = 125 THEN [ok |-> TRUE, ts |-> acc, next |-> i]
  ELSE LET o == One(s, i, ad, sd, gv) IN
    IF ~o.ok THEN PFail ELSE Many(s, o.next, ad, sd, gv, Append(acc, o.t))

(* Parse a whole signature: [ok |-> TRUE, ts |-> <<types>>] or PFail *)
ParseSig(s, gv) ==
  IF Len(s) > MaxSigLen THEN PFail
  ELSE LET m == Many(s, 1, 0, 0, gv, <<>>) IN
    IF m.ok /\ m.next = Len(s) + 1 THEN [ok |-> TRUE, ts |-> m.ts] ELSE PFail

ValidSig(s, gv) == ParseSig(s, gv).ok
\* exactly one complete type (what a variant's signature must be)
SingleCompleteType(s, gv) == LET p == ParseSig(s, gv) IN p.ok /\ Len(p.ts) = 1

(* Formatting a type tree back to bytes *)
RECURSIVE Fmt(_), FmtSeq(_)
Fmt(T) ==
  CASE T.k = "a" -> <<97>> \o Fmt(T.e)
    [] T.k = "e" -> <<123>> \o Fmt(T.key) \o Fmt(T.val) \o <<125>>
    [] T.k = "r" -> <<40>> \o FmtSeq(T.f) \o <<41>>
    [] T.k = "m" -> <<109>> \o Fmt(T.e)
    [] OTHER     -> <<ByteOfKind(T.k)>>
FmtSeq(ts) == IF ts = <<>> THEN <<>> ELSE Fmt(Head(ts)) \o FmtSeq(Tail(ts))

(* The string zvariant documents for a parsed multi-type signature: a signature
   of two or more complete types is represented as a structure, whose display
   form carries outer parentheses that the "no parens" form strips. *)
DisplayOf(ts)  == IF Len(ts) = 1 THEN Fmt(ts[1]) ELSE IF Len(ts) = 0 THEN <<>> ELSE <<40>> \o FmtSeq(ts) \o <<41>>
=============================================================================
