----------------------------- MODULE ValueLaws -----------------------------
(***************************************************************************)
(* The laws of dynamic values (property C08), stated over an OBSERVATION    *)
(* TABLE: a record T describing n values v[1..n] by what the API answered.  *)
(*                                                                         *)
(*   T.n            number of values                                        *)
(*   T.eq[i][j]     v[i] == v[j]                 1 true, 0 false (2 panic)  *)
(*   T.cmp[i][j]    Ord::cmp(v[i], v[j])         0 Less, 1 Equal, 2 Greater *)
(*                                               (4 panic)                  *)
(*   T.hash[i]      class of the hash of v[i]    (same class = same hash)   *)
(*   T.vsig[i]      v[i].value_signature()       T.esig[i] the signature in *)
(*                                               v[i]'s encoding as variant *)
(*   T.clone[i], T.owned[i], T.ovrt[i], T.into[i]                           *)
(*                  <<succeeded, equal to v[i], same signature>> for        *)
(*                  try_clone, try_to_owned, the OwnedValue round trip and  *)
(*                  try_into_owned                                          *)
(*   T.fd[i]        1 iff v[i] contains a file descriptor                   *)
(*   T.std[k].ok    1 iff the k-th  T -> Value -> T  conversion of a std    *)
(*                  type returned the original                              *)
(*   T.unbuildable  well-formed values whose construction failed            *)
(*                                                                         *)
(* Every law is given as the SET OF ITS COUNTEREXAMPLES in the table (index *)
(* tuples); the law holds on the table iff the set is empty.  The property  *)
(* is the conjunction (Holds).  Laws quantify over all values of the table; *)
(* which values a table contains is the harness's (seeded) choice.          *)
(***************************************************************************)
EXTENDS Naturals, Sequences, FiniteSets

Idx(T) == 1..T.n

(* --- equality is an equivalence ------------------------------------------ *)
EqReflBad(T)  == {<<i>> : i \in {x \in Idx(T) : T.eq[x][x] # 1}}
EqSymBad(T)   == {w \in Idx(T) \X Idx(T) : T.eq[w[1]][w[2]] # T.eq[w[2]][w[1]]}
EqTransBad(T) == {w \in Idx(T) \X Idx(T) \X Idx(T) :
                    T.eq[w[1]][w[2]] = 1 /\ T.eq[w[2]][w[3]] = 1 /\ T.eq[w[1]][w[3]] # 1}

(* --- ordering is a total order consistent with equality ------------------- *)
Le(T, i, j) == T.cmp[i][j] \in {0, 1}
\* defined for every pair
CmpTotalBad(T)   == {w \in Idx(T) \X Idx(T) : T.cmp[w[1]][w[2]] \notin {0, 1, 2}}
\* cmp(a, b) is the reverse of cmp(b, a)   (Less + Greater = Equal + Equal = 2)
CmpAntisymBad(T) == {w \in Idx(T) \X Idx(T) :
                       T.cmp[w[1]][w[2]] \in {0, 1, 2} /\ T.cmp[w[2]][w[1]] \in {0, 1, 2}
                       /\ T.cmp[w[1]][w[2]] + T.cmp[w[2]][w[1]] # 2}
CmpTransBad(T)   == {w \in Idx(T) \X Idx(T) \X Idx(T) :
                       Le(T, w[1], w[2]) /\ Le(T, w[2], w[3]) /\ ~Le(T, w[1], w[3])}
\* cmp = Equal exactly for equal values
CmpEqBad(T)      == {w \in Idx(T) \X Idx(T) : (T.cmp[w[1]][w[2]] = 1) # (T.eq[w[1]][w[2]] = 1)}

(* --- equal values hash equally (this is where +0.0 / -0.0 matter) --------- *)
HashBad(T) == {w \in Idx(T) \X Idx(T) : T.eq[w[1]][w[2]] = 1 /\ T.hash[w[1]] # T.hash[w[2]]}

(* --- the reported signature is the one used when the value is encoded ----- *)
SigBad(T) == {<<i>> : i \in {x \in Idx(T) : T.vsig[x] # T.esig[x]}}

(* --- cloning / converting to owned form preserves equality and signature --
   A file descriptor is a handle: an owned copy is a different descriptor number for the same open
   file and zvariant compares descriptors by number, so equality of the copy is only demanded for
   values without descriptors; success and the signature are demanded for all. *)
CopyBad(T, field) ==
  {<<i>> : i \in {x \in Idx(T) : \/ field[x][1] # 1
                                 \/ field[x][3] # 1
                                 \/ (T.fd[x] = 0 /\ field[x][2] # 1)}}

(* --- converting a value back to the Rust type it was built from ----------- *)
StdBad(T) == {<<k>> : k \in {x \in 1..Len(T.std) : T.std[x].ok # 1}}

(* --- every well-formed value of the catalogue can be built at all ---------- *)
BuildBad(T) == {<<k>> : k \in 1..Len(T.unbuildable)}

OrderLawNames == {"eq-reflexive", "eq-symmetric", "eq-transitive", "cmp-total", "cmp-antisymmetric",
                  "cmp-transitive", "cmp-eq-consistent", "hash-eq-consistent"}
OtherLawNames == {"signature-encoded", "clone-preserves", "to-owned-preserves", "owned-value-roundtrip",
                  "into-owned-preserves", "std-roundtrip", "constructible"}

Bad(T, law) ==
  CASE law = "eq-reflexive"         -> EqReflBad(T)
    [] law = "eq-symmetric"         -> EqSymBad(T)
    [] law = "eq-transitive"        -> EqTransBad(T)
    [] law = "cmp-total"            -> CmpTotalBad(T)
    [] law = "cmp-antisymmetric"    -> CmpAntisymBad(T)
    [] law = "cmp-transitive"       -> CmpTransBad(T)
    [] law = "cmp-eq-consistent"    -> CmpEqBad(T)
    [] law = "hash-eq-consistent"   -> HashBad(T)
    [] law = "signature-encoded"    -> SigBad(T)
    [] law = "clone-preserves"      -> CopyBad(T, T.clone)
    [] law = "to-owned-preserves"   -> CopyBad(T, T.owned)
    [] law = "owned-value-roundtrip" -> CopyBad(T, T.ovrt)
    [] law = "into-owned-preserves" -> CopyBad(T, T.into)
    [] law = "std-roundtrip"        -> StdBad(T)
    [] law = "constructible"        -> BuildBad(T)

OrderLawsHold(T) == \A law \in OrderLawNames : Bad(T, law) = {}
Holds(T) == \A law \in OrderLawNames \cup OtherLawNames : Bad(T, law) = {}

(* What the order laws amount to: the table is the one a RANKING induces -- values are equal iff
   they have the same rank, ordered by rank, and hashes are a function of the rank.  (Checked both
   ways on small abstract tables by MC_ValueLaws.) *)
InducedBy(T, r) ==
  /\ \A i, j \in Idx(T) : T.eq[i][j] = (IF r[i] = r[j] THEN 1 ELSE 0)
  /\ \A i, j \in Idx(T) : T.cmp[i][j] = (IF r[i] < r[j] THEN 0 ELSE IF r[i] = r[j] THEN 1 ELSE 2)
  /\ \A i, j \in Idx(T) : r[i] = r[j] => T.hash[i] = T.hash[j]
=============================================================================
