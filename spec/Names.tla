------------------------------- MODULE Names -------------------------------
(***************************************************************************)
(* The validated string types of D-Bus (property C10), one predicate per    *)
(* type over byte sequences, written from the text of the D-Bus             *)
(* specification ("Valid Object Paths", "Valid Names": interface names, bus *)
(* names, member names, error names; "Server Addresses": the GUID) and not  *)
(* from the winnow parsers of zbus_names / zvariant.                        *)
(*                                                                         *)
(* Common shape ("Elements"): a string is cut into elements by a separator  *)
(* byte; the rules constrain                                                *)
(*   - the characters an element may contain,                               *)
(*   - the characters an element may begin with,                            *)
(*   - that no element is empty,                                            *)
(*   - the minimal number of elements,                                      *)
(*   - the maximal total length (255 for every kind of name).               *)
(* All predicates are index quantifiers over the byte sequence (no          *)
(* recursion), so that TLC evaluates them in time linear in the length.     *)
(***************************************************************************)
EXTENDS Naturals, Sequences, FiniteSets

MaxNameLen == 255

Dot == 46  Colon == 58  Slash == 47  Underscore == 95  Hyphen == 45

IsDigit(b) == b >= 48 /\ b <= 57
IsAlpha(b) == (b >= 65 /\ b <= 90) \/ (b >= 97 /\ b <= 122)
\* "[A-Z][a-z][0-9]_"
IsWord(b)  == IsAlpha(b) \/ IsDigit(b) \/ b = Underscore
\* "[A-Z][a-z][0-9]_-"  (bus names only)
IsBusChar(b) == IsWord(b) \/ b = Hyphen

(* s[from..Len(s)] is a sequence of at least `min` non-empty elements separated
   by the byte `sep`, every element made of CharOk bytes and starting with a
   FirstOk byte.  (An element starts at `from` and after every separator; no
   element is empty iff the part neither starts nor ends with a separator and no
   two separators are adjacent.) *)
Elements(s, from, sep, CharOk(_), FirstOk(_), min) ==
  LET n == Len(s)
      IsStart(i) == i = from \/ s[i - 1] = sep IN
  /\ from <= n                                                       \* the part is not empty
  /\ s[from] # sep /\ s[n] # sep                                     \* no empty first / last element
  /\ \A i \in from..n :
       IF s[i] = sep THEN (i < n => s[i + 1] # sep)                  \* no empty element in between
       ELSE CharOk(s[i]) /\ (IsStart(i) => FirstOk(s[i]))
  /\ Cardinality({i \in from..n : s[i] = sep}) + 1 >= min

NotDigit(b) == ~IsDigit(b)
AnyByte(b) == TRUE

(* --- Interface names: "composed of 2 or more elements separated by a period; all elements must
   contain at least one character; each element must only contain [A-Z][a-z][0-9]_ and must not
   begin with a digit; must not exceed the maximum name length". *)
InterfaceNameOk(s) == Len(s) <= MaxNameLen /\ Elements(s, 1, Dot, IsWord, NotDigit, 2)

(* --- Error names: "have the same restrictions as interface names". *)
ErrorNameOk(s) == InterfaceNameOk(s)

(* --- Member names: "must only contain [A-Z][a-z][0-9]_ and may not begin with a digit; must not
   contain the '.' character; must not exceed the maximum name length; must be at least 1 byte". *)
MemberNameOk(s) ==
  /\ Len(s) >= 1 /\ Len(s) <= MaxNameLen
  /\ \A i \in 1..Len(s) : IsWord(s[i])
  /\ ~IsDigit(s[1])

(* --- Bus names.  "Bus names that start with a colon are unique connection names; other bus names
   are well-known bus names.  Composed of 2 or more elements separated by a period; all elements
   must contain at least one character; each element must only contain [A-Z][a-z][0-9]_-; only
   elements that are part of a unique connection name may begin with a digit; must not exceed the
   maximum name length." *)
PeerUniqueNameOk(s) ==
  /\ Len(s) <= MaxNameLen
  /\ Len(s) >= 1 /\ s[1] = Colon
  /\ Elements(s, 2, Dot, IsBusChar, AnyByte, 2)

WellKnownNameOk(s) == Len(s) <= MaxNameLen /\ Elements(s, 1, Dot, IsBusChar, NotDigit, 2)

(* The message bus itself is addressed, and signs its messages, as "org.freedesktop.DBus"; zbus
   represents the sender of a message as a unique name and therefore documents this one string as a
   unique name too (zbus_names::UniqueName).  It is the only string that is both. *)
BusDriverName == <<111,114,103,46,102,114,101,101,100,101,115,107,116,111,112,46,68,66,117,115>>
UniqueNameOk(s) == PeerUniqueNameOk(s) \/ s = BusDriverName

BusNameOk(s) == UniqueNameOk(s) \/ WellKnownNameOk(s)

(* --- Property names.  The D-Bus specification gives property names no grammar of their own (they
   are D-Bus strings; it only recommends member-name syntax); zbus_names::PropertyName documents
   "at least 1 and at most 255 bytes".  The inputs are valid UTF-8 by construction (&str). *)
PropertyNameOk(s) == Len(s) >= 1 /\ Len(s) <= MaxNameLen

(* --- Object paths: "begin with '/' and consist of elements separated by '/'; each element must
   only contain [A-Z][a-z][0-9]_; no element may be the empty string; multiple '/' may not occur in
   sequence; a trailing '/' is not allowed unless the path is the root path (a single '/')".
   No length limit is stated. *)
ObjectPathOk(s) ==
  /\ Len(s) >= 1 /\ s[1] = Slash
  /\ (Len(s) = 1 \/ Elements(s, 2, Slash, IsWord, AnyByte, 1))

(* --- Server GUID: "The GUID is 16 bytes, hex-encoded": exactly 32 hexadecimal digits. *)
IsHex(b) == IsDigit(b) \/ (b >= 97 /\ b <= 102) \/ (b >= 65 /\ b <= 70)
GuidOk(s) == Len(s) = 32 /\ \A i \in 1..32 : IsHex(s[i])

Kinds == {"bus", "unique", "wellknown", "interface", "member", "error", "property", "objpath", "guid"}
Valid(kind, s) ==
  CASE kind = "bus"       -> BusNameOk(s)
    [] kind = "unique"    -> UniqueNameOk(s)
    [] kind = "wellknown" -> WellKnownNameOk(s)
    [] kind = "interface" -> InterfaceNameOk(s)
    [] kind = "member"    -> MemberNameOk(s)
    [] kind = "error"     -> ErrorNameOk(s)
    [] kind = "property"  -> PropertyNameOk(s)
    [] kind = "objpath"   -> ObjectPathOk(s)
    [] kind = "guid"      -> GuidOk(s)
=============================================================================
