------------------------------ MODULE Framing ------------------------------
(***************************************************************************)
(* C14 -- the receiving side frames the byte stream into exactly the       *)
(* messages that were sent.                                                *)
(*                                                                         *)
(* Environment: the peer sends `sent` = a sequence of messages; the stream *)
(* is their concatenation, optionally followed by a `tail` (the fixed      *)
(* header of a message that declares more than the allowed total size, or  *)
(* a message that never completes).  File descriptors travel attached to a *)
(* byte of the stream (SCM_RIGHTS semantics: a read that returns that byte *)
(* returns those fds).  The transport hands the stream out in arbitrary    *)
(* pieces; the handshake that ran before may have read past its last line, *)
(* those bytes and fds are the *leftovers* the reader must start with.     *)
(*                                                                         *)
(* Reader: one action per step of `ReadHalf::receive_message` (zbus/src/   *)
(* connection/socket/mod.rs) and the `seq` bookkeeping of SocketReader.    *)
(* The reader only knows HDR (size of the fixed header), Total(hdr) (the   *)
(* total length a complete fixed header declares), TooLarge(hdr), and the  *)
(* number of fds the message declares.  It never looks at `sent`.          *)
(*                                                                         *)
(* `devs` names known deviations of the implementation (off by default):   *)
(*   "leftfds_zero_pending": while handshake-leftover fds are pending, a   *)
(*      message that needs none of them is refused ("Missing file          *)
(*      descriptors") although the leftover fds belong to a later message. *)
(***************************************************************************)
EXTENDS Naturals, Sequences, FiniteSets

CONSTANTS HDR,           \* length of the fixed header carrying the length fields
          Total(_),      \* total message length declared by a complete fixed header
          TooLarge(_),   \* TRUE iff the declared total exceeds the maximum message size
          Skip(_),       \* TRUE iff the fixed header has a message type unknown to this version: the message is read
                         \* completely and dropped with the fds that travelled with it (C13); `sent` does not list it
          devs           \* set of enabled deviations

VARIABLES
  \* ---- environment (fixed during a scenario)
  sent,      \* sequence of [bytes |-> <<..>>, fds |-> <<fd ids>>]: the valid messages sent, in order
  stream,    \* all bytes after the handshake lines: concatenation of sent[i].bytes, then the tail
  att,       \* sequence of [pos |-> stream index, ids |-> <<fd ids>>], increasing pos
  eof,       \* the peer closes the stream after the last byte
  \* ---- transport / handshake
  rd,        \* number of stream bytes handed out by the transport so far
  hsOver,    \* number of stream bytes the handshake over-read (= length of the byte leftovers)
  left,      \* already_received_bytes
  leftFds,   \* already_received_fds
  \* ---- reader
  phase,     \* "hs" | "hdr" | "hdrRecv" | "restLeft" | "rest" | "deliver" | "stopped"
  buf,       \* bytes of the message being assembled
  gotFds,    \* fds received by recvmsg while assembling this message
  msgFds,    \* fds assigned to the message about to be delivered
  total,     \* declared total length of the message being assembled
  base,      \* number of stream bytes belonging to messages delivered so far
  seq,       \* prev_seq of the socket reader
  out,       \* delivered messages: [bytes, fds, seq]
  status     \* "run" | "toolarge" | "eof" | "fdserr"

env  == <<sent, stream, att, eof>>
rvars == <<rd, hsOver, left, leftFds, phase, buf, gotFds, msgFds, total, base, seq, out, status>>
vars == <<env, rvars>>

Min(a, b) == IF a < b THEN a ELSE b
Max(a, b) == IF a > b THEN a ELSE b

RECURSIVE Flat(_)
Flat(ss) == IF ss = <<>> THEN <<>> ELSE Head(ss) \o Flat(Tail(ss))

\* fds attached to stream bytes a..b, in stream order
FdsIn(a, b) ==
  LET sel == SelectSeq(att, LAMBDA r : r.pos >= a /\ r.pos <= b)
  IN Flat([i \in 1..Len(sel) |-> sel[i].ids])

Slice(s, a, b) == SubSeq(s, a, b)
Drop(s, n) == SubSeq(s, n + 1, Len(s))

-----------------------------------------------------------------------------
(* Handshake before the message stream: it reads with a large buffer and may *)
(* consume the first bytes (and fds) of the message stream.                  *)
HsOverRead(n) ==
  /\ phase = "hs" /\ n \in 1..(Len(stream) - rd)
  /\ rd' = rd + n
  /\ leftFds' = leftFds \o FdsIn(rd + 1, rd + n)
  /\ UNCHANGED <<env, hsOver, left, phase, buf, gotFds, msgFds, total, base, seq, out, status>>

HsDone ==
  /\ phase = "hs"
  /\ left' = Slice(stream, 1, rd) /\ hsOver' = rd
  /\ phase' = "hdr"
  /\ UNCHANGED <<env, rd, leftFds, buf, gotFds, msgFds, total, base, seq, out, status>>

(* --- receive_message: the fixed header, first from the leftovers ... *)
TakeLeftHeader ==
  /\ phase = "hdr"
  /\ IF Len(left) >= HDR
       THEN buf' = Slice(left, 1, HDR) /\ left' = Drop(left, HDR)
       ELSE buf' = left /\ left' = <<>>
  /\ gotFds' = <<>> /\ msgFds' = <<>> /\ total' = 0
  /\ phase' = "hdrRecv"
  /\ UNCHANGED <<env, rd, hsOver, leftFds, base, seq, out, status>>

(* ... then from the socket; a read returns at most what is still missing *)
RecvHeader(n) ==
  /\ phase = "hdrRecv" /\ Len(buf) < HDR
  /\ n \in 1..Min(HDR - Len(buf), Len(stream) - rd)
  /\ buf' = buf \o Slice(stream, rd + 1, rd + n)
  /\ gotFds' = gotFds \o FdsIn(rd + 1, rd + n)
  /\ rd' = rd + n
  /\ UNCHANGED <<env, hsOver, left, leftFds, phase, msgFds, total, base, seq, out, status>>

(* header complete: compute the total length; refuse an over-long message *)
(* here, i.e. before any byte beyond the fixed header is requested        *)
ParseHeader ==
  /\ phase = "hdrRecv" /\ Len(buf) = HDR
  /\ IF TooLarge(buf)
       THEN status' = "toolarge" /\ phase' = "stopped" /\ total' = total
       ELSE status' = status /\ phase' = "restLeft" /\ total' = Total(buf)
  /\ UNCHANGED <<env, rd, hsOver, left, leftFds, buf, gotFds, msgFds, base, seq, out>>

TakeLeftRest ==
  /\ phase = "restLeft"
  /\ LET k == Min(total - Len(buf), Len(left)) IN
       /\ buf' = buf \o Slice(left, 1, k)
       /\ left' = Drop(left, k)
  /\ phase' = "rest"
  /\ UNCHANGED <<env, rd, hsOver, leftFds, gotFds, msgFds, total, base, seq, out, status>>

RecvRest(n) ==
  /\ phase = "rest" /\ Len(buf) < total
  /\ n \in 1..Min(total - Len(buf), Len(stream) - rd)
  /\ buf' = buf \o Slice(stream, rd + 1, rd + n)
  /\ gotFds' = gotFds \o FdsIn(rd + 1, rd + n)
  /\ rd' = rd + n
  /\ UNCHANGED <<env, hsOver, left, leftFds, phase, msgFds, total, base, seq, out, status>>

(* end of stream while a read is outstanding *)
Eof ==
  /\ eof /\ rd = Len(stream)
  /\ \/ phase = "hdrRecv" /\ Len(buf) < HDR
     \/ phase = "rest" /\ Len(buf) < total
  /\ status' = "eof" /\ phase' = "stopped"
  /\ UNCHANGED <<env, rd, hsOver, left, leftFds, buf, gotFds, msgFds, total, base, seq, out>>

(* message complete: it declares `need` fds (for a valid message: the fds    *)
(* that travel with its bytes).  Leftover fds precede, in stream order, every *)
(* fd received later, so the message takes what it still misses from the     *)
(* front of the leftover fds.                                                *)
Declared == Len(FdsIn(base + 1, base + total))
AssignFds ==
  /\ phase = "rest" /\ Len(buf) = total
  /\ LET need == Declared
         k == IF need >= Len(gotFds) THEN need - Len(gotFds) ELSE 0 IN
     IF \/ need < Len(gotFds) \/ k > Len(leftFds)
        \/ ("leftfds_zero_pending" \in devs /\ leftFds # <<>> /\ k = 0)
       THEN /\ status' = "fdserr" /\ phase' = "stopped"
            /\ UNCHANGED <<msgFds, leftFds>>
       ELSE /\ msgFds' = Slice(leftFds, 1, k) \o gotFds
            /\ leftFds' = Drop(leftFds, k)
            /\ phase' = "deliver" /\ status' = status
  /\ UNCHANGED <<env, rd, hsOver, left, buf, gotFds, total, base, seq, out>>

Deliver ==
  /\ phase = "deliver"
  /\ IF Skip(buf) THEN UNCHANGED <<out, seq>>
     ELSE /\ out' = Append(out, [bytes |-> buf, fds |-> msgFds, seq |-> seq + 1])
          /\ seq' = seq + 1
  /\ base' = base + total
  /\ phase' = "hdr"
  /\ UNCHANGED <<env, rd, hsOver, left, leftFds, buf, gotFds, msgFds, total, status>>

Internal == TakeLeftHeader \/ ParseHeader \/ TakeLeftRest \/ AssignFds \/ Deliver
InternalEnabled ==
  \/ phase \in {"hdr", "restLeft", "deliver"}
  \/ phase = "hdrRecv" /\ Len(buf) = HDR
  \/ phase = "rest" /\ Len(buf) = total

HsOver == \E n \in 1..(Len(stream) - rd) : HsOverRead(n)
RecvH  == \E n \in 1..(Len(stream) - rd) : RecvHeader(n)
RecvR  == \E n \in 1..(Len(stream) - rd) : RecvRest(n)
Next == HsOver \/ HsDone \/ RecvH \/ RecvR \/ Internal \/ Eof

ReaderInit(viaHandshake) ==
  /\ rd = 0 /\ hsOver = 0 /\ left = <<>> /\ leftFds = <<>>
  /\ phase = (IF viaHandshake THEN "hs" ELSE "hdr")
  /\ buf = <<>> /\ gotFds = <<>> /\ msgFds = <<>> /\ total = 0 /\ base = 0
  /\ seq = 0 /\ out = <<>> /\ status = "run"

-----------------------------------------------------------------------------
(* The property (C14) as invariants over environment and deliveries.        *)
SentLen == Len(Flat([i \in 1..Len(sent) |-> sent[i].bytes]))

\* delivered = a prefix of what was sent: byte-identical, in order
Prefix == /\ Len(out) <= Len(sent)
          /\ \A i \in 1..Len(out) : out[i].bytes = sent[i].bytes
\* each message carries exactly the fds that accompanied it
FdsOwn == \A i \in 1..Min(Len(out), Len(sent)) : out[i].fds = sent[i].fds
\* strictly increasing receive positions
SeqIncreasing == \A i, j \in 1..Len(out) : i < j => out[i].seq < out[j].seq
\* an over-long message is refused without reading it: nothing beyond its fixed
\* header is ever taken from the transport (except what the handshake had already read)
RejectWithoutReading == status = "toolarge" => rd <= Max(hsOver, base + HDR)
NoReadAfterReject == [][status = "toolarge" => rd' = rd]_vars
\* a valid stream never trips over its fds
NoFdsError == status # "fdserr"
\* nothing is lost: once the transport is drained and the reader is blocked (or has
\* refused the tail), every message sent has been delivered
Drained == rd = Len(stream) /\ left = <<>> /\ ~InternalEnabled /\ phase # "hs"
Complete == (Drained \/ status = "toolarge") => Len(out) = Len(sent)
=============================================================================
