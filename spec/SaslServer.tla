----------------------------- MODULE SaslServer -----------------------------
(***************************************************************************)
(* C16 -- the server side of the SASL handshake authenticates exactly the  *)
(* right peers.                                                            *)
(*                                                                         *)
(* Configuration cfg = [mech : {"EXT","ANON"}, creds : BOOLEAN (is the      *)
(* peer's uid known from the socket), canfd : BOOLEAN].                    *)
(* Input: command lines as read by Sasl!ClientCmd.  The reference           *)
(* behaviour is a *relation*: Allowed(cfg, st, cmd, devs) is the set of     *)
(* [reply, st] outcomes the property statement and the D-Bus specification  *)
(* permit for command cmd in state st.  Where the property is explicit      *)
(* (who is authenticated, REJECTED for unsupported mechanisms, ERROR for    *)
(* unknown / misplaced commands, never panic) the set is a singleton and    *)
(* Clause(..) names the clause; where it is silent (e.g. CANCEL while       *)
(* waiting for data, malformed identities, bad line endings) every          *)
(* harmless reaction is allowed, including giving up (st = "Failed").       *)
(*                                                                         *)
(* States mirror ServerHandshakeStep: WaitAuth, WaitData, WaitBegin, Done;  *)
(* plus Failed (handshake aborted) and Panic.                              *)
(*                                                                         *)
(* devs: known deviations of the implementation, off by default:           *)
(*   "empty_identity_no_creds"  DATA with empty identity is accepted for    *)
(*                              EXTERNAL although the peer uid is unknown   *)
(*   "abort_unsupported_mech"   AUTH <unknown mechanism> aborts the         *)
(*                              handshake instead of REJECTED               *)
(*   "abort_unparsable_command" a line the command parser cannot read (an   *)
(*                              unknown command word, non-ASCII bytes, a    *)
(*                              malformed hex argument) aborts the          *)
(*                              handshake instead of ERROR / REJECTED       *)
(*   "panic_lf_start"           a line feed at the start of a line panics   *)
(***************************************************************************)
EXTENDS Sasl, TLC

Devs == {"empty_identity_no_creds", "abort_unsupported_mech", "abort_unparsable_command", "panic_lf_start"}

R(reply, st) == [reply |-> reply, st |-> st]

\* EXTERNAL accepts the empty identity or the peer's own uid, and only if the uid is known
\* from the socket; ANONYMOUS accepts anything.
Accepts(cfg, id) ==
  IF cfg.mech = "ANON" THEN TRUE ELSE cfg.creds /\ id \in {"empty", "match"}
\* ... "ambig" spellings of the right uid may be taken either way
MayAccept(cfg, id) == Accepts(cfg, id) \/ (cfg.mech = "EXT" /\ cfg.creds /\ id = "ambig")
MayRefuse(cfg, id) == ~Accepts(cfg, id) \/ (cfg.mech = "ANON" /\ id = "badhex")

Refusals(st) == {R("REJECTED", "WaitAuth"), R("ERROR", st), R("none", "Failed")}

\* commands handled the same way in every state
Common(cfg, st, cmd, devs) ==
  CASE cmd.k = "UNKNOWN" -> {R("ERROR", st)}
    [] cmd.k = "BADEND"  -> {R("none", "Failed"), R("ERROR", st)}
    [] cmd.k = "LFSTART" -> {R("none", "Failed"), R("ERROR", st)} \cup (IF "panic_lf_start" \in devs THEN {R("none", "Panic")} ELSE {})
    [] cmd.k = "NONUL"   -> {R("none", "Failed")}

AuthResult(cfg, id) ==   \* outcome of presenting identity class `id` in the configured mechanism
  (IF MayAccept(cfg, id) THEN {R("OK", "WaitBegin")} ELSE {}) \cup (IF MayRefuse(cfg, id) THEN Refusals("WaitAuth") ELSE {})

Unparsable(cmd) == cmd.k = "UNKNOWN" \/ (cmd.k \in {"AUTH", "DATA"} /\ cmd.id = "badhex")

AllowedRef(cfg, st, cmd, devs) ==
  IF cmd.k \in {"UNKNOWN", "BADEND", "LFSTART", "NONUL"} THEN Common(cfg, st, cmd, devs)
  ELSE CASE st = "WaitAuth" ->
         CASE cmd.k = "AUTH" ->
                IF cmd.mech = "NONE" THEN {R("REJECTED", "WaitAuth"), R("ERROR", "WaitAuth")}
                ELSE IF cmd.mech # cfg.mech THEN
                     \* a mechanism this server does not offer (with an unreadable initial response the
                     \* complaint may also be about that)
                     {R("REJECTED", "WaitAuth")} \cup (IF cmd.id = "badhex" THEN {R("ERROR", "WaitAuth")} ELSE {})
                       \cup (IF cmd.mech = "OTHER" /\ "abort_unsupported_mech" \in devs THEN {R("none", "Failed")} ELSE {})
                ELSE IF cmd.id = "none" THEN
                     \* no initial response: ask for it, or treat it as the empty identity / trace
                     {R("DATA", "WaitData")} \cup (IF Accepts(cfg, "empty") THEN {R("OK", "WaitBegin")} ELSE {R("REJECTED", "WaitAuth")})
                ELSE AuthResult(cfg, cmd.id)
           [] cmd.k \in {"CANCEL", "ERROR"} -> {R("REJECTED", "WaitAuth"), R("ERROR", "WaitAuth")}
           [] cmd.k = "BEGIN" -> {R("ERROR", "WaitAuth"), R("none", "Failed")}
           [] OTHER -> {R("ERROR", "WaitAuth")}                      \* DATA, NEGOTIATE_UNIX_FD: misplaced
       [] st = "WaitData" ->
         CASE cmd.k = "DATA" ->
                LET base == IF MayAccept(cfg, cmd.id) THEN {R("OK", "WaitBegin")} ELSE {}
                    ref == IF MayRefuse(cfg, cmd.id) THEN Refusals("WaitData") ELSE {}
                    dev == IF "empty_identity_no_creds" \in devs /\ cfg.mech = "EXT" /\ ~cfg.creds /\ cmd.id = "empty"
                             THEN {R("OK", "WaitBegin")} ELSE {}
                IN base \cup ref \cup dev
           [] cmd.k \in {"CANCEL", "ERROR"} -> {R("REJECTED", "WaitAuth"), R("ERROR", "WaitData")}
           [] cmd.k = "BEGIN" -> {R("ERROR", "WaitData"), R("none", "Failed")}
           [] cmd.k = "AUTH" /\ cmd.mech = "OTHER" /\ "abort_unsupported_mech" \in devs -> {R("ERROR", "WaitData"), R("none", "Failed")}
           [] OTHER -> {R("ERROR", "WaitData")}                      \* AUTH, NEGOTIATE_UNIX_FD: misplaced
       [] st = "WaitBegin" ->
         CASE cmd.k = "BEGIN" -> {R("none", "Done")}
           [] cmd.k = "NEGOTIATE_UNIX_FD" -> IF cfg.canfd THEN {R("AGREE_UNIX_FD", "WaitBegin")} ELSE {R("ERROR", "WaitBegin")}
           [] cmd.k \in {"CANCEL", "ERROR"} -> {R("REJECTED", "WaitAuth"), R("ERROR", "WaitBegin")}
           [] cmd.k = "AUTH" /\ cmd.mech = "OTHER" /\ "abort_unsupported_mech" \in devs -> {R("ERROR", "WaitBegin"), R("none", "Failed")}
           [] OTHER -> {R("ERROR", "WaitBegin")}                     \* AUTH, DATA: misplaced
       [] OTHER -> {}

Allowed(cfg, st, cmd, devs) ==
  AllowedRef(cfg, st, cmd, devs)
    \cup (IF "abort_unparsable_command" \in devs /\ Unparsable(cmd) /\ st \in {"WaitAuth", "WaitData", "WaitBegin"}
            THEN {R("none", "Failed")} ELSE {})

(* Which clause of the property pins the reaction to cmd in st (if any): *)
Clause(cfg, st, cmd) ==
  CASE cmd.k = "UNKNOWN" -> "error-reply"
    [] cmd.k \in {"BADEND", "LFSTART", "NONUL"} -> "none"
    [] st = "WaitAuth" /\ cmd.k = "AUTH" /\ cmd.mech \notin {"NONE", cfg.mech} /\ cmd.id # "badhex" -> "rejected-reply"
    [] st = "WaitAuth" /\ cmd.k \in {"DATA", "NEGOTIATE_UNIX_FD"} -> "error-reply"
    [] st = "WaitData" /\ cmd.k \in {"AUTH", "NEGOTIATE_UNIX_FD"} -> "error-reply"
    [] st = "WaitBegin" /\ cmd.k \in {"AUTH", "DATA"} -> "error-reply"
    [] st = "WaitAuth" /\ cmd.k = "AUTH" /\ cmd.mech = cfg.mech /\ cmd.id # "none" /\ Accepts(cfg, cmd.id) /\ cmd.id # "badhex" -> "auth-complete"
    [] st = "WaitData" /\ cmd.k = "DATA" /\ Accepts(cfg, cmd.id) /\ cmd.id # "badhex" -> "auth-complete"
    [] st = "WaitBegin" /\ cmd.k = "BEGIN" -> "auth-complete"
    [] OTHER -> "none"

-----------------------------------------------------------------------------
(* The state machine over command sequences, with the history the property   *)
(* talks about.                                                              *)
CONSTANTS Cfgs, Cmds, MaxLen     \* model parameters (MC_Sasl)
VARIABLES cfg, st, hist          \* hist: sequence of [cmd, from, reply]
vars == <<cfg, st, hist>>

Init == cfg \in Cfgs /\ st = "WaitAuth" /\ hist = <<>>
Step(cmd) ==
  /\ st \in {"WaitAuth", "WaitData", "WaitBegin"} /\ Len(hist) < MaxLen
  /\ (cmd.k = "NONUL" => hist = <<>>)
  /\ \E r \in Allowed(cfg, st, cmd, {}) :
       /\ st' = r.st
       /\ hist' = Append(hist, [cmd |-> cmd, from |-> st, reply |-> r.reply])
  /\ UNCHANGED cfg
Next == \E cmd \in Cmds : Step(cmd)

(* ---- the property, stated over the history independently of Allowed ---- *)
\* position i presented an acceptable identity in the configured mechanism
GoodAuth(i) ==
  LET h == hist[i] IN
  \/ /\ h.cmd.k = "AUTH" /\ h.cmd.mech = cfg.mech
     /\ IF cfg.mech = "ANON" THEN TRUE
        ELSE cfg.creds /\ (h.cmd.id \in {"match", "ambig"} \/ h.cmd.id = "none")
  \/ /\ h.cmd.k = "DATA"
     \* ... in answer to the server's DATA request for an AUTH in the configured mechanism, which is
     \* still pending (only ERROR exchanges in between)
     /\ \E j \in 1..(i - 1) :
          /\ hist[j].cmd.k = "AUTH" /\ hist[j].cmd.mech = cfg.mech /\ hist[j].cmd.id = "none" /\ hist[j].reply = "DATA"
          /\ \A m \in (j + 1)..(i - 1) : hist[m].reply = "ERROR"
     /\ IF cfg.mech = "ANON" THEN TRUE ELSE cfg.creds /\ h.cmd.id \in {"empty", "match", "ambig"}
\* every OK answers a good authentication
OkSound == \A i \in 1..Len(hist) : hist[i].reply = "OK" => GoodAuth(i)
\* the handshake completes only by BEGIN after an OK that was not revoked since
AuthSound ==
  st = "Done" =>
    /\ hist[Len(hist)].cmd.k = "BEGIN"
    /\ \E i \in 1..(Len(hist) - 1) :
         /\ hist[i].reply = "OK" /\ GoodAuth(i)
         /\ \A j \in (i + 1)..(Len(hist) - 1) : hist[j].reply \notin {"REJECTED", "OK"} /\ hist[j].cmd.k \notin {"BEGIN"}
RejectedForUnsupported ==
  \A i \in 1..Len(hist) :
    (hist[i].from = "WaitAuth" /\ hist[i].cmd.k = "AUTH" /\ hist[i].cmd.mech \notin {"NONE", cfg.mech} /\ hist[i].cmd.id # "badhex")
      => hist[i].reply = "REJECTED"
ErrorForUnknownOrMisplaced ==
  \A i \in 1..Len(hist) :
    (\/ hist[i].cmd.k = "UNKNOWN"
     \/ hist[i].from = "WaitAuth" /\ hist[i].cmd.k \in {"DATA", "NEGOTIATE_UNIX_FD"}
     \/ hist[i].from = "WaitData" /\ hist[i].cmd.k \in {"AUTH", "NEGOTIATE_UNIX_FD"}
     \/ hist[i].from = "WaitBegin" /\ hist[i].cmd.k \in {"AUTH", "DATA"}) => hist[i].reply = "ERROR"
NeverPanic == st # "Panic"
\* the right peer can get in: a good authentication is never refused
RightPeerAccepted ==
  \A i \in 1..Len(hist) :
    (Clause(cfg, hist[i].from, hist[i].cmd) = "auth-complete" /\ hist[i].cmd.k # "BEGIN") => hist[i].reply = "OK"
=============================================================================
