------------------------------ MODULE MatchSem ------------------------------
(***************************************************************************)
(* Match rules of the D-Bus message bus ("Match Rules" section of the       *)
(* D-Bus specification): which messages a rule selects (C21) and the        *)
(* string form of a rule (C22).  Written from the specification text, not   *)
(* from zbus::MatchRule.                                                    *)
(*                                                                         *)
(* Abstract model (strings are byte sequences, see DESIGN.md section 3):    *)
(*   rule = record with the optional fields                                 *)
(*            type        \in {"signal","method_call","method_return",      *)
(*                             "error"}                                     *)
(*            sender, interface, member, path, path_namespace,              *)
(*            destination, arg0ns                    : bytes                *)
(*          and the mandatory fields                                        *)
(*            args, arg_paths : sequence of [i |-> 0..63, v |-> bytes],     *)
(*                              strictly increasing in i                    *)
(*   msg  = record  type (as above), optional sender / interface / member / *)
(*          path / destination : bytes, and                                 *)
(*          body : sequence of [k |-> kind, s |-> bytes]; kind "s" STRING,  *)
(*          "o" OBJECT_PATH, anything else (e.g. "u", "g", "v" = a variant  *)
(*          holding a string) is a non-string argument.                     *)
(*                                                                         *)
(* `devs` is a set of named deviations (DESIGN.md section 2.6); the         *)
(* property is Matches(rule, msg) = MatchesD(rule, msg, {}, lax) for some   *)
(* reading lax \in BOOLEAN of the one point the text leaves open.           *)
(***************************************************************************)
EXTENDS Naturals, Sequences, FiniteSets, TLC

Has(r, f) == f \in DOMAIN r

SLASH == 47
DOT   == 46
COLON == 58
APOS  == 39
BSL   == 92
COMMA == 44
EQUAL == 61

IsPrefix(p, s) == Len(p) <= Len(s) /\ \A i \in 1..Len(p) : s[i] = p[i]
EndsWith(s, c) == Len(s) > 0 /\ s[Len(s)] = c
Contains(s, c) == \E i \in 1..Len(s) : s[i] = c

(* "Unique connection names" begin with ':'; every other bus name is a
   well-known name, whose owner only the bus knows. *)
IsUnique(name) == Len(name) > 0 /\ name[1] = COLON

(************************* bus-name grammar (for arg0namespace) ***********)
NameChar(c) == c \in (65..90) \cup (97..122) \cup (48..57) \cup {95, 45}
Digit(c)    == c \in 48..57
BusNameOk(s) ==
  LET u    == IsUnique(s)
      body == IF u THEN Tail(s) ELSE s
      n    == Len(body)
  IN  /\ Len(s) <= 255 /\ n > 0
      /\ \A i \in 1..n : NameChar(body[i]) \/ body[i] = DOT
      /\ body[1] # DOT /\ body[n] # DOT
      /\ \A i \in 1..(n-1) : ~(body[i] = DOT /\ body[i+1] = DOT)
      /\ \E i \in 1..n : body[i] = DOT                       \* at least two elements
      /\ u \/ (~Digit(body[1]) /\ \A i \in 1..(n-1) : body[i] = DOT => ~Digit(body[i+1]))

(******************************* C21: matching *****************************)
(* path_namespace: "Matches messages which are sent from or to an object for
   which the object path is either the given value, or that value followed by
   one or more path components."  ("/" is a namespace of every path.) *)
InNamespace(ns, p) ==
  \/ p = ns
  \/ /\ IsPrefix(ns, p)
     /\ Len(p) > Len(ns)
     /\ (ns = <<SLASH>> \/ p[Len(ns) + 1] = SLASH)

(* argNpath: "Argument matches provide a kind of pattern matching on path-like
   namespaces: the argument matches if it is equal to the given value, or if
   either one ends with '/' and is a prefix of the other." *)
PathLikeMatch(a, b) ==
  \/ a = b
  \/ (EndsWith(a, SLASH) /\ IsPrefix(a, b))
  \/ (EndsWith(b, SLASH) /\ IsPrefix(b, a))

(* arg0namespace: the namespace itself or the namespace followed by '.' and more. *)
InNameSpace(ns, s) == s = ns \/ IsPrefix(ns \o <<DOT>>, s)

Devs21 == {"ns_starts_with",          \* path_namespace tested with a plain string prefix
           "argpath_objpath_exact",   \* argNpath: only OBJECT_PATH arguments, only equality
           "dest_absent_matches"}     \* a rule destination matches messages without destination

TypeOk(rule, msg)   == ~Has(rule, "type") \/ rule.type = msg.type

(* sender: unique names are compared; a well-known name in the rule cannot be
   resolved without the bus => documented exception, the key does not filter. *)
SenderOk(rule, msg) ==
  \/ ~Has(rule, "sender")
  \/ ~IsUnique(rule.sender)
  \/ (Has(msg, "sender") /\ msg.sender = rule.sender)

FieldOk(rule, msg, f) == ~Has(rule, f) \/ (Has(msg, f) /\ msg[f] = rule[f])

PathNsOk(rule, msg, devs) ==
  \/ ~Has(rule, "path_namespace")
  \/ /\ Has(msg, "path")
     /\ IF "ns_starts_with" \in devs THEN IsPrefix(rule.path_namespace, msg.path)
        ELSE InNamespace(rule.path_namespace, msg.path)

(* destination: "Matches messages which are being sent to the given unique
   name"; a message without destination is sent to nobody in particular.  A
   well-known destination on the message cannot be resolved locally. *)
DestOk(rule, msg, devs) ==
  \/ ~Has(rule, "destination")
  \/ IF Has(msg, "destination")
     THEN ~IsUnique(msg.destination) \/ ~IsUnique(rule.destination) \/ msg.destination = rule.destination
     ELSE "dest_absent_matches" \in devs

(* argN: "Arg matches are special and are used for further restricting the
   match based on the arguments in the body of a message. [...] Only arguments
   of type STRING can be matched in this way." *)
ArgOk(a, body) ==
  /\ a.i < Len(body)
  /\ body[a.i + 1].k = "s"
  /\ body[a.i + 1].s = a.v

(* argNpath: "... the Nth argument is of type STRING or OBJECT_PATH ..." *)
ArgPathOk(a, body, devs) ==
  /\ a.i < Len(body)
  /\ IF "argpath_objpath_exact" \in devs
     THEN body[a.i + 1].k = "o" /\ body[a.i + 1].s = a.v
     ELSE body[a.i + 1].k \in {"s", "o"} /\ PathLikeMatch(a.v, body[a.i + 1].s)

(* arg0namespace: "Match messages whose first argument is of type STRING, and
   is a bus name or interface name within the specified namespace."  Whether a
   STRING that is textually inside the namespace but not a syntactically valid
   bus name counts is not said (the reference bus does not look); lax = TRUE
   is the reading that it does. *)
Arg0NsOk(rule, body, lax) ==
  \/ ~Has(rule, "arg0ns")
  \/ /\ Len(body) >= 1
     /\ body[1].k = "s"
     /\ InNameSpace(rule.arg0ns, body[1].s)
     /\ (lax \/ BusNameOk(body[1].s))

MatchesD(rule, msg, devs, lax) ==
  /\ TypeOk(rule, msg)
  /\ SenderOk(rule, msg)
  /\ FieldOk(rule, msg, "interface")
  /\ FieldOk(rule, msg, "member")
  /\ FieldOk(rule, msg, "path")
  /\ PathNsOk(rule, msg, devs)
  /\ DestOk(rule, msg, devs)
  /\ \A j \in 1..Len(rule.args) : ArgOk(rule.args[j], msg.body)
  /\ \A j \in 1..Len(rule.arg_paths) : ArgPathOk(rule.arg_paths[j], msg.body, devs)
  /\ Arg0NsOk(rule, msg.body, lax)

Matches(rule, msg) == MatchesD(rule, msg, {}, FALSE)
(* the verdicts the specification allows for the pair (one, unless the open point applies) *)
Verdicts(rule, msg, devs) == {MatchesD(rule, msg, devs, FALSE), MatchesD(rule, msg, devs, TRUE)}

(*************************** C22: the string form **************************)
(* "Match rules are passed to the message bus as a string of comma-separated
   key/value pairs. [...] Within single quotes (ASCII apostrophe, U+0027), a
   backslash (U+005C) represents itself, and an apostrophe ends the quoted
   section.  Outside single quotes, \' (backslash, apostrophe) represents an
   apostrophe, and any backslash not followed by an apostrophe represents
   itself." *)
KeyBytes == [type           |-> <<116,121,112,101>>,
             sender         |-> <<115,101,110,100,101,114>>,
             interface      |-> <<105,110,116,101,114,102,97,99,101>>,
             member         |-> <<109,101,109,98,101,114>>,
             path           |-> <<112,97,116,104>>,
             path_namespace |-> <<112,97,116,104,95,110,97,109,101,115,112,97,99,101>>,
             destination    |-> <<100,101,115,116,105,110,97,116,105,111,110>>,
             arg0ns         |-> <<97,114,103,48,110,97,109,101,115,112,97,99,101>>,
             eavesdrop      |-> <<101,97,118,101,115,100,114,111,112>>]
ArgB  == <<97,114,103>>
PathB == <<112,97,116,104>>
TypeBytes == [signal        |-> <<115,105,103,110,97,108>>,
              method_call   |-> <<109,101,116,104,111,100,95,99,97,108,108>>,
              method_return |-> <<109,101,116,104,111,100,95,114,101,116,117,114,110>>,
              error         |-> <<101,114,114,111,114>>]
MsgTypes == DOMAIN TypeBytes

RECURSIVE Flat(_)
Flat(ss) == IF ss = <<>> THEN <<>> ELSE Head(ss) \o Flat(Tail(ss))

Dec(n) == IF n < 10 THEN <<48 + n>> ELSE <<48 + (n \div 10), 48 + (n % 10)>>    \* n \in 0..63

(* quoting: the whole value between apostrophes, every apostrophe of the value
   written as  '\''  (leave the quotes, escaped apostrophe, re-enter) *)
QuoteEsc(v) == <<APOS>> \o Flat([i \in 1..Len(v) |-> IF v[i] = APOS THEN <<APOS, BSL, APOS, APOS>> ELSE <<v[i]>>]) \o <<APOS>>
QuoteRaw(v) == <<APOS>> \o v \o <<APOS>>            \* deviation "display_unescaped"

(* The order of keys carries no meaning; this one is the order zbus prints. *)
RuleStrWith(rule, Q(_)) ==
  LET kv(k, v) == <<k \o <<EQUAL>> \o Q(v)>>
      parts ==
           (IF Has(rule, "type") THEN kv(KeyBytes.type, TypeBytes[rule.type]) ELSE <<>>)
        \o (IF Has(rule, "sender") THEN kv(KeyBytes.sender, rule.sender) ELSE <<>>)
        \o (IF Has(rule, "interface") THEN kv(KeyBytes.interface, rule.interface) ELSE <<>>)
        \o (IF Has(rule, "member") THEN kv(KeyBytes.member, rule.member) ELSE <<>>)
        \o (IF Has(rule, "destination") THEN kv(KeyBytes.destination, rule.destination) ELSE <<>>)
        \o (IF Has(rule, "path") THEN kv(KeyBytes.path, rule.path) ELSE <<>>)
        \o (IF Has(rule, "path_namespace") THEN kv(KeyBytes.path_namespace, rule.path_namespace) ELSE <<>>)
        \o Flat([j \in 1..Len(rule.args) |-> kv(ArgB \o Dec(rule.args[j].i), rule.args[j].v)])
        \o Flat([j \in 1..Len(rule.arg_paths) |-> kv(ArgB \o Dec(rule.arg_paths[j].i) \o PathB, rule.arg_paths[j].v)])
        \o (IF Has(rule, "arg0ns") THEN kv(KeyBytes.arg0ns, rule.arg0ns) ELSE <<>>)
  IN  Flat([j \in 1..Len(parts) |-> IF j = 1 THEN parts[j] ELSE <<COMMA>> \o parts[j]])

RuleStr(rule)    == RuleStrWith(rule, QuoteEsc)
RuleStrRaw(rule) == RuleStrWith(rule, QuoteRaw)

(* ---- the conformant reader ---- *)
(* Tokenizer: pairs <<key, value>> or an error. st: "key" | "val" | "quo". *)
RECURSIVE Tok(_,_,_,_,_,_)
Tok(s, i, st, key, val, acc) ==
  IF i > Len(s) THEN
    CASE st = "quo" -> [ok |-> FALSE, why |-> "unterminated quote"]
      [] st = "key" -> IF key = <<>> /\ (acc = <<>> ) THEN [ok |-> TRUE, pairs |-> acc]     \* the empty rule
                       ELSE [ok |-> FALSE, why |-> "key without value"]
      [] OTHER      -> [ok |-> TRUE, pairs |-> Append(acc, <<key, val>>)]
  ELSE LET c == s[i] IN
    CASE st = "key" ->
           IF c = EQUAL THEN (IF key = <<>> THEN [ok |-> FALSE, why |-> "empty key"] ELSE Tok(s, i + 1, "val", key, <<>>, acc))
           ELSE IF c = COMMA THEN [ok |-> FALSE, why |-> "key without value"]
           ELSE Tok(s, i + 1, "key", Append(key, c), val, acc)
      [] st = "quo" ->
           IF c = APOS THEN Tok(s, i + 1, "val", key, val, acc) ELSE Tok(s, i + 1, "quo", key, Append(val, c), acc)
      [] OTHER ->
           IF c = APOS THEN Tok(s, i + 1, "quo", key, val, acc)
           ELSE IF c = BSL THEN
                  (IF i < Len(s) /\ s[i + 1] = APOS THEN Tok(s, i + 2, "val", key, Append(val, APOS), acc)
                   ELSE Tok(s, i + 1, "val", key, Append(val, BSL), acc))
           ELSE IF c = COMMA THEN Tok(s, i + 1, "key", <<>>, <<>>, Append(acc, <<key, val>>))
           ELSE Tok(s, i + 1, "val", key, Append(val, c), acc)
Tokenize(s) == Tok(s, 1, "key", <<>>, <<>>, <<>>)

(* Deviation "parser_naive_split": cut the string at every comma, each piece
   must be key='...'; the text between the outer apostrophes is the value. *)
RECURSIVE SplitAt(_,_,_,_)
SplitAt(s, c, i, cur) ==
  IF i > Len(s) THEN <<cur>>
  ELSE IF s[i] = c THEN <<cur>> \o SplitAt(s, c, i + 1, <<>>)
  ELSE SplitAt(s, c, i + 1, Append(cur, s[i]))
NaiveTokenize(s) ==
  LET comps == SplitAt(s, COMMA, 1, <<>>)
      eqpos(x) == IF Contains(x, EQUAL) THEN CHOOSE i \in 1..Len(x) : x[i] = EQUAL /\ \A j \in 1..(i-1) : x[j] # EQUAL ELSE 0
      good(x) == LET e == eqpos(x) IN
                 /\ e > 1
                 /\ Len(x) - e >= 2
                 /\ x[e + 1] = APOS /\ x[Len(x)] = APOS
      pair(x) == LET e == eqpos(x) IN <<SubSeq(x, 1, e - 1), SubSeq(x, e + 2, Len(x) - 1)>>
  IN  IF \A j \in 1..Len(comps) : good(comps[j])
      THEN [ok |-> TRUE, pairs |-> [j \in 1..Len(comps) |-> pair(comps[j])]]
      ELSE [ok |-> FALSE, why |-> "naive split"]

(* Interpretation of the pairs.  Values are not validated as names / paths here
   (the rules this is applied to were built from valid ones); structure is:
   known keys only, no key twice, path and path_namespace exclude each other,
   N <= 63. *)
AllDigits(x) == Len(x) > 0 /\ \A i \in 1..Len(x) : Digit(x[i])
RECURSIVE NumOf(_)
NumOf(x) == IF x = <<>> THEN 0 ELSE 10 * NumOf(SubSeq(x, 1, Len(x) - 1)) + (x[Len(x)] - 48)
(* key -> [f |-> field, i |-> index] or [f |-> "?"] *)
KeyOf(k) ==
  IF \E f \in DOMAIN KeyBytes : KeyBytes[f] = k THEN [f |-> CHOOSE f \in DOMAIN KeyBytes : KeyBytes[f] = k, i |-> 0]
  ELSE IF IsPrefix(ArgB, k) THEN
    LET rest == SubSeq(k, 4, Len(k))
        nd   == IF \E n \in 1..Len(rest) : ~Digit(rest[n]) THEN (CHOOSE n \in 1..Len(rest) : ~Digit(rest[n]) /\ \A j \in 1..(n-1) : Digit(rest[j])) - 1
                ELSE Len(rest)
        digs == SubSeq(rest, 1, nd)
        suf  == SubSeq(rest, nd + 1, Len(rest))
    IN  IF nd = 0 \/ nd > 2 \/ (nd = 2 /\ digs[1] = 48) THEN [f |-> "?", i |-> 0]
        ELSE IF NumOf(digs) > 63 THEN [f |-> "?", i |-> 0]
        ELSE IF suf = <<>> THEN [f |-> "arg", i |-> NumOf(digs)]
        ELSE IF suf = PathB THEN [f |-> "argpath", i |-> NumOf(digs)]
        ELSE [f |-> "?", i |-> 0]
  ELSE [f |-> "?", i |-> 0]

TypeOfBytes(v) == IF \E t \in MsgTypes : TypeBytes[t] = v THEN CHOOSE t \in MsgTypes : TypeBytes[t] = v ELSE "?"

(* sequence of [i, v] sorted by i, from a set of such records with distinct i *)
RECURSIVE SortArgs(_)
SortArgs(S) == IF S = {} THEN <<>>
               ELSE LET m == CHOOSE a \in S : \A b \in S : a.i <= b.i IN <<m>> \o SortArgs(S \ {m})

(* The builder API: a sequence of arg(i, v) / arg_path(i, v) calls denotes "the last call for an index wins", in
   index order, whatever the order of the calls. *)
LastWins(ops) == {[i |-> ops[j].i, v |-> ops[j].v] :
                    j \in {x \in 1..Len(ops) : \A y \in (x+1)..Len(ops) : ops[y].i # ops[x].i}}
ArgsOfOps(ops) == SortArgs(LastWins(ops))
OpsOfKind(ops, k) == SelectSeq(ops, LAMBDA o : o.k = k)

BuildRule(pairs) ==
  LET ks == [j \in 1..Len(pairs) |-> KeyOf(pairs[j][1])]
      n  == Len(pairs)
      known == \A j \in 1..n : ks[j].f # "?"
      nodup == \A a, b \in 1..n : a # b => ks[a] # ks[b]
      typeok == \A j \in 1..n : ks[j].f = "type" => TypeOfBytes(pairs[j][2]) # "?"
      excl == ~(\E a, b \in 1..n : ks[a].f = "path" /\ ks[b].f = "path_namespace")
      simple == {j \in 1..n : ks[j].f \notin {"arg", "argpath"}}
      val(j) == IF ks[j].f = "type" THEN TypeOfBytes(pairs[j][2]) ELSE pairs[j][2]
      base == [f \in {ks[j].f : j \in simple} |-> val(CHOOSE j \in simple : ks[j].f = f)]
      argsOf(kind) == SortArgs({[i |-> ks[j].i, v |-> pairs[j][2]] : j \in {x \in 1..n : ks[x].f = kind}})
  IN  IF ~known THEN [ok |-> FALSE, why |-> "unknown key"]
      ELSE IF ~nodup THEN [ok |-> FALSE, why |-> "key given twice"]
      ELSE IF ~typeok THEN [ok |-> FALSE, why |-> "bad type"]
      ELSE IF ~excl THEN [ok |-> FALSE, why |-> "path and path_namespace"]
      ELSE [ok |-> TRUE, rule |-> base @@ [args |-> argsOf("arg"), arg_paths |-> argsOf("argpath")]]

ParseWith(t) == IF t.ok THEN BuildRule(t.pairs) ELSE t
ParseRule(s)      == ParseWith(Tokenize(s))
ParseRuleNaive(s) == ParseWith(NaiveTokenize(s))

(* normal form of an abstract rule coming from JSON (fields in any order, the
   two lists always present) for comparison with BuildRule's result *)
RuleFields == {"type", "sender", "interface", "member", "path", "path_namespace", "destination", "arg0ns", "eavesdrop"}
NormRule(r) == [f \in (DOMAIN r) \cap RuleFields |-> r[f]]
               @@ [args |-> IF Has(r, "args") THEN r.args ELSE <<>>,
                   arg_paths |-> IF Has(r, "arg_paths") THEN r.arg_paths ELSE <<>>]
=============================================================================
