------------------------------- MODULE Props -------------------------------
(***************************************************************************)
(* org.freedesktop.DBus.Properties over one interface definition (C28).     *)
(*                                                                          *)
(* The interface is given by its property table (a sequence of property     *)
(* shapes of Shapes.tla: name, ty, access, emits).  The state is the        *)
(* current value of every property; the actions are the three methods of    *)
(* the Properties interface as a client issues them:                        *)
(*   Get(ifname, name)          the current value of a readable property,   *)
(*                              an error for anything else                  *)
(*   GetAll(ifname)             exactly the readable properties             *)
(*   Set(ifname, name, value)   updates a writable property when the value  *)
(*                              has the declared type; unknown, read-only   *)
(*                              and wrongly typed Sets are errors and       *)
(*                              change nothing                              *)
(* and every successful Set of a property whose annotation is `true`        *)
(* (`invalidates`) is followed by exactly one PropertiesChanged signal      *)
(* carrying the new value (naming the property as invalidated); `const`,    *)
(* `false` and write-only properties never signal.                          *)
(*                                                                          *)
(* Part 1: reference functions (what each call must return / emit), used by *)
(* the trace validator.  Part 2: the state machine, model-checked by        *)
(* spec/mc/MC_Props against invariants that state C28 independently of the  *)
(* reference functions (history variable `lastSet`).                       *)
(***************************************************************************)
EXTENDS Shapes

Names(table) == {table[i].name : i \in 1..Len(table)}
PropOf(table, name) == table[CHOOSE i \in 1..Len(table) : table[i].name = name]
ReadableNames(table) == {table[i].name : i \in {i \in 1..Len(table) : Readable(table[i])}}

ErrorResp == [kind |-> "error"]
(* ifok: the interface name given by the caller is the interface of this table *)
GetResp(table, val, ifok, name) ==
  IF ifok /\ name \in ReadableNames(table)
  THEN [kind |-> "value", tv |-> [T |-> PropOf(table, name).ty, v |-> val[name]]]
  ELSE ErrorResp
GetAllResp(table, val, ifok) ==
  IF ifok THEN [kind |-> "all", props |-> [n \in ReadableNames(table) |-> [T |-> PropOf(table, n).ty, v |-> val[n]]]]
  ELSE ErrorResp
SetAccepted(table, ifok, name, tv) ==
  /\ ifok /\ name \in Names(table)
  /\ Writable(PropOf(table, name))
  /\ tv.T = PropOf(table, name).ty
(* the PropertiesChanged signals an accepted Set must cause: [changed (name -> value), invalidated (names)] *)
SetSignals(table, name, tv) ==
  LET e == EffEmits(PropOf(table, name)) IN
  CASE e = "true"        -> <<[changed |-> (name :> tv), invalidated |-> {}]>>
    [] e = "invalidates" -> <<[changed |-> <<>>, invalidated |-> {name}]>>
    [] OTHER             -> <<>>

(* Named deviation (DESIGN.md 2.6), never enabled when the property is checked:                    *)
(*   dict_variant_coercion  a Set of an a{sv} property with a dictionary of another value type     *)
(*                          (a{ss}, a{su}, ...) is accepted; every value is stored wrapped in a    *)
(*                          variant                                                                *)
PropDevs == {"dict_variant_coercion"}
IsStrDict(T) == T.k = "a" /\ T.e.k = "e" /\ T.e.key = TS
Coerced(tv) ==
  [T |-> TASV,
   v |-> [a |-> [i \in 1..Len(tv.v.a) |-> [r |-> <<tv.v.a[i].r[1], [t |-> tv.T.e.val, v |-> tv.v.a[i].r[2]]>>]]]]
CoercionApplies(table, ifok, name, tv, devs) ==
  /\ "dict_variant_coercion" \in devs
  /\ ifok /\ name \in Names(table) /\ Writable(PropOf(table, name))
  /\ PropOf(table, name).ty = TASV /\ IsStrDict(tv.T) /\ tv.T # TASV
SetAcceptedD(table, ifok, name, tv, devs) ==
  SetAccepted(table, ifok, name, tv) \/ CoercionApplies(table, ifok, name, tv, devs)
(* the value a Set stores (and signals) *)
StoredD(table, ifok, name, tv, devs) == IF CoercionApplies(table, ifok, name, tv, devs) THEN Coerced(tv) ELSE tv

(* ---- Part 2: state machine ---- *)
CONSTANTS Table,       \* the property table
          InitVal,     \* name -> initial value
          SetValues    \* typed values clients try to Set (right and wrong types)
VARIABLES val, resp, sigs, lastSet
vars == <<val, resp, sigs, lastSet>>

Init ==
  /\ val = InitVal
  /\ resp = [kind |-> "none"] /\ sigs = <<>>
  /\ lastSet = InitVal                       \* history: the value of the last accepted Set (or the initial value)

Get(ifok, name) ==
  /\ resp' = GetResp(Table, val, ifok, name)
  /\ sigs' = <<>>
  /\ UNCHANGED <<val, lastSet>>

GetAll(ifok) ==
  /\ resp' = GetAllResp(Table, val, ifok)
  /\ sigs' = <<>>
  /\ UNCHANGED <<val, lastSet>>

SetOk(ifok, name, tv) ==
  /\ SetAccepted(Table, ifok, name, tv)
  /\ val' = [val EXCEPT ![name] = tv.v]
  /\ resp' = [kind |-> "done", prop |-> name]
  /\ sigs' = SetSignals(Table, name, tv)
  /\ lastSet' = [lastSet EXCEPT ![name] = tv.v]

SetRejected(ifok, name, tv) ==
  /\ ~SetAccepted(Table, ifok, name, tv)
  /\ resp' = ErrorResp
  /\ sigs' = <<>>
  /\ UNCHANGED <<val, lastSet>>

Next ==
  \E ifok \in BOOLEAN :
    \/ \E n \in Names(Table) \cup {"Nope"} : Get(ifok, n)
    \/ GetAll(ifok)
    \/ \E n \in Names(Table) \cup {"Nope"}, tv \in SetValues : SetOk(ifok, n, tv) \/ SetRejected(ifok, n, tv)
Spec == Init /\ [][Next]_vars

(* ---- C28 on the model ---- *)
TypeOK == DOMAIN val = Names(Table)
ValueIsLastAcceptedSet == val = lastSet
GetReturnsCurrent ==
  resp.kind = "value" => \E n \in ReadableNames(Table) : resp.tv.v = val[n] /\ resp.tv.T = PropOf(Table, n).ty
GetAllExactlyReadable ==
  resp.kind = "all" => /\ DOMAIN resp.props = {Table[i].name : i \in {i \in 1..Len(Table) : Table[i].access # "write"}}
                       /\ \A n \in DOMAIN resp.props : resp.props[n].v = val[n]
ErrorsChangeNothing == [][resp' = ErrorResp => val' = val /\ sigs' = <<>>]_vars
OnlyWritableChange ==
  [][\A n \in Names(Table) : val'[n] # val[n] => PropOf(Table, n).access \in {"write", "readwrite"}]_vars
TypesKept == [][\A n \in Names(Table) : val'[n] # val[n] => \E tv \in SetValues : tv.T = PropOf(Table, n).ty /\ tv.v = val'[n]]_vars
(* exactly one signal per successful Set of an emitting property, none otherwise, with the right payload *)
SignalPerSet ==
  [][ /\ (resp'.kind = "done" =>
            LET n == resp'.prop
                p == PropOf(Table, n) IN
            /\ p.access # "read"
            /\ IF p.access # "write" /\ p.emits = "true"
               THEN Len(sigs') = 1 /\ DOMAIN sigs'[1].changed = {n} /\ sigs'[1].changed[n].v = val'[n] /\ sigs'[1].invalidated = {}
               ELSE IF p.access # "write" /\ p.emits = "invalidates"
               THEN Len(sigs') = 1 /\ sigs'[1].changed = <<>> /\ sigs'[1].invalidated = {n}
               ELSE sigs' = <<>>)
      /\ (resp'.kind # "done" => sigs' = <<>>) ]_vars
=============================================================================
