------------------------------ MODULE ObjTree ------------------------------
(***************************************************************************)
(* The object server's registry of (path, interface) pairs and the         *)
(* ObjectManager bookkeeping a client can do from signals (C24, C25).      *)
(*                                                                         *)
(* Written from the property statements and the D-Bus specification's      *)
(* ObjectManager section, not from zbus:                                   *)
(*   - `at(p, i)` registers interface i at path p; a duplicate is refused  *)
(*     and changes nothing;                                                *)
(*   - `remove(p, i)` unregisters exactly that pair; it fails (and changes *)
(*     nothing) when the pair is absent;                                   *)
(*   - what can be looked up, called and seen in introspection is exactly  *)
(*     the set of registered pairs (`Present`);                            *)
(*   - an ObjectManager at m lists every object strictly beneath m that    *)
(*     carries at least one (non-standard) interface, each interface with  *)
(*     its current properties (`Listing`), and announces every change of   *)
(*     that listing with InterfacesAdded / InterfacesRemoved, so that a    *)
(*     client holding snapshot + signals always has the current listing.   *)
(*                                                                         *)
(* The universe is small and fixed (DESIGN.md section 4): four paths that  *)
(* contain the root, a nested chain and a sibling; two user interfaces I1, *)
(* I2 (each with one property whose value is chosen at registration, so    *)
(* "current properties" is observable) and OM = ObjectManager.  The        *)
(* standard interfaces every node carries (Peer, Introspectable,           *)
(* Properties) are abstracted away everywhere.                             *)
(*                                                                         *)
(* Deviations (DESIGN 2.6): behaviours of the real code that contradict    *)
(* the property.  They are off in every model-checked invariant and only   *)
(* serve to *explain* (and name) recorded traces:                          *)
(*   "prune"        remove() of the last user interface of a non-root      *)
(*                  object deletes the whole node: its ObjectManager and   *)
(*                  every object beneath it vanish without any signal;     *)
(*   "root_panic"   remove() of the last user interface of "/" panics      *)
(*                  (after having removed the interface);                  *)
(*   "nearest_only" InterfacesAdded/Removed are emitted by the nearest     *)
(*                  enclosing manager only, although every enclosing       *)
(*                  manager lists the object.                              *)
(***************************************************************************)
EXTENDS Naturals, Sequences, FiniteSets, TLC

Root   == "/"
Paths  == {"/", "/a", "/a/b", "/c"}
Parent == [p \in Paths \ {Root} |-> IF p = "/a/b" THEN "/a" ELSE "/"]
\* last path component, as listed by the parent's introspection data
Leaf   == [p \in Paths \ {Root} |-> CASE p = "/a" -> "a" [] p = "/a/b" -> "b" [] p = "/c" -> "c"]

(* Concrete element names.  The model is about the shape of the tree only: every statement below must hold whatever
   the elements are called, in particular when an element's text occurs again elsewhere in a path ("/a/a"), is a
   substring of its parent's ("/dev10/1") or a sibling's name is a prefix of another's ("/a", "/aa").  A naming gives
   the element names of /a, of b below /a, and of /c; the conformance harness replays every history under the naming
   its generator attached and translates observed paths back to the abstract ones. *)
Namings == << <<"a", "b", "c">>, <<"a", "a", "aa">>, <<"dev10", "1", "dev">>, <<"ab", "a", "b">>, <<"a_b", "b", "a">>,
              <<"b", "c", "a">> >>
Concrete(n) == [p \in Paths |-> CASE p = "/" -> "/" [] p = "/a" -> "/" \o n[1] [] p = "/a/b" -> "/" \o n[1] \o "/" \o n[2]
                                   [] p = "/c" -> "/" \o n[3]]
NamingOk(n) == \A p, q \in Paths : p # q => Concrete(n)[p] # Concrete(n)[q]

RECURSIVE Ancestors(_)
Ancestors(p) == IF p = Root THEN {} ELSE {Parent[p]} \cup Ancestors(Parent[p])   \* strict
Below(m)     == {q \in Paths : m \in Ancestors(q)}                                \* strict
Depth(p)     == Cardinality(Ancestors(p))

OM         == "OM"
UserIfaces == {"I1", "I2"}
Ifaces     == UserIfaces \cup {OM}
Pairs      == Paths \X Ifaces

AllDevs == {"prune", "root_panic", "nearest_only"}

(* A registry maps every pair to 0 (absent) or to the property value (> 0) it was registered  *)
(* with (ObjectManager has no properties: value 1).                                           *)
EmptyReg == [pr \in Pairs |-> 0]

Present(r)      == {<<pr[1], pr[2], r[pr]>> : pr \in {x \in Pairs : r[x] # 0}}
PresentPairs(r) == {x \in Pairs : r[x] # 0}
Managers(r)     == {m \in Paths : r[<<m, OM>>] # 0}
\* objects an ObjectManager at m reports: <<path, interface, property value>>
Listing(r, m)   == {t \in Present(r) : t[1] \in Below(m) /\ t[2] \in UserIfaces}
UserAt(r, p)    == {i \in UserIfaces : r[<<p, i>>] # 0}

(***************************************************************************)
(* Signals.  [m: emitting manager, k: "IA" | "IR", p: object, ifs: set of  *)
(* <<interface, value>>] (value 0 in IR).                                  *)
(***************************************************************************)
Sig(m, k, p, ifs) == [m |-> m, k |-> k, p |-> p, ifs |-> ifs]

\* managers that must announce a change at object p
Targets(r, p, devs) ==
  LET ms == Managers(r) \cap Ancestors(p) IN
  IF "nearest_only" \in devs /\ ms # {}
  THEN {CHOOSE m \in ms : \A n \in ms : Depth(n) <= Depth(m)}
  ELSE ms

\* a client's mirror of one manager: a set of <<path, iface, value>>
ApplySig(s, sg) ==
  IF sg.k = "IA"
  THEN {t \in s : ~(t[1] = sg.p /\ \E x \in sg.ifs : x[1] = t[2])} \cup {<<sg.p, x[1], x[2]>> : x \in sg.ifs}
  ELSE {t \in s : ~(t[1] = sg.p /\ \E x \in sg.ifs : x[1] = t[2])}

RECURSIVE ApplySeq(_, _)
ApplySeq(s, sgs) == IF sgs = <<>> THEN s ELSE ApplySeq(ApplySig(s, Head(sgs)), Tail(sgs))

RECURSIVE ApplySet(_, _)   \* the signals of one operation commute (distinct objects or one signal)
ApplySet(s, sgs) == IF sgs = {} THEN s ELSE LET x == CHOOSE y \in sgs : TRUE IN ApplySet(ApplySig(s, x), sgs \ {x})

(***************************************************************************)
(* The operations as functions: Eff(r, op, devs) = [reg, res, sigs, used]. *)
(* op = [op: "at" | "remove", p, i, v].  `used` = the deviations that made *)
(* a difference.                                                           *)
(***************************************************************************)
AtEff(r, p, i, v, devs) ==
  IF r[<<p, i>>] # 0
  THEN [reg |-> r, res |-> "refused", sigs |-> {}, used |-> {}]
  ELSE
    LET r2 == [r EXCEPT ![<<p, i>>] = IF i = OM THEN 1 ELSE v]
        tg == Targets(r, p, devs)
    IN [reg |-> r2, res |-> "added",
        sigs |-> IF i = OM
                 THEN \* a new manager announces what it manages (harmless for a client that starts
                      \* from the listing; lets a client that was already listening catch up)
                      {Sig(p, "IA", q, {<<j, r[<<q, j>>]>> : j \in UserAt(r, q)}) : q \in {q \in Below(p) : UserAt(r, q) # {}}}
                 ELSE {Sig(m, "IA", p, {<<i, v>>}) : m \in tg},
        used |-> IF i # OM /\ tg # Managers(r) \cap Ancestors(p) THEN {"nearest_only"} ELSE {}]

RemoveEff(r, p, i, devs) ==
  IF r[<<p, i>>] = 0
  THEN [reg |-> r, res |-> "err", sigs |-> {}, used |-> {}]
  ELSE
    LET r2   == [r EXCEPT ![<<p, i>>] = 0]
        tg   == Targets(r, p, devs)
        sg   == IF i = OM THEN {} ELSE {Sig(m, "IR", p, {<<i, 0>>}) : m \in tg}
        near == IF i # OM /\ tg # Managers(r) \cap Ancestors(p) THEN {"nearest_only"} ELSE {}
        lastUser == UserAt(r2, p) = {}
        \* what vanishes besides the removed pair when the node is deleted
        collateral == {x \in PresentPairs(r2) : x[1] = p \/ x[1] \in Below(p)}
    IN
    IF "root_panic" \in devs /\ p = Root /\ lastUser
    THEN [reg |-> r2, res |-> "panic", sigs |-> sg, used |-> near \cup {"root_panic"}]
    ELSE IF "prune" \in devs /\ p # Root /\ lastUser /\ collateral # {}
    THEN [reg |-> [x \in Pairs |-> IF x \in collateral THEN 0 ELSE r2[x]], res |-> "ok", sigs |-> sg,
          used |-> near \cup {"prune"}]
    ELSE [reg |-> r2, res |-> "ok", sigs |-> sg, used |-> near]

Eff(r, op, devs) == IF op.op = "at" THEN AtEff(r, op.p, op.i, op.v, devs) ELSE RemoveEff(r, op.p, op.i, devs)

(* "atrm": at(p, i) and remove(p, i) issued concurrently, the registration first.  The object server serialises
   them: the outcome is that of `at` followed by `remove` (two effects, because the signals of the two do not
   commute: InterfacesAdded must reach a client before the InterfacesRemoved that cancels it). *)
AtRmEff(r, op, devs) ==
  LET a == AtEff(r, op.p, op.i, op.v, devs)
      b == RemoveEff(a.reg, op.p, op.i, devs)
  IN  [first |-> a, second |-> b, res |-> a.res \o "+" \o b.res]

(* The tracking client (C25): per path a mirror that is `on` while an ObjectManager is there.  It   *)
(* starts from the manager's listing (GetManagedObjects after the step that made the manager        *)
(* appear) and afterwards applies that manager's signals.                                          *)
NoMirror == [on |-> FALSE, s |-> {}]
MirrorStep(mir, r2, sigs) ==
  [m \in Paths |->
     IF r2[<<m, OM>>] = 0 THEN NoMirror
     ELSE IF ~mir[m].on THEN [on |-> TRUE, s |-> Listing(r2, m)]
     ELSE [on |-> TRUE, s |-> ApplySet(mir[m].s, {sg \in sigs : sg.m = m})]]

(***************************************************************************)
(* State machine                                                           *)
(***************************************************************************)
CONSTANTS DEVS,   \* deviations switched on (a subset of AllDevs; {} for every checked invariant)
          Vals    \* property values an `at` may carry

VARIABLES reg, mirror, hist, last
vars == <<reg, mirror, hist, last>>

Ops == [op : {"at"}, p : Paths, i : Ifaces, v : Vals] \cup [op : {"remove"}, p : Paths, i : Ifaces, v : {0}]

Init == /\ reg = TLCEval(EmptyReg)      \* TLCEval: store explicit (not lazily represented) functions
        /\ mirror = TLCEval([m \in Paths |-> NoMirror])
        /\ hist = <<>>
        /\ last = [res |-> "none", sigs |-> {}, used |-> {}]

\* (`\E e \in {..}` rather than LET: TLC then evaluates Eff once per step, not once per use)
Do(op) == \E e \in {Eff(reg, op, DEVS)} :
          /\ reg' = TLCEval(e.reg)
          /\ mirror' = TLCEval(MirrorStep(mirror, e.reg, e.sigs))
          /\ hist' = Append(hist, op)
          /\ last' = [res |-> e.res, sigs |-> e.sigs, used |-> e.used]

At(p, i, v)  == Do([op |-> "at", p |-> p, i |-> i, v |-> v])
Remove(p, i) == Do([op |-> "remove", p |-> p, i |-> i, v |-> 0])

\* one named action per outcome class (so that TLC's coverage shows none of them is vacuous)
AtAdded     == \E p \in Paths, i \in Ifaces, v \in Vals : reg[<<p, i>>] = 0 /\ At(p, i, v)
AtRefused   == \E p \in Paths, i \in Ifaces, v \in Vals : reg[<<p, i>>] # 0 /\ At(p, i, v)
RemoveOk    == \E p \in Paths, i \in Ifaces : reg[<<p, i>>] # 0 /\ Remove(p, i)
RemoveAbsent == \E p \in Paths, i \in Ifaces : reg[<<p, i>>] = 0 /\ Remove(p, i)
Next == AtAdded \/ AtRefused \/ RemoveOk \/ RemoveAbsent

Spec == Init /\ [][Next]_vars

(***************************************************************************)
(* C24.  What a history implies, stated declaratively (not as the fold the *)
(* actions compute): a pair is registered iff some `at` for it is followed *)
(* by no `remove` of it; its value is that of the first `at` after the     *)
(* last `remove` (later duplicates are refused).                           *)
(***************************************************************************)
IsAt(o, pr)  == o.op = "at" /\ <<o.p, o.i>> = pr
IsRem(o, pr) == o.op = "remove" /\ <<o.p, o.i>> = pr
LastRem(h, pr) == LET S == {k \in 1..Len(h) : IsRem(h[k], pr)} IN
                  IF S = {} THEN 0 ELSE CHOOSE k \in S : \A j \in S : j <= k
Implied(h, pr) == LET S == {k \in (LastRem(h, pr) + 1)..Len(h) : IsAt(h[k], pr)} IN
                  IF S = {} THEN 0
                  ELSE LET k == CHOOSE k \in S : \A j \in S : k <= j IN IF pr[2] = OM THEN 1 ELSE h[k].v

RegIsWhatHistoryImplies == \A pr \in Pairs : reg[pr] = Implied(hist, pr)

\* results of the last operation: duplicate refused, absent removal fails, otherwise success; never a panic
ResultOk ==
  hist # <<>> =>
    LET o == hist[Len(hist)]
        before == Implied(SubSeq(hist, 1, Len(hist) - 1), <<o.p, o.i>>)
    IN last.res = (IF o.op = "at" THEN (IF before # 0 THEN "refused" ELSE "added")
                   ELSE (IF before = 0 THEN "err" ELSE "ok"))
NoPanic == last.res # "panic"

\* action property: an operation changes at most its own pair
OnlyOwnPair == [][\A pr \in Pairs : reg'[pr] # reg[pr] => (hist' # hist /\ <<hist'[Len(hist')].p, hist'[Len(hist')].i>> = pr)]_vars

(***************************************************************************)
(* C25.  The mirror of every tracked manager equals that manager's listing *)
(* (the mirror never holds an object without interfaces, so "ignoring      *)
(* paths that carry no interfaces" is built into the representation), and  *)
(* every announced interface carries its current property value.           *)
(***************************************************************************)
MirrorOk == \A m \in Paths : /\ mirror[m].on = (reg[<<m, OM>>] # 0)
                            /\ mirror[m].on => mirror[m].s = Listing(reg, m)
SignalsCarryCurrentProps ==
  \A sg \in last.sigs : sg.k = "IA" => \A x \in sg.ifs : x[2] = reg[<<sg.p, x[1]>>]

TypeOK == /\ reg \in [Pairs -> Nat]
          /\ \A m \in Paths : mirror[m].on \in BOOLEAN
=============================================================================
