------------------------------ MODULE Dispatch ------------------------------
(***************************************************************************)
(* Dispatch of incoming method calls by the object server (C29, C30).      *)
(*                                                                         *)
(* One connection: the client writes calls 1..N in order; the socket       *)
(* reader hands each to the object server's dispatcher stream; the         *)
(* dispatcher task takes them one at a time, looks the target up under the *)
(* object-server root lock and either runs the handler itself (interface   *)
(* registered with spawning disabled) or spawns a task for it.  A handler  *)
(* is user code: it may suspend (yield points), emit signals, and call     *)
(* back into the object server to register / remove objects, which takes   *)
(* the root lock for writing.                                              *)
(*                                                                         *)
(* The module is structured like the code (one action per critical         *)
(* section / await point of object_server/mod.rs, fdo/properties.rs,       *)
(* fdo/introspectable.rs, connection/mod.rs start_object_server), but its  *)
(* default actions describe what the *properties* demand:                  *)
(*  - the root lock is only held for the lookup, never while waiting for   *)
(*    an interface lock or while user code runs (so user code may take it  *)
(*    for writing);                                                        *)
(*  - the dispatcher's subscription exists as soon as the object server    *)
(*    does (so no call that arrives after a registration is lost).         *)
(* Deviations (off in every checked invariant; they name what the real     *)
(* code does instead and explain recorded hangs):                          *)
(*  "props_hold_root"   Properties.Get/Set keep the root read lock while    *)
(*                      the user's getter / setter runs;                   *)
(*  "intro_holds_root"  Introspect (likewise GetManagedObjects) keeps the   *)
(*                      root read lock while waiting for interface locks;  *)
(*  "lazy_subscribe"    the dispatcher task subscribes to method calls     *)
(*                      only when it first runs; a call the socket reader  *)
(*                      delivers before that is dropped.                   *)
(*                                                                         *)
(* Locks are async-lock RwLocks: write-preferring -- a writer first        *)
(* announces itself (w # 0), which blocks new readers, then waits for the  *)
(* readers to drain.                                                       *)
(*                                                                         *)
(* Call kinds (all target one user interface X at one path):               *)
(*   "meth"     X.Work       (&self handler: holds X's read lock)          *)
(*   "methmut"  X.WorkMut    (&mut self handler: holds X's write lock)     *)
(*   "methnr"   X.Work with the NO_REPLY_EXPECTED flag: dispatched and run  *)
(*              exactly like "meth", only no reply is written at the end    *)
(*   "get"      Properties.Get of a property of X (getter: X read lock)    *)
(*   "set"      Properties.Set (setter, &mut self: X write lock)           *)
(*   "getall"   Properties.GetAll of another interface at the same path     *)
(*              with one getter (its lock is never contended and is left    *)
(*              out; the root lock is what matters)                         *)
(*   "intro"    Introspect of the node (reads every interface; no user     *)
(*              code)                                                      *)
(*   "ping"     org.freedesktop.DBus.Peer.Ping at the same path: its own   *)
(*              always-spawning interface whose lock nobody else takes, no *)
(*              user code -- after the dispatcher's lookup (which needs    *)
(*              the root read lock like every call) nothing can delay the  *)
(*              reply, whatever X's handlers hold                          *)
(* Properties / Introspectable / Peer are separate interfaces that always  *)
(* spawn; only "meth"/"methmut"/"methnr" are subject to X's spawn flag.    *)
(* A handler body is a sequence over "y" (yield point), "e" (emit a        *)
(* signal), "w" (object_server().at / remove: root write lock).            *)
(***************************************************************************)
EXTENDS Naturals, Sequences, FiniteSets, TLC

CONSTANT DEVS
AllDevs == {"props_hold_root", "intro_holds_root", "lazy_subscribe"}
Kinds   == {"meth", "methmut", "methnr", "get", "set", "getall", "intro", "ping"}
UserKinds == {"meth", "methmut", "methnr"}  \* dispatched to X itself (subject to X's spawn flag)
NoReply(kd) == kd = "methnr"

VARIABLES
  cfg,      \* [spawn |-> BOOLEAN, calls |-> sequence of [kind, body]]; never changes
  os,       \* "none" | "created" (dispatcher task spawned, not subscribed) | "subscribed"
  sent,     \* number of calls the client has written (calls are written in index order)
  inbound,  \* calls written, not yet read by the server's socket reader
  queue,    \* calls in the dispatcher's stream
  lost,     \* calls the reader could not hand to anybody
  disp,     \* dispatcher: [pc |-> "idle" | "inline", k |-> call being run inline]
  pc,       \* per call: control state (below)
  pos,      \* per call: index of the next body atom
  root,     \* object-server root RwLock  [r |-> set of reader calls, w |-> writer call or 0, held |-> BOOLEAN]
  ifl       \* interface X's RwLock, same shape

vars == <<cfg, os, sent, inbound, queue, lost, disp, pc, pos, root, ifl>>

N        == Len(cfg.calls)
Calls    == 1..N
Kind(k)  == cfg.calls[k].kind
Body(k)  == cfg.calls[k].body
Inline(k) == ~cfg.spawn /\ Kind(k) \in UserKinds

(* control states of a call:
   "new" not written yet; "sent" written / queued; "lost";
   "rootR" wants the root read lock (get/set/intro); "ifR" wants X's read lock;
   "ifW" wants to announce as X's writer; "ifWp" announced, waiting for readers to drain;
   "ready" locks taken, handler not started; "run" in the body; "wreq" wants to announce as root
   writer; "wpend" announced, waiting for root readers; "ret" body finished, about to return;
   "ended" handler returned;
   "replied" reply written and locks released; "done" client has the reply. *)
InBody  == {"run", "wreq", "wpend", "ret"}
Started == InBody \cup {"ended", "replied", "done"}
Over    == {"ended", "replied", "done"}      \* the handler has returned

FreeLock == [r |-> {}, w |-> 0, held |-> FALSE]
CanRead(l) == l.w = 0                               \* no writer holds or has announced itself
AddR(l, k) == [l EXCEPT !.r = @ \cup {k}]
DelR(l, k) == [l EXCEPT !.r = @ \ {k}]

TypeOK == /\ os \in {"none", "created", "subscribed"}
          /\ sent \in 0..N
          /\ disp.pc \in {"idle", "inline"}
          /\ \A k \in Calls : pos[k] \in 1..(Len(Body(k)) + 1)

InitWith(c) ==
  /\ cfg = c
  /\ os = "none" /\ sent = 0 /\ inbound = <<>> /\ queue = <<>> /\ lost = {}
  /\ disp = [pc |-> "idle", k |-> 0]
  /\ pc = [k \in 1..Len(c.calls) |-> "new"]
  /\ pos = [k \in 1..Len(c.calls) |-> 1]
  /\ root = FreeLock /\ ifl = FreeLock

(***************************************************************************)
(* Environment: the application creates the object server on demand and    *)
(* registers X (one step: `conn.object_server().at(..)` returns without    *)
(* suspending); afterwards the client writes its calls.                    *)
(***************************************************************************)
CreateOS ==
  /\ os = "none"
  /\ os' = IF "lazy_subscribe" \in DEVS THEN "created" ELSE "subscribed"
  /\ UNCHANGED <<cfg, sent, inbound, queue, lost, disp, pc, pos, root, ifl>>

ClientSend ==
  /\ os # "none" /\ sent < N
  /\ sent' = sent + 1
  /\ inbound' = Append(inbound, sent + 1)
  /\ pc' = [pc EXCEPT ![sent + 1] = "sent"]
  /\ UNCHANGED <<cfg, os, queue, lost, disp, pos, root, ifl>>

ClientReply(k) ==
  /\ pc[k] = "replied"
  /\ pc' = [pc EXCEPT ![k] = "done"]
  /\ UNCHANGED <<cfg, os, sent, inbound, queue, lost, disp, pos, root, ifl>>

(***************************************************************************)
(* zbus tasks: socket reader and dispatcher                                *)
(***************************************************************************)
ReaderDeliver ==
  /\ inbound # <<>>
  /\ LET k == Head(inbound) IN
     /\ inbound' = Tail(inbound)
     /\ IF os = "subscribed"
        THEN queue' = Append(queue, k) /\ UNCHANGED <<lost, pc>>
        ELSE lost' = lost \cup {k} /\ pc' = [pc EXCEPT ![k] = "lost"] /\ UNCHANGED queue
  /\ UNCHANGED <<cfg, os, sent, disp, pos, root, ifl>>

DispInit ==   \* first run of the dispatcher task: creates its stream (reachable only with "lazy_subscribe")
  /\ os = "created"
  /\ os' = "subscribed"
  /\ UNCHANGED <<cfg, sent, inbound, queue, lost, disp, pc, pos, root, ifl>>

FirstPc(k) == IF Kind(k) \in UserKinds THEN "ifR" ELSE IF Kind(k) = "ping" THEN "ended" ELSE "rootR"

\* take the next call, look the interface up under the root read lock (taken and released here:
\* dispatch_method_call_try), then run it inline or spawn a task for it
DispTake ==
  /\ os = "subscribed" /\ disp.pc = "idle" /\ queue # <<>>
  /\ CanRead(root)
  /\ LET k == Head(queue) IN
     /\ queue' = Tail(queue)
     /\ pc' = [pc EXCEPT ![k] = FirstPc(k)]
     /\ disp' = IF Inline(k) THEN [pc |-> "inline", k |-> k] ELSE disp
  /\ UNCHANGED <<cfg, os, sent, inbound, lost, pos, root, ifl>>

(***************************************************************************)
(* A call on its way to the handler (executed by the dispatcher when       *)
(* inline, else by the spawned task)                                       *)
(***************************************************************************)
HoldsRoot(k) == \/ (Kind(k) \in {"get", "set", "getall"} /\ "props_hold_root" \in DEVS)
                \/ (Kind(k) = "intro" /\ "intro_holds_root" \in DEVS)

\* fdo handler: root.read() -- released right after the lookup, or (deviation) kept
AcqRootR(k) ==
  /\ pc[k] = "rootR" /\ CanRead(root)
  /\ root' = IF HoldsRoot(k) THEN AddR(root, k) ELSE root
  /\ pc' = [pc EXCEPT ![k] = IF Kind(k) = "getall" THEN "ready" ELSE "ifR"]
  /\ UNCHANGED <<cfg, os, sent, inbound, queue, lost, disp, pos, ifl>>

\* X.read(): meth / get keep it for the handler; methmut / set only learn "needs &mut" and drop it;
\* intro reads the introspection data and drops it (and the root lock, if still held)
AcqIfR(k) ==
  /\ pc[k] = "ifR" /\ CanRead(ifl)
  /\ IF Kind(k) \in {"meth", "methnr", "get"}
     THEN ifl' = AddR(ifl, k) /\ pc' = [pc EXCEPT ![k] = "ready"] /\ UNCHANGED root
     ELSE IF Kind(k) = "intro"
     THEN pc' = [pc EXCEPT ![k] = "replied"] /\ root' = DelR(root, k) /\ UNCHANGED ifl
     ELSE pc' = [pc EXCEPT ![k] = "ifW"] /\ UNCHANGED <<ifl, root>>
  /\ UNCHANGED <<cfg, os, sent, inbound, queue, lost, disp, pos>>

AnnounceIfW(k) ==
  /\ pc[k] = "ifW" /\ ifl.w = 0
  /\ ifl' = [ifl EXCEPT !.w = k]
  /\ pc' = [pc EXCEPT ![k] = "ifWp"]
  /\ UNCHANGED <<cfg, os, sent, inbound, queue, lost, disp, pos, root>>

GetIfW(k) ==
  /\ pc[k] = "ifWp" /\ ifl.r = {}
  /\ ifl' = [ifl EXCEPT !.held = TRUE]
  /\ pc' = [pc EXCEPT ![k] = "ready"]
  /\ UNCHANGED <<cfg, os, sent, inbound, queue, lost, disp, pos, root>>

(***************************************************************************)
(* The user handler                                                        *)
(***************************************************************************)
Advance(k) == IF pos[k] = Len(Body(k)) THEN "ret" ELSE "run"   \* after consuming the atom at pos[k]

HStart(k) ==
  /\ pc[k] = "ready"
  /\ pc' = [pc EXCEPT ![k] = IF Body(k) = <<>> THEN "ret" ELSE "run"]
  /\ UNCHANGED <<cfg, os, sent, inbound, queue, lost, disp, pos, root, ifl>>

HLocal(k, atom) ==   \* pass a yield point / emit a signal: no lock involved
  /\ pc[k] = "run" /\ Body(k)[pos[k]] = atom
  /\ pc' = [pc EXCEPT ![k] = Advance(k)]
  /\ pos' = [pos EXCEPT ![k] = @ + 1]
  /\ UNCHANGED <<cfg, os, sent, inbound, queue, lost, disp, root, ifl>>
HYield(k) == HLocal(k, "y")
HEmit(k)  == HLocal(k, "e")

\* object_server().at / remove from inside the handler: root.write()
HWantWrite(k) ==
  /\ pc[k] = "run" /\ Body(k)[pos[k]] = "w"
  /\ pc' = [pc EXCEPT ![k] = "wreq"]
  /\ UNCHANGED <<cfg, os, sent, inbound, queue, lost, disp, pos, root, ifl>>
HAnnounceW(k) ==
  /\ pc[k] = "wreq" /\ root.w = 0
  /\ root' = [root EXCEPT !.w = k]
  /\ pc' = [pc EXCEPT ![k] = "wpend"]
  /\ UNCHANGED <<cfg, os, sent, inbound, queue, lost, disp, pos, ifl>>
HWrote(k) ==   \* readers drained: mutate the tree, release (at/remove do not suspend while holding it)
  /\ pc[k] = "wpend" /\ root.r = {}
  /\ root' = [root EXCEPT !.w = 0]
  /\ pc' = [pc EXCEPT ![k] = Advance(k)]
  /\ pos' = [pos EXCEPT ![k] = @ + 1]
  /\ UNCHANGED <<cfg, os, sent, inbound, queue, lost, disp, ifl>>

HEnd(k) ==   \* the user handler returns
  /\ pc[k] = "ret"
  /\ pc' = [pc EXCEPT ![k] = "ended"]
  /\ UNCHANGED <<cfg, os, sent, inbound, queue, lost, disp, pos, root, ifl>>

\* the handler has returned (pc = "ended"): write the reply, drop the locks, free the dispatcher
Finish(k) ==
  /\ pc[k] = "ended"
  /\ pc' = [pc EXCEPT ![k] = IF NoReply(Kind(k)) THEN "done" ELSE "replied"]   \* nobody waits for a reply that is not owed
  /\ ifl' = IF ifl.w = k THEN FreeLock ELSE DelR(ifl, k)
  /\ root' = DelR(root, k)
  /\ disp' = IF disp.pc = "inline" /\ disp.k = k THEN [pc |-> "idle", k |-> 0] ELSE disp
  /\ UNCHANGED <<cfg, os, sent, inbound, queue, lost, pos>>

TaskStep(k) == \/ AcqRootR(k) \/ AcqIfR(k) \/ AnnounceIfW(k) \/ GetIfW(k)
               \/ HStart(k) \/ HYield(k) \/ HEmit(k) \/ HWantWrite(k) \/ HAnnounceW(k) \/ HWrote(k)
               \/ HEnd(k) \/ Finish(k)

AllDone == \A k \in Calls : pc[k] = "done"
Done == sent = N /\ AllDone /\ UNCHANGED vars      \* explicit final stuttering: any other stuck state is a deadlock

\* one named action per kind of step (so that TLC's coverage shows none of them is vacuous)
DoClientReply == \E k \in Calls : ClientReply(k)
DoAcqRootR    == \E k \in Calls : AcqRootR(k)
DoAcqIfR      == \E k \in Calls : AcqIfR(k)
DoAnnounceIfW == \E k \in Calls : AnnounceIfW(k)
DoGetIfW      == \E k \in Calls : GetIfW(k)
DoHStart      == \E k \in Calls : HStart(k)
DoHYield      == \E k \in Calls : HYield(k)
DoHEmit       == \E k \in Calls : HEmit(k)
DoHWantWrite  == \E k \in Calls : HWantWrite(k)
DoHAnnounceW  == \E k \in Calls : HAnnounceW(k)
DoHWrote      == \E k \in Calls : HWrote(k)
DoHEnd        == \E k \in Calls : HEnd(k)
DoFinish      == \E k \in Calls : Finish(k)

Next == \/ CreateOS \/ ClientSend \/ ReaderDeliver \/ DispInit \/ DispTake
        \/ DoClientReply \/ DoAcqRootR \/ DoAcqIfR \/ DoAnnounceIfW \/ DoGetIfW
        \/ DoHStart \/ DoHYield \/ DoHEmit \/ DoHWantWrite \/ DoHAnnounceW \/ DoHWrote \/ DoHEnd \/ DoFinish
        \/ Done

Fairness == WF_vars(Next)     \* (Init is InitWith(c) for the configurations chosen in mc/ or read from a trace)

(***************************************************************************)
(* C29: an interface registered with spawning disabled runs its method     *)
(* handlers one after another in arrival order (calls are written, hence   *)
(* arrive, in index order).                                                *)
(***************************************************************************)
SeqCalls == IF cfg.spawn THEN {} ELSE {k \in Calls : Kind(k) \in UserKinds}
NoOverlap == Cardinality({k \in SeqCalls : pc[k] \in InBody}) <= 1
InArrivalOrder == \A k \in SeqCalls : pc[k] \in Started => \A j \in SeqCalls : j < k => pc[j] \in Over
C29 == NoOverlap /\ InArrivalOrder

(***************************************************************************)
(* C30: no call is lost, nothing deadlocks (TLC's deadlock check: every    *)
(* state other than the final one has a successor), every call is answered *)
(***************************************************************************)
NoLoss == lost = {}
EveryCallAnswered == <>(sent = N /\ AllDone)

\* what the harness calls quiescence: nothing in the system can move (the client may still hold unsent calls)
Stuck == /\ ~ENABLED ReaderDeliver /\ ~ENABLED DispInit /\ ~ENABLED DispTake
         /\ \A k \in Calls : ~ENABLED TaskStep(k) /\ ~ENABLED ClientReply(k)
Unanswered == {k \in Calls : pc[k] \notin {"new", "done"}}
=============================================================================
