----------------------------- MODULE Introspect -----------------------------
(***************************************************************************)
(* What org.freedesktop.DBus.Introspectable.Introspect must return for a    *)
(* node of an object tree that serves a program (C27): the expected         *)
(* document as an abstract tree, computed from the interface shapes and the *)
(* registrations, and the comparison with an observed document.             *)
(*                                                                          *)
(* A document (as parsed from the XML, see lib/props/iface_introspect.py    *)
(* and harness/iface zx_tree) is                                            *)
(*   node  = [ifaces |-> <<iface...>>, nodes |-> <<[name, node]...>>]       *)
(*   iface = [name, methods, signals, props]                                *)
(*   method / signal = [name, args |-> <<[name, type, dir]...>>]            *)
(*   prop  = [name, type, access, annots |-> <<[name, value]...>>]          *)
(* Demanded (property statement): the node lists exactly the interfaces     *)
(* registered at it plus the three interfaces every object has, and exactly *)
(* its child nodes; every generated interface declares exactly its methods, *)
(* signals and properties with the types of Shapes!ExpectedSig: one `in`    *)
(* argument per parameter, one `out` argument per element of a tuple return *)
(* (a single one for non-tuple returns), the property type and access, and  *)
(* the EmitsChangedSignal annotation that corresponds to the behaviour      *)
(* (no annotation = "true").  Argument names and the order of elements are  *)
(* not compared.  A child node may be listed by name only or with content;  *)
(* content, if present, must be that child's own document.                  *)
(***************************************************************************)
EXTENDS Shapes

StdIfaceNames == {"org.freedesktop.DBus.Peer", "org.freedesktop.DBus.Introspectable", "org.freedesktop.DBus.Properties"}
EmitsAnnotation == "org.freedesktop.DBus.Property.EmitsChangedSignal"

SeqSet(s) == {s[i] : i \in 1..Len(s)}
(* an argument as (type, direction); a missing direction means "in" for methods (D-Bus specification) *)
ArgTD(a, isMethod) == <<a.type, IF a.dir = "" /\ isMethod THEN "in" ELSE a.dir>>
ArgsTD(args, isMethod) == [i \in 1..Len(args) |-> ArgTD(args[i], isMethod)]
InArgs(args)  == SelectSeq(ArgsTD(args, TRUE), LAMBDA a : a[2] = "in")
OutArgs(args) == SelectSeq(ArgsTD(args, TRUE), LAMBDA a : a[2] = "out")

(* ---- expected ---- *)
ExpMethod(m) == [name |-> m.name,
                 ins  |-> [i \in 1..Len(InTypes(m)) |-> SigStr(InTypes(m)[i])],
                 outs |-> [i \in 1..Len(OutTypes(m)) |-> SigStr(OutTypes(m)[i])]]
ExpSignal(s) == [name |-> s.name, args |-> [i \in 1..Len(s.args) |-> SigStr(s.args[i])]]
ExpProp(p)   == [name |-> p.name, type |-> PropSig(p), access |-> p.access, emits |-> EffEmits(p)]
ExpIface(sh) == [name |-> sh.name,
                 methods |-> {ExpMethod(sh.methods[i]) : i \in 1..Len(sh.methods)},
                 signals |-> {ExpSignal(sh.signals[i]) : i \in 1..Len(sh.signals)},
                 props   |-> {ExpProp(sh.props[i]) : i \in 1..Len(sh.props)}]
ExpIfaceNames(prog, segs) == StdIfaceNames \cup {ShapeById(prog.shapes, k).name : k \in IfacesAt(prog.regs, segs)}
ExpChildren(prog, segs) == ChildrenOf(prog.regs, segs)

(* ---- observed, normalised to the same form ---- *)
ObsMethod(m) == [name |-> m.name,
                 ins  |-> [i \in 1..Len(InArgs(m.args)) |-> InArgs(m.args)[i][1]],
                 outs |-> [i \in 1..Len(OutArgs(m.args)) |-> OutArgs(m.args)[i][1]]]
ObsSignal(s) == [name |-> s.name, args |-> [i \in 1..Len(s.args) |-> s.args[i].type]]
EmitsOf(p) == LET as == {a \in SeqSet(p.annots) : a.name = EmitsAnnotation} IN
              IF as = {} THEN "true" ELSE (CHOOSE a \in as : TRUE).value
ObsProp(p) == [name |-> p.name, type |-> p.type, access |-> p.access, emits |-> EmitsOf(p)]
ObsIface(i) == [name |-> i.name,
                methods |-> {ObsMethod(m) : m \in SeqSet(i.methods)},
                signals |-> {ObsSignal(s) : s \in SeqSet(i.signals)},
                props   |-> {ObsProp(p) : p \in SeqSet(i.props)}]
NoDuplicates(i) == /\ Cardinality({m.name : m \in SeqSet(i.methods)}) = Len(i.methods)
                   /\ Cardinality({s.name : s \in SeqSet(i.signals)}) = Len(i.signals)
                   /\ Cardinality({p.name : p \in SeqSet(i.props)}) = Len(i.props)
                   /\ \A m \in SeqSet(i.methods) : Len(InArgs(m.args)) + Len(OutArgs(m.args)) = Len(m.args)

(* ---- comparison: the set of violated clauses of a document for the node `segs` ---- *)
ShapeNamed(prog, n) == LET ks == {i \in 1..Len(prog.shapes) : prog.shapes[i].name = n} IN prog.shapes[CHOOSE i \in ks : TRUE]
IsGenerated(prog, n) == \E i \in 1..Len(prog.shapes) : prog.shapes[i].name = n

RECURSIVE NodeFaults(_, _, _)
NodeFaults(prog, doc, segs) ==
  LET names == {i.name : i \in SeqSet(doc.ifaces)}
      kids  == {c.name : c \in SeqSet(doc.nodes)} IN
  (IF names = ExpIfaceNames(prog, segs) /\ Cardinality(names) = Len(doc.ifaces) THEN {} ELSE {"c27-interfaces"})
  \cup (IF kids = ExpChildren(prog, segs) /\ Cardinality(kids) = Len(doc.nodes) THEN {} ELSE {"c27-children"})
  \cup UNION {IF IsGenerated(prog, i.name) /\ i.name \in ExpIfaceNames(prog, segs)
              THEN (IF ObsIface(i) = ExpIface(ShapeNamed(prog, i.name)) /\ NoDuplicates(i) THEN {} ELSE {"c27-members:" \o i.name})
              ELSE {} : i \in SeqSet(doc.ifaces)}
  \cup UNION {IF c.name \in ExpChildren(prog, segs) /\ (c.node.ifaces # <<>> \/ c.node.nodes # <<>>)
              THEN (IF NodeFaults(prog, c.node, Append(segs, c.name)) = {} THEN {} ELSE {"c27-nested-node:" \o c.name})
              ELSE {} : c \in SeqSet(doc.nodes)}

(* ---- named deviation: doc comments are copied into an XML comment unescaped ---- *)
(* Text containing "--" is not allowed inside an XML comment; Shapes!Docs lists the doc texts of the  *)
(* generator, the last two are of that kind.                                                          *)
BadDocs == {Docs[5], Docs[6]}
ShapeHasBadDoc(sh) ==
  \/ \E i \in 1..Len(sh.methods) : sh.methods[i].doc \in BadDocs
  \/ \E i \in 1..Len(sh.props) : sh.props[i].doc \in BadDocs
  \/ \E i \in 1..Len(sh.signals) : sh.signals[i].doc \in BadDocs
(* the document of `segs` contains the documents of all nodes below it *)
SubtreeHasBadDoc(prog, segs) ==
  \E i \in 1..Len(prog.regs) : IsPrefix(segs, prog.regs[i].segs) /\ ShapeHasBadDoc(ShapeById(prog.shapes, prog.regs[i].iface))

(* ---- named deviation: zbus_xml's reader gives up on large documents ---- *)
(* zbus_xml::Node::from_reader limits quick-xml's look-ahead buffer to 4096 XML events; while it     *)
(* collects the <interface> elements of a node, all following <node> children are buffered.  An       *)
(* element contributes at most three events (start, text, end), so the limit can only be hit when    *)
(* the child nodes of the document hold more than 4096 / 3 elements.                                  *)
RECURSIVE SumLens(_, _)          \* sum over a sequence of records of (1 + Len(field))
SumLens(s, useAnnots) ==
  IF s = <<>> THEN 0
  ELSE 1 + (IF useAnnots THEN Len(Head(s).annots) ELSE Len(Head(s).args)) + SumLens(Tail(s), useAnnots)
RECURSIVE IfaceElemsSum(_)
IfaceElemsSum(is) ==
  IF is = <<>> THEN 0
  ELSE 1 + SumLens(Head(is).methods, FALSE) + SumLens(Head(is).signals, FALSE) + SumLens(Head(is).props, TRUE)
       + IfaceElemsSum(Tail(is))
RECURSIVE Elems(_), ChildElemsSum(_)
Elems(doc) == IfaceElemsSum(doc.ifaces) + ChildElemsSum(doc.nodes)
ChildElemsSum(cs) == IF cs = <<>> THEN 0 ELSE 1 + Elems(Head(cs).node) + ChildElemsSum(Tail(cs))
ChildNodeElems(doc) == Elems([ifaces |-> <<>>, nodes |-> doc.nodes])
ReadbackLimitCanApply(doc) == ChildNodeElems(doc) * 3 > 4096

(* expected doc lines of the members of an interface: "<Member>" -> lines (trimmed, as written in the source) *)
ExpDocs(sh) ==
  [n \in {sh.methods[i].name : i \in 1..Len(sh.methods)} \cup {sh.props[i].name : i \in 1..Len(sh.props)}
         \cup {sh.signals[i].name : i \in 1..Len(sh.signals)} |->
     LET ms == {i \in 1..Len(sh.methods) : sh.methods[i].name = n}
         ps == {i \in 1..Len(sh.props) : sh.props[i].name = n}
         ss == {i \in 1..Len(sh.signals) : sh.signals[i].name = n} IN
     IF ms # {} THEN sh.methods[CHOOSE i \in ms : TRUE].doc
     ELSE IF ps # {} THEN sh.props[CHOOSE i \in ps : TRUE].doc
     ELSE sh.signals[CHOOSE i \in ss : TRUE].doc]
=============================================================================
