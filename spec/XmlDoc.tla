------------------------------- MODULE XmlDoc -------------------------------
(***************************************************************************)
(* D-Bus introspection documents ("Introspection Data Format" section of    *)
(* the D-Bus specification) as abstract values, their denotation as an XML  *)
(* element tree, and the way back (C34).  Written from the specification    *)
(* (the DTD), not from zbus_xml's serde model.                               *)
(*                                                                         *)
(* Abstract document (strings are UTF-8 byte sequences):                    *)
(*   node       = [interfaces |-> <<interface...>>, nodes |-> <<node...>>]  *)
(*                + optional name |-> bytes                                 *)
(*   interface  = [name, methods, properties, signals, annotations]         *)
(*   method     = [name, args, annotations]        signal likewise          *)
(*   arg        = [type, annotations] + optional name, optional             *)
(*                direction |-> "in" | "out"                                *)
(*   property   = [name, type, access |-> "read"|"write"|"readwrite",       *)
(*                annotations]                                              *)
(*   annotation = [name, value]                                             *)
(* XML element tree: [tag |-> string, attrs |-> set of [n |-> string,       *)
(*   v |-> bytes], kids |-> sequence of trees]; character data between      *)
(*   elements carries no meaning in this format and is not modelled.        *)
(*                                                                         *)
(* The property: a document value written out and read back is the same     *)
(* value (doc2 = doc1); and, for other readers, the written text denotes    *)
(* Denote(doc1).  `devs` are the named deviations (DESIGN.md section 2.6).   *)
(***************************************************************************)
EXTENDS Naturals, Sequences, FiniteSets, TLC

Has(r, f) == f \in DOMAIN r

DirBytes(d)    == IF d = "in" THEN <<105,110>> ELSE <<111,117,116>>
AccessBytes(a) == CASE a = "read" -> <<114,101,97,100>> [] a = "write" -> <<119,114,105,116,101>>
                    [] OTHER -> <<114,101,97,100,119,114,105,116,101>>

Devs34 == {"root_tag_Node",             \* the document element is written <Node> instead of <node>
           "absent_attr_written_empty", \* an absent optional attribute (node name, arg name, arg direction) is written as ""
           "attr_ws_literal"}           \* TAB / LF / CR inside attribute values are written literally (a
                                        \* conforming reader normalises them to spaces)

(* Attribute-value normalisation of XML 1.0 (sections 2.11, 3.3.3) applied to
   literally written white space: CR LF and lone CR become LF, then TAB / LF
   become a space. *)
RECURSIVE WsNorm(_,_)
WsNorm(v, i) ==
  IF i > Len(v) THEN <<>>
  ELSE IF v[i] = 13 THEN <<32>> \o WsNorm(v, IF i < Len(v) /\ v[i + 1] = 10 THEN i + 2 ELSE i + 1)
  ELSE IF v[i] \in {9, 10} THEN <<32>> \o WsNorm(v, i + 1)
  ELSE <<v[i]>> \o WsNorm(v, i + 1)
Val(v, devs) == IF "attr_ws_literal" \in devs THEN WsNorm(v, 1) ELSE v

A(n, v) == [n |-> n, v |-> v]
Req(n, v, devs) == {A(n, Val(v, devs))}
OptA(r, f, n, devs) ==
  IF Has(r, f) THEN {A(n, Val(IF f = "direction" THEN DirBytes(r[f]) ELSE r[f], devs))}
  ELSE IF "absent_attr_written_empty" \in devs THEN {A(n, <<>>)} ELSE {}
E(tag, attrs, kids) == [tag |-> tag, attrs |-> attrs, kids |-> kids]
Map(F(_), s) == [i \in 1..Len(s) |-> F(s[i])]

(* ------------------------------ document -> tree ------------------------ *)
DAnn(a, devs) == E("annotation", Req("name", a.name, devs) \cup Req("value", a.value, devs), <<>>)
DAnns(r, devs) == [i \in 1..Len(r.annotations) |-> DAnn(r.annotations[i], devs)]
DArg(a, devs) ==
  E("arg", OptA(a, "name", "name", devs) \cup Req("type", a.type, devs) \cup OptA(a, "direction", "direction", devs), DAnns(a, devs))
DMember(tag, m, devs) ==
  E(tag, Req("name", m.name, devs), [i \in 1..Len(m.args) |-> DArg(m.args[i], devs)] \o DAnns(m, devs))
DProp(p, devs) ==
  E("property", Req("name", p.name, devs) \cup Req("type", p.type, devs) \cup Req("access", AccessBytes(p.access), devs), DAnns(p, devs))
DIface(i, devs) ==
  E("interface", Req("name", i.name, devs),
    [k \in 1..Len(i.methods) |-> DMember("method", i.methods[k], devs)]
    \o [k \in 1..Len(i.properties) |-> DProp(i.properties[k], devs)]
    \o [k \in 1..Len(i.signals) |-> DMember("signal", i.signals[k], devs)]
    \o DAnns(i, devs))
RECURSIVE DNode(_,_,_)
DNode(n, devs, root) ==
  E(IF root /\ "root_tag_Node" \in devs THEN "Node" ELSE "node", OptA(n, "name", "name", devs),
    [k \in 1..Len(n.interfaces) |-> DIface(n.interfaces[k], devs)]
    \o [k \in 1..Len(n.nodes) |-> DNode(n.nodes[k], devs, FALSE)])

DenoteD(doc, devs) == DNode(doc, devs, TRUE)
Denote(doc) == DenoteD(doc, {})

(* The order of child elements with different names carries no meaning (the
   DTD allows any interleaving); the order among children of one name does. *)
RECURSIVE Canon(_)
Canon(t) ==
  [tag |-> t.tag, attrs |-> t.attrs,
   kids |-> [g \in {t.kids[i].tag : i \in 1..Len(t.kids)} |->
               LET T(k) == k.tag = g
                   sel  == SelectSeq(t.kids, T)
               IN  [i \in 1..Len(sel) |-> Canon(sel[i])]]]

(* ------------------------------ tree -> document ------------------------ *)
AttrOf(t, n) == (CHOOSE a \in t.attrs : a.n = n).v
HasAttr(t, n) == \E a \in t.attrs : a.n = n
Kids(t, tag) == LET T(k) == k.tag = tag IN SelectSeq(t.kids, T)
OptF(t, n, f, conv(_)) == IF HasAttr(t, n) THEN f :> conv(AttrOf(t, n)) ELSE <<>>
Id(x) == x
DirOf(b) == IF b = <<105,110>> THEN "in" ELSE "out"
AccessOf(b) == CASE b = <<114,101,97,100>> -> "read" [] b = <<119,114,105,116,101>> -> "write" [] OTHER -> "readwrite"
AAnn(t)  == [name |-> AttrOf(t, "name"), value |-> AttrOf(t, "value")]
AAnns(t) == Map(AAnn, Kids(t, "annotation"))
AArg(t)  == [type |-> AttrOf(t, "type"), annotations |-> AAnns(t)] @@ OptF(t, "name", "name", Id) @@ OptF(t, "direction", "direction", DirOf)
AMember(t) == [name |-> AttrOf(t, "name"), args |-> Map(AArg, Kids(t, "arg")), annotations |-> AAnns(t)]
AProp(t) == [name |-> AttrOf(t, "name"), type |-> AttrOf(t, "type"), access |-> AccessOf(AttrOf(t, "access")), annotations |-> AAnns(t)]
AIface(t) == [name |-> AttrOf(t, "name"), methods |-> Map(AMember, Kids(t, "method")), properties |-> Map(AProp, Kids(t, "property")),
              signals |-> Map(AMember, Kids(t, "signal")), annotations |-> AAnns(t)]
RECURSIVE ANode(_)
ANode(t) == [interfaces |-> Map(AIface, Kids(t, "interface")),
             nodes |-> LET ks == Kids(t, "node") IN [i \in 1..Len(ks) |-> ANode(ks[i])]]
            @@ OptF(t, "name", "name", Id)
Abstract(tree) == ANode(tree)

(* ------------------- what the listed deviations do to a round trip ------- *)
(* "absent_name_reads_empty": an absent node / arg name comes back as the empty string *)
EmptyArgNames(m) == [m EXCEPT !.args = [i \in 1..Len(@) |-> IF Has(@[i], "name") THEN @[i] ELSE @[i] @@ [name |-> <<>>]]]
EmptyIface(i) == [i EXCEPT !.methods = Map(EmptyArgNames, @), !.signals = Map(EmptyArgNames, @)]
RECURSIVE EmptyNames(_)
EmptyNames(n) ==
  [interfaces |-> Map(EmptyIface, n.interfaces), nodes |-> [i \in 1..Len(n.nodes) |-> EmptyNames(n.nodes[i])],
   name |-> IF Has(n, "name") THEN n.name ELSE <<>>]
(* "absent_direction_unreadable": a document with an arg that has no direction cannot be read back *)
RECURSIVE AbsentDirection(_)
AbsentDirection(n) ==
  \/ \E i \in 1..Len(n.interfaces) :
       \E m \in {n.interfaces[i].methods[k] : k \in 1..Len(n.interfaces[i].methods)}
                \cup {n.interfaces[i].signals[k] : k \in 1..Len(n.interfaces[i].signals)} :
         \E k \in 1..Len(m.args) : ~Has(m.args[k], "direction")
  \/ \E i \in 1..Len(n.nodes) : AbsentDirection(n.nodes[i])

(* ---------------------- JSON forms (harness / Python) -------------------- *)
(* element tree as produced by the strict XML parser: attrs is a list *)
RECURSIVE TreeOfJson(_)
TreeOfJson(t) == [tag |-> t.tag, attrs |-> {t.attrs[i] : i \in 1..Len(t.attrs)},
                  kids |-> [i \in 1..Len(t.kids) |-> TreeOfJson(t.kids[i])]]
=============================================================================
