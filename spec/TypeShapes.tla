----------------------------- MODULE TypeShapes -----------------------------
(***************************************************************************)
(* Rust type definitions with a D-Bus type (property C09) as *shapes*, and    *)
(* the signature each must declare, from the documentation of                 *)
(* `#[derive(Type)]` and of the `Type` impls for std types:                   *)
(*   leaf      [c |-> "u8" | "bool" | "i16" | "u16" | "i32" | "u32" | "i64" |  *)
(*                    "u64" | "f64" | "string" | "path" | "sig" | "value" |    *)
(*                    "duration" | "ipv4" ]                                    *)
(*   vec       [c |-> "vec", e |-> S]            Vec<S>            -> aS       *)
(*   map       [c |-> "map", k |-> leaf, v |-> S] HashMap<K, S>    -> a{KS}    *)
(*   tuple     [c |-> "tuple", f |-> <<S..>>]    (S1, S2, ..)      -> (S1S2..) *)
(*   struct    [c |-> "struct", f |-> <<S..>>]   derive(Type) struct, named    *)
(*                                               fields            -> (S1S2..) *)
(*   tstruct   [c |-> "tstruct", f |-> <<S..>>]  tuple struct, >= 2 fields     *)
(*   newtype   [c |-> "newtype", e |-> S]        struct N(S)       -> S        *)
(*   unitenum  [c |-> "unitenum", repr |-> "u32" | "u8" | "str"]  -> u / y / s *)
(*   dataenum  [c |-> "dataenum", vk |-> kind, e |-> S]  enum whose variants all have the same fields:  *)
(*               vk = "newtype"  { A(S), B(S) }          -> (uS)               *)
(*               vk = "tuple2"   { A(S, u8), B(S, u8) }  -> (u(Sy))            *)
(*               vk = "struct1"  { A { x: S }, .. }      -> (u(S))   a struct variant is a struct, *)
(*               vk = "struct2"  { A { x: S, y: u8 }, ..} -> (u(Sy))  whatever its field count      *)
(*   dict      [c |-> "dict", f |-> <<leaf..>>]  #[zvariant(signature="dict")] *)
(*                                               struct            -> a{sv}    *)
(***************************************************************************)
EXTENDS Naturals, Sequences, SigGrammar

Leafs == {"u8","bool","i16","u16","i32","u32","i64","u64","f64","string","path","sig","value","duration","ipv4"}
\* the std atomics declare the signature of the primitive they hold (zvariant/src/type/libstd.rs atomic_impl!)
AtomLeafs == {"at_bool", "at_u8", "at_i16", "at_u16", "at_i32", "at_u32", "at_i64", "at_u64"}
RECURSIVE ESig(_), ESigSeq(_)
ESigSeq(fs) == IF fs = <<>> THEN <<>> ELSE ESig(Head(fs)) \o ESigSeq(Tail(fs))
ESig(S) ==
  CASE S.c = "u8" -> <<121>> [] S.c = "bool" -> <<98>> [] S.c = "i16" -> <<110>> [] S.c = "u16" -> <<113>>
    [] S.c = "i32" -> <<105>> [] S.c = "u32" -> <<117>> [] S.c = "i64" -> <<120>> [] S.c = "u64" -> <<116>>
    [] S.c = "f64" -> <<100>> [] S.c = "string" -> <<115>> [] S.c = "path" -> <<111>> [] S.c = "sig" -> <<103>>
    [] S.c = "value" -> <<118>>
    [] S.c = "at_bool" -> <<98>> [] S.c = "at_u8" -> <<121>> [] S.c = "at_i16" -> <<110>> [] S.c = "at_u16" -> <<113>>
    [] S.c = "at_i32" -> <<105>> [] S.c = "at_u32" -> <<117>> [] S.c = "at_i64" -> <<120>> [] S.c = "at_u64" -> <<116>>
    [] S.c = "duration" -> <<40, 116, 117, 41>>                 \* (tu): seconds, nanoseconds
    [] S.c = "ipv4" -> <<40, 121, 121, 121, 121, 41>>             \* (yyyy)
    [] S.c = "vec" -> <<97>> \o ESig(S.e)
    [] S.c = "map" -> <<97, 123>> \o ESig(S.k) \o ESig(S.v) \o <<125>>
    [] S.c \in {"tuple", "struct", "tstruct"} -> <<40>> \o ESigSeq(S.f) \o <<41>>
    [] S.c = "newtype" -> ESig(S.e)
    [] S.c = "unitenum" -> (CASE S.repr = "u32" -> <<117>> [] S.repr = "u8" -> <<121>> [] S.repr = "str" -> <<115>>)
    [] S.c = "dataenum" ->
         (CASE S.vk = "newtype" -> <<40, 117>> \o ESig(S.e) \o <<41>>
            [] S.vk = "struct1" -> <<40, 117, 40>> \o ESig(S.e) \o <<41, 41>>
            [] S.vk \in {"tuple2", "struct2"} -> <<40, 117, 40>> \o ESig(S.e) \o <<121, 41, 41>>)
    [] S.c = "dict" -> <<97, 123, 115, 118, 125>>
ExpectedSig(S) == ESig(S)

\* every expected signature is a valid single complete type (self-check of the table)
WellFormed(S) == SingleCompleteType(ExpectedSig(S), FALSE)
=============================================================================
