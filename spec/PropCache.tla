----------------------------- MODULE PropCache -----------------------------
(***************************************************************************)
(* C31: a proxy's property cache reflects the received history.             *)
(* Once the cache is ready, the cached value of each property is the value  *)
(* implied by the messages received so far, in receive order: the GetAll    *)
(* snapshot, then every later PropertiesChanged signal for the proxy's own   *)
(* object and interface (changed entries set, invalidated entries cleared).  *)
(* Signals received before the GetAll reply are superseded by the snapshot;  *)
(* other interfaces, other objects / senders and properties marked uncached  *)
(* never affect it; property change streams report the latest value.         *)
(*                                                                           *)
(* Part 1: the reference fold over a received history (the property monitor, *)
(* used by the trace validator).  Part 2: state machine of the service, the  *)
(* socket reader and the cache task (one action per critical section of      *)
(* zbus/src/proxy/mod.rs PropertiesCache::{init, keep_updated,               *)
(* update_cache}), checked by TLC under all arrival orders / interleavings.  *)
(***************************************************************************)
EXTENDS Integers, Sequences, FiniteSets, TLC

Props == {"P", "Q", "U"}
Uncached == {"U"}
None == -1               \* "no cached value" (never cached, or invalidated); real values are naturals

(***************************************************************************)
(* Part 1.  Events of a received history:                                    *)
(*   [k |-> "reply", snap]                       GetAll reply, snap: record prop |-> value            *)
(*   [k |-> "chg", iface, src, path, changed, inval]   PropertiesChanged; iface "own"|"other",       *)
(*        src "svc"|"stranger", path "own"|"other", changed: record, inval: sequence of names         *)
(*   [k |-> "getreply", prop, val]                reply to the Get issued by PropertyChanged::get       *)
(*   [k |-> "obs", cached]                        cached_property of every property, at quiescence     *)
(*   others ("q", "ready", "streams", ..) do not change the cache                                      *)
(***************************************************************************)
Empty == [p \in Props |-> None]
Cacheable(r) == (DOMAIN r) \cap (Props \ Uncached)
InvalSet(s) == {s[i] : i \in 1..Len(s)} \cap (Props \ Uncached)
Ours(e) == e.iface = "own" /\ e.src = "svc" /\ e.path = "own"

ApplySnapshot(cache, snap) == [p \in Props |-> IF p \in Cacheable(snap) THEN snap[p] ELSE cache[p]]
ApplyChange(cache, e) ==
  [p \in Props |-> IF p \in Cacheable(e.changed) THEN e.changed[p]
                   ELSE IF p \in InvalSet(e.inval) THEN None ELSE cache[p]]

\* state of the fold: [ready, cache, pend]
(* A "getreply" event is the reply to the Properties.Get that PropertyChanged::get issues for an invalidated
   property; the value it carries is stored in the cache.  It takes its place in the receive order like any
   other message.  Named deviation (devs):
     "refetch_overwrites_newer": the fetched value is written when the caller resumes, i.e. after every
        PropertiesChanged signal that was received together with (but after) the reply -- an older value
        overwrites a newer one.  Modelled by deferring the write to the next quiescent point ("q"). *)
FoldInit == [ready |-> FALSE, cache |-> Empty, pend |-> <<>>]
StoreFetched(cache, e) == [p \in Props |-> IF p = e.prop /\ p \notin Uncached THEN e.val ELSE cache[p]]
FoldStep(st, e, devs) ==
  CASE e.k = "reply" /\ ~st.ready -> [st EXCEPT !.ready = TRUE, !.cache = ApplySnapshot(st.cache, e.snap)]
    [] e.k = "chg" /\ st.ready /\ Ours(e) -> [st EXCEPT !.cache = ApplyChange(st.cache, e)]
    [] e.k = "getreply" /\ st.ready ->
         IF "refetch_overwrites_newer" \in devs THEN [st EXCEPT !.pend = Append(st.pend, e)]
         ELSE [st EXCEPT !.cache = StoreFetched(st.cache, e)]
    [] e.k = "q" /\ st.pend # <<>> -> [st EXCEPT !.cache = StoreFetched(st.cache, st.pend[1]), !.pend = <<>>]
    [] OTHER -> st
RECURSIVE FoldTo(_, _, _, _)
FoldTo(evs, n, st, devs) == IF n = 0 THEN st ELSE FoldStep(FoldTo(evs, n - 1, st, devs), evs[n], devs)
FoldD(evs, n, devs) == FoldTo(evs, n, FoldInit, devs)   \* state after the first n events
Fold(evs, n) == FoldD(evs, n, {})
KnownDevs == {"refetch_overwrites_newer"}

(***************************************************************************)
(* Part 2.  State machine.                                                   *)
(***************************************************************************)
CONSTANTS MaxMsgs,        \* messages the service sends (one of them the GetAll reply)
          Changes         \* the PropertiesChanged signals it may send (records as above, without k)

VARIABLES sent,     \* number of messages sent; replied: GetAll answered
          replied,
          wire,     \* sent, not yet read by the socket reader (each with seq)
          chgQ,     \* queue of the PropertiesChanged match rule
          rep,      \* GetAll reply delivered to the pending call (<<>> or <<msg>>)
          pc,       \* cache task: "join" (init: ordered join of both) | "keep" (keep_updated)
          cache, ready,
          hist      \* history: messages in receive (= read) order
vars == <<sent, replied, wire, chgQ, rep, pc, cache, ready, hist>>

Snapshot == [P |-> 1, Q |-> 2, U |-> 3]

Init == /\ sent = 0 /\ replied = FALSE /\ wire = <<>> /\ chgQ = <<>> /\ rep = <<>> /\ pc = "join"
        /\ cache = Empty /\ ready = FALSE /\ hist = <<>>

Send(m) == /\ sent < MaxMsgs /\ sent' = sent + 1 /\ wire' = Append(wire, m @@ [seq |-> sent + 1])
\* --- the service (and a stranger) ---
SendReply == /\ ~replied /\ replied' = TRUE /\ Send([k |-> "reply", snap |-> Snapshot])
             /\ UNCHANGED <<chgQ, rep, pc, cache, ready, hist>>
SendChange(c) == /\ Send(c @@ [k |-> "chg"]) /\ UNCHANGED <<replied, chgQ, rep, pc, cache, ready, hist>>

\* --- socket reader: the signal rule names the service's unique name, the object path and the Properties interface ---
Read ==
  /\ wire # <<>> /\ wire' = Tail(wire)
  /\ LET m == Head(wire) IN
     /\ hist' = Append(hist, m)
     /\ chgQ' = IF m.k = "chg" /\ m.src = "svc" /\ m.path = "own" THEN Append(chgQ, m) ELSE chgQ
     /\ rep' = IF m.k = "reply" THEN <<m>> ELSE rep
  /\ UNCHANGED <<sent, replied, pc, cache, ready>>

\* --- PropertiesCache::init: ordered join of the change stream and the GetAll reply ---
Update(c, m) == IF m.iface = "own" THEN ApplyChange(c, m) ELSE c
JoinStep ==
  /\ pc = "join" /\ (chgQ # <<>> \/ rep # <<>>)
  /\ IF chgQ # <<>> /\ (rep = <<>> \/ Head(chgQ).seq < rep[1].seq)
     THEN /\ chgQ' = Tail(chgQ)                        \* received before the snapshot: superseded, discard
          /\ UNCHANGED <<rep, pc, cache, ready>>
     ELSE /\ rep' = <<>> /\ pc' = "keep" /\ ready' = TRUE
          /\ IF chgQ = <<>> THEN /\ cache' = ApplySnapshot(cache, rep[1].snap) /\ UNCHANGED chgQ
             ELSE /\ chgQ' = Tail(chgQ)                \* buffered by the join behind the reply: applied on top
                  /\ cache' = Update(ApplySnapshot(cache, rep[1].snap), Head(chgQ))
  /\ UNCHANGED <<sent, replied, wire, hist>>
\* --- PropertiesCache::keep_updated ---
KeepStep == /\ pc = "keep" /\ chgQ # <<>> /\ chgQ' = Tail(chgQ) /\ cache' = Update(cache, Head(chgQ))
            /\ UNCHANGED <<sent, replied, wire, rep, pc, ready, hist>>

Next == SendReply \/ (\E c \in Changes : SendChange(c)) \/ Read \/ JoinStep \/ KeepStep
Spec == Init /\ [][Next]_vars

Quiescent == wire = <<>> /\ chgQ = <<>> /\ rep = <<>>
\* C31
CacheIsFold == (ready /\ Quiescent) => cache = Fold(hist, Len(hist)).cache
ReadyIffSnapshot == Quiescent => (ready <=> Fold(hist, Len(hist)).ready)
NeverCachesUncached == \A p \in Uncached : cache[p] = None
=============================================================================
