------------------------------ MODULE DBusWire ------------------------------
(***************************************************************************)
(* Reference definition of the D-Bus wire format ("Marshaling" section of   *)
(* the D-Bus specification), independent of zvariant's serde machinery.     *)
(*                                                                         *)
(* Values (abstract model, see DESIGN.md section 3):                        *)
(*   fixed width  [b |-> <<bytes, big-endian>>]  (bool = 4 bytes, 0 or 1)   *)
(*   fd           [h |-> index]                                            *)
(*   s, o, g      [s |-> <<bytes>>]                                        *)
(*   array/dict   [a |-> <<V...>>]                                         *)
(*   struct/entry [r |-> <<V...>>]                                         *)
(*   variant      [t |-> T, v |-> V]                                       *)
(* TLC integers are 32-bit, so fixed-width numbers stay byte tuples; only   *)
(* layout (alignment, byte order, lengths, terminators) is specified here.  *)
(***************************************************************************)
EXTENDS Naturals, Sequences, SigGrammar

Pad(pos, al) == (al - (pos % al)) % al
Zeros(n)     == [i \in 1..n |-> 0]
Rev(s)       == [i \in 1..Len(s) |-> s[Len(s) + 1 - i]]
U32BE(n)     == << (n \div 16777216) % 256, (n \div 65536) % 256, (n \div 256) % 256, n % 256 >>
U32(n, le)   == IF le THEN Rev(U32BE(n)) ELSE U32BE(n)
Ord(bs, le)  == IF le THEN Rev(bs) ELSE bs          \* wire order of a big-endian tuple

FixedKinds == {"y","b","n","q","i","u","x","t","d","h"}
StrKinds   == {"s","o"}

FixedSize(k) == CASE k = "y" -> 1 [] k \in {"n","q"} -> 2 [] k \in {"b","i","u","h"} -> 4
                  [] k \in {"x","t","d"} -> 8

Align(T) == CASE T.k \in {"y","g","v"} -> 1
              [] T.k \in {"n","q"} -> 2
              [] T.k \in {"b","i","u","h","s","o","a"} -> 4
              [] T.k \in {"x","t","d","r","e"} -> 8

(***************************** Marshalling *********************************)
RECURSIVE M(_,_,_,_), MSeq(_,_,_,_), MArr(_,_,_,_)
MSeq(ts, vs, pos, le) ==
  IF vs = <<>> THEN <<>>
  ELSE LET h == M(Head(ts), Head(vs), pos, le)
       IN  h \o MSeq(Tail(ts), Tail(vs), pos + Len(h), le)
MArr(T, vs, pos, le) ==
  IF vs = <<>> THEN <<>>
  ELSE LET h == M(T, Head(vs), pos, le)
       IN  h \o MArr(T, Tail(vs), pos + Len(h), le)
M(T, v, pos, le) ==
  LET p == Zeros(Pad(pos, Align(T))) IN
  CASE T.k = "h"         -> p \o U32(v.h, le)
    [] T.k \in FixedKinds \ {"h"} -> p \o Ord(v.b, le)
    [] T.k \in StrKinds  -> p \o U32(Len(v.s), le) \o v.s \o <<0>>
    [] T.k = "g"         -> <<Len(v.s)>> \o v.s \o <<0>>
    [] T.k = "v"         -> LET sg == Fmt(v.t)
                                hd == <<Len(sg)>> \o sg \o <<0>>
                            IN  hd \o M(v.t, v.v, pos + Len(hd), le)
    [] T.k = "a"         -> LET start == pos + Len(p) + 4
                                fp    == Zeros(Pad(start, Align(T.e)))
                                body  == MArr(T.e, v.a, start + Len(fp), le)
                            IN  p \o U32(Len(body), le) \o fp \o body  \* length excludes fp
    [] T.k = "r"         -> p \o MSeq(T.f, v.r, pos + Len(p), le)
    [] T.k = "e"         -> p \o MSeq(<<T.key, T.val>>, v.r, pos + Len(p), le)

Marshal(T, v, pos, le) == M(T, v, pos, le)

RECURSIVE NumFds(_,_), NumFdsSeq(_,_), NumFdsArr(_,_)
NumFdsSeq(ts, vs) == IF vs = <<>> THEN 0 ELSE NumFds(Head(ts), Head(vs)) + NumFdsSeq(Tail(ts), Tail(vs))
NumFdsArr(T, vs)  == IF vs = <<>> THEN 0 ELSE NumFds(T, Head(vs)) + NumFdsArr(T, Tail(vs))
NumFds(T, v) ==
  CASE T.k = "h" -> 1
    [] T.k = "v" -> NumFds(v.t, v.v)
    [] T.k = "a" -> NumFdsArr(T.e, v.a)
    [] T.k = "r" -> NumFdsSeq(T.f, v.r)
    [] T.k = "e" -> NumFdsSeq(<<T.key, T.val>>, v.r)
    [] OTHER -> 0

(************************** string validity *******************************)
(* UTF-8 per RFC 3629: no overlong forms, no surrogates, max U+10FFFF. *)
RECURSIVE Utf8From(_,_)
Utf8From(s, i) ==
  IF i > Len(s) THEN TRUE
  ELSE LET b == s[i]
           Cont(j) == j <= Len(s) /\ s[j] >= 128 /\ s[j] <= 191
       IN
    IF b <= 127 THEN Utf8From(s, i + 1)
    ELSE IF b >= 194 /\ b <= 223 THEN Cont(i+1) /\ Utf8From(s, i + 2)
    ELSE IF b = 224 THEN i+1 <= Len(s) /\ s[i+1] >= 160 /\ s[i+1] <= 191 /\ Cont(i+2) /\ Utf8From(s, i + 3)
    ELSE IF (b >= 225 /\ b <= 236) \/ b = 238 \/ b = 239 THEN Cont(i+1) /\ Cont(i+2) /\ Utf8From(s, i + 3)
    ELSE IF b = 237 THEN i+1 <= Len(s) /\ s[i+1] >= 128 /\ s[i+1] <= 159 /\ Cont(i+2) /\ Utf8From(s, i + 3)
    ELSE IF b = 240 THEN i+1 <= Len(s) /\ s[i+1] >= 144 /\ s[i+1] <= 191 /\ Cont(i+2) /\ Cont(i+3) /\ Utf8From(s, i + 4)
    ELSE IF b >= 241 /\ b <= 243 THEN Cont(i+1) /\ Cont(i+2) /\ Cont(i+3) /\ Utf8From(s, i + 4)
    ELSE IF b = 244 THEN i+1 <= Len(s) /\ s[i+1] >= 128 /\ s[i+1] <= 143 /\ Cont(i+2) /\ Cont(i+3) /\ Utf8From(s, i + 4)
    ELSE FALSE
Utf8Ok(s) == Utf8From(s, 1)

(* Object path: "/" or ("/" element)+ with element = [A-Za-z0-9_]+ ; no trailing
   slash, no empty element. *)
PathChar(b) == (b >= 65 /\ b <= 90) \/ (b >= 97 /\ b <= 122) \/ (b >= 48 /\ b <= 57) \/ b = 95
PathOk(s) ==
  /\ Len(s) >= 1 /\ s[1] = 47
  /\ \A i \in 1..Len(s) : s[i] = 47 \/ PathChar(s[i])
  /\ (Len(s) > 1 => s[Len(s)] # 47)
  /\ \A i \in 1..(Len(s) - 1) : ~(s[i] = 47 /\ s[i+1] = 47)

(******************************* Decoding **********************************)
(* Decode(T, B, base, i, le, nfds, dp): decode one value of type T from the
   byte sequence B starting at index i (1-based); the absolute message offset
   of B[1] is `base`.  dp = [a, r, v] are the enclosing array / struct /
   variant nesting counts.  Returns [ok |-> TRUE, v, next] (next = index of the
   first byte not consumed) or [ok |-> FALSE, why].  Exactly the validity rules
   listed in property C03 are encoded. *)
Fail(w)  == [ok |-> FALSE, why |-> w]
Okv(v, n) == [ok |-> TRUE, v |-> v, next |-> n]
Huge == 1000000000
\* value of a 4-byte big-endian tuple, saturating (TLC integers are 32 bit)
U32Val(b4) == IF b4[1] >= 32 THEN Huge ELSE ((b4[1] * 256 + b4[2]) * 256 + b4[3]) * 256 + b4[4]
Slice(B, i, n) == [j \in 1..n |-> B[i + j - 1]]

MaxArrDepth == 32
MaxStructDepth == 32
MaxTotalDepth == 64
DepthOk(dp) == dp.a <= MaxArrDepth /\ dp.r <= MaxStructDepth /\ dp.a + dp.r + dp.v <= MaxTotalDepth

\* skip alignment padding; padding bytes must exist and be zero
SkipPad(B, base, i, al) ==
  LET n == Pad(base + i - 1, al) IN
  IF i + n - 1 > Len(B) THEN Fail("short")
  ELSE IF \E j \in i..(i + n - 1) : B[j] # 0 THEN Fail("nonzero-padding")
  ELSE Okv(<<>>, i + n)

RECURSIVE D(_,_,_,_,_,_,_), DSeq(_,_,_,_,_,_,_,_), DArr(_,_,_,_,_,_,_,_,_)
DSeq(ts, B, base, i, le, nfds, dp, acc) ==
  IF ts = <<>> THEN Okv(acc, i)
  ELSE LET h == D(Head(ts), B, base, i, le, nfds, dp) IN
    IF ~h.ok THEN h ELSE DSeq(Tail(ts), B, base, h.next, le, nfds, dp, Append(acc, h.v))
\* elements until index `end` (exclusive) is reached exactly
DArr(T, B, base, i, end, le, nfds, dp, acc) ==
  IF i = end THEN Okv(acc, i)
  ELSE IF i > end THEN Fail("array-length-not-on-element-boundary")
  ELSE LET h == D(T, B, base, i, le, nfds, dp) IN
    IF ~h.ok THEN h
    ELSE IF h.next > end THEN Fail("array-length-not-on-element-boundary")
    ELSE DArr(T, B, base, h.next, end, le, nfds, dp, Append(acc, h.v))

\* length-prefixed, nul-terminated string body starting at index i with n bytes
StrBody(B, i, n, kind) ==
  IF n >= Huge \/ i + n > Len(B) THEN Fail("short")                \* n bytes + terminator needed
  ELSE LET s == Slice(B, i, n) IN
    IF B[i + n] # 0 THEN Fail("missing-nul-terminator")
    ELSE IF \E j \in 1..n : s[j] = 0 THEN Fail("interior-nul")
    ELSE IF ~Utf8Ok(s) THEN Fail("invalid-utf8")
    ELSE IF kind = "o" /\ ~PathOk(s) THEN Fail("invalid-object-path")
    ELSE IF kind = "g" /\ ~ValidSig(s, FALSE) THEN Fail("invalid-signature")
    ELSE Okv([s |-> s], i + n + 1)

D(T, B, base, i, le, nfds, dp) ==
  LET pd == SkipPad(B, base, i, Align(T)) IN
  IF ~pd.ok THEN pd ELSE
  LET j == pd.next IN
  CASE T.k \in FixedKinds ->
         LET n == FixedSize(T.k) IN
         IF j + n - 1 > Len(B) THEN Fail("short")
         ELSE LET be == Ord(Slice(B, j, n), le) IN
           IF T.k = "b" /\ be \notin {<<0,0,0,0>>, <<0,0,0,1>>} THEN Fail("bool-not-0-or-1")
           ELSE IF T.k = "h" THEN
                  IF U32Val(be) >= nfds THEN Fail("fd-index-out-of-range")
                  ELSE Okv([h |-> U32Val(be)], j + n)
           ELSE Okv([b |-> be], j + n)
    [] T.k \in StrKinds ->
         IF j + 3 > Len(B) THEN Fail("short")
         ELSE StrBody(B, j + 4, U32Val(Ord(Slice(B, j, 4), le)), T.k)
    [] T.k = "g" ->
         IF j > Len(B) THEN Fail("short") ELSE StrBody(B, j + 1, B[j], "g")
    [] T.k = "v" ->
         IF j > Len(B) THEN Fail("short")
         ELSE LET sg == StrBody(B, j + 1, B[j], "g") IN
           IF ~sg.ok THEN sg
           ELSE LET ps == ParseSig(sg.v.s, FALSE) IN
             IF Len(ps.ts) # 1 THEN Fail("variant-signature-not-single-complete-type")
             ELSE LET dp2 == [dp EXCEPT !.v = @ + 1] IN
               IF ~DepthOk(dp2) THEN Fail("depth")
               ELSE LET inner == D(ps.ts[1], B, base, sg.next, le, nfds, dp2) IN
                 IF ~inner.ok THEN inner
                 ELSE Okv([t |-> ps.ts[1], v |-> inner.v], inner.next)
    [] T.k = "a" ->
         IF j + 3 > Len(B) THEN Fail("short")
         ELSE LET n   == U32Val(Ord(Slice(B, j, 4), le))
                  dp2 == [dp EXCEPT !.a = @ + 1]
              IN
           IF ~DepthOk(dp2) THEN Fail("depth")
           ELSE LET fp == SkipPad(B, base, j + 4, Align(T.e)) IN
             IF ~fp.ok THEN fp
             ELSE IF n >= Huge \/ fp.next + n - 1 > Len(B) THEN Fail("short")
             ELSE LET r == DArr(T.e, B, base, fp.next, fp.next + n, le, nfds, dp2, <<>>) IN
               IF ~r.ok THEN r ELSE Okv([a |-> r.v], r.next)
    [] T.k = "r" ->
         LET dp2 == [dp EXCEPT !.r = @ + 1] IN
         IF ~DepthOk(dp2) THEN Fail("depth")
         ELSE LET r == DSeq(T.f, B, base, j, le, nfds, dp2, <<>>) IN
           IF ~r.ok THEN r ELSE Okv([r |-> r.v], r.next)
    [] T.k = "e" ->
         LET r == DSeq(<<T.key, T.val>>, B, base, j, le, nfds, dp, <<>>) IN
           IF ~r.ok THEN r ELSE Okv([r |-> r.v], r.next)

Decode(T, B, base, le, nfds) == D(T, B, base, 1, le, nfds, [a |-> 0, r |-> 0, v |-> 0])

(* nesting depth of a type *without* looking into variant payloads; used by
   generators to stay within the depth limits *)
RECURSIVE TDepth(_)
TDepth(T) == CASE T.k = "a" -> 1 + TDepth(T.e)
               [] T.k = "e" -> IF TDepth(T.key) > TDepth(T.val) THEN TDepth(T.key) ELSE TDepth(T.val)
               [] T.k = "r" -> 1 + (LET S == {TDepth(T.f[i]) : i \in 1..Len(T.f)} IN CHOOSE m \in S : \A x \in S : x <= m)
               [] OTHER -> 0
=============================================================================
