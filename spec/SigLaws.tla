------------------------------ MODULE SigLaws ------------------------------
(***************************************************************************)
(* Laws of parsed signatures (property C06), on top of the grammar in       *)
(* SigGrammar:                                                              *)
(*                                                                         *)
(*   - which strings are accepted            (ParseSig, from SigGrammar)    *)
(*   - what an accepted string formats to    (DisplayOf, NoParensOf)        *)
(*   - its reported string length            (StrLenOf)                     *)
(*   - which strings a parsed signature must / must not compare equal to    *)
(*     (StrEqMust): a three-valued judgement, because zvariant documents    *)
(*     that a signature of several complete types is represented as the     *)
(*     structure around them, whose display form carries outer parentheses  *)
(*     that the "no parens" form strips.  Strings that differ only by those *)
(*     outer parentheses are left unconstrained.                            *)
(*                                                                         *)
(* Named deviations (DESIGN 2.6).  The grammar of SigGrammar is what the    *)
(* property demands.  ParseSigD(s, gv, devs) is the same recursive descent  *)
(* with switches that each drop ONE rule; with devs = {} it is ParseSig     *)
(* (checked exhaustively by MC_SigLaws).  The switches exist only so that   *)
(* an acceptance the grammar forbids can be attributed to a known defect    *)
(* class; they never make the default verdict more lenient.                 *)
(*     "no_len_limit"      the 255-byte limit is not enforced               *)
(*     "no_array_depth"    more than 32 nested arrays are accepted          *)
(*     "no_struct_depth"   more than 32 nested structs are accepted         *)
(*     "nonbasic_dict_key" a dict-entry key may be any single complete type *)
(***************************************************************************)
EXTENDS SigGrammar, FiniteSets

AllDevs == {"no_len_limit", "no_array_depth", "no_struct_depth", "nonbasic_dict_key"}

RECURSIVE OneD(_,_,_,_,_,_), ManyD(_,_,_,_,_,_,_)
OneD(s, i, ad, sd, gv, devs) ==
  IF i > Len(s) THEN PFail
  ELSE LET b == s[i] IN
    IF b \in BasicBytes \/ b = 118
      THEN [ok |-> TRUE, t |-> [k |-> KindOfByte(b)], next |-> i + 1]
    ELSE IF b = 97 THEN                                    \* 'a'
      IF ad + 1 > MaxArrayNest /\ "no_array_depth" \notin devs THEN PFail
      ELSE IF i + 1 <= Len(s) /\ s[i+1] = 123 THEN         \* "a{"
        LET key == IF "nonbasic_dict_key" \in devs
                     THEN OneD(s, i + 2, ad + 1, sd, gv, devs)
                     ELSE IF i + 2 <= Len(s) /\ s[i+2] \in BasicBytes
                            THEN [ok |-> TRUE, t |-> [k |-> KindOfByte(s[i+2])], next |-> i + 3]
                            ELSE PFail IN
        IF ~key.ok THEN PFail
        ELSE LET val == OneD(s, key.next, ad + 1, sd, gv, devs) IN
          IF ~val.ok THEN PFail
          ELSE IF val.next > Len(s) \/ s[val.next] # 125 THEN PFail
          ELSE [ok |-> TRUE,
                t  |-> [k |-> "a", e |-> [k |-> "e", key |-> key.t, val |-> val.t]],
                next |-> val.next + 1]
      ELSE LET el == OneD(s, i + 1, ad + 1, sd, gv, devs) IN
        IF ~el.ok THEN PFail
        ELSE [ok |-> TRUE, t |-> [k |-> "a", e |-> el.t], next |-> el.next]
    ELSE IF b = 40 THEN                                    \* '('
      IF sd + 1 > MaxStructNest /\ "no_struct_depth" \notin devs THEN PFail
      ELSE LET m == ManyD(s, i + 1, ad, sd + 1, gv, devs, <<>>) IN
        IF ~m.ok THEN PFail
        ELSE IF Len(m.ts) = 0 \/ m.next > Len(s) \/ s[m.next] # 41 THEN PFail
        ELSE [ok |-> TRUE, t |-> [k |-> "r", f |-> m.ts], next |-> m.next + 1]
    ELSE IF gv /\ b = 109 THEN                             \* 'm'
      LET el == OneD(s, i + 1, ad, sd, gv, devs) IN
        IF ~el.ok THEN PFail
        ELSE [ok |-> TRUE, t |-> [k |-> "m", e |-> el.t], next |-> el.next]
    ELSE PFail

ManyD(s, i, ad, sd, gv, devs, acc) ==
  IF i > Len(s) \/ s[i] = 41 \/ s[i] = 125 THEN [ok |-> TRUE, ts |-> acc, next |-> i]
  ELSE LET o == OneD(s, i, ad, sd, gv, devs) IN
    IF ~o.ok THEN PFail ELSE ManyD(s, o.next, ad, sd, gv, devs, Append(acc, o.t))

ParseSigD(s, gv, devs) ==
  IF Len(s) > MaxSigLen /\ "no_len_limit" \notin devs THEN PFail
  ELSE LET m == ManyD(s, 1, 0, 0, gv, devs, <<>>) IN
    IF m.ok /\ m.next = Len(s) + 1 THEN [ok |-> TRUE, ts |-> m.ts] ELSE PFail

(* The smallest (by cardinality) sets of deviations under which s is accepted: {{}} for a string of
   the grammar, the empty set of sets if no combination of the named deviations explains an
   acceptance.  Evaluated level by level so that the common cases cost 1 or 5 parses, not 16. *)
ExplainingDevs(s, gv) ==
  LET Lvl(k) == {D \in SUBSET AllDevs : Cardinality(D) = k /\ ParseSigD(s, gv, D).ok}
      l0 == Lvl(0)  l1 == Lvl(1)  l2 == Lvl(2)  l3 == Lvl(3) IN
  IF l0 # {} THEN l0 ELSE IF l1 # {} THEN l1 ELSE IF l2 # {} THEN l2 ELSE IF l3 # {} THEN l3 ELSE Lvl(4)

(* ---- formatting laws ---------------------------------------------------- *)
\* string form of a parsed signature, without the documented outer parentheses
NoParensOf(ts) ==
  IF Len(ts) = 0 THEN <<>>
  ELSE IF Len(ts) >= 2 THEN FmtSeq(ts)
  ELSE IF ts[1].k = "r" THEN FmtSeq(ts[1].f) ELSE Fmt(ts[1])

StrLenOf(ts) == Len(DisplayOf(ts))

(* Round trip of the grammar itself: formatting the parse tree of an accepted
   string gives the string back (FmtSeq, i.e. without added parentheses). *)
FmtRoundTrip(s, gv) == LET p == ParseSig(s, gv) IN p.ok => FmtSeq(p.ts) = s

(* ---- comparison with strings -------------------------------------------- *)
(* For a parsed signature with type list ts and an arbitrary byte string t:
     "T"  the comparison must be true   (t is the string it was parsed from or its display form)
     "F"  the comparison must be false  (t is not a spelling of this signature at all)
     "U"  unconstrained                 (t differs by the documented outer parentheses only) *)
StrEqMust(s, ts, t) ==
  IF t = s \/ t = DisplayOf(ts) THEN "T"
  ELSE IF t = NoParensOf(ts) \/ t = FmtSeq(ts) THEN "U"
  ELSE "F"

(* Named deviations of the string comparison (genuine defects are attributed to one of these
   classes; anything else stays unexplained):
     "streq_delims_unchecked"  the bytes at the positions of struct parentheses are not compared,
                               so "(is)" == "yisy" and "v(g)" == "v(gy"
     "streq_nonascii_panic"    comparing with a string containing a multi-byte character panics
                               (slicing inside a character) instead of answering false            *)
EqExceptParens(u, t) == Len(u) = Len(t) /\ \A i \in 1..Len(u) : (u[i] \notin {40, 41} => t[i] = u[i])
StrEqExplainedBy(s, ts, t, got) ==
  IF got = 2 /\ \E i \in 1..Len(t) : t[i] >= 128 THEN "streq_nonascii_panic"
  ELSE IF got = 1 /\ \E u \in {s, DisplayOf(ts), NoParensOf(ts), FmtSeq(ts)} : EqExceptParens(u, t)
    THEN "streq_delims_unchecked"
  ELSE ""

(* Two accepted strings denote the same signature / certainly different ones. *)
SameSig(ts, us)      == ts = us
CertainlyDiff(ts, us) == NoParensOf(ts) # NoParensOf(us)
=============================================================================
