------------------------------- MODULE Serial -------------------------------
(***************************************************************************)
(* Message serial numbers (property C15).  One process-wide counter modulo M *)
(* (M = 2^32 in the implementation).  Building a message does an atomic       *)
(* fetch-and-increment; a fetched 0 is discarded and the fetch repeated once.  *)
(* Threads interleave arbitrarily between their atomic steps.                   *)
(* Atomic = FALSE is the mutant with a separate read and write.                 *)
(***************************************************************************)
EXTENDS Naturals, FiniteSets, Sequences
CONSTANTS Threads, PerThread, M, Start, Atomic   \* Start: set of initial counter values

VARIABLES counter, pc, tmp, built, n
svars == <<counter, pc, tmp, built, n>>

SInit == /\ counter \in Start /\ pc = [t \in Threads |-> "fetch"] /\ tmp = [t \in Threads |-> 0]
         /\ built = <<>> /\ n = [t \in Threads |-> 0]

\* atomic fetch_add
Fetch(t) == /\ Atomic /\ pc[t] \in {"fetch", "refetch"} /\ n[t] < PerThread
            /\ tmp' = [tmp EXCEPT ![t] = counter] /\ counter' = (counter + 1) % M
            /\ pc' = [pc EXCEPT ![t] = IF pc[t] = "fetch" /\ counter = 0 THEN "refetch" ELSE "build"]
            /\ UNCHANGED <<built, n>>
\* mutant: read, then write
Read(t)  == /\ ~Atomic /\ pc[t] \in {"fetch", "refetch"} /\ n[t] < PerThread
            /\ tmp' = [tmp EXCEPT ![t] = counter] /\ pc' = [pc EXCEPT ![t] = IF pc[t] = "fetch" THEN "w1" ELSE "w2"]
            /\ UNCHANGED <<counter, built, n>>
Write(t) == /\ ~Atomic /\ pc[t] \in {"w1", "w2"}
            /\ counter' = (tmp[t] + 1) % M
            /\ pc' = [pc EXCEPT ![t] = IF pc[t] = "w1" /\ tmp[t] = 0 THEN "refetch" ELSE "build"]
            /\ UNCHANGED <<tmp, built, n>>
Build(t) == /\ pc[t] = "build"
            /\ built' = Append(built, tmp[t]) /\ n' = [n EXCEPT ![t] = @ + 1]
            /\ pc' = [pc EXCEPT ![t] = "fetch"]
            /\ UNCHANGED <<counter, tmp>>
SNext == \E t \in Threads : Fetch(t) \/ Read(t) \/ Write(t) \/ Build(t)

NeverZero == \A i \in 1..Len(built) : built[i] # 0
\* distinct until the counter has wrapped all the way round (fewer than M - 1 fetches in total)
Distinct  == Len(built) < M - 1 => \A i, j \in 1..Len(built) : i # j => built[i] # built[j]
=============================================================================
