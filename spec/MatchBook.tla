----------------------------- MODULE MatchBook -----------------------------
(***************************************************************************)
(* Bus match registrations versus live signal subscriptions (property C37).  *)
(* One action per critical section of Connection::add_match / remove_match    *)
(* and MessageStream's drop: the `subscriptions` map is locked across the bus   *)
(* call; a dropped stream only queues a task that later removes the match.      *)
(***************************************************************************)
EXTENDS Naturals, FiniteSets, Sequences
CONSTANTS Streams, Rules, RuleOf

VARIABLES sst,      \* [Streams -> {"none","adding","live","dropped"}]
          count,    \* [Rules -> Nat]   subscription refcount (the `subscriptions` map)
          lock,     \* holder of the subscriptions lock: "free", <<"add", s>> or <<"rm", s>>
          onbus,    \* [Rules -> Nat]   AddMatch calls minus RemoveMatch calls seen by the bus
          tasks,    \* set of streams whose queued remove task has not run yet
          log       \* history of bus calls: <<"add"|"rm", rule, live subscribers at that moment>>
mvars == <<sst, count, lock, onbus, tasks, log>>

Live(r) == Cardinality({s \in Streams : sst[s] = "live" /\ RuleOf[s] = r})
MInit == /\ sst = [s \in Streams |-> "none"] /\ count = [r \in Rules |-> 0] /\ lock = <<"free", "">>
         /\ onbus = [r \in Rules |-> 0] /\ tasks = {} /\ log = <<>>

\* add_match, first half: take the lock; first subscriber calls AddMatch (lock held until the reply)
AddBegin(s) == /\ sst[s] = "none" /\ lock[1] = "free"
               /\ LET r == RuleOf[s] IN
                  IF count[r] = 0
                  THEN /\ onbus' = [onbus EXCEPT ![r] = @ + 1] /\ log' = Append(log, <<"add", r, Live(r)>>)
                       /\ lock' = <<"add", s>> /\ sst' = [sst EXCEPT ![s] = "adding"] /\ UNCHANGED count
                  ELSE /\ count' = [count EXCEPT ![r] = @ + 1] /\ sst' = [sst EXCEPT ![s] = "live"]
                       /\ UNCHANGED <<onbus, log, lock>>
               /\ UNCHANGED tasks
\* ... the bus replied: record the subscription, release the lock
AddEnd(s) == /\ lock = <<"add", s>>
             /\ count' = [count EXCEPT ![RuleOf[s]] = 1] /\ sst' = [sst EXCEPT ![s] = "live"] /\ lock' = <<"free", "">>
             /\ UNCHANGED <<onbus, tasks, log>>
\* dropping a stream queues the removal
Drop(s) == /\ sst[s] = "live" /\ sst' = [sst EXCEPT ![s] = "dropped"] /\ tasks' = tasks \cup {s}
           /\ UNCHANGED <<count, lock, onbus, log>>
\* the queued task: take the lock, decrement, last one calls RemoveMatch (lock held until the reply)
RmBegin(s) == /\ s \in tasks /\ lock[1] = "free"
              /\ LET r == RuleOf[s] IN
                 IF count[r] = 1
                 THEN /\ onbus' = [onbus EXCEPT ![r] = @ - 1] /\ log' = Append(log, <<"rm", r, Live(r)>>)
                      /\ lock' = <<"rm", s>> /\ UNCHANGED count
                 ELSE /\ count' = [count EXCEPT ![r] = @ - 1] /\ UNCHANGED <<onbus, log, lock>>
              /\ tasks' = tasks \ {s} /\ UNCHANGED sst
RmEnd(s) == /\ lock = <<"rm", s>> /\ count' = [count EXCEPT ![RuleOf[s]] = 0] /\ lock' = <<"free", "">>
            /\ UNCHANGED <<sst, onbus, tasks, log>>
MNext == \E s \in Streams : AddBegin(s) \/ AddEnd(s) \/ Drop(s) \/ RmBegin(s) \/ RmEnd(s)

NoDoubleAdd == \A r \in Rules : onbus[r] \in {0, 1}
NoRemoveWhileInUse == \A i \in 1..Len(log) : log[i][1] = "rm" => log[i][3] = 0
Quiescent == tasks = {} /\ lock[1] = "free"
Mirror == Quiescent => \A r \in Rules : (onbus[r] = 1) <=> (Live(r) > 0)
=============================================================================
