----------------------------- MODULE GuidGrammar -----------------------------
(***************************************************************************)
(* The server GUID / UUID of the D-Bus specification ("UUIDs" section):      *)
(* "The UUID [...] is formatted as a 32-character string of hexadecimal      *)
(* digits [...]  The hex-encoded string may not contain hyphens or other     *)
(* non-hex-digit characters, and it must be exactly 32 characters long."     *)
(* Strings are byte sequences.  (Part of C10; also used by AddrCodec for the *)
(* guid= key of addresses.)                                                  *)
(***************************************************************************)
EXTENDS Naturals, Sequences

HexDigit(c) == c \in (48..57) \cup (97..102) \cup (65..70)      \* 0-9 a-f A-F

GuidOk(s) == Len(s) = 32 /\ \A i \in 1..32 : HexDigit(s[i])

(* Named deviation "uuid_crate_forms": the textual forms of RFC 4122 UUIDs a
   general-purpose UUID parser accepts besides the 32 plain digits -- the
   8-4-4-4-12 hyphenated form, that form in braces, that form after
   "urn:uuid:". *)
Hyphenated(s) ==
  /\ Len(s) = 36
  /\ \A i \in 1..36 : IF i \in {9, 14, 19, 24} THEN s[i] = 45 ELSE HexDigit(s[i])
UrnPrefix == <<117,114,110,58,117,117,105,100,58>>               \* "urn:uuid:"
UuidForms(s) ==
  \/ GuidOk(s)
  \/ Hyphenated(s)
  \/ (Len(s) = 38 /\ s[1] = 123 /\ s[38] = 125 /\ Hyphenated(SubSeq(s, 2, 37)))
  \/ (Len(s) = 45 /\ SubSeq(s, 1, 9) = UrnPrefix /\ Hyphenated(SubSeq(s, 10, 45)))

GuidOkD(s, devs) == IF "uuid_crate_forms" \in devs THEN UuidForms(s) ELSE GuidOk(s)
=============================================================================
