----------------------------- MODULE OwnerTrack -----------------------------
(***************************************************************************)
(* C32: a proxy's signal stream for a well-known name yields exactly the   *)
(* matching signals whose sender owned the name at the point they were     *)
(* received, as established by the GetNameOwner lookup and the bus          *)
(* driver's later NameOwnerChanged signals.  Ownership claims that do not   *)
(* come from the driver never change what is yielded.                       *)
(*                                                                          *)
(* The bus side is the authority: `own` is the driver's idea of the owner.  *)
(* Everything the bus sends reaches the client in one total order (one      *)
(* socket), so "the owner at the point a signal was received" is the value  *)
(* of `own` when the bus forwarded that signal.                             *)
(*                                                                          *)
(* Part 1 are reference functions over a received history (used by the      *)
(* generator's self-check and by the trace validator).  Part 2 is the       *)
(* state machine (bus + socket reader + the client's stream set-up and      *)
(* filter, one action per critical section of zbus/src/proxy/mod.rs         *)
(* SignalStream::{new, filter}) that TLC checks under all interleavings.    *)
(***************************************************************************)
EXTENDS Naturals, Sequences, FiniteSets, TLC

Peers  == {"A", "B"}            \* peers that may own the name
NoOne  == "none"
Stranger == "S"                 \* never owns the name; forges ownership claims

(***************************************************************************)
(* Part 1.  Histories.  An event is one of                                  *)
(*   [k |-> "reply", owner]        GetNameOwner reply (error when none)     *)
(*   [k |-> "noc", new]            genuine NameOwnerChanged from the driver *)
(*   [k |-> "forge", new, uni]     the same signal sent by the stranger     *)
(*   [k |-> "nocother", new]       genuine NameOwnerChanged, other name     *)
(*   [k |-> "sig", from, m, id]    signal on the proxy's path / interface   *)
(*   [k |-> "q"]                   the client ran to quiescence             *)
(*   [k |-> "subscribed"]          the stream exists from here on           *)
(* in receive order.  mode = "one" (receive_signal("Sig")) or "all".        *)
(***************************************************************************)
Matching(mode, e) == e.k = "sig" /\ (mode = "all" \/ e.m = "Sig")

\* What the property demands: signals received while subscribed, matching, from the owner at that point.
RECURSIVE IdealF(_, _, _, _)
IdealF(mode, evs, i, st) ==
  IF i > Len(evs) THEN st.out
  ELSE LET e == evs[i] IN
    IdealF(mode, evs, i + 1,
      CASE e.k = "noc" -> [st EXCEPT !.own = e.new]
        [] e.k = "subscribed" -> [st EXCEPT !.live = TRUE]
        [] e.k = "sig" -> IF st.live /\ Matching(mode, e) /\ e.from = st.own
                          THEN [st EXCEPT !.out = Append(@, e.id)] ELSE st
        [] OTHER -> st)
Ideal(mode, init, evs) == IdealF(mode, evs, 1, [own |-> init, live |-> FALSE, out |-> <<>>])

(* The client as built (chunk semantics: between two "q" events the socket reader has queued every
   message before the stream set-up / filter code runs).  `devs` switches named deviations on:
     "buffered_release_ignored": the NameOwnerChanged that the ordered join had buffered behind the
        lookup reply is ignored when it says the name now has no owner. *)
NocsOf(s) == SelectSeq(s, LAMBDA x : x.k = "noc")
LastNew(nocs, dflt) == IF nocs = <<>> THEN dflt ELSE nocs[Len(nocs)].new

Consume(pend, devs) ==       \* tracked owner after the set-up code saw the queued lookup traffic `pend`
  LET h == Head(pend)
      nocs == NocsOf(Tail(pend))
  IN IF h.k = "noc" THEN LastNew(nocs, h.new)           \* a queued reply is dropped: it is older news
     ELSE IF nocs = <<>> THEN h.new
     ELSE LET b == nocs[1]                                \* buffered by the join behind the reply
              t1 == IF b.new = NoOne /\ "buffered_release_ignored" \in devs THEN h.new ELSE b.new
          IN LastNew(Tail(nocs), t1)

RECURSIVE SimF(_, _, _, _, _)
SimF(mode, evs, i, st, devs) ==
  IF i > Len(evs) THEN st.out
  ELSE LET e == evs[i] IN
    SimF(mode, evs, i + 1,
      CASE e.k = "noc" -> IF st.c = "init" THEN [st EXCEPT !.pend = Append(@, [k |-> "noc", new |-> e.new])]
                          ELSE [st EXCEPT !.trk = e.new]
        [] e.k = "reply" -> IF st.c = "init" THEN [st EXCEPT !.pend = Append(@, [k |-> "reply", new |-> e.owner])]
                            ELSE st
        [] e.k = "q" -> IF st.c = "init" /\ st.pend # <<>>
                        THEN [st EXCEPT !.trk = Consume(st.pend, devs), !.c = "run", !.pend = <<>>]
                        ELSE st
        [] e.k = "subscribed" -> [st EXCEPT !.live = TRUE]
        [] e.k = "sig" -> IF st.live /\ Matching(mode, e) /\ e.from = st.trk
                          THEN [st EXCEPT !.out = Append(@, e.id)] ELSE st
        [] OTHER -> st,      \* forged and other-name claims never reach the tracking code
      devs)
Sim(mode, init, evs, devs) ==
  SimF(mode, evs, 1, [trk |-> NoOne, c |-> "init", pend |-> <<>>, live |-> FALSE, out |-> <<>>], devs)

KnownDevs == {"buffered_release_ignored"}

(***************************************************************************)
(* Part 2.  State machine.                                                  *)
(***************************************************************************)
CONSTANTS MaxMsgs,            \* bound on messages the bus sends
          DevBufferedRelease  \* TRUE = model the deviation (must violate the invariants)

VARIABLES own,      \* bus: current owner of the name
          looked,   \* bus: GetNameOwner answered
          n,        \* bus: messages sent so far (= receive sequence numbers)
          wire,     \* sent, not yet read by the socket reader
          nocQ,     \* client: queue of the NameOwnerChanged match rule (sender = driver, arg0 = name)
          sigQ,     \* client: queue of the signal match rule (exists once subscribed)
          rep,      \* client: lookup reply delivered to the pending call (<<>> or <<msg>>)
          c,        \* client: "init" (waiting in the join) -> "sub" (AddMatch round trip) -> "run"
          trk,      \* client: tracked unique name (src_unique_name)
          live,     \* client: signal rule registered
          out,      \* ids yielded by the stream
          exp       \* history: ids of signals read while live whose sender owned the name when sent
vars == <<own, looked, n, wire, nocQ, sigQ, rep, c, trk, live, out, exp>>

Init == /\ own \in Peers \cup {NoOne} /\ looked = FALSE /\ n = 0 /\ wire = <<>>
        /\ nocQ = <<>> /\ sigQ = <<>> /\ rep = <<>> /\ c = "init" /\ trk = NoOne
        /\ live = FALSE /\ out = <<>> /\ exp = <<>>

Send(m) == /\ n < MaxMsgs /\ n' = n + 1 /\ wire' = Append(wire, m @@ [seq |-> n + 1])

\* --- the bus ---
BusChange(x) == /\ x # own /\ own' = x /\ Send([k |-> "noc", new |-> x])
                /\ UNCHANGED <<looked, nocQ, sigQ, rep, c, trk, live, out, exp>>
Forge(x) == /\ Send([k |-> "forge", new |-> x])
            /\ UNCHANGED <<own, looked, nocQ, sigQ, rep, c, trk, live, out, exp>>
Emit(p) == /\ Send([k |-> "sig", from |-> p, o |-> own])
           /\ UNCHANGED <<own, looked, nocQ, sigQ, rep, c, trk, live, out, exp>>
Lookup == /\ ~looked /\ looked' = TRUE /\ Send([k |-> "reply", new |-> own])
          /\ UNCHANGED <<own, nocQ, sigQ, rep, c, trk, live, out, exp>>

\* --- socket reader: one message, delivered to every rule it matches ---
Read ==
  /\ wire # <<>> /\ wire' = Tail(wire)
  /\ LET m == Head(wire) IN
     /\ nocQ' = IF m.k = "noc" THEN Append(nocQ, m) ELSE nocQ   \* forged: sender is not the driver -> no rule matches
     /\ rep' = IF m.k = "reply" /\ c = "init" THEN <<m>> ELSE rep
     /\ sigQ' = IF m.k = "sig" /\ live THEN Append(sigQ, m) ELSE sigQ
     /\ exp' = IF m.k = "sig" /\ live /\ m.from = m.o THEN Append(exp, m.seq) ELSE exp
  /\ UNCHANGED <<own, looked, n, c, trk, live, out>>

\* --- SignalStream::new: ordered join of the NameOwnerChanged stream and the lookup reply ---
InitTake ==
  /\ c = "init" /\ (nocQ # <<>> \/ rep # <<>>)
  /\ IF nocQ # <<>> /\ (rep = <<>> \/ Head(nocQ).seq < rep[1].seq)
     THEN /\ trk' = Head(nocQ).new /\ nocQ' = Tail(nocQ)           \* reply (if any) is older news: dropped
     ELSE IF nocQ = <<>> THEN trk' = rep[1].new /\ nocQ' = nocQ
     ELSE /\ nocQ' = Tail(nocQ)                                     \* the join buffered this one behind the reply
          /\ trk' = IF DevBufferedRelease /\ Head(nocQ).new = NoOne THEN rep[1].new ELSE Head(nocQ).new
  /\ rep' = <<>> /\ c' = "sub"
  /\ UNCHANGED <<own, looked, n, wire, sigQ, live, out, exp>>

Subscribe == /\ c = "sub" /\ c' = "run" /\ live' = TRUE
             /\ UNCHANGED <<own, looked, n, wire, nocQ, sigQ, rep, trk, out, exp>>

\* --- SignalStream::poll_next: ordered join of both queues, then filter ---
Filter ==
  /\ c = "run" /\ (nocQ # <<>> \/ sigQ # <<>>)
  /\ IF nocQ # <<>> /\ (sigQ = <<>> \/ Head(nocQ).seq < Head(sigQ).seq)
     THEN /\ trk' = Head(nocQ).new /\ nocQ' = Tail(nocQ) /\ UNCHANGED <<sigQ, out>>
     ELSE /\ sigQ' = Tail(sigQ) /\ UNCHANGED <<nocQ, trk>>
          /\ out' = IF Head(sigQ).from = trk THEN Append(out, Head(sigQ).seq) ELSE out
  /\ UNCHANGED <<own, looked, n, wire, rep, c, live, exp>>

Next == \/ \E x \in Peers \cup {NoOne} : BusChange(x)
        \/ \E x \in {Stranger, NoOne} : Forge(x)
        \/ \E p \in Peers \cup {Stranger} : Emit(p)
        \/ Lookup \/ Read \/ InitTake \/ Subscribe \/ Filter
Spec == Init /\ [][Next]_vars

IsPrefix(s, t) == Len(s) <= Len(t) /\ \A i \in 1..Len(s) : s[i] = t[i]
Quiescent == wire = <<>> /\ nocQ = <<>> /\ sigQ = <<>> /\ c = "run"

\* C32
OnlyOwnersSignals == IsPrefix(out, exp)             \* never a signal from a non-owner, never out of order
AllOwnersSignals  == Quiescent => out = exp         \* and none of the owner's is lost
TrackedIsOwner    == Quiescent => trk = own
=============================================================================
