-------------------------------- MODULE Rpc --------------------------------
(***************************************************************************)
(* One method call against an object server that serves a *program*        *)
(* (interface shapes + registration tree): what C26 demands of the          *)
(* handler invocations and of the replies, and what C33 demands of a call   *)
(* made through a generated proxy.                                          *)
(*                                                                          *)
(* Part 1 defines the demanded outcome of a call as reference functions     *)
(* (`Allowed`, `CallOk`), written from the property statement and the       *)
(* D-Bus specification:                                                     *)
(*   - the handler runs iff the object path exists, the interface is        *)
(*     registered there, it has the member, and the argument types are      *)
(*     exactly the declared in-signature;                                   *)
(*   - otherwise the reply is the standard error for the first thing that   *)
(*     does not match: UnknownObject, UnknownInterface, UnknownMethod,      *)
(*     InvalidArgs;                                                         *)
(*   - exactly one reply, none if the call carries NO_REPLY_EXPECTED;       *)
(*   - the reply to a handled call is the handler's result with the         *)
(*     declared out-signature, or the handler's error.                      *)
(* Part 2 is the small state machine of one call (route, run the handler,   *)
(* reply) that spec/mc/MC_Rpc.tla model-checks against these predicates.    *)
(*                                                                          *)
(* `devs` is a set of *named deviations* (DESIGN.md 2.6): behaviours the    *)
(* real code was found to have that violate the property.  They are off     *)
(* (devs = {}) whenever the property is checked; the trace validator uses   *)
(* them only to tell a known finding from a new violation.                  *)
(***************************************************************************)
EXTENDS Shapes

Std(n) == "org.freedesktop.DBus.Error." \o n
UnknownObject    == Std("UnknownObject")
UnknownInterface == Std("UnknownInterface")
UnknownMethod    == Std("UnknownMethod")
InvalidArgs      == Std("InvalidArgs")
Failed           == Std("Failed")
ZbusError        == "org.freedesktop.zbus.Error"

(* interfaces every object implements; their members are not part of a program *)
StdIfaces == {"org.freedesktop.DBus.Peer", "org.freedesktop.DBus.Introspectable", "org.freedesktop.DBus.Properties"}
StdMembers == {"Ping", "GetMachineId", "Introspect", "Get", "Set", "GetAll"}

AllDevs == {"noreply_error_sent", "zero_arg_body_ignored", "invalid_args_name", "no_iface_failed", "struct_flatten"}
(*  noreply_error_sent    an error reply (routing or argument error) is sent although the call  *)
(*                        carries NO_REPLY_EXPECTED                                              *)
(*  zero_arg_body_ignored a method declared without parameters runs whatever the body holds     *)
(*  invalid_args_name     an argument mismatch is answered with org.freedesktop.zbus.Error       *)
(*                        instead of org.freedesktop.DBus.Error.InvalidArgs                      *)
(*  no_iface_failed       a call without INTERFACE header field is answered with Error.Failed    *)
(*  struct_flatten        the body signature is compared modulo one level of structure          *)
(*                        parentheses: `us` is accepted for `(us)` and vice versa                *)

Flatten(ts) == IF Len(ts) = 1 /\ ts[1].k = "r" THEN ts[1].f ELSE ts

ArgsMatch(m, args, devs) ==
  \/ TypesOf(args) = m.ins
  \/ "zero_arg_body_ignored" \in devs /\ m.ins = <<>>
  \/ "struct_flatten" \in devs /\ Flatten(TypesOf(args)) = Flatten(m.ins)

MethodsNamed(shape, member) ==
  {shape.methods[i] : i \in {i \in 1..Len(shape.methods) : shape.methods[i].name = member}}

Err(n)       == [kind |-> "error", name |-> n]
Run(ifn, m)  == [kind |-> "run", iface |-> ifn, m |-> m]
Unspecified  == [kind |-> "any"]

(* prog = [shapes |-> <<shape...>>, regs |-> <<[path, segs, iface]...>>]                          *)
(* call = [path, iface ("" = no INTERFACE field), member, args (typed values), noreply]           *)
(* The other header flags of a call (NO_AUTO_START, ALLOW_INTERACTIVE_AUTHORIZATION) are carried by   *)
(* the generated cases as `xflags` (0..3, a bit each); no clause depends on them: whether a reply is   *)
(* owed is decided by the NO_REPLY_EXPECTED bit alone, whatever else is set.                           *)
VerdictsFor(prog, call, ifname, devs) ==
  LET nodes == NodeOfPath(prog.regs, call.path) IN
  IF nodes = {} THEN {Err(UnknownObject)}
  ELSE IF ifname \in StdIfaces THEN {Unspecified}
  ELSE
    LET segs == CHOOSE p \in nodes : TRUE
        ks   == {k \in IfacesAt(prog.regs, segs) : ShapeById(prog.shapes, k).name = ifname} IN
    IF ks = {} THEN {Err(UnknownInterface)}
    ELSE
      LET ms == MethodsNamed(ShapeById(prog.shapes, CHOOSE k \in ks : TRUE), call.member) IN
      IF ms = {} THEN {Err(UnknownMethod)}
      ELSE LET m == CHOOSE m \in ms : TRUE IN
           IF ArgsMatch(m, call.args, devs) THEN {Run(ifname, m)}
           ELSE {Err(IF "invalid_args_name" \in devs THEN ZbusError ELSE InvalidArgs)}

(* Without an INTERFACE field the D-Bus specification lets the callee pick any interface of the   *)
(* object that has the member (if several do it "may choose to either return an error, or deliver *)
(* the message as though it had an arbitrary one of those interfaces"); with none it is unknown.  *)
Allowed(prog, call, devs) ==
  IF call.iface # "" THEN VerdictsFor(prog, call, call.iface, devs)
  ELSE IF "no_iface_failed" \in devs THEN {Err(Failed)}
  ELSE
    LET nodes == NodeOfPath(prog.regs, call.path) IN
    IF nodes = {} THEN {Err(UnknownObject)}
    ELSE
      LET segs  == CHOOSE p \in nodes : TRUE
          cands == {ShapeById(prog.shapes, k).name :
                      k \in {k \in IfacesAt(prog.regs, segs) : MethodsNamed(ShapeById(prog.shapes, k), call.member) # {}}} IN
      (IF call.member \in StdMembers THEN {Unspecified} ELSE {})
      \cup (IF cands = {} THEN {Err(UnknownMethod)}
            ELSE UNION {VerdictsFor(prog, call, n, devs) : n \in cands}
                 \cup (IF Cardinality(cands) > 1 THEN {Err(UnknownMethod), Err(InvalidArgs)} ELSE {}))

(* ---- observation of one call: obs = [sent (= call), handlers, replies] ------------------------ *)
(* handler run = [iface, member, args, end |-> [kind ("ok" | "err" | "none"), outs, name, msg]]     *)
(* reply       = [type ("return" | "error"), name, sig, body, decoded, msg]                        *)

HandlerOk(v, obs) ==
  CASE v.kind = "any"   -> TRUE
    [] v.kind = "error" -> Len(obs.handlers) = 0
    [] v.kind = "run"   -> /\ Len(obs.handlers) = 1
                           /\ obs.handlers[1].iface = v.iface
                           /\ obs.handlers[1].member = v.m.name
                           /\ obs.handlers[1].end.kind # "none"
                           /\ (obs.handlers[1].end.kind = "err" => v.m.fallible)

ReplyMatches(v, obs, r) ==
  CASE v.kind = "any"   -> TRUE
    [] v.kind = "error" -> r.type = "error" /\ r.name = v.name
    [] v.kind = "run"   ->
         /\ Len(obs.handlers) = 1
         /\ LET h == obs.handlers[1] IN
            \/ /\ h.end.kind = "ok"
               /\ r.type = "return" /\ r.decoded
               /\ r.sig = OutSig(v.m)
               /\ TypesOf(r.body) = OutTypes(v.m)
               /\ CanonList(r.body) = CanonList(h.end.outs)
            \/ /\ h.end.kind = "err"
               /\ r.type = "error" /\ r.name = h.end.name /\ r.msg = h.end.msg

ReplyOk(v, obs, devs) ==
  IF obs.sent.noreply
  THEN \/ Len(obs.replies) = 0
       \/ /\ "noreply_error_sent" \in devs /\ v.kind = "error"
          /\ Len(obs.replies) = 1 /\ ReplyMatches(v, obs, obs.replies[1])
       \/ v.kind = "any"
  ELSE Len(obs.replies) = 1 /\ ReplyMatches(v, obs, obs.replies[1])

(* C26 on one observed call *)
CallOk(prog, obs, devs) ==
  \E v \in Allowed(prog, obs.sent, devs) : HandlerOk(v, obs) /\ ReplyOk(v, obs, devs)

(* which clause fails (with devs = {}), for the report *)
FailingClause(prog, obs) ==
  LET vs == Allowed(prog, obs.sent, {}) IN
  IF \A v \in vs : ~HandlerOk(v, obs) THEN "c26-handler-iff-match"
  ELSE IF obs.sent.noreply /\ Len(obs.replies) > 0 THEN "c26-reply-though-noreply"
  ELSE IF ~obs.sent.noreply /\ Len(obs.replies) # 1 THEN "c26-exactly-one-reply"
  ELSE "c26-reply-content"

(* A set of named deviations under which the observation is a behaviour, minimal with respect to   *)
(* removing one element; {} with ok = TRUE means the observation conforms, {} with ok = FALSE that *)
(* no combination of deviations explains it.  `Guess` only orders the search (a cheap reading of   *)
(* the symptoms); every answer is verified with CallOk, and the exhaustive search is the fallback. *)
Guess(obs) ==
  (IF obs.sent.noreply /\ Len(obs.replies) > 0 THEN {"noreply_error_sent"} ELSE {})
  \cup (IF obs.sent.iface = "" THEN {"no_iface_failed"} ELSE {})
  \cup (IF \E i \in 1..Len(obs.replies) : obs.replies[i].name = ZbusError THEN {"invalid_args_name"} ELSE {})
  \cup (IF Len(obs.handlers) > 0 /\ Len(obs.handlers[1].args) # Len(obs.sent.args)
        THEN (IF obs.handlers[1].args = <<>> THEN {"zero_arg_body_ignored"} ELSE {"struct_flatten"}) ELSE {})
RECURSIVE Shrink(_, _, _)
Shrink(prog, obs, D) ==
  LET smaller == {d \in D : CallOk(prog, obs, D \ {d})} IN
  IF smaller = {} THEN D ELSE Shrink(prog, obs, D \ {CHOOSE d \in smaller : TRUE})
Explanation(prog, obs) ==
  IF CallOk(prog, obs, {}) THEN [ok |-> TRUE, devs |-> {}]
  ELSE LET g == Guess(obs) IN
       IF g # {} /\ CallOk(prog, obs, g) THEN [ok |-> FALSE, devs |-> Shrink(prog, obs, g)]
       ELSE LET ex == {D \in SUBSET AllDevs : D # {} /\ CallOk(prog, obs, D)} IN
            IF ex = {} THEN [ok |-> FALSE, devs |-> {}]
            ELSE [ok |-> FALSE, devs |-> CHOOSE D \in ex : \A E \in ex : Cardinality(D) <= Cardinality(E)]

(* C33 / fidelity of the arguments a handler receives (when the types are exactly the declared ones) *)
HandlerArgsOk(obs) ==
  \A i \in 1..Len(obs.handlers) :
    TypesOf(obs.sent.args) = TypesOf(obs.handlers[i].args) => CanonList(obs.handlers[i].args) = CanonList(obs.sent.args)

(* ---- C33: a call through a generated proxy ----------------------------------------------------- *)
(* pobs = [m (method shape), args, fail, handlers, ret |-> [kind ("ok"|"err"|"local"|"hang"), outs, name, msg]] *)
ProxyCallOk(pobs) ==
  /\ Len(pobs.handlers) = 1
  /\ LET h == pobs.handlers[1] IN
     /\ h.member = pobs.m.name
     /\ TypesOf(h.args) = pobs.m.ins
     /\ CanonList(h.args) = CanonList(pobs.args)                 \* the handler sees the caller's arguments
     /\ \/ /\ h.end.kind = "ok" /\ pobs.ret.kind = "ok"
           /\ TypesOf(pobs.ret.outs) = OutTypes(pobs.m)
           /\ CanonList(pobs.ret.outs) = CanonList(h.end.outs)    \* the caller gets the handler's result
        \/ /\ h.end.kind = "err" /\ pobs.ret.kind = "err"
           /\ pobs.ret.name = h.end.name /\ pobs.ret.msg = h.end.msg
ProxySignalOk(sobs) ==      \* sobs = [args, items]: one emission, exactly one item with equal arguments
  /\ Len(sobs.items) = 1
  /\ sobs.items[1].ok
  /\ CanonList(sobs.items[1].args) = CanonList(sobs.args)

(* ---- Part 2: the state machine of one call ------------------------------------------------------ *)
CONSTANTS Prog, Calls, DEVS
VARIABLES call, pc, verdict, handlers, replies
vars == <<call, pc, verdict, handlers, replies>>

NoEnd == [kind |-> "none", outs |-> <<>>, name |-> "", msg |-> ""]
Obs == [sent |-> call, handlers |-> handlers, replies |-> replies]

Init ==
  /\ call \in Calls
  /\ pc = "arrived" /\ verdict = Unspecified /\ handlers = <<>> /\ replies = <<>>

(* the dispatcher looks the call up: object, interface, member, argument types *)
Route ==
  /\ pc = "arrived"
  /\ \E v \in Allowed(Prog, call, DEVS) \ {Unspecified} :
       /\ verdict' = v
       /\ pc' = IF v.kind = "run" THEN "start" ELSE "reply"
  /\ UNCHANGED <<call, handlers, replies>>

HandlerStart ==
  /\ pc = "start"
  /\ handlers' = <<[iface |-> verdict.iface, member |-> verdict.m.name, args |-> call.args, end |-> NoEnd]>>
  /\ pc' = "running"
  /\ UNCHANGED <<call, verdict, replies>>

(* the handler returns a value of its declared type, or (fallible methods) an error *)
HandlerEnd ==
  /\ pc = "running"
  /\ \/ handlers' = [handlers EXCEPT ![1].end =
                       [kind |-> "ok", outs |-> [i \in 1..Len(OutTypes(verdict.m)) |-> TVal(OutTypes(verdict.m)[i], 1)],
                        name |-> "", msg |-> ""]]
     \/ /\ verdict.m.fallible
        /\ handlers' = [handlers EXCEPT ![1].end = [kind |-> "err", outs |-> <<>>, name |-> Std("NotSupported"), msg |-> "e"]]
  /\ pc' = "reply"
  /\ UNCHANGED <<call, verdict, replies>>

ReplyOf ==
  IF verdict.kind = "error"
  THEN [type |-> "error", name |-> verdict.name, sig |-> "s", body |-> <<>>, decoded |-> TRUE, msg |-> ""]
  ELSE IF handlers[1].end.kind = "ok"
       THEN [type |-> "return", name |-> "", sig |-> OutSig(verdict.m), body |-> handlers[1].end.outs, decoded |-> TRUE, msg |-> ""]
       ELSE [type |-> "error", name |-> handlers[1].end.name, sig |-> "s", body |-> <<>>, decoded |-> TRUE, msg |-> handlers[1].end.msg]

SendReply ==
  /\ pc = "reply" /\ ~call.noreply
  /\ replies' = Append(replies, ReplyOf)
  /\ pc' = "done"
  /\ UNCHANGED <<call, verdict, handlers>>

SkipReply ==
  /\ pc = "reply" /\ call.noreply
  /\ pc' = "done"
  /\ UNCHANGED <<call, verdict, handlers, replies>>

(* named deviation: the error path does not look at NO_REPLY_EXPECTED *)
Dev_ErrorReplyDespiteNoReply ==
  /\ "noreply_error_sent" \in DEVS
  /\ pc = "reply" /\ call.noreply /\ verdict.kind = "error"
  /\ replies' = Append(replies, ReplyOf)
  /\ pc' = "done"
  /\ UNCHANGED <<call, verdict, handlers>>

Done == pc = "done" /\ UNCHANGED vars

Next == Route \/ HandlerStart \/ HandlerEnd \/ SendReply \/ SkipReply \/ Dev_ErrorReplyDespiteNoReply \/ Done
Spec == Init /\ [][Next]_vars /\ WF_vars(Next)

(* ---- the property on the model ---- *)
C26_CallOk          == pc = "done" => CallOk(Prog, Obs, {})
C26_AtMostOneReply  == Len(replies) <= 1
C26_NoReplyMeansNone == call.noreply => Len(replies) = 0
(* (an ambiguous call without INTERFACE field may be delivered or refused, hence two implications) *)
C26_HandlerIffMatch ==
  pc = "done" => /\ Len(handlers) <= 1
                 /\ (Len(handlers) = 1 => \E v \in Allowed(Prog, call, {}) : v.kind = "run")
                 /\ ((\A v \in Allowed(Prog, call, {}) : v.kind = "run") => Len(handlers) = 1)
C26_Explained       == pc = "done" => CallOk(Prog, Obs, DEVS)
C26_Answered        == <>(pc = "done")
=============================================================================
