#!/bin/sh
# Build every harness package against /repo's working tree, offline.  One cargo invocation per package:
# building several packages at once would unify zvariant's features across them (zbus + zvariant[gvariant]
# in one build graph does not compile; see DESIGN.md, C35).
set -e
cd "$(dirname "$0")/harness"
export CARGO_NET_OFFLINE=true
for p in $(sed -n 's/^members = \[\(.*\)\]/\1/p' Cargo.toml | tr -d '",'); do
  echo "[setup] cargo build -p $p"
  cargo build --offline -q -p "$p"
done
