//! C09: generated type definitions (lib/tygen.py from spec/gen/Gen_TypeShapes.tla).  For every type:
//! the declared signature, the D-Bus encoding of one value, and the typed round trip.
#[cfg(not(feature = "l2"))]
#[path = "generated_l1.rs"]
mod generated;
#[cfg(feature = "l2")]
#[path = "generated_l2.rs"]
mod generated;

use serde_json::{json, Value as J};
use std::io::Write;
use zvariant::serialized::Context;

/// The library's `Type` / serde impls of the std atomics, behind a transparent wrapper that only adds what the
/// harness needs to compare and print values (the atomics are neither `PartialEq` nor `Clone`).
macro_rules! atom {
    ($name:ident, $at:ty) => {
        pub struct $name(pub $at);
        impl zvariant::Type for $name {
            const SIGNATURE: &'static zvariant::Signature = <$at as zvariant::Type>::SIGNATURE;
        }
        impl serde::Serialize for $name {
            fn serialize<S: serde::Serializer>(&self, s: S) -> Result<S::Ok, S::Error> {
                serde::Serialize::serialize(&self.0, s)
            }
        }
        impl<'de> serde::Deserialize<'de> for $name {
            fn deserialize<D: serde::Deserializer<'de>>(d: D) -> Result<Self, D::Error> {
                <$at as serde::Deserialize>::deserialize(d).map($name)
            }
        }
        impl PartialEq for $name {
            fn eq(&self, o: &Self) -> bool {
                self.0.load(std::sync::atomic::Ordering::SeqCst) == o.0.load(std::sync::atomic::Ordering::SeqCst)
            }
        }
        impl Clone for $name {
            fn clone(&self) -> Self {
                $name(<$at>::new(self.0.load(std::sync::atomic::Ordering::SeqCst)))
            }
        }
        impl std::fmt::Debug for $name {
            fn fmt(&self, f: &mut std::fmt::Formatter<'_>) -> std::fmt::Result {
                self.0.fmt(f)
            }
        }
    };
}
atom!(AtBool, std::sync::atomic::AtomicBool);
atom!(AtU8, std::sync::atomic::AtomicU8);
atom!(AtI16, std::sync::atomic::AtomicI16);
atom!(AtU16, std::sync::atomic::AtomicU16);
atom!(AtI32, std::sync::atomic::AtomicI32);
atom!(AtU32, std::sync::atomic::AtomicU32);
atom!(AtI64, std::sync::atomic::AtomicI64);
atom!(AtU64, std::sync::atomic::AtomicU64);

pub fn one<T>(id: u64, v: T, out: &mut Vec<J>)
where
    T: zvariant::Type + serde::Serialize + serde::de::DeserializeOwned + PartialEq + std::fmt::Debug,
{
    let r = std::panic::catch_unwind(std::panic::AssertUnwindSafe(|| {
        let sig = T::SIGNATURE.to_string();
        let c = Context::new_dbus(zvariant::LE, 0);
        match zvariant::to_bytes(c, &v) {
            Err(e) => json!({"ev":"Ty","id":id,"sig":sig.as_bytes(),"outcome":"enc-err","msg":e.to_string(),"bytes":[],"rt_ok":false,"consumed":0}),
            Ok(d) => {
                let size_ok = zvariant::serialized_size(c, &v).map(|s| s.size() == d.len()).unwrap_or(false);
                let (rt_ok, consumed) = match d.deserialize::<T>() {
                    Ok((back, n)) => (back == v, n),
                    Err(_) => (false, 0),
                };
                json!({"ev":"Ty","id":id,"sig":sig.as_bytes(),"outcome":"ok","msg":"","bytes":d.bytes(),"rt_ok":rt_ok,"consumed":consumed,"size_ok":size_ok})
            }
        }
    }));
    out.push(r.unwrap_or_else(|_| json!({"ev":"Ty","id":id,"sig":[],"outcome":"panic","msg":"panic","bytes":[],"rt_ok":false,"consumed":0})));
}

fn main() {
    std::panic::set_hook(Box::new(|_| {}));
    let args: Vec<String> = std::env::args().collect();
    let mut out = vec![];
    generated::run_all(&mut out);
    let mut w = std::io::BufWriter::new(std::fs::File::create(&args[1]).unwrap());
    for o in out {
        writeln!(w, "{}", serde_json::to_string(&o).unwrap()).unwrap();
    }
}
