//! C16: the server side of the SASL handshake against scripted client byte streams.
//! One observation per case: the bytes sent (as chunks), the configuration, everything the server
//! wrote back, and the outcome (authenticated | failed | waiting | panic).  The harness renders
//! abstract lines to bytes and drives; TLC (SaslServerTrace) re-parses the bytes and decides.
use std::io::Write;

use serde_json::{json, Value as J};
use zbus::AuthMechanism;

use crate::{drive::*, model::Rng, sock::*};

pub const UID: u32 = 1000;

fn hex(b: &[u8]) -> String {
    b.iter().map(|x| format!("{x:02x}")).collect()
}

fn id_word(id: &str) -> Option<String> {
    match id {
        "none" | "empty" => None,
        "match" => Some(hex(UID.to_string().as_bytes())),
        "mismatch" => Some(hex((UID + 1).to_string().as_bytes())),
        "nonnum" => Some(hex(b"root")),
        // numerically the peer's uid, spelled with a leading zero
        "ambig" => Some(hex(format!("0{UID}").as_bytes())),
        "badhex" => Some("3z".to_string()),
        other => panic!("id class {other}"),
    }
}

/// bytes of one abstract line including its line ending
pub fn render_line(l: &J) -> Vec<u8> {
    let k = l["k"].as_str().unwrap();
    let mut content: Vec<u8> = match k {
        "AUTH" => {
            let mut s = "AUTH".to_string();
            match l["mech"].as_str().unwrap() {
                "EXT" => s.push_str(" EXTERNAL"),
                "ANON" => s.push_str(" ANONYMOUS"),
                "OTHER" => s.push_str(" DBUS_COOKIE_SHA1"),
                _ => {}
            }
            if let Some(w) = id_word(l["id"].as_str().unwrap()) {
                s.push(' ');
                s.push_str(&w);
            }
            s.into_bytes()
        }
        "DATA" => {
            let mut s = "DATA".to_string();
            if let Some(w) = id_word(l["id"].as_str().unwrap()) {
                s.push(' ');
                s.push_str(&w);
            }
            s.into_bytes()
        }
        "BEGIN" => b"BEGIN".to_vec(),
        "CANCEL" => b"CANCEL".to_vec(),
        "ERROR" => b"ERROR oops".to_vec(),
        "NEGOTIATE_UNIX_FD" => b"NEGOTIATE_UNIX_FD".to_vec(),
        "UNKNOWN" => match l["v"].as_str().unwrap_or("word") {
            "empty" => vec![],
            "okcmd" => format!("OK {GUID}").into_bytes(),
            "garbage" => vec![0xff, 0xfe, b'A', 0x80],
            _ => b"FOO bar".to_vec(),
        },
        // a complete command whose line ends in LF without CR
        "BADEND" => {
            let mut v = b"BEGIN".to_vec();
            v.push(b'\n');
            return v;
        }
        // a line feed where a line should start
        "LFSTART" => return vec![b'\n'],
        other => panic!("line kind {other}"),
    };
    content.extend_from_slice(b"\r\n");
    content
}

pub struct SrvCase {
    pub id: J,
    pub var: String,
    pub mech: AuthMechanism,
    pub creds: bool,
    pub canfd: bool,
    pub stream: Vec<u8>,
    /// release points (absolute, increasing, last = stream.len())
    pub releases: Vec<usize>,
    pub abs: J,
}

pub fn run_case(c: &SrvCase, out: &mut impl Write) {
    let sh = new_shared(c.stream.clone(), c.canfd, if c.creds { Some(UID) } else { None });
    let r = run_build(&sh, Role::Server(c.mech), &c.releases, false);
    let written: Vec<u8> = sh.lock().unwrap().written.clone();
    let o = json!({"ev": "Srv", "id": c.id, "var": c.var,
        "cfg": {"mech": if c.mech == AuthMechanism::External { "EXT" } else { "ANON" }, "creds": c.creds, "canfd": c.canfd,
                "uid": jbytes(UID.to_string().as_bytes())},
        "stream": jbytes(&c.stream), "rel": c.releases, "written": jbytes(&written), "outcome": r.outcome,
        "detail": r.detail.chars().take(100).collect::<String>(), "abs": c.abs});
    writeln!(out, "{}", o).unwrap();
}

fn cfg_of(c: &J) -> (AuthMechanism, bool, bool) {
    let mech = if c["cfg"]["mech"] == "ANON" { AuthMechanism::Anonymous } else { AuthMechanism::External };
    (mech, c["cfg"]["creds"].as_bool().unwrap(), c["cfg"]["canfd"].as_bool().unwrap())
}

pub fn cmd_enum(args: &[String]) {
    let cases = std::fs::read_to_string(&args[0]).expect("cases");
    let mut out = std::io::BufWriter::new(std::fs::File::create(&args[1]).expect("out"));
    for line in cases.lines() {
        if line.trim().is_empty() {
            continue;
        }
        let c: J = serde_json::from_str(line).expect("case json");
        let (mech, creds, canfd) = cfg_of(&c);
        let mut stream = vec![];
        if c["nul"].as_bool().unwrap_or(true) {
            stream.push(0u8);
        }
        let mut ends = vec![];
        let mut lens = vec![];
        for l in c["lines"].as_array().unwrap() {
            let b = render_line(l);
            lens.push(b.len());
            stream.extend_from_slice(&b);
            ends.push(stream.len());
        }
        let total = stream.len();
        let mk = |var: &str, releases: Vec<usize>| SrvCase {
            id: c["id"].clone(),
            var: var.to_string(),
            mech,
            creds,
            canfd,
            stream: stream.clone(),
            releases,
            abs: json!({"lines": c["lines"], "nul": c["nul"]}),
        };
        if c["fam"] == "cut" {
            // cut positions [line index (1-based; 0 = after the NUL), tag]
            let mut rel: Vec<usize> = c["cuts"]
                .as_array()
                .unwrap()
                .iter()
                .map(|s| {
                    let li = s[0].as_u64().unwrap() as usize;
                    if li == 0 {
                        return 1.min(total);
                    }
                    let end = ends[li - 1];
                    let len = lens[li - 1];
                    match s[1].as_str().unwrap() {
                        "m" => end - len + len / 2,
                        "c" => end.saturating_sub(2).max(end - len),
                        "l" => end - 1,
                        _ => end,
                    }
                })
                .filter(|p| *p > 0 && *p < total)
                .collect();
            rel.sort();
            rel.dedup();
            rel.push(total);
            run_case(&mk("cut", rel), &mut out);
        } else {
            run_case(&mk("whole", vec![total]), &mut out);
            // byte-by-byte delivery as well for the short transcripts (every second configuration)
            if total > 1 && ((c["lines"].as_array().unwrap().len() <= 2 && canfd) || !c["nul"].as_bool().unwrap_or(true)) {
                run_case(&mk("bytes", (1..=total).collect()), &mut out);
            }
        }
    }
}

/// Replay of a stored observation: exactly these bytes, this split, this configuration.
pub fn cmd_raw(args: &[String]) {
    let cases = std::fs::read_to_string(&args[0]).expect("cases");
    let mut out = std::io::BufWriter::new(std::fs::File::create(&args[1]).expect("out"));
    for line in cases.lines().filter(|l| !l.trim().is_empty()) {
        let c: J = serde_json::from_str(line).expect("case json");
        let (mech, creds, canfd) = cfg_of(&c);
        let stream: Vec<u8> = c["stream"].as_array().unwrap().iter().map(|x| x.as_u64().unwrap() as u8).collect();
        let releases: Vec<usize> = c["rel"].as_array().unwrap().iter().map(|x| x.as_u64().unwrap() as usize).collect();
        run_case(&SrvCase { id: c["id"].clone(), var: "raw".into(), mech, creds, canfd, stream, releases, abs: json!({}) }, &mut out);
    }
}

/// Random transcripts: well-formed commands with random arguments (random hex of random length and
/// case, long lines, non-UTF-8 bytes), occasional missing NUL / bad endings, random chunking.
pub fn cmd_rand(args: &[String]) {
    let n: u64 = args[0].parse().unwrap();
    let seed: u64 = args[1].parse().unwrap();
    let mut out = std::io::BufWriter::new(std::fs::File::create(&args[2]).expect("out"));
    let mut rng = Rng(seed.wrapping_mul(0x9E3779B97F4A7C15) ^ 0xC16);
    for id in 0..n {
        let mech = if rng.chance(2, 3) { AuthMechanism::External } else { AuthMechanism::Anonymous };
        let creds = rng.chance(2, 3);
        let canfd = rng.chance(1, 2);
        let mut stream = vec![];
        if !rng.chance(1, 25) {
            stream.push(0);
        }
        let nl = 1 + rng.below(6);
        for _ in 0..nl {
            stream.extend_from_slice(&random_line(&mut rng));
        }
        if rng.chance(1, 6) {
            // an incomplete last line
            let l = random_line(&mut rng);
            let keep = rng.below(l.len() as u64) as usize;
            stream.extend_from_slice(&l[..keep.min(l.len().saturating_sub(1))]);
        }
        let total = stream.len();
        let mut rel: Vec<usize> = match rng.below(3) {
            0 => vec![],
            1 => (0..rng.below(4)).map(|_| 1 + rng.below(total as u64) as usize).collect(),
            _ => (0..rng.below(30)).map(|_| 1 + rng.below(total as u64) as usize).collect(),
        };
        rel.retain(|p| *p < total);
        rel.sort();
        rel.dedup();
        rel.push(total);
        let c = SrvCase { id: json!(id), var: "rand".into(), mech, creds, canfd, stream, releases: rel, abs: json!({}) };
        run_case(&c, &mut out);
    }
}

fn rand_hex(rng: &mut Rng, n: usize, upper: bool) -> String {
    (0..n)
        .map(|_| {
            let c = b"0123456789abcdef"[rng.below(16) as usize] as char;
            if upper && rng.chance(1, 2) {
                c.to_ascii_uppercase()
            } else {
                c
            }
        })
        .collect()
}

/// bytes that are neither ASCII white space nor control characters (so that the split into words is
/// unambiguous), possibly not UTF-8
fn rand_word(rng: &mut Rng, n: usize, non_utf8: bool) -> Vec<u8> {
    (0..n)
        .map(|_| {
            if non_utf8 && rng.chance(1, 3) {
                128 + rng.below(128) as u8
            } else {
                33 + rng.below(94) as u8
            }
        })
        .collect()
}

fn random_identity(rng: &mut Rng) -> String {
    match rng.below(8) {
        0 | 1 => hex(UID.to_string().as_bytes()),
        2 => hex((UID + 1 + rng.below(5) as u32).to_string().as_bytes()),
        3 => hex(rng.below(4_000_000_000).max(1).to_string().as_bytes()),
        4 => { let n = 1 + rng.below(6) as usize; hex(&rand_word(rng, n, false).iter().map(|b| if b.is_ascii_digit() { b'x' } else { *b }).collect::<Vec<u8>>()) }
        5 => {
            let n = 2 * (1 + rng.below(2000)) as usize;
            rand_hex(rng, n, true)
        }
        6 => {
            // odd length or a non-hex character
            if rng.chance(1, 2) {
                let n = 1 + 2 * rng.below(6) as usize;
                rand_hex(rng, n, false)
            } else {
                let n = 2 + 2 * rng.below(5) as usize;
                let mut s = rand_hex(rng, n, false);
                s.push(*rng.pick(&['g', 'z', '-', '_']));
                s.push('0');
                s
            }
        }
        _ => {
            let n = 1 + rng.below(6) as usize;
            hex(&rand_word(rng, n, true))
        }
    }
}

pub fn random_line(rng: &mut Rng) -> Vec<u8> {
    let mut l: Vec<u8> = match rng.below(20) {
        0 | 1 | 2 => format!("AUTH EXTERNAL {}", random_identity(rng)).into_bytes(),
        3 => b"AUTH EXTERNAL".to_vec(),
        4 => format!("AUTH ANONYMOUS {}", random_identity(rng)).into_bytes(),
        5 => b"AUTH ANONYMOUS".to_vec(),
        6 => {
            let mut v = b"AUTH ".to_vec();
            let n = 1 + rng.below(12) as usize;
            v.extend(rand_word(rng, n, false).iter().map(|b| if *b == b'E' || *b == b'A' { b'X' } else { *b }));
            if rng.chance(1, 2) {
                v.push(b' ');
                v.extend(random_identity(rng).into_bytes());
            }
            v
        }
        7 => b"AUTH".to_vec(),
        8 | 9 => format!("DATA {}", random_identity(rng)).into_bytes(),
        10 => b"DATA".to_vec(),
        11 | 12 | 13 => b"BEGIN".to_vec(),
        14 => b"CANCEL".to_vec(),
        15 => b"ERROR something went wrong".to_vec(),
        16 => b"NEGOTIATE_UNIX_FD".to_vec(),
        17 => {
            let n = if rng.chance(1, 5) { 1500 + rng.below(3000) } else { 1 + rng.below(12) } as usize;
            let nu = rng.chance(1, 2);
            let mut v = rand_word(rng, n, nu);
            // never a real command word by accident
            v.insert(0, b'x');
            v
        }
        18 => vec![],
        _ => b"begin".to_vec(),
    };
    match rng.below(30) {
        0 => l.push(b'\n'),          // LF without CR
        1 => return vec![b'\n'],     // stray LF
        _ => l.extend_from_slice(b"\r\n"),
    }
    l
}
