//! Deterministic single-threaded driving of a zbus connection over the scripted socket:
//! hand-polled futures, hand-ticked executor, hand-polled MessageStream.
use std::{
    future::Future,
    num::NonZeroU32,
    os::fd::AsRawFd,
    panic::{catch_unwind, AssertUnwindSafe},
    pin::Pin,
    task::{Context, Poll},
};

use futures_util::{task::noop_waker, Stream};
use serde_json::{json, Value as J};
use zbus::{
    connection::Builder, zvariant::Endian, AuthMechanism, Connection, Message, MessageStream,
};

use crate::{model::Rng, sock::*};

pub const GUID: &str = "0123456789abcdef0123456789abcdef";

pub fn poll_once<F: Future + ?Sized>(f: &mut Pin<Box<F>>) -> Poll<F::Output> {
    let w = noop_waker();
    let mut cx = Context::from_waker(&w);
    f.as_mut().poll(&mut cx)
}

pub fn panic_text(e: Box<dyn std::any::Any + Send>) -> String {
    if let Some(s) = e.downcast_ref::<&str>() {
        s.to_string()
    } else if let Some(s) = e.downcast_ref::<String>() {
        s.clone()
    } else {
        "panic".to_string()
    }
}

#[derive(Clone, Copy, Debug, PartialEq)]
pub enum Role {
    /// `Builder::authenticated_socket`: no handshake, no leftovers
    Auth,
    /// zbus is the client of a scripted server
    Client,
    /// zbus is the server (`.server(guid)`) of a scripted client
    Server(AuthMechanism),
}

pub struct HsResult {
    pub outcome: &'static str, // authenticated | failed | waiting | panic
    pub detail: String,
    pub conn: Option<Connection>,
    /// index of the next unreleased entry of `releases`
    pub next_release: usize,
}

/// Run the connection build (handshake) over the scripted socket, releasing `releases[i]` (absolute
/// stream positions, increasing) one at a time whenever the handshake is blocked with everything
/// released so far consumed.
pub fn run_build(sh: &Sh, role: Role, releases: &[usize], eof_at_end: bool) -> HsResult {
    let sp = split(sh);
    let builder = match role {
        Role::Auth => Builder::authenticated_socket(sp, GUID).expect("builder").p2p(),
        Role::Client => Builder::socket(sp).p2p(),
        Role::Server(m) => Builder::socket(sp).server(GUID).expect("guid").p2p().auth_mechanism(m),
    }
    .internal_executor(false);
    let mut fut = Box::pin(builder.build());
    let mut ri = 0;
    let mut eof_set = false;
    let mut idle = 0;
    loop {
        let r = catch_unwind(AssertUnwindSafe(|| poll_once(&mut fut)));
        match r {
            Err(p) => {
                return HsResult { outcome: "panic", detail: panic_text(p), conn: None, next_release: ri };
            }
            Ok(Poll::Ready(Ok(c))) => {
                return HsResult { outcome: "authenticated", detail: String::new(), conn: Some(c), next_release: ri };
            }
            Ok(Poll::Ready(Err(e))) => {
                return HsResult { outcome: "failed", detail: format!("{e:?}"), conn: None, next_release: ri };
            }
            Ok(Poll::Pending) => {
                let (rd, released) = {
                    let s = sh.lock().unwrap();
                    (s.rd, s.released)
                };
                if rd < released {
                    // not blocked on the socket: poll again (bounded)
                    idle += 1;
                    if idle < 50 {
                        continue;
                    }
                }
                idle = 0;
                if ri < releases.len() {
                    release(sh, releases[ri]);
                    ri += 1;
                } else if eof_at_end && !eof_set {
                    eof_set = true;
                    set_eof(sh);
                } else {
                    return HsResult { outcome: "waiting", detail: String::new(), conn: None, next_release: ri };
                }
            }
        }
    }
}

/// Tick the connection's executor until no task is runnable.  Returns number of ticks, or Err(panic text).
pub fn tick_all(conn: &Connection) -> Result<usize, String> {
    let mut n = 0;
    loop {
        let mut t = Box::pin(conn.executor().tick());
        match catch_unwind(AssertUnwindSafe(|| poll_once(&mut t))) {
            Err(p) => return Err(panic_text(p)),
            Ok(Poll::Ready(())) => n += 1,
            Ok(Poll::Pending) => return Ok(n),
        }
        if n > 100000 {
            return Ok(n);
        }
    }
}

pub struct Observer {
    pub stream: MessageStream,
    prev: Option<zbus::message::Sequence>,
    pub delivered: usize,
    pub ended: bool,
}

fn seq_num(s: &zbus::message::Sequence) -> J {
    // informational only (the ordering itself is taken from `Ord`)
    let d = format!("{s:?}");
    let digits: String = d.chars().filter(|c| c.is_ascii_digit()).collect();
    match digits.parse::<u32>() {
        Ok(n) => json!(n),
        Err(_) => J::Null,
    }
}

impl Observer {
    pub fn new(conn: &Connection) -> Self {
        Observer { stream: MessageStream::from(conn), prev: None, delivered: 0, ended: false }
    }

    /// Poll the stream until Pending; log what comes out.  Returns number of items.
    pub fn drain(&mut self, sh: &Sh, with_bytes: bool) -> usize {
        let mut k = 0;
        while !self.ended {
            let w = noop_waker();
            let mut cx = Context::from_waker(&w);
            match Pin::new(&mut self.stream).poll_next(&mut cx) {
                Poll::Pending => break,
                Poll::Ready(None) => {
                    self.ended = true;
                    push_ev(sh, json!({"ev": "StreamEnd"}));
                }
                Poll::Ready(Some(Err(e))) => {
                    k += 1;
                    let d = format!("{e:?}");
                    push_ev(sh, json!({"ev": "StreamErr", "detail": d.chars().take(120).collect::<String>()}));
                }
                Poll::Ready(Some(Ok(m))) => {
                    k += 1;
                    self.delivered += 1;
                    let pos = m.recv_position();
                    let gt_prev = match &self.prev {
                        None => true,
                        Some(p) => pos > *p,
                    };
                    self.prev = Some(pos);
                    let data = m.data();
                    let raws: Vec<i32> = data.fds().iter().map(|f| f.as_raw_fd()).collect();
                    let ids = ids_of(sh, &raws);
                    let mut ev = json!({"ev": "Delivered", "serial": m.primary_header().serial_num().get(),
                        "len": data.bytes().len(), "fds": ids, "gt_prev": gt_prev, "seq": seq_num(&pos)});
                    if with_bytes {
                        ev["bytes"] = json!(data.bytes());
                    }
                    push_ev(sh, ev);
                }
            }
        }
        k
    }
}

/// After the handshake: release the remaining cut points one at a time, ticking the executor and
/// draining the stream to quiescence after each.
pub fn run_messages(sh: &Sh, conn: &Connection, obs: &mut Observer, releases: &[usize], eof_at_end: bool) -> Result<(), String> {
    set_phase(sh, "msg");
    let mut ri = 0;
    let mut eof_set = false;
    loop {
        let rd0 = sh.lock().unwrap().rd;
        let t = tick_all(conn)?;
        let k = obs.drain(sh, true);
        let rd1 = sh.lock().unwrap().rd;
        if t > 0 || k > 0 || rd1 != rd0 {
            continue;
        }
        if ri < releases.len() {
            release(sh, releases[ri]);
            ri += 1;
        } else if eof_at_end && !eof_set {
            eof_set = true;
            set_eof(sh);
        } else {
            return Ok(());
        }
    }
}

// ----------------------------------------------------------------------------- message crafting

pub struct Crafted {
    pub bytes: Vec<u8>,
    pub nfds: usize,
    pub serial: u32,
    /// offset of the first body byte (header incl. padding)
    pub body_start: usize,
}

fn finish(m: Message, nfds: usize) -> Crafted {
    let bytes = m.data().bytes().to_vec();
    let le = bytes[0] == b'l';
    let rd = |o: usize| -> usize {
        let b = [bytes[o], bytes[o + 1], bytes[o + 2], bytes[o + 3]];
        (if le { u32::from_le_bytes(b) } else { u32::from_be_bytes(b) }) as usize
    };
    let body_len = rd(4);
    let body_start = bytes.len() - body_len;
    assert_eq!(m.data().fds().len(), nfds);
    Crafted { serial: m.primary_header().serial_num().get(), bytes, nfds, body_start }
}

fn placeholder_fd() -> zbus::zvariant::Fd<'static> {
    zbus::zvariant::Fd::from(fresh_fd().0)
}

/// Fixed message templates used by the TLC-enumerated cases.
pub fn template(name: &str, serial: u32, big_endian: bool) -> Crafted {
    let endian = if big_endian { Endian::Big } else { Endian::Little };
    let ser = NonZeroU32::new(serial).unwrap();
    let sig = |member: &'static str| {
        Message::signal("/org/verif/Obj", "org.verif.Iface", member)
            .unwrap()
            .serial(ser)
            .endian(endian)
    };
    match name {
        // no body, no fds
        "sig0" => finish(sig("Ping").build(&()).unwrap(), 0),
        // string body, no fds
        "sigs" => finish(sig("Text").build(&("hello, world", 7u32)).unwrap(), 0),
        // method call carrying one fd
        "call1" => {
            let b = Message::method_call("/org/verif/Obj", "TakeFd")
                .unwrap()
                .interface("org.verif.Iface")
                .unwrap()
                .destination("org.verif.Dest")
                .unwrap()
                .serial(ser)
                .endian(endian);
            finish(b.build(&("fd", placeholder_fd())).unwrap(), 1)
        }
        // a message of a type this version of the specification does not define, carrying one fd (to be skipped)
        "unk1" => {
            let mut c = template("call1", serial, big_endian);
            c.bytes[1] = 9;
            c
        }
        // two fds with bytes in between
        "sig2" => finish(
            sig("TwoFds")
                .build(&(placeholder_fd(), vec![1u8, 2, 3, 4, 5, 6, 7, 8, 9, 10, 11], placeholder_fd()))
                .unwrap(),
            2,
        ),
        other => panic!("unknown template {other}"),
    }
}

/// A random valid message (signal or method call; optional fields; bodies with and without fds).
pub fn random_msg(rng: &mut Rng, serial: u32, allow_fds: bool, max_blob: u64) -> Crafted {
    let endian = if rng.chance(1, 4) { Endian::Big } else { Endian::Little };
    let ser = NonZeroU32::new(serial).unwrap();
    let seg = |rng: &mut Rng| -> String {
        let n = 1 + rng.below(9) as usize;
        (0..n).map(|_| (b'a' + rng.below(26) as u8) as char).collect()
    };
    let path = {
        let k = rng.below(4);
        if k == 0 {
            "/".to_string()
        } else {
            (0..k).map(|_| format!("/{}", seg(rng))).collect::<String>()
        }
    };
    let iface = format!("{}.{}", seg(rng), seg(rng));
    let member = seg(rng);
    let mut b = if rng.chance(1, 2) {
        Message::signal(path, iface, member).unwrap()
    } else {
        let mut b = Message::method_call(path, member).unwrap();
        if rng.chance(2, 3) {
            b = b.interface(iface).unwrap();
        }
        b
    };
    if rng.chance(1, 3) {
        b = b.destination(format!("{}.{}", seg(rng), seg(rng))).unwrap();
    }
    if rng.chance(1, 4) {
        b = b.sender(format!(":1.{}", rng.below(1000))).unwrap();
    }
    b = b.serial(ser).endian(endian);
    let blob = |rng: &mut Rng| -> Vec<u8> {
        let n = if rng.chance(1, 8) { rng.below(max_blob.max(1)) } else { rng.below(24) } as usize;
        (0..n).map(|_| rng.below(256) as u8).collect()
    };
    let kind = if allow_fds { rng.below(8) } else { rng.below(4) };
    match kind {
        0 => finish(b.build(&()).unwrap(), 0),
        1 => finish(b.build(&(seg(rng),)).unwrap(), 0),
        2 => finish(b.build(&(blob(rng),)).unwrap(), 0),
        3 => finish(b.build(&(rng.next(), seg(rng), blob(rng))).unwrap(), 0),
        4 | 5 => finish(b.build(&(placeholder_fd(),)).unwrap(), 1),
        6 => finish(b.build(&(seg(rng), placeholder_fd(), blob(rng))).unwrap(), 1),
        _ => finish(b.build(&(placeholder_fd(), blob(rng), placeholder_fd(), placeholder_fd())).unwrap(), 3),
    }
}

/// A 16-byte fixed header (plus nothing else) declaring the given field-array and body lengths.
pub fn bare_header(big_endian: bool, fields_len: u32, body_len: u32, serial: u32) -> Vec<u8> {
    let mut h = vec![if big_endian { b'B' } else { b'l' }, 4 /* signal */, 0, 1];
    let put = |h: &mut Vec<u8>, v: u32| {
        if big_endian {
            h.extend_from_slice(&v.to_be_bytes())
        } else {
            h.extend_from_slice(&v.to_le_bytes())
        }
    };
    put(&mut h, body_len);
    put(&mut h, serial);
    put(&mut h, fields_len);
    h
}

pub fn jbytes(b: &[u8]) -> J {
    json!(b)
}
