//! Conformance harness for the handshake / framing properties (C14, C16, C17).
//! Usage: hs <command> [args...]; see each module.  Rust only drives and observes; every verdict is
//! computed by TLC from the recorded ndjson.
mod client;
mod drive;
mod framing;
mod model;
mod server;
mod sock;

fn main() {
    // panics inside the code under test are data: keep them quiet, they are reported per case
    std::panic::set_hook(Box::new(|_| {}));
    let args: Vec<String> = std::env::args().collect();
    if args.len() < 2 {
        eprintln!("usage: hs <command> ...");
        std::process::exit(2);
    }
    let rest = &args[2..];
    match args[1].as_str() {
        "framing-enum" => framing::cmd_enum(rest),
        "framing-rand" => framing::cmd_rand(rest),
        "client-enum" => client::cmd_enum(rest),
        "client-rand" => client::cmd_rand(rest),
        "client-raw" => client::cmd_raw(rest),
        "server-enum" => server::cmd_enum(rest),
        "server-rand" => server::cmd_rand(rest),
        "server-raw" => server::cmd_raw(rest),
        other => {
            eprintln!("unknown command {other}");
            std::process::exit(2);
        }
    }
}
