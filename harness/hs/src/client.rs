//! C17: the client side of the SASL handshake against scripted server byte streams.
//! Scripted-socket mode (expected GUID not given; every chunking; fds) and real-unix-socket mode
//! (`Builder::address("unix:path=..,guid=<expected>")`, the only public way to give the client an
//! expected GUID; the whole reply is queued before the client reads, i.e. a single chunk).
use std::{
    future::Future,
    io::{Read, Write},
    os::unix::net::UnixListener,
    sync::Arc,
    task::{Context, Poll, Wake, Waker},
    time::{Duration, Instant},
};

use serde_json::{json, Value as J};
use zbus::{connection::Builder, Connection};

use crate::{drive::*, model::Rng, sock::*};

pub const GUID2: &str = "fedcba9876543210fedcba9876543210";

pub fn render_line(l: &J) -> Vec<u8> {
    let k = l["k"].as_str().unwrap();
    let mut c: Vec<u8> = match k {
        "OK" => match l["g"].as_str().unwrap() {
            "valid" => format!("OK {GUID}").into_bytes(),
            "other" => format!("OK {GUID2}").into_bytes(),
            "short" => format!("OK {}", &GUID[..31]).into_bytes(),
            "long" => format!("OK {GUID}0").into_bytes(),
            "nonhex" => format!("OK {}g", &GUID[..31]).into_bytes(),
            "missing" => b"OK".to_vec(),
            // 32 characters that integer parsers accept as a hexadecimal number but that are not 32 hex digits
            "plus" => format!("OK +{}", &GUID[..31]).into_bytes(),
            "minus" => format!("OK -{}", &GUID[..31]).into_bytes(),
            "zx" => format!("OK 0x{}", &GUID[..30]).into_bytes(),
            "under" => format!("OK {}_{}", &GUID[..16], &GUID[..15]).into_bytes(),
            "upper" => format!("OK {}{}", GUID[..16].to_uppercase(), &GUID[16..]).into_bytes(),
            // a textual UUID, not a D-Bus GUID
            "hyph" => b"OK 01234567-89ab-cdef-0123-456789abcdef".to_vec(),
            other => panic!("guid class {other}"),
        },
        "REJECTED" => b"REJECTED EXTERNAL ANONYMOUS".to_vec(),
        "ERROR" => b"ERROR no".to_vec(),
        "DATA" => b"DATA".to_vec(),
        "AGREE_UNIX_FD" => b"AGREE_UNIX_FD".to_vec(),
        "UNKNOWN" => b"WHATEVER you say".to_vec(),
        "GARBAGE" => vec![0xff, 0xfe, b'O', b'K', 0x80],
        "BADEND" => {
            let mut v = format!("OK {GUID}").into_bytes();
            v.push(b'\n');
            return v;
        }
        "LFSTART" => return vec![b'\n'],
        other => panic!("line kind {other}"),
    };
    c.extend_from_slice(b"\r\n");
    c
}

pub struct CliCase {
    pub id: J,
    pub var: String,
    pub canfd: bool,
    pub expected: Option<String>,
    /// handshake lines followed by the trailing message bytes
    pub stream: Vec<u8>,
    pub hs_len: usize,
    /// (offset in stream, nfds)
    pub fds: Vec<(usize, usize)>,
    /// complete valid messages inside the trailing part, in order
    pub trail_msgs: Vec<Vec<u8>>,
    pub releases: Vec<usize>,
    pub abs: J,
}

fn fd_probe() -> zbus::Message {
    zbus::Message::signal("/p", "a.b", "Probe")
        .unwrap()
        .build(&(zbus::zvariant::Fd::from(fresh_fd().0),))
        .unwrap()
}

fn cap_fd_of(conn: &Connection) -> &'static str {
    let m = fd_probe();
    let mut f = Box::pin(conn.send(&m));
    match poll_once(&mut f) {
        Poll::Ready(Ok(())) => "yes",
        Poll::Ready(Err(zbus::Error::Unsupported)) => "no",
        _ => "na",
    }
}

fn observation(c: &CliCase, sh_log: Vec<J>, written: Vec<u8>, outcome: &str, detail: &str, guid: &str, cap: &str, att: Vec<J>, panic: &str) -> J {
    let delivered: Vec<J> = sh_log
        .iter()
        .filter(|e| e["ev"] == "Delivered")
        .map(|e| json!({"bytes": e["bytes"], "fds": e["fds"]}))
        .collect();
    let errs = sh_log.iter().filter(|e| e["ev"] == "StreamErr").count();
    json!({"ev": "Cli", "id": c.id, "var": c.var,
        "cfg": {"canfd": c.canfd, "expected": jbytes(c.expected.as_deref().unwrap_or("").as_bytes())},
        "stream": jbytes(&c.stream), "rel": c.releases, "hs_len": c.hs_len, "att": att,
        "trail_msgs": c.trail_msgs.iter().map(|m| jbytes(m)).collect::<Vec<_>>(),
        "written": jbytes(&written), "outcome": outcome, "detail": detail.chars().take(100).collect::<String>(),
        "guid": jbytes(guid.as_bytes()), "cap_fd": cap, "delivered": delivered, "stream_errs": errs, "panic": panic, "eof": c.var == "unix",
        "abs": c.abs})
}

pub fn run_scripted(c: &CliCase, out: &mut impl Write) {
    let sh = new_shared(c.stream.clone(), c.canfd, Some(0));
    let mut next_id = 1u32;
    let mut att = vec![];
    for (pos, n) in &c.fds {
        let ids = attach_fds(&sh, *pos, *n, &mut next_id);
        att.push(json!({"pos": pos + 1, "ids": ids}));
    }
    let r = run_build(&sh, Role::Client, &c.releases, false);
    let mut guid = String::new();
    let mut cap = "na";
    let mut panic = String::new();
    let written_hs: Vec<u8> = sh.lock().unwrap().written.clone();
    if let Some(conn) = &r.conn {
        guid = conn.server_guid().to_string();
        let mut obs = Observer::new(conn);
        if let Err(p) = run_messages(&sh, conn, &mut obs, &c.releases[r.next_release.min(c.releases.len())..], false) {
            panic = p;
        }
        cap = cap_fd_of(conn);
    }
    if r.outcome == "panic" {
        panic = r.detail.clone();
    }
    let log = take_log(&sh);
    let o = observation(c, log, written_hs, r.outcome, &r.detail, &guid, cap, att, &panic);
    writeln!(out, "{}", o).unwrap();
}

struct ThreadWaker(std::thread::Thread);
impl Wake for ThreadWaker {
    fn wake(self: Arc<Self>) {
        self.0.unpark();
    }
}

/// Real unix socket: the harness is the listening server; it accepts, queues the whole scripted
/// reply with one write and closes its sending direction.
pub fn run_unix(c: &CliCase, dir: &str, out: &mut impl Write) -> Result<(), String> {
    let path = format!("{dir}/c17-{}.sock", std::process::id());
    let _ = std::fs::remove_file(&path);
    let listener = UnixListener::bind(&path).map_err(|e| format!("bind {path}: {e}"))?;
    listener.set_nonblocking(true).map_err(|e| e.to_string())?;
    let addr = match &c.expected {
        Some(g) => format!("unix:path={path},guid={g}"),
        None => format!("unix:path={path}"),
    };
    let builder = Builder::address(addr.as_str()).map_err(|e| format!("address: {e:?}"))?.p2p().internal_executor(false);
    let mut fut = Box::pin(builder.build());
    let waker = Waker::from(Arc::new(ThreadWaker(std::thread::current())));
    let deadline = Instant::now() + Duration::from_secs(30);
    let mut peer: Option<std::os::unix::net::UnixStream> = None;
    let (outcome, detail, conn): (&str, String, Option<Connection>) = loop {
        let mut cx = Context::from_waker(&waker);
        let r = std::panic::catch_unwind(std::panic::AssertUnwindSafe(|| fut.as_mut().poll(&mut cx)));
        match r {
            Err(p) => break ("panic", panic_text(p), None),
            Ok(Poll::Ready(Ok(conn))) => break ("authenticated", String::new(), Some(conn)),
            Ok(Poll::Ready(Err(e))) => break ("failed", format!("{e:?}"), None),
            Ok(Poll::Pending) => {}
        }
        if peer.is_none() {
            if let Ok((mut s, _)) = listener.accept() {
                s.set_nonblocking(false).ok();
                s.write_all(&c.stream).map_err(|e| format!("write: {e}"))?;
                s.shutdown(std::net::Shutdown::Write).ok();
                peer = Some(s);
            }
        }
        if Instant::now() > deadline {
            let _ = std::fs::remove_file(&path);
            return Err("timeout waiting for the client handshake".into());
        }
        std::thread::park_timeout(Duration::from_millis(2));
    };
    let sh = new_shared(vec![], true, Some(0)); // only used as an event log here
    let mut guid = String::new();
    let mut cap = "na";
    let mut panic = if outcome == "panic" { detail.clone() } else { String::new() };
    if let Some(conn) = &conn {
        guid = conn.server_guid().to_string();
        let mut obs = Observer::new(conn);
        let dl = Instant::now() + Duration::from_secs(20);
        // the peer closed its sending side: the reader ends with an error after the leftovers
        loop {
            match tick_all(conn) {
                Err(p) => {
                    panic = p;
                    break;
                }
                Ok(_) => {}
            }
            obs.drain(&sh, true);
            let errs = sh.lock().unwrap().log.iter().filter(|e| e["ev"] == "StreamErr" || e["ev"] == "StreamEnd").count();
            if errs > 0 {
                break;
            }
            if Instant::now() > dl {
                let _ = std::fs::remove_file(&path);
                return Err("timeout waiting for the end of the message stream".into());
            }
            std::thread::sleep(Duration::from_millis(1));
        }
    }
    let mut written = vec![];
    if let Some(s) = peer.as_mut() {
        s.set_nonblocking(true).ok();
        let mut buf = [0u8; 4096];
        while let Ok(n) = s.read(&mut buf) {
            if n == 0 {
                break;
            }
            written.extend_from_slice(&buf[..n]);
        }
    }
    if let Some(conn) = &conn {
        cap = cap_fd_of(conn);
    }
    let _ = std::fs::remove_file(&path);
    let log = take_log(&sh);
    let o = observation(c, log, written, outcome, &detail, &guid, cap, vec![], &panic);
    writeln!(out, "{}", o).unwrap();
    Ok(())
}

fn trailing(kind: &str) -> (Vec<u8>, Vec<(usize, usize)>, Vec<Vec<u8>>) {
    // (bytes, fds as (offset in trailing, n), complete messages)
    match kind {
        "msg" => {
            let m = template("sigs", 1, false);
            (m.bytes.clone(), vec![], vec![m.bytes])
        }
        "msgfd" => {
            let m = template("call1", 1, false);
            (m.bytes.clone(), vec![(0, 1)], vec![m.bytes])
        }
        // the fds travel with the first of two messages ...
        "two" => {
            let a = template("sig2", 1, true);
            let b = template("sigs", 2, false);
            let mut v = a.bytes.clone();
            v.extend_from_slice(&b.bytes);
            (v, vec![(0, 2)], vec![a.bytes, b.bytes])
        }
        // ... or with the second
        "twolate" => {
            let a = template("sig0", 1, true);
            let b = template("sig2", 2, false);
            let mut v = a.bytes.clone();
            v.extend_from_slice(&b.bytes);
            (v, vec![(a.bytes.len(), 2)], vec![a.bytes, b.bytes])
        }
        "partial" => {
            let m = template("sigs", 1, false);
            (m.bytes[..20].to_vec(), vec![], vec![])
        }
        _ => (vec![], vec![], vec![]),
    }
}

fn build_case(c: &J) -> (Vec<u8>, usize, Vec<usize>, Vec<usize>, Vec<(usize, usize)>, Vec<Vec<u8>>) {
    let mut stream = vec![];
    let mut ends = vec![];
    let mut lens = vec![];
    for l in c["lines"].as_array().unwrap() {
        let b = render_line(l);
        lens.push(b.len());
        stream.extend_from_slice(&b);
        ends.push(stream.len());
    }
    let hs_len = stream.len();
    let (tb, tf, tm) = trailing(c["trail"].as_str().unwrap_or("none"));
    stream.extend_from_slice(&tb);
    let fds = tf.into_iter().map(|(o, n)| (hs_len + o, n)).collect();
    (stream, hs_len, ends, lens, fds, tm)
}

pub fn cmd_enum(args: &[String]) {
    let cases = std::fs::read_to_string(&args[0]).expect("cases");
    let mut out = std::io::BufWriter::new(std::fs::File::create(&args[1]).expect("out"));
    let dir = args.get(2).cloned().unwrap_or_else(|| ".".into());
    for line in cases.lines().filter(|l| !l.trim().is_empty()) {
        let c: J = serde_json::from_str(line).expect("case json");
        let (stream, hs_len, ends, lens, fds, tm) = build_case(&c);
        let total = stream.len();
        let canfd = c["cfg"]["canfd"].as_bool().unwrap();
        let expected = match c["cfg"]["expected"].as_str().unwrap_or("none") {
            "same" => Some(GUID.to_string()),
            "other" => Some(GUID2.to_string()),
            _ => None,
        };
        let mk = |var: &str, releases: Vec<usize>| CliCase {
            id: c["id"].clone(),
            var: var.to_string(),
            canfd,
            expected: expected.clone(),
            stream: stream.clone(),
            hs_len,
            fds: fds.clone(),
            trail_msgs: tm.clone(),
            releases,
            abs: json!({"lines": c["lines"], "trail": c["trail"]}),
        };
        if c["fam"] == "unix" {
            if let Err(e) = run_unix(&mk("unix", vec![total]), &dir, &mut out) {
                eprintln!("unix-socket case {}: {e}", c["id"]);
                std::process::exit(3);
            }
        } else if c["fam"] == "cut" {
            let mut rel: Vec<usize> = c["cuts"]
                .as_array()
                .unwrap()
                .iter()
                .map(|s| {
                    let li = s[0].as_u64().unwrap() as usize;
                    if li > ends.len() {
                        // inside the trailing message: t1 = 7 bytes in, t2 = 16, t3 = 40
                        return hs_len
                            + match s[1].as_str().unwrap() {
                                "t1" => 7,
                                "t2" => 16,
                                _ => 40,
                            };
                    }
                    let end = ends[li - 1];
                    let len = lens[li - 1];
                    match s[1].as_str().unwrap() {
                        "m" => end - len + len / 2,
                        "c" => end.saturating_sub(2).max(end - len),
                        "l" => end - 1,
                        _ => end,
                    }
                })
                .filter(|p| *p > 0 && *p < total)
                .collect();
            rel.sort();
            rel.dedup();
            rel.push(total);
            run_scripted(&mk("cut", rel), &mut out);
        } else {
            if total == 0 {
                continue;
            }
            run_scripted(&mk("whole", vec![total]), &mut out);
            if total > 1 {
                run_scripted(&mk("bytes", (1..=total).collect()), &mut out);
                // one line per read, the trailing bytes in their own read
                let mut rel: Vec<usize> = ends.clone();
                rel.push(total);
                rel.dedup();
                if rel.len() > 1 {
                    run_scripted(&mk("lines", rel), &mut out);
                }
            }
        }
    }
}

pub fn cmd_raw(args: &[String]) {
    let cases = std::fs::read_to_string(&args[0]).expect("cases");
    let mut out = std::io::BufWriter::new(std::fs::File::create(&args[1]).expect("out"));
    let dir = args.get(2).cloned().unwrap_or_else(|| ".".into());
    for line in cases.lines().filter(|l| !l.trim().is_empty()) {
        let c: J = serde_json::from_str(line).expect("case json");
        let bytes = |j: &J| -> Vec<u8> { j.as_array().unwrap().iter().map(|x| x.as_u64().unwrap() as u8).collect() };
        let exp = bytes(&c["cfg"]["expected"]);
        let case = CliCase {
            id: c["id"].clone(),
            var: c["var"].as_str().unwrap_or("raw").to_string(),
            canfd: c["cfg"]["canfd"].as_bool().unwrap(),
            expected: if exp.is_empty() { None } else { Some(String::from_utf8(exp).unwrap()) },
            stream: bytes(&c["stream"]),
            hs_len: c["hs_len"].as_u64().unwrap() as usize,
            fds: c["att"].as_array().unwrap().iter().map(|a| (a["pos"].as_u64().unwrap() as usize - 1, a["ids"].as_array().unwrap().len())).collect(),
            trail_msgs: c["trail_msgs"].as_array().unwrap().iter().map(bytes).collect(),
            releases: c["rel"].as_array().unwrap().iter().map(|x| x.as_u64().unwrap() as usize).collect(),
            abs: json!({}),
        };
        if case.var == "unix" {
            if let Err(e) = run_unix(&case, &dir, &mut out) {
                eprintln!("unix-socket case: {e}");
                std::process::exit(3);
            }
        } else {
            run_scripted(&case, &mut out);
        }
    }
}

/// Random server reply streams: plausible lines with random GUIDs / arguments / junk, random
/// trailing bytes (valid messages with fds, or garbage), random chunking.
pub fn cmd_rand(args: &[String]) {
    let n: u64 = args[0].parse().unwrap();
    let seed: u64 = args[1].parse().unwrap();
    let mut out = std::io::BufWriter::new(std::fs::File::create(&args[2]).expect("out"));
    let mut rng = Rng(seed.wrapping_mul(0x9E3779B97F4A7C15) ^ 0xC17);
    for id in 0..n {
        let canfd = rng.chance(2, 3);
        let mut stream = vec![];
        let nl = rng.below(4);
        // mostly start with something OK-like so that the later stages are reached
        for i in 0..nl {
            let l = if i == 0 && rng.chance(2, 3) {
                render_line(&json!({"k": "OK", "g": *rng.pick(&["valid", "valid", "valid", "other", "short", "long", "nonhex", "missing", "hyph", "plus", "minus", "zx", "under", "upper"])}))
            } else {
                random_line(&mut rng)
            };
            stream.extend_from_slice(&l);
        }
        let hs_len = stream.len();
        let mut fds = vec![];
        let mut tm = vec![];
        match rng.below(5) {
            0 => {}
            1 | 2 => {
                let k = 1 + rng.below(3);
                for j in 0..k {
                    let m = random_msg(&mut rng, (j + 1) as u32, true, 200);
                    if m.nfds > 0 {
                        fds.push((stream.len(), m.nfds));
                    }
                    stream.extend_from_slice(&m.bytes);
                    tm.push(m.bytes);
                }
            }
            3 => {
                let m = random_msg(&mut rng, 1, false, 200);
                let keep = 1 + rng.below(m.bytes.len() as u64 - 1) as usize;
                stream.extend_from_slice(&m.bytes[..keep]);
            }
            _ => {
                let k = 1 + rng.below(40) as usize;
                stream.extend((0..k).map(|_| rng.below(256) as u8));
            }
        }
        let total = stream.len();
        if total == 0 {
            stream.extend_from_slice(b"OK\r\n");
        }
        let total = stream.len().max(total);
        let mut rel: Vec<usize> = match rng.below(3) {
            0 => vec![],
            1 => (0..rng.below(4)).map(|_| 1 + rng.below(total as u64) as usize).collect(),
            _ => (0..rng.below(30)).map(|_| 1 + rng.below(total as u64) as usize).collect(),
        };
        rel.retain(|p| *p < total);
        rel.sort();
        rel.dedup();
        rel.push(total);
        // a valid-message trail only counts as such if the handshake part consists of complete lines
        let c = CliCase { id: json!(id), var: "rand".into(), canfd, expected: None, hs_len, stream, fds, trail_msgs: tm, releases: rel, abs: json!({}) };
        run_scripted(&c, &mut out);
    }
}

fn random_line(rng: &mut Rng) -> Vec<u8> {
    let hexs = |rng: &mut Rng, n: usize| -> String { (0..n).map(|_| b"0123456789abcdef"[rng.below(16) as usize] as char).collect() };
    let mut l: Vec<u8> = match rng.below(12) {
        0 | 1 => format!("OK {}", hexs(rng, 32)).into_bytes(),
        2 => {
            let n = rng.below(70) as usize;
            format!("OK {}", hexs(rng, n)).into_bytes()
        }
        3 => b"REJECTED EXTERNAL".to_vec(),
        4 => b"ERROR".to_vec(),
        5 => b"DATA 00ff".to_vec(),
        6 | 7 | 8 => b"AGREE_UNIX_FD".to_vec(),
        9 => {
            let n = 1 + rng.below(30) as usize;
            let mut v: Vec<u8> = (0..n).map(|_| 33 + rng.below(94) as u8).collect();
            v.insert(0, b'x');
            v
        }
        10 => {
            let n = 1 + rng.below(10) as usize;
            let mut v: Vec<u8> = (0..n).map(|_| 128 + rng.below(128) as u8).collect();
            v.insert(0, b'x');
            v
        }
        _ => vec![],
    };
    match rng.below(30) {
        0 => l.push(b'\n'),
        1 => return vec![b'\n'],
        _ => l.extend_from_slice(b"\r\n"),
    }
    l
}
