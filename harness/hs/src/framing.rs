//! C14: message framing on the receiving side.  Each scenario scripts an inbound byte stream
//! (optional handshake lines, then messages, optionally a tail that is an over-long / incomplete
//! message), releases it in chunks and records what zbus reads and what it delivers.
use std::io::Write;

use serde_json::{json, Value as J};
use zbus::AuthMechanism;

use crate::{drive::*, model::Rng, sock::*};

pub struct Scenario {
    pub id: u64,
    pub via: &'static str,
    pub msgs: Vec<Crafted>,
    pub tail: Vec<u8>,
    pub tailkind: &'static str,
    /// (message index 0-based, byte offset inside the message) where each message's fds travel
    pub fd_off: Vec<usize>,
    /// the first fd of a message travels with the byte at fd_off, the others with the first body byte
    pub split: bool,
    /// cut positions inside the message stream (0-based byte offsets, exclusive ends of chunks)
    pub cuts: Vec<usize>,
    /// bytes of the message stream made readable together with the last handshake line
    pub left: usize,
    pub eof: bool,
    pub case: J,
}

fn hs_prefix(via: &str) -> Vec<u8> {
    match via {
        "client" => format!("OK {GUID}\r\nAGREE_UNIX_FD\r\n").into_bytes(),
        "server" => b"\0AUTH ANONYMOUS 61\r\nNEGOTIATE_UNIX_FD\r\nBEGIN\r\n".to_vec(),
        _ => vec![],
    }
}

pub fn run_scenario(sc: &Scenario, out: &mut impl Write) {
    let pre = hs_prefix(sc.via);
    let h = pre.len();
    let mut stream = pre.clone();
    let mut starts = vec![];
    for m in &sc.msgs {
        starts.push(stream.len());
        stream.extend_from_slice(&m.bytes);
    }
    stream.extend_from_slice(&sc.tail);
    let total = stream.len();
    let sh = new_shared(stream, true, Some(0));
    let mut next_id = 1u32;
    let mut att = vec![];
    for (i, m) in sc.msgs.iter().enumerate() {
        if m.nfds > 0 {
            let pos = starts[i] + sc.fd_off[i].min(m.bytes.len() - 1);
            let pos2 = starts[i] + m.body_start.min(m.bytes.len() - 1);
            if sc.split && m.nfds >= 2 && pos2 > pos {
                let ids = attach_fds(&sh, pos, 1, &mut next_id);
                att.push(json!({"pos": pos - h + 1, "ids": ids}));
                let ids = attach_fds(&sh, pos2, m.nfds - 1, &mut next_id);
                att.push(json!({"pos": pos2 - h + 1, "ids": ids}));
            } else {
                let ids = attach_fds(&sh, pos, m.nfds, &mut next_id);
                att.push(json!({"pos": pos - h + 1, "ids": ids}));
            }
        }
    }
    let role = match sc.via {
        "client" => Role::Client,
        "server" => Role::Server(AuthMechanism::Anonymous),
        _ => Role::Auth,
    };
    let mut rel: Vec<usize> = vec![];
    if role != Role::Auth {
        rel.push(h + sc.left.min(total - h));
    }
    let mut cuts = sc.cuts.clone();
    cuts.sort();
    cuts.dedup();
    for c in cuts {
        let p = h + c;
        if p < total && rel.last().map(|l| p > *l).unwrap_or(p > 0) {
            rel.push(p);
        }
    }
    if rel.last().map(|l| *l < total).unwrap_or(true) {
        rel.push(total);
    }
    push_ev(
        &sh,
        json!({"ev": "Reset", "sc": sc.id, "via": sc.via, "hs_len": h,
            "msgs": sc.msgs.iter().map(|m| jbytes(&m.bytes)).collect::<Vec<_>>(),
            "serials": sc.msgs.iter().map(|m| m.serial).collect::<Vec<_>>(),
            "tail": jbytes(&sc.tail), "tailkind": sc.tailkind, "att": att,
            "releases": rel, "eof": sc.eof, "case": sc.case}),
    );
    // handshake phase: only the first release belongs to it
    let n_hs = if role == Role::Auth { 0 } else { 1 };
    let r = run_build(&sh, role, &rel[..n_hs], false);
    push_ev(&sh, json!({"ev": "HsDone", "outcome": r.outcome, "detail": r.detail.chars().take(160).collect::<String>()}));
    let mut panic: Option<String> = None;
    if let Some(conn) = &r.conn {
        let mut obs = Observer::new(conn);
        if let Err(p) = run_messages(&sh, conn, &mut obs, &rel[n_hs..], sc.eof) {
            panic = Some(p);
        }
    }
    push_ev(&sh, json!({"ev": "End", "panic": panic.unwrap_or_default()}));
    for ev in take_log(&sh) {
        if ev["ev"] == "Sendmsg" {
            continue;
        }
        writeln!(out, "{}", ev).unwrap();
    }
    drop(r);
}

fn sym_off(m: &Crafted, tag: &str) -> usize {
    let len = m.bytes.len();
    match tag {
        "h" => 7,
        "x" => 16,
        "f" => 25.min(m.body_start),
        "b" => m.body_start,
        "i" => m.body_start + (len - m.body_start) / 2,
        _ => len,
    }
}

const MAX: u32 = 128 * 1024 * 1024;

pub fn tail_of(kind: &str) -> (Vec<u8>, &'static str) {
    let junk = [0u8; 40];
    let (hdr, k): (Vec<u8>, &'static str) = match kind {
        "big_body_le" => (bare_header(false, 0, MAX, 77), "toolarge"),
        "big_body_be" => (bare_header(true, 0, MAX, 77), "toolarge"),
        "big_fields" => (bare_header(false, MAX, 0, 77), "toolarge"),
        "max_u32" => (bare_header(false, u32::MAX, u32::MAX, 77), "toolarge"),
        "limit_plus1" => (bare_header(false, 0, MAX - 16 + 1, 77), "toolarge"),
        "limit_plus1_be" => (bare_header(true, 8, MAX - 24 + 1, 77), "toolarge"),
        // the padding between the fields array and the body counts: 16 + fields + body <= limit < padded total
        "limit_pad1" => (bare_header(false, 5, MAX - 24 + 1, 77), "toolarge"),     // 21 + pad 3 + body = limit + 1
        "limit_pad7_be" => (bare_header(true, 1, MAX - 24 + 7, 77), "toolarge"),   // 17 + pad 7 + body = limit + 7
        "at_limit" => (bare_header(false, 0, MAX - 16, 77), "partial"),
        "at_limit_be" => (bare_header(true, 8, MAX - 24, 77), "partial"),
        _ => return (vec![], "none"),
    };
    let mut t = hdr;
    t.extend_from_slice(&junk);
    (t, k)
}

/// A TLC-emitted symbolic case -> concrete scenario.
pub fn scenario_of_case(c: &J) -> Scenario {
    let names: Vec<&str> = c["msgs"].as_array().unwrap().iter().map(|x| x.as_str().unwrap()).collect();
    let be: Vec<bool> = c["be"].as_array().unwrap().iter().map(|x| x.as_bool().unwrap()).collect();
    let msgs: Vec<Crafted> = names.iter().enumerate().map(|(i, n)| template(n, (i + 1) as u32, be[i])).collect();
    let (tail, tailkind) = tail_of(c["tail"].as_str().unwrap_or("none"));
    let mut starts = vec![];
    let mut p = 0;
    for m in &msgs {
        starts.push(p);
        p += m.bytes.len();
    }
    let tail_start = p;
    // symbolic position [m, tag]: m = 1..n message, n+1 = tail, 0 = stream start
    let pos_of = |s: &J| -> usize {
        let mi = s[0].as_u64().unwrap() as usize;
        let tag = s[1].as_str().unwrap();
        if mi == 0 {
            0
        } else if mi <= msgs.len() {
            starts[mi - 1] + sym_off(&msgs[mi - 1], tag)
        } else {
            tail_start
                + match tag {
                    "h" => 7.min(tail.len()),
                    "x" => 16.min(tail.len()),
                    _ => tail.len(),
                }
        }
    };
    let cuts: Vec<usize> = c["cuts"].as_array().unwrap().iter().map(pos_of).collect();
    let left = pos_of(&c["left"]);
    let fdpos = c["fdpos"].as_str().unwrap_or("first");
    let fd_off: Vec<usize> = msgs.iter().map(|m| if fdpos == "body" { m.body_start } else { 0 }).collect();
    let via = match c["via"].as_str().unwrap() {
        "client" => "client",
        "server" => "server",
        _ => "auth",
    };
    Scenario { id: c["id"].as_u64().unwrap_or(0), via, msgs, tail, tailkind, fd_off, split: fdpos == "split", cuts, left, eof: c["eof"].as_bool().unwrap_or(false), case: c.clone() }
}

pub fn cmd_enum(args: &[String]) {
    let cases = std::fs::read_to_string(&args[0]).expect("cases");
    let mut out = std::io::BufWriter::new(std::fs::File::create(&args[1]).expect("out"));
    for line in cases.lines() {
        if line.trim().is_empty() {
            continue;
        }
        let c: J = serde_json::from_str(line).expect("case json");
        let sc = scenario_of_case(&c);
        run_scenario(&sc, &mut out);
    }
}

/// Seeded random scenarios: random messages, random chunking, random leftover split, random fd
/// attachment offsets, sometimes an over-long or truncated tail.
pub fn random_scenario(rng: &mut Rng, id: u64, max_msgs: u64, max_blob: u64, at_limit_den: u64) -> Scenario {
    let via = *rng.pick(&["auth", "client", "client", "server"]);
    let n = 1 + rng.below(max_msgs) as usize;
    let msgs: Vec<Crafted> = (0..n).map(|i| random_msg(rng, (i + 1) as u32, true, max_blob)).collect();
    let tails = ["none", "none", "none", "none", "none", "big_body_le", "big_body_be", "big_fields", "max_u32", "limit_plus1", "limit_plus1_be", "limit_pad1", "limit_pad7_be"];
    // (the accepted-at-the-limit tail makes zbus allocate 128 MiB: keep it rare)
    let tk = if at_limit_den > 0 && rng.chance(1, at_limit_den) { "at_limit" } else { *rng.pick(&tails) };
    let (mut tail, mut tailkind) = tail_of(tk);
    let mut eof = false;
    if tk == "none" && rng.chance(1, 6) {
        // a valid message cut short, then end of stream
        let m = random_msg(rng, 99, false, max_blob);
        let keep = 1 + rng.below(m.bytes.len() as u64 - 1) as usize;
        tail = m.bytes[..keep].to_vec();
        tailkind = "partial";
        eof = true;
    } else if rng.chance(1, 5) {
        eof = true;
    }
    let total: usize = msgs.iter().map(|m| m.bytes.len()).sum::<usize>() + tail.len();
    let fd_off: Vec<usize> = msgs
        .iter()
        .map(|m| if rng.chance(2, 3) { 0 } else { rng.below(m.bytes.len() as u64) as usize })
        .collect();
    let ncuts = match rng.below(4) {
        0 => 0,
        1 => rng.below(4),
        2 => rng.below(12),
        _ => rng.below(40),
    };
    let mut cuts: Vec<usize> = (0..ncuts).map(|_| 1 + rng.below(total as u64 - 1) as usize).collect();
    // favour interesting positions
    let mut p = 0;
    for m in &msgs {
        for off in [1usize, 15, 16, 17, m.body_start, m.bytes.len() - 1, m.bytes.len()] {
            if rng.chance(1, 10) && p + off < total {
                cuts.push(p + off);
            }
        }
        p += m.bytes.len();
    }
    let left = match rng.below(5) {
        0 => 0,
        1 => rng.below(20) as usize,
        2 => {
            // exactly at / around a message boundary
            let k = rng.below(msgs.len() as u64) as usize;
            let b: usize = msgs[..=k].iter().map(|m| m.bytes.len()).sum();
            (b + rng.below(3) as usize).saturating_sub(1)
        }
        _ => rng.below(total.min(900) as u64 + 1) as usize,
    }
    .min(total);
    let split = rng.chance(1, 3);
    let fd_off = if split { fd_off.iter().map(|_| 0).collect() } else { fd_off };
    Scenario { id, via, msgs, tail, tailkind, fd_off, split, cuts, left, eof, case: json!({"random": true}) }
}

pub fn cmd_rand(args: &[String]) {
    let n: u64 = args[0].parse().unwrap();
    let seed: u64 = args[1].parse().unwrap();
    let mut out = std::io::BufWriter::new(std::fs::File::create(&args[2]).expect("out"));
    let max_msgs: u64 = args.get(3).map(|x| x.parse().unwrap()).unwrap_or(6);
    let max_blob: u64 = args.get(4).map(|x| x.parse().unwrap()).unwrap_or(300);
    let at_limit_den: u64 = args.get(5).map(|x| x.parse().unwrap()).unwrap_or(0);
    let mut rng = Rng(seed.wrapping_mul(0x9E3779B97F4A7C15) ^ 0xC14);
    for id in 0..n {
        let sc = random_scenario(&mut rng, id, max_msgs, max_blob, at_limit_den);
        let t0 = std::time::Instant::now();
        run_scenario(&sc, &mut out);
        if std::env::var("HS_TIMING").is_ok() {
            eprintln!("{} {} {} {:?}", id, sc.via, sc.tailkind, t0.elapsed());
        }
    }
}
