//! Scripted transport: a `ReadHalf` / `WriteHalf` pair whose inbound byte stream (with file
//! descriptors attached to byte positions, like SCM_RIGHTS ancillary data is attached to the first
//! byte of a `sendmsg`) is released to zbus piece by piece by the driver.  Everything zbus does on
//! the socket is logged as an event; nothing here judges anything.
use std::{
    collections::BTreeMap,
    future::poll_fn,
    io,
    os::fd::{AsRawFd, BorrowedFd, FromRawFd, OwnedFd},
    sync::{Arc, Mutex},
    task::{Poll, Waker},
};

use serde_json::{json, Value as J};
use zbus::{
    connection::socket::{ReadHalf, Split, WriteHalf},
    fdo::ConnectionCredentials,
};

/// A fresh file descriptor with an identity that survives `dup` (its inode number).
pub fn fresh_fd() -> (OwnedFd, u64) {
    let s = std::os::unix::net::UnixDatagram::unbound().expect("socket()");
    let fd: OwnedFd = s.into();
    let ino = ino_of(fd.as_raw_fd());
    (fd, ino)
}

pub fn ino_of(raw: i32) -> u64 {
    use std::os::unix::fs::MetadataExt;
    let f = std::mem::ManuallyDrop::new(unsafe { std::fs::File::from_raw_fd(raw) });
    f.metadata().map(|m| m.ino()).unwrap_or(0)
}

#[derive(Default)]
pub struct Shared {
    /// the complete inbound stream the peer "sends"
    pub stream: Vec<u8>,
    /// fds attached to stream positions (0-based index of the byte they travel with): (id, fd)
    pub fd_at: BTreeMap<usize, Vec<(u32, OwnedFd)>>,
    /// inode -> fd id, for recognizing fds when they come out of zbus again
    pub fd_ids: BTreeMap<u64, u32>,
    /// bytes [rd, released) are readable now
    pub released: usize,
    pub rd: usize,
    /// once `rd == released == stream.len()`: report end of stream instead of Pending
    pub eof: bool,
    /// fail the next recvmsg with this error kind
    pub fail_next: bool,
    pub waker: Option<Waker>,
    pub log: Vec<J>,
    pub written: Vec<u8>,
    pub written_fds: usize,
    pub can_fd: bool,
    pub uid: Option<u32>,
    pub pending_polls: u64,
    pub phase: &'static str,
}

pub type Sh = Arc<Mutex<Shared>>;

#[derive(Debug)]
pub struct ScriptRead(pub Arc<Mutex<Shared>>);
#[derive(Debug)]
pub struct ScriptWrite(pub Arc<Mutex<Shared>>);

impl std::fmt::Debug for Shared {
    fn fmt(&self, f: &mut std::fmt::Formatter<'_>) -> std::fmt::Result {
        write!(f, "Shared(rd={}, released={})", self.rd, self.released)
    }
}

pub fn new_shared(stream: Vec<u8>, can_fd: bool, uid: Option<u32>) -> Sh {
    Arc::new(Mutex::new(Shared {
        stream,
        can_fd,
        uid,
        phase: "hs",
        ..Default::default()
    }))
}

pub fn split(sh: &Sh) -> Split<Box<dyn ReadHalf>, Box<dyn WriteHalf>> {
    Split::new(
        Box::new(ScriptRead(sh.clone())) as Box<dyn ReadHalf>,
        Box::new(ScriptWrite(sh.clone())) as Box<dyn WriteHalf>,
    )
}

/// Attach `n` fresh fds to stream position `pos`; returns their ids.
pub fn attach_fds(sh: &Sh, pos: usize, n: usize, next_id: &mut u32) -> Vec<u32> {
    let mut s = sh.lock().unwrap();
    let mut ids = vec![];
    for _ in 0..n {
        let (fd, ino) = fresh_fd();
        let id = *next_id;
        *next_id += 1;
        s.fd_ids.insert(ino, id);
        s.fd_at.entry(pos).or_default().push((id, fd));
        ids.push(id);
    }
    ids
}

/// Make the stream readable up to (excluding) `upto`.
pub fn release(sh: &Sh, upto: usize) {
    let w = {
        let mut s = sh.lock().unwrap();
        let upto = upto.min(s.stream.len());
        if upto > s.released {
            s.released = upto;
        }
        s.waker.take()
    };
    if let Some(w) = w {
        w.wake();
    }
}

pub fn set_eof(sh: &Sh) {
    let w = {
        let mut s = sh.lock().unwrap();
        s.eof = true;
        s.waker.take()
    };
    if let Some(w) = w {
        w.wake();
    }
}

pub fn set_phase(sh: &Sh, p: &'static str) {
    sh.lock().unwrap().phase = p;
}

pub fn push_ev(sh: &Sh, ev: J) {
    sh.lock().unwrap().log.push(ev);
}

pub fn take_log(sh: &Sh) -> Vec<J> {
    std::mem::take(&mut sh.lock().unwrap().log)
}

/// ids of the fds (by inode) in the order given
pub fn ids_of(sh: &Sh, raws: &[i32]) -> Vec<i64> {
    let s = sh.lock().unwrap();
    raws.iter()
        .map(|r| s.fd_ids.get(&ino_of(*r)).map(|x| *x as i64).unwrap_or(-1))
        .collect()
}

#[async_trait::async_trait]
impl ReadHalf for ScriptRead {
    async fn recvmsg(&mut self, buf: &mut [u8]) -> io::Result<(usize, Vec<OwnedFd>)> {
        let sh = self.0.clone();
        poll_fn(move |cx| {
            let mut s = sh.lock().unwrap();
            if s.fail_next {
                s.fail_next = false;
                let ph = s.phase;
                s.log.push(json!({"ev": "Recvmsg", "phase": ph, "buflen": buf.len(), "n": 0, "nfds": 0, "fds": [], "err": "io"}));
                return Poll::Ready(Err(io::Error::new(io::ErrorKind::ConnectionReset, "scripted")));
            }
            if s.rd < s.released && !buf.is_empty() {
                let n = buf.len().min(s.released - s.rd);
                let rd = s.rd;
                buf[..n].copy_from_slice(&s.stream[rd..rd + n]);
                let keys: Vec<usize> = s.fd_at.range(rd..rd + n).map(|(k, _)| *k).collect();
                let mut fds = vec![];
                let mut ids = vec![];
                for k in keys {
                    for (id, fd) in s.fd_at.remove(&k).unwrap() {
                        ids.push(id);
                        fds.push(fd);
                    }
                }
                s.rd += n;
                let ph = s.phase;
                s.log.push(json!({"ev": "Recvmsg", "phase": ph, "buflen": buf.len(), "n": n, "nfds": fds.len(), "fds": ids}));
                return Poll::Ready(Ok((n, fds)));
            }
            if buf.is_empty() || (s.eof && s.rd >= s.stream.len()) {
                let ph = s.phase;
                s.log.push(json!({"ev": "Recvmsg", "phase": ph, "buflen": buf.len(), "n": 0, "nfds": 0, "fds": []}));
                return Poll::Ready(Ok((0, vec![])));
            }
            s.pending_polls += 1;
            s.waker = Some(cx.waker().clone());
            Poll::Pending
        })
        .await
    }

    fn can_pass_unix_fd(&self) -> bool {
        self.0.lock().unwrap().can_fd
    }

    async fn peer_credentials(&mut self) -> io::Result<ConnectionCredentials> {
        let uid = self.0.lock().unwrap().uid;
        let c = ConnectionCredentials::default();
        Ok(match uid {
            Some(u) => c.set_unix_user_id(u),
            None => c,
        })
    }
}

#[async_trait::async_trait]
impl WriteHalf for ScriptWrite {
    async fn sendmsg(&mut self, buffer: &[u8], fds: &[BorrowedFd<'_>]) -> io::Result<usize> {
        let mut s = self.0.lock().unwrap();
        s.written.extend_from_slice(buffer);
        s.written_fds += fds.len();
        let ph = s.phase;
        s.log.push(json!({"ev": "Sendmsg", "phase": ph, "len": buffer.len(), "nfds": fds.len()}));
        Ok(buffer.len())
    }

    async fn close(&mut self) -> io::Result<()> {
        Ok(())
    }

    fn can_pass_unix_fd(&self) -> bool {
        self.0.lock().unwrap().can_fd
    }

    async fn peer_credentials(&mut self) -> io::Result<ConnectionCredentials> {
        let uid = self.0.lock().unwrap().uid;
        let c = ConnectionCredentials::default();
        Ok(match uid {
            Some(u) => c.set_unix_user_id(u),
            None => c,
        })
    }
}
