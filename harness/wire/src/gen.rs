//! Seeded random generators over the abstract model.
#![allow(dead_code)]
use crate::model::*;
use serde_json::{json, Value as J};

pub const BASIC: &[&str] = &["y", "b", "n", "q", "i", "u", "x", "t", "d", "s", "o", "g", "h"];

pub struct GenCfg {
    pub max_depth: u32,
    pub max_len: u64,
    pub fds: bool,
    pub maybe: bool,
}

pub fn rand_type(r: &mut Rng, depth: u32, c: &GenCfg) -> J {
    let leaf = depth >= c.max_depth || r.chance(2, 5);
    if leaf {
        loop {
            let kk = *r.pick(BASIC);
            if kk == "h" && !c.fds {
                continue;
            }
            return json!({ "k": kk });
        }
    }
    match r.below(if c.maybe { 6 } else { 5 }) {
        0 => json!({"k":"v"}),
        1 => json!({"k":"a","e":rand_type(r, depth + 1, c)}),
        2 => {
            // dict: basic key (no fd / float keys: ordering of NaN keys is a C08 matter)
            let key = loop {
                let kk = *r.pick(BASIC);
                if kk != "h" && kk != "d" {
                    break kk;
                }
            };
            json!({"k":"a","e":{"k":"e","key":{"k":key},"val":rand_type(r, depth + 1, c)}})
        }
        3 | 4 => {
            let n = 1 + r.below(4);
            let f: Vec<J> = (0..n).map(|_| rand_type(r, depth + 1, c)).collect();
            json!({"k":"r","f":f})
        }
        _ => json!({"k":"m","e":rand_type(r, depth + 1, c)}),
    }
}

fn rand_fixed(r: &mut Rng, n: usize) -> Vec<u8> {
    match r.below(6) {
        0 => vec![0; n],
        1 => vec![0xff; n],
        2 => {
            let mut v = vec![0; n];
            v[n - 1] = 1;
            v
        }
        3 => {
            let mut v = vec![0xff; n];
            v[0] = 0x7f;
            v
        }
        4 => {
            let mut v = vec![0; n];
            v[0] = 0x80;
            v
        }
        _ => (0..n).map(|_| r.next() as u8).collect(),
    }
}

const CHARS: &[&str] = &["a", "Z", "0", " ", "é", "€", "𝄞", "/", "_", "\u{7f}", "\u{1}"];

pub fn rand_string(r: &mut Rng, max: u64) -> String {
    let n = if r.chance(1, 40) { 200 + r.below(200) } else { r.below(max + 1) };
    (0..n).map(|_| *r.pick(CHARS)).collect()
}

pub fn rand_path(r: &mut Rng) -> String {
    let n = r.below(4);
    if n == 0 {
        return "/".into();
    }
    let mut s = String::new();
    for _ in 0..n {
        s.push('/');
        let m = 1 + r.below(4);
        for _ in 0..m {
            s.push(*r.pick(&['a', 'B', '0', '_', 'z', '9']));
        }
    }
    s
}

pub fn rand_value(r: &mut Rng, t: &J, c: &GenCfg, depth: u32) -> J {
    match k(t) {
        "y" => json!({"b":rand_fixed(r,1)}),
        "b" => json!({"b":[0,0,0,r.below(2)]}),
        "n" | "q" => json!({"b":rand_fixed(r,2)}),
        "i" | "u" => json!({"b":rand_fixed(r,4)}),
        "x" | "t" => json!({"b":rand_fixed(r,8)}),
        "d" => {
            let specials: [u64; 7] = [
                0,
                0x8000_0000_0000_0000,
                0x7ff0_0000_0000_0000,
                0xfff0_0000_0000_0000,
                0x7ff8_0000_0000_0001,
                0x7ff0_0000_0000_0001,
                0x3ff0_0000_0000_0000,
            ];
            let bits = if r.chance(1, 2) { *r.pick(&specials) } else { r.next() };
            json!({"b":jbytes(&bits.to_be_bytes())})
        }
        "s" => json!({"s":jbytes(rand_string(r, c.max_len).as_bytes())}),
        "o" => json!({"s":jbytes(rand_path(r).as_bytes())}),
        "g" => {
            let n = r.below(3);
            let sc = GenCfg { max_depth: 2, max_len: 2, fds: true, maybe: false };
            let s: String = (0..n).map(|_| sig_string(&rand_type(r, 0, &sc))).collect();
            json!({"s":jbytes(s.as_bytes())})
        }
        "h" => json!({"h":0}),
        "v" => {
            let sub = GenCfg { max_depth: c.max_depth, max_len: c.max_len, fds: c.fds, maybe: c.maybe };
            let it = rand_type(r, depth + 1, &sub);
            let iv = rand_value(r, &it, c, depth + 1);
            json!({"t":it,"v":iv})
        }
        "a" => {
            let et = &t["e"];
            let n = if depth == 0 && k(et) == "y" && r.chance(1, 20) { 300 + r.below(100) } else { r.below(c.max_len + 1) };
            let items: Vec<J> = (0..n).map(|_| rand_value(r, et, c, depth + 1)).collect();
            json!({"a":items})
        }
        "e" => {
            let kv = rand_value(r, &t["key"], c, depth + 1);
            let vv = rand_value(r, &t["val"], c, depth + 1);
            json!({"r":[kv,vv]})
        }
        "r" => {
            let items: Vec<J> = t["f"].as_array().unwrap().iter().map(|ft| rand_value(r, ft, c, depth + 1)).collect();
            json!({"r":items})
        }
        "m" => {
            if r.chance(1, 3) {
                json!({"m":[]})
            } else {
                json!({"m":[rand_value(r, &t["e"], c, depth + 1)]})
            }
        }
        other => panic!("rand_value: kind {other}"),
    }
}
