//! C07: container nesting limits.  Each case is a nesting (always a variant at the top) with the
//! specification's reference encodings; we encode the built value and decode the reference bytes,
//! in both formats, and report outcomes.
use crate::model::*;
use serde_json::{json, Value as J};
use std::io::{BufRead, Write};
use zvariant::serialized::{Context, Data, Format};
use zvariant::{Endian, Value};

fn err_kind(e: &zvariant::Error) -> &'static str {
    match e {
        zvariant::Error::MaxDepthExceeded(_) => "depth",
        _ => "other",
    }
}

fn one(case: &J, fmt: &str, format: Format) -> J {
    let c = Context::new(format, Endian::Little, 0);
    // encode the value built through the public API
    let mut pool = FdPool::new();
    let enc = match build_value(&case["T"], &case["v"], &mut pool) {
        Err(e) => json!({"outcome":"unbuildable","msg":e.0}),
        Ok(val) => {
            let r = guarded(std::panic::AssertUnwindSafe(|| {
                let sz = zvariant::serialized_size(c, &Inner(&val)).map(|s| s.size());
                let by = zvariant::to_bytes(c, &Inner(&val)).map(|d| d.bytes().to_vec());
                (sz, by)
            }));
            match r {
                Err(p) => json!({"outcome":"panic","msg":p}),
                Ok((Ok(sz), Ok(by))) => json!({"outcome":"ok","size":sz,"same_as_spec": jbytes(&by) == case[fmt]}),
                Ok((sz, by)) => {
                    let k1 = sz.as_ref().err().map(err_kind);
                    let k2 = by.as_ref().err().map(err_kind);
                    json!({"outcome":"err","size_err":k1,"bytes_err":k2,
                           "both_err": sz.is_err() && by.is_err()})
                }
            }
        }
    };
    // decode the reference encoding
    let bytes = bytes_of(&case[fmt]);
    let want = case["v"].clone();
    let dec = guarded(move || {
        let data = Data::new(bytes, c);
        let r: zvariant::Result<(Value<'_>, usize)> = data.deserialize();
        match r {
            Ok((v, n)) => {
                let mut z = 0;
                let (tt, av) = abstract_of(&v, &mut z, None);
                json!({"outcome":"ok","consumed":n,"value_same": json!({"t":tt,"v":av}) == want})
            }
            Err(e) => json!({"outcome":"err","kind":err_kind(&e)}),
        }
    });
    let dec = match dec {
        Ok(j) => j,
        Err(p) => json!({"outcome":"panic","msg":p}),
    };
    json!({"enc":enc,"dec":dec,"len":case[fmt].as_array().map(|a| a.len())})
}

pub fn cmd_obs_depth(args: &[String]) {
    let inp = std::io::BufReader::new(std::fs::File::open(&args[0]).expect("open cases"));
    let mut w = std::io::BufWriter::new(std::fs::File::create(&args[1]).expect("create out"));
    for line in inp.lines() {
        let line = line.unwrap();
        if line.trim().is_empty() {
            continue;
        }
        let mut de = serde_json::Deserializer::from_str(&line);
        de.disable_recursion_limit();
        let case: J = serde::Deserialize::deserialize(&mut de).expect("case json");
        let mut o = json!({"ev":"Depth","id":case["id"],"stack":case["stack"]});
        o["dbus"] = one(&case, "dbus", Format::DBus);
        #[cfg(feature = "gvariant")]
        {
            o["gv"] = one(&case, "gv", Format::GVariant);
        }
        writeln!(w, "{}", serde_json::to_string(&o).unwrap()).unwrap();
    }
}
