//! C04: decoding untrusted bytes never crashes.  Corpus lines: {fmt, T, bytes, pos, le, nfds}.
//! Every case is mutated `reps` times (seeded) and decoded (a) as a dynamic Value for its signature,
//! (b) as a list of typed Rust targets; successful decodes are re-encoded.  Each call is guarded by
//! catch_unwind and measured by the counting allocator.  The driver (`fuzz-drive`) runs the work in
//! child processes so that aborts / stack overflows are observed as outcome "abort" of the case that
//! was running.
use crate::codec::mutate;
use crate::model::*;
use serde_json::{json, Value as J};
use std::alloc::{GlobalAlloc, Layout, System};
use std::collections::HashMap;
use std::io::{BufRead, Write};
use std::sync::atomic::{AtomicUsize, Ordering};
use zvariant::serialized::{Context, Data, Format};
use zvariant::{Endian, OwnedValue, Structure, Value};

pub struct Counting;
static CUR: AtomicUsize = AtomicUsize::new(0);
static PEAK: AtomicUsize = AtomicUsize::new(0);
unsafe impl GlobalAlloc for Counting {
    unsafe fn alloc(&self, l: Layout) -> *mut u8 {
        let p = System.alloc(l);
        if !p.is_null() {
            let c = CUR.fetch_add(l.size(), Ordering::Relaxed) + l.size();
            PEAK.fetch_max(c, Ordering::Relaxed);
        }
        p
    }
    unsafe fn dealloc(&self, p: *mut u8, l: Layout) {
        CUR.fetch_sub(l.size(), Ordering::Relaxed);
        System.dealloc(p, l)
    }
    unsafe fn realloc(&self, p: *mut u8, l: Layout, n: usize) -> *mut u8 {
        let q = System.realloc(p, l, n);
        if !q.is_null() {
            if n >= l.size() {
                let c = CUR.fetch_add(n - l.size(), Ordering::Relaxed) + (n - l.size());
                PEAK.fetch_max(c, Ordering::Relaxed);
            } else {
                CUR.fetch_sub(l.size() - n, Ordering::Relaxed);
            }
        }
        q
    }
}

fn measure<T>(f: impl FnOnce() -> T) -> (T, usize) {
    let base = CUR.load(Ordering::Relaxed);
    PEAK.store(base, Ordering::Relaxed);
    let r = f();
    let peak = PEAK.load(Ordering::Relaxed);
    (r, peak.saturating_sub(base))
}

fn fctx(fmt: &str, le: bool, pos: usize) -> Option<Context> {
    let e = if le { Endian::Little } else { Endian::Big };
    match fmt {
        "dbus" => Some(Context::new(Format::DBus, e, pos)),
        #[cfg(feature = "gvariant")]
        "gvariant" => Some(Context::new(Format::GVariant, e, pos)),
        _ => None,
    }
}

macro_rules! typed {
    ($out:ident, $data:ident, $c:ident, $($name:literal => $t:ty),* $(,)?) => {
        $(
            {
                let (r, peak) = measure(|| guarded(std::panic::AssertUnwindSafe(|| {
                    match $data.deserialize::<$t>() {
                        Ok((v, _)) => {
                            // re-encoding a decoded value must not panic either
                            let _ = zvariant::to_bytes($c, &v);
                            "ok"
                        }
                        Err(_) => "err",
                    }
                })));
                $out.push(json!({"target":$name,"outcome": match r { Ok(s) => s, Err(_) => "panic" },
                                 "msg": r.err().unwrap_or_default(), "alloc_peak": peak}));
            }
        )*
    };
}

/// All decode attempts on one byte string.
pub fn attempt(fmt: &str, sig: &str, bytes: &[u8], pos: usize, le: bool, nfds: usize) -> Vec<J> {
    attempt_sel(fmt, sig, bytes, pos, le, nfds, false)
}

/// `dynamic_only`: only the two dynamic targets (the value for the signature), not the typed ones.
pub fn attempt_sel(fmt: &str, sig: &str, bytes: &[u8], pos: usize, le: bool, nfds: usize, dynamic_only: bool) -> Vec<J> {
    let mut out = vec![];
    let c = match fctx(fmt, le, pos) {
        Some(c) => c,
        None => return out,
    };
    // (a) dynamic: a Value for the given signature, via a variant wrapper and via Structure
    let fds: Vec<std::os::fd::OwnedFd> = (0..nfds)
        .map(|_| std::os::fd::OwnedFd::from(std::fs::File::open("/dev/null").unwrap()))
        .collect();
    let data = Data::new_fds(bytes.to_vec(), c, fds);
    {
        let (r, peak) = measure(|| {
            guarded(std::panic::AssertUnwindSafe(|| {
                match data.deserialize_for_dynamic_signature::<_, Structure<'_>>(sig) {
                    Ok((v, _)) => {
                        let _ = zvariant::to_bytes(c, &v);
                        let _ = v.to_string();
                        "ok"
                    }
                    Err(_) => "err",
                }
            }))
        });
        out.push(json!({"target":"Structure@sig","outcome": match r { Ok(s) => s, Err(_) => "panic" }, "msg": r.err().unwrap_or_default(), "alloc_peak": peak}));
    }
    {
        let (r, peak) = measure(|| {
            guarded(std::panic::AssertUnwindSafe(|| match data.deserialize::<Value<'_>>() {
                Ok((v, _)) => {
                    let _ = zvariant::to_bytes(c, &v);
                    let _ = v.to_string();
                    let _ = v.try_to_owned().map(|o: OwnedValue| format!("{:?}", o));
                    "ok"
                }
                Err(_) => "err",
            }))
        });
        out.push(json!({"target":"Value","outcome": match r { Ok(s) => s, Err(_) => "panic" }, "msg": r.err().unwrap_or_default(), "alloc_peak": peak}));
    }
    if dynamic_only {
        return out;
    }
    // (b) typed targets
    typed!(out, data, c,
        "u8" => u8, "bool" => bool, "i16" => i16, "u32" => u32, "i64" => i64, "f64" => f64,
        "String" => String, "&str" => &str, "ObjectPath" => zvariant::ObjectPath<'_>, "Signature" => zvariant::Signature,
        "Vec<u8>" => Vec<u8>, "Vec<String>" => Vec<String>, "Vec<Vec<u16>>" => Vec<Vec<u16>>,
        "(u32,String)" => (u32, String), "(u8,(u64,String),Vec<i16>)" => (u8, (u64, String), Vec<i16>),
        "Vec<(u8,u32)>" => Vec<(u8, u32)>, "HashMap<String,Value>" => HashMap<String, Value<'_>>,
        "HashMap<u8,Vec<String>>" => HashMap<u8, Vec<String>>, "Vec<Value>" => Vec<Value<'_>>,
        "OwnedValue" => OwnedValue, "(Value,Value)" => (Value<'_>, Value<'_>),
        "Optional<u32>" => zvariant::Optional<u32>, "Vec<Fd>" => Vec<zvariant::OwnedFd>,
    );
    #[cfg(any(feature = "option-as-array", feature = "gvariant"))]
    {
        #[cfg(feature = "option-as-array")]
        let okfmt = true;
        #[cfg(not(feature = "option-as-array"))]
        let okfmt = fmt == "gvariant";
        if okfmt {
            typed!(out, data, c, "Option<u32>" => Option<u32>, "Vec<Option<String>>" => Vec<Option<String>>,
                   "(Option<Vec<u8>>,u8)" => (Option<Vec<u8>>, u8));
        }
    }
    out
}

/// fuzz-work <corpus> <out> <seed> <reps> <start> <progress-file>: process corpus lines from index
/// `start`; before each line its index is written to the progress file.
pub fn cmd_fuzz_work(args: &[String]) {
    let corpus: Vec<String> = std::io::BufReader::new(std::fs::File::open(&args[0]).unwrap())
        .lines()
        .map(|l| l.unwrap())
        .filter(|l| !l.trim().is_empty())
        .collect();
    let seed: u64 = args[2].parse().unwrap();
    let reps: u64 = args[3].parse().unwrap();
    let start: usize = args[4].parse().unwrap();
    let mut w = std::fs::OpenOptions::new().create(true).append(true).open(&args[1]).unwrap();
    for (i, line) in corpus.iter().enumerate().skip(start) {
        std::fs::write(&args[5], format!("{i}")).unwrap();
        let case: J = serde_json::from_str(line).expect("corpus json");
        let fmt = case["fmt"].as_str().unwrap_or("dbus");
        let sig = match case.get("sig").and_then(|s| s.as_str()) {
            Some(s) => s.to_string(),
            None => sig_string(&case["T"]),
        };
        let base = bytes_of(&case["bytes"]);
        let pos = case["pos"].as_u64().unwrap_or(0) as usize;
        let le = case["le"].as_bool().unwrap_or(true);
        let nfds = case["nfds"].as_u64().unwrap_or(0) as usize;
        let mut r = Rng(seed ^ (i as u64).wrapping_mul(0x9E3779B97F4A7C15));
        let mut worst: HashMap<String, (String, usize, usize)> = HashMap::new(); // target -> (outcome, peak, len)
        let mut calls = 0u64;
        let mut bad: Vec<J> = vec![];
        for rep in 0..=reps {
            let mut b = base.clone();
            if rep > 0 {
                mutate(&mut r, &mut b);
            }
            let p = if rep % 3 == 2 { r.below(16) as usize } else { pos };
            for o in attempt(fmt, &sig, &b, p, le, nfds) {
                calls += 1;
                let oc = o["outcome"].as_str().unwrap().to_string();
                let peak = o["alloc_peak"].as_u64().unwrap() as usize;
                let t = o["target"].as_str().unwrap().to_string();
                let bound = 2097152 + 256 * (b.len() + sig.len());
                if oc == "panic" || peak > bound {
                    if bad.len() < 3 {
                        bad.push(json!({"target":t,"outcome":oc,"msg":o["msg"],"alloc_peak":peak,"bytes":jbytes(&b),"pos":p,"le":le,"sig":sig,"siglen":sig.len(),"fmt":fmt,"nfds":nfds}));
                    }
                }
                let e = worst.entry(t).or_insert((oc.clone(), peak, b.len()));
                if peak > e.1 {
                    *e = (oc, peak, b.len());
                }
            }
        }
        // GVariant framing sweep: a container's layout is given by offsets stored in the data itself, so for short
        // container encodings every byte is set to every small value (every possible offset into the data and just
        // past it), decoded as the value of the entry's own signature
        let container = sig.starts_with('a') || sig.starts_with('(') || sig.starts_with('m') || sig == "v";
        if fmt == "gvariant" && container && base.len() >= 2 && base.len() <= 24 {
            for p in 0..base.len() {
                for v in 0..=(base.len() as u8 + 1) {
                    if base[p] == v {
                        continue;
                    }
                    let mut b = base.clone();
                    b[p] = v;
                    for o in attempt_sel(fmt, &sig, &b, pos, le, nfds, true) {
                        calls += 1;
                        let oc = o["outcome"].as_str().unwrap().to_string();
                        let peak = o["alloc_peak"].as_u64().unwrap() as usize;
                        let bound = 2097152 + 256 * (b.len() + sig.len());
                        if (oc == "panic" || peak > bound) && bad.len() < 3 {
                            bad.push(json!({"target":o["target"],"outcome":oc,"msg":o["msg"],"alloc_peak":peak,"bytes":jbytes(&b),"pos":pos,"le":le,"sig":sig,"siglen":sig.len(),"fmt":fmt,"nfds":nfds}));
                        }
                    }
                }
            }
        }
        let maxpeak = worst.values().map(|x| x.1).max().unwrap_or(0);
        let o = json!({"ev":"Fuzz","id":i,"fmt":fmt,"sig":sig,"len":base.len(),"calls":calls,"bad":bad,
                       "max_alloc_peak":maxpeak,"outcome": if bad.is_empty() {"ok"} else {"bad"}});
        writeln!(w, "{}", serde_json::to_string(&o).unwrap()).unwrap();
    }
    std::fs::write(&args[5], "done").unwrap();
}

/// fuzz-one <json case>: replay a single byte string (all targets), print results.
pub fn cmd_fuzz_one(args: &[String]) {
    let case: J = serde_json::from_str(&std::fs::read_to_string(&args[0]).unwrap()).unwrap();
    let r = attempt(
        case["fmt"].as_str().unwrap_or("dbus"),
        case["sig"].as_str().unwrap(),
        &bytes_of(&case["bytes"]),
        case["pos"].as_u64().unwrap_or(0) as usize,
        case["le"].as_bool().unwrap_or(true),
        case["nfds"].as_u64().unwrap_or(0) as usize,
    );
    println!("{}", serde_json::to_string(&r).unwrap());
}
