//! Observation of zvariant's encoder / decoder on abstract cases (C01, C02, C03, C05).
use crate::gen::*;
use crate::model::*;
use serde_json::{json, Value as J};
use std::io::{BufRead, Write};
use std::os::fd::{AsRawFd, OwnedFd};
use zvariant::serialized::{Context, Data, Format};
use zvariant::{Endian, Value};

pub fn ctx(fmt: &str, le: bool, pos: usize) -> Context {
    let e = if le { Endian::Little } else { Endian::Big };
    match fmt {
        "dbus" => Context::new(Format::DBus, e, pos),
        #[cfg(feature = "gvariant")]
        "gvariant" => Context::new(Format::GVariant, e, pos),
        other => panic!("format {other} not available in this build"),
    }
}

fn null_fds(n: usize) -> Vec<OwnedFd> {
    (0..n)
        .map(|_| OwnedFd::from(std::fs::File::open("/dev/null").unwrap()))
        .collect()
}

/// Decode a bare value of type `t` whose encoding `bytes` starts at message offset `pos`.
/// D-Bus: a variant header (signature) is prepended and the context position shifted so that the
/// payload still sits at `pos` (mod 8).  Returns (outcome, abstract value, consumed).
pub fn decode_dynamic(fmt: &str, t: &J, bytes: &[u8], pos: usize, le: bool, nfds: usize) -> J {
    let sig = sig_string(t);
    let fds = null_fds(nfds);
    let raws: Vec<i32> = fds.iter().map(|f| f.as_raw_fd()).collect();
    if fmt == "dbus" && k(t) == "v" {
        // A variant is decoded directly (no wrapper), so that nesting depths are exactly those of the case.
        let c = ctx(fmt, le, pos);
        let buf = bytes.to_vec();
        let r = guarded(move || {
            let data = Data::new_fds(buf, c, fds);
            let r: zvariant::Result<(Value<'_>, usize)> = data.deserialize();
            match r {
                Ok((v, n)) => {
                    let mut z = 0;
                    let (tt, av) = abstract_of(&v, &mut z, Some(&FdIndex(&raws)));
                    Ok((json!({"t":tt,"v":av}), n))
                }
                Err(e) => Err(e.to_string()),
            }
        });
        return match r {
            Err(p) => json!({"outcome":"panic","msg":p}),
            Ok(Err(e)) => json!({"outcome":"err","msg":e}),
            Ok(Ok((av, n))) => json!({"outcome":"ok","T":{"k":"v"},"v":av,"consumed":n}),
        };
    }
    let (buf, p0, hdr) = if fmt == "dbus" {
        let mut h = vec![sig.len() as u8];
        h.extend_from_slice(sig.as_bytes());
        h.push(0);
        let hl = h.len();
        let p0 = ((pos + 8 * hl) - hl) % 8 + 8;
        h.extend_from_slice(bytes);
        (h, p0, hl)
    } else {
        // GVariant: a serialised value does not depend on its position once aligned.  Strip the
        // leading alignment padding (checked against the specification separately, as part of
        // the encoded bytes) and decode `value 0 signature` as a variant at position 0.
        #[cfg(feature = "gvariant")]
        let al = parse_sig(t).alignment(Format::GVariant);
        #[cfg(not(feature = "gvariant"))]
        let al = 1usize;
        let kpad = ((al - pos % al) % al).min(bytes.len());
        let mut b = bytes[kpad..].to_vec();
        b.push(0);
        b.extend_from_slice(sig.as_bytes());
        (b, 0usize, kpad)
    };
    let sig_len = sig.len();
    let c = ctx(fmt, le, p0);
    let r = guarded(move || {
        let data = Data::new_fds(buf, c, fds);
        let r: zvariant::Result<(Value<'_>, usize)> = data.deserialize();
        match r {
            Ok((v, n)) => {
                let mut z = 0;
                let (tt, av) = abstract_of(&v, &mut z, Some(&FdIndex(&raws)));
                Ok((tt, av, n))
            }
            Err(e) => Err(e.to_string()),
        }
    });
    match r {
        Err(p) => json!({"outcome":"panic","msg":p}),
        Ok(Err(e)) => json!({"outcome":"err","msg":e}),
        Ok(Ok((tt, av, n))) => {
            let consumed = if fmt == "dbus" { n as i64 - hdr as i64 } else { n as i64 - (sig_len as i64 + 1) + hdr as i64 };
            json!({"outcome":"ok","T":tt,"v":av,"consumed":consumed})
        }
    }
}

/// Encode one abstract case and decode it back.
pub fn observe_enc(case: &J) -> J {
    let fmt = case["fmt"].as_str().unwrap_or("dbus").to_string();
    let t = &case["T"];
    let pos = case["pos"].as_u64().unwrap() as usize;
    let le = case["le"].as_bool().unwrap();
    let mut pool = FdPool::new();
    let val = match build_value(t, &case["v"], &mut pool) {
        Ok(v) => v,
        Err(e) => return json!({"ev":"Enc","id":case["id"],"outcome":"unbuildable","msg":e.0}),
    };
    let mut z = 0;
    let (tt, av) = abstract_of(&val, &mut z, None);
    let c = ctx(&fmt, le, pos);
    let enc = guarded(std::panic::AssertUnwindSafe(|| {
        let size = zvariant::serialized_size(c, &Inner(&val)).map(|s| (s.size(), s.num_fds()));
        let data = zvariant::to_bytes(c, &Inner(&val)).map(|d| (d.bytes().to_vec(), d.fds().len()));
        (size, data)
    }));
    let mut out = json!({"ev":"Enc","id":case["id"],"fmt":fmt,"T":tt,"v":av,"pos":pos,"le":le,
                         "type_same": tt == *t});
    match enc {
        Err(p) => {
            out["outcome"] = json!("panic");
            out["msg"] = json!(p);
        }
        Ok((size, data)) => {
            match (&size, &data) {
                (Ok((sz, snf)), Ok((bytes, nf))) => {
                    out["outcome"] = json!("ok");
                    out["bytes"] = jbytes(bytes);
                    out["size"] = json!(sz);
                    out["size_nfds"] = json!(snf);
                    out["nfds"] = json!(nf);
                    out["dec"] = decode_dynamic(&fmt, &tt, bytes, pos, le, *nf);
                }
                _ => {
                    out["outcome"] = json!("err");
                    out["msg"] = json!(format!(
                        "size={:?} data={:?}",
                        size.as_ref().map(|_| ()).map_err(|e| e.to_string()),
                        data.as_ref().map(|_| ()).map_err(|e| e.to_string())
                    ));
                }
            }
        }
    }
    out
}

/// Decode raw bytes against a type.
pub fn observe_dec(case: &J) -> J {
    let fmt = case["fmt"].as_str().unwrap_or("dbus").to_string();
    let t = &case["T"];
    let pos = case["pos"].as_u64().unwrap() as usize;
    let le = case["le"].as_bool().unwrap();
    let nfds = case["nfds"].as_u64().unwrap_or(0) as usize;
    let bytes = bytes_of(&case["bytes"]);
    let dec = decode_dynamic(&fmt, t, &bytes, pos, le, nfds);
    json!({"ev":"Dec","id":case["id"],"fmt":fmt,"T":t,"bytes":case["bytes"],"pos":pos,"le":le,"nfds":nfds,"dec":dec})
}

fn for_each_line(path: &str, out: &str, f: impl Fn(&J) -> J) {
    let inp = std::io::BufReader::new(std::fs::File::open(path).expect("open cases"));
    let mut w = std::io::BufWriter::new(std::fs::File::create(out).expect("create out"));
    for line in inp.lines() {
        let line = line.unwrap();
        if line.trim().is_empty() {
            continue;
        }
        let mut de = serde_json::Deserializer::from_str(&line);
        de.disable_recursion_limit();
        let case: J = serde::Deserialize::deserialize(&mut de).expect("case json");
        let o = f(&case);
        writeln!(w, "{}", serde_json::to_string(&o).unwrap()).unwrap();
    }
}

pub fn cmd_obs_enc(args: &[String]) {
    for_each_line(&args[0], &args[1], observe_enc);
}

pub fn cmd_obs_dec(args: &[String]) {
    for_each_line(&args[0], &args[1], observe_dec);
}

/// rand-enc <n> <seed> <fmt> <out>: random well-typed values, encoded and decoded back.
pub fn cmd_rand_enc(args: &[String]) {
    let n: u64 = args[0].parse().unwrap();
    let seed: u64 = args[1].parse().unwrap();
    let fmt = args[2].clone();
    let mut w = std::io::BufWriter::new(std::fs::File::create(&args[3]).unwrap());
    let mut r = Rng(seed.wrapping_mul(0x1234567).wrapping_add(17));
    let cfg = GenCfg { max_depth: 4, max_len: 4, fds: fmt == "dbus", maybe: fmt == "gvariant" };
    for i in 0..n {
        let t = rand_type(&mut r, 0, &cfg);
        let v = rand_value(&mut r, &t, &cfg, 0);
        let case = json!({"id":i,"fmt":fmt,"T":t,"v":v,"pos":r.below(16),"le":r.chance(1,2)});
        let o = observe_enc(&case);
        writeln!(w, "{}", serde_json::to_string(&o).unwrap()).unwrap();
    }
}

/// Mutate an encoding: byte flips, small-value overwrites, truncation, extension, splice.
pub fn mutate(r: &mut Rng, b: &mut Vec<u8>) {
    let k = 1 + r.below(3);
    for _ in 0..k {
        if b.is_empty() {
            b.push(r.next() as u8);
            continue;
        }
        let i = r.below(b.len() as u64) as usize;
        match r.below(8) {
            0 => b[i] ^= 1 << r.below(8),
            1 => b[i] = 0,
            2 => b[i] = 0xff,
            3 => b[i] = b[i].wrapping_add(1),
            4 => b[i] = b[i].wrapping_sub(1),
            5 => b.truncate(i),
            6 => {
                let n = 1 + r.below(4);
                for _ in 0..n {
                    b.push(if r.chance(1, 2) { 0 } else { r.next() as u8 });
                }
            }
            _ => {
                b.insert(i, r.next() as u8);
            }
        }
    }
}

/// rand-dec <n> <seed> <fmt> <out>: random valid encodings, mutated, decoded against their type.
pub fn cmd_rand_dec(args: &[String]) {
    let n: u64 = args[0].parse().unwrap();
    let seed: u64 = args[1].parse().unwrap();
    let fmt = args[2].clone();
    let mut w = std::io::BufWriter::new(std::fs::File::create(&args[3]).unwrap());
    let mut r = Rng(seed.wrapping_mul(0x7654321).wrapping_add(99));
    let cfg = GenCfg { max_depth: 3, max_len: 3, fds: fmt == "dbus", maybe: fmt == "gvariant" };
    let mut i = 0;
    while i < n {
        let t = rand_type(&mut r, 0, &cfg);
        let v = rand_value(&mut r, &t, &cfg, 0);
        let pos = r.below(16) as usize;
        let le = r.chance(1, 2);
        let mut pool = FdPool::new();
        let val = match build_value(&t, &v, &mut pool) {
            Ok(v) => v,
            Err(_) => continue,
        };
        let c = ctx(&fmt, le, pos);
        let (mut bytes, nfds) = match zvariant::to_bytes(c, &Inner(&val)) {
            Ok(d) => (d.bytes().to_vec(), d.fds().len()),
            Err(_) => continue,
        };
        if bytes.len() > 600 {
            continue;
        }
        if !r.chance(1, 10) {
            mutate(&mut r, &mut bytes);
        }
        // sometimes decode against a different (random) type
        let tt = if r.chance(1, 10) { rand_type(&mut r, 0, &cfg) } else { t.clone() };
        let nf = if r.chance(1, 8) { r.below(3) as usize } else { nfds };
        let case = json!({"id":i,"fmt":fmt,"T":tt,"bytes":jbytes(&bytes),"pos":pos,"le":le,"nfds":nf});
        let o = observe_dec(&case);
        writeln!(w, "{}", serde_json::to_string(&o).unwrap()).unwrap();
        i += 1;
    }
}
