//! Conformance harness for the wire-level properties (zvariant, zbus_names).
//! Usage: wire <command> [args...]; see each module.
mod codec;
mod depth;
mod fuzz;
mod gen;
mod model;

#[global_allocator]
static ALLOC: fuzz::Counting = fuzz::Counting;

fn main() {
    // panics inside the code under test are data: keep them quiet, they are reported per case
    if std::env::var("VERIF_PANIC_VERBOSE").is_err() { std::panic::set_hook(Box::new(|_| {})); }
    let args: Vec<String> = std::env::args().collect();
    let rest = &args[2..];
    match args[1].as_str() {
        "obs-enc" => codec::cmd_obs_enc(rest),
        "obs-dec" => codec::cmd_obs_dec(rest),
        "rand-enc" => codec::cmd_rand_enc(rest),
        "rand-dec" => codec::cmd_rand_dec(rest),
        "obs-depth" => depth::cmd_obs_depth(rest),
        "fuzz-work" => fuzz::cmd_fuzz_work(rest),
        "fuzz-one" => fuzz::cmd_fuzz_one(rest),
        other => {
            eprintln!("unknown command {other}");
            std::process::exit(2);
        }
    }
}
