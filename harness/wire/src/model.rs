//! Abstract data model shared with the TLA+ specification (DESIGN.md §3).
//!
//! Types:  {"k":"y"} .. {"k":"a","e":T} {"k":"r","f":[T..]} {"k":"e","key":T,"val":T} {"k":"m","e":T}
//! Values: {"b":[bytes BE]} {"h":idx} {"s":[bytes]} {"a":[V..]} {"r":[V..]} {"t":T,"v":V} {"m":[]|[V]}
#![allow(dead_code)]
use serde_json::{json, Value as J};
use std::os::fd::{AsRawFd, OwnedFd};
use zvariant::{Array, Dict, ObjectPath, Signature, Str, StructureBuilder, Value};

pub fn k(t: &J) -> &str {
    t["k"].as_str().expect("type without k")
}

pub fn bytes_of(j: &J) -> Vec<u8> {
    j.as_array()
        .expect("byte array")
        .iter()
        .map(|x| x.as_u64().expect("byte") as u8)
        .collect()
}

pub fn jbytes(b: &[u8]) -> J {
    J::Array(b.iter().map(|x| J::from(*x)).collect())
}

/// Signature string of an abstract type.
pub fn sig_string(t: &J) -> String {
    match k(t) {
        "a" => format!("a{}", sig_string(&t["e"])),
        "e" => format!("{{{}{}}}", sig_string(&t["key"]), sig_string(&t["val"])),
        "r" => {
            let mut s = String::from("(");
            for f in t["f"].as_array().unwrap() {
                s.push_str(&sig_string(f));
            }
            s.push(')');
            s
        }
        "m" => format!("m{}", sig_string(&t["e"])),
        c => c.to_string(),
    }
}

pub fn parse_sig(t: &J) -> Signature {
    Signature::try_from(sig_string(t).as_str()).expect("abstract type must have a valid signature")
}

/// Like `parse_sig`, for types whose signature may legitimately be refused (beyond the nesting limits).
pub fn try_parse_sig(t: &J) -> Result<Signature, BuildError> {
    Signature::try_from(sig_string(t).as_str()).map_err(|e| BuildError(format!("signature refused: {e}")))
}

/// Abstract type of a parsed zvariant signature (single complete type).
pub fn type_of_sig(s: &Signature) -> J {
    match s {
        Signature::Unit => json!({"k":"unit"}),
        Signature::U8 => json!({"k":"y"}),
        Signature::Bool => json!({"k":"b"}),
        Signature::I16 => json!({"k":"n"}),
        Signature::U16 => json!({"k":"q"}),
        Signature::I32 => json!({"k":"i"}),
        Signature::U32 => json!({"k":"u"}),
        Signature::I64 => json!({"k":"x"}),
        Signature::U64 => json!({"k":"t"}),
        Signature::F64 => json!({"k":"d"}),
        Signature::Str => json!({"k":"s"}),
        Signature::Signature => json!({"k":"g"}),
        Signature::ObjectPath => json!({"k":"o"}),
        Signature::Variant => json!({"k":"v"}),
        #[cfg(unix)]
        Signature::Fd => json!({"k":"h"}),
        Signature::Array(c) => json!({"k":"a","e":type_of_sig(c.signature())}),
        Signature::Dict { key, value } => {
            json!({"k":"a","e":{"k":"e","key":type_of_sig(key.signature()),"val":type_of_sig(value.signature())}})
        }
        Signature::Structure(fields) => {
            let f: Vec<J> = fields.iter().map(type_of_sig).collect();
            json!({"k":"r","f":f})
        }
        #[cfg(feature = "gvariant")]
        Signature::Maybe(c) => json!({"k":"m","e":type_of_sig(c.signature())}),
    }
}

/// Pool of real file descriptors used to build `Value::Fd`s; index = position of creation.
pub struct FdPool {
    pub fds: Vec<OwnedFd>,
}

impl FdPool {
    pub fn new() -> Self {
        FdPool { fds: vec![] }
    }
    pub fn fresh(&mut self) -> OwnedFd {
        let f = std::fs::File::open("/dev/null").expect("open /dev/null");
        let o: OwnedFd = f.into();
        o
    }
}

#[derive(Debug)]
pub struct BuildError(pub String);

/// Build a dynamic zvariant value from abstract type + value.
pub fn build_value(t: &J, v: &J, pool: &mut FdPool) -> Result<Value<'static>, BuildError> {
    let e = |m: String| BuildError(m);
    Ok(match k(t) {
        "y" => Value::U8(bytes_of(&v["b"])[0]),
        "b" => {
            let b = bytes_of(&v["b"]);
            Value::Bool(b[3] != 0)
        }
        "n" => Value::I16(i16::from_be_bytes(bytes_of(&v["b"]).try_into().unwrap())),
        "q" => Value::U16(u16::from_be_bytes(bytes_of(&v["b"]).try_into().unwrap())),
        "i" => Value::I32(i32::from_be_bytes(bytes_of(&v["b"]).try_into().unwrap())),
        "u" => Value::U32(u32::from_be_bytes(bytes_of(&v["b"]).try_into().unwrap())),
        "x" => Value::I64(i64::from_be_bytes(bytes_of(&v["b"]).try_into().unwrap())),
        "t" => Value::U64(u64::from_be_bytes(bytes_of(&v["b"]).try_into().unwrap())),
        "d" => Value::F64(f64::from_bits(u64::from_be_bytes(
            bytes_of(&v["b"]).try_into().unwrap(),
        ))),
        "s" => Value::Str(Str::from(
            String::from_utf8(bytes_of(&v["s"])).map_err(|x| e(x.to_string()))?,
        )),
        "o" => Value::ObjectPath(
            ObjectPath::try_from(String::from_utf8(bytes_of(&v["s"])).map_err(|x| e(x.to_string()))?)
                .map_err(|x| e(x.to_string()))?,
        ),
        "g" => Value::Signature(
            Signature::try_from(
                String::from_utf8(bytes_of(&v["s"]))
                    .map_err(|x| e(x.to_string()))?
                    .as_str(),
            )
            .map_err(|x| e(x.to_string()))?,
        ),
        "h" => {
            let fd = pool.fresh();
            Value::Fd(zvariant::Fd::Owned(fd))
        }
        "v" => Value::Value(Box::new(build_value(&v["t"], &v["v"], pool)?)),
        "a" => {
            let et = &t["e"];
            if k(et) == "e" {
                let ks = try_parse_sig(&et["key"])?;
                let vs = try_parse_sig(&et["val"])?;
                let mut d = Dict::new(&ks, &vs);
                for ent in v["a"].as_array().unwrap() {
                    let kv = build_value(&et["key"], &ent["r"][0], pool)?;
                    let vv = build_value(&et["val"], &ent["r"][1], pool)?;
                    d.append(kv, vv).map_err(|x| e(x.to_string()))?;
                }
                Value::Dict(d)
            } else {
                let es = try_parse_sig(et)?;
                let mut a = Array::new(&es);
                for el in v["a"].as_array().unwrap() {
                    a.append(build_value(et, el, pool)?)
                        .map_err(|x| e(x.to_string()))?;
                }
                Value::Array(a)
            }
        }
        "r" => {
            let mut b = StructureBuilder::new();
            for (ft, fv) in t["f"]
                .as_array()
                .unwrap()
                .iter()
                .zip(v["r"].as_array().unwrap())
            {
                b = b.append_field(build_value(ft, fv, pool)?);
            }
            Value::Structure(b.build().map_err(|x| e(x.to_string()))?)
        }
        #[cfg(feature = "gvariant")]
        "m" => {
            let inner = v["m"].as_array().unwrap();
            if inner.is_empty() {
                Value::Maybe(zvariant::Maybe::nothing(&try_parse_sig(&t["e"])?))
            } else {
                Value::Maybe(zvariant::Maybe::just(build_value(&t["e"], &inner[0], pool)?))
            }
        }
        other => return Err(e(format!("unsupported kind {other}"))),
    })
}

/// Maps raw fds back to indexes (for decoded values).
pub struct FdIndex<'a>(pub &'a [i32]);

/// Abstract (type, value) of a dynamic value.  `fd_next` numbers fds in traversal (= serialization)
/// order when `fdx` is None; otherwise raw fds are looked up in `fdx`.
pub fn abstract_of(val: &Value<'_>, fd_next: &mut u32, fdx: Option<&FdIndex<'_>>) -> (J, J) {
    let t = type_of_sig(val.value_signature());
    let v = abstract_v(val, fd_next, fdx);
    (t, v)
}

pub fn abstract_v(val: &Value<'_>, fd_next: &mut u32, fdx: Option<&FdIndex<'_>>) -> J {
    match val {
        Value::U8(x) => json!({"b":[*x]}),
        Value::Bool(x) => json!({"b":[0,0,0,*x as u8]}),
        Value::I16(x) => json!({"b":jbytes(&x.to_be_bytes())}),
        Value::U16(x) => json!({"b":jbytes(&x.to_be_bytes())}),
        Value::I32(x) => json!({"b":jbytes(&x.to_be_bytes())}),
        Value::U32(x) => json!({"b":jbytes(&x.to_be_bytes())}),
        Value::I64(x) => json!({"b":jbytes(&x.to_be_bytes())}),
        Value::U64(x) => json!({"b":jbytes(&x.to_be_bytes())}),
        Value::F64(x) => json!({"b":jbytes(&x.to_bits().to_be_bytes())}),
        Value::Str(s) => json!({"s":jbytes(s.as_bytes())}),
        Value::ObjectPath(s) => json!({"s":jbytes(s.as_bytes())}),
        Value::Signature(s) => json!({"s":jbytes(s.to_string().as_bytes())}),
        Value::Value(inner) => {
            let (t, v) = abstract_of(inner, fd_next, fdx);
            json!({"t":t,"v":v})
        }
        Value::Array(a) => {
            let items: Vec<J> = a.inner().iter().map(|x| abstract_v(x, fd_next, fdx)).collect();
            json!({"a":items})
        }
        Value::Dict(d) => {
            let items: Vec<J> = d
                .iter()
                .map(|(kk, vv)| {
                    let a = abstract_v(kk, fd_next, fdx);
                    let b = abstract_v(vv, fd_next, fdx);
                    json!({"r":[a,b]})
                })
                .collect();
            json!({"a":items})
        }
        Value::Structure(s) => {
            let items: Vec<J> = s.fields().iter().map(|x| abstract_v(x, fd_next, fdx)).collect();
            json!({"r":items})
        }
        #[cfg(feature = "gvariant")]
        Value::Maybe(m) => match m.inner() {
            None => json!({"m":[]}),
            Some(x) => json!({"m":[abstract_v(x, fd_next, fdx)]}),
        },
        Value::Fd(fd) => match fdx {
            None => {
                let i = *fd_next;
                *fd_next += 1;
                json!({"h":i})
            }
            Some(ix) => {
                let raw = fd.as_raw_fd();
                let i = ix.0.iter().position(|r| *r == raw).map(|p| p as i64).unwrap_or(-1);
                json!({"h":i})
            }
        },
    }
}

/// Serialize a dynamic value *without* the variant wrapper (i.e. as its own type).
pub struct Inner<'a, 'v>(pub &'a Value<'v>);

impl serde::Serialize for Inner<'_, '_> {
    fn serialize<S: serde::Serializer>(&self, s: S) -> Result<S::Ok, S::Error> {
        match self.0 {
            Value::U8(v) => v.serialize(s),
            Value::Bool(v) => v.serialize(s),
            Value::I16(v) => v.serialize(s),
            Value::U16(v) => v.serialize(s),
            Value::I32(v) => v.serialize(s),
            Value::U32(v) => v.serialize(s),
            Value::I64(v) => v.serialize(s),
            Value::U64(v) => v.serialize(s),
            Value::F64(v) => v.serialize(s),
            Value::Str(v) => v.serialize(s),
            Value::Signature(v) => v.serialize(s),
            Value::ObjectPath(v) => v.serialize(s),
            Value::Value(v) => v.serialize(s),
            Value::Array(v) => v.serialize(s),
            Value::Dict(v) => v.serialize(s),
            Value::Structure(v) => v.serialize(s),
            #[cfg(feature = "gvariant")]
            Value::Maybe(v) => v.serialize(s),
            Value::Fd(v) => v.serialize(s),
        }
    }
}

impl zvariant::DynamicType for Inner<'_, '_> {
    fn signature(&self) -> Signature {
        self.0.value_signature().clone()
    }
}

/// Small deterministic PRNG (splitmix64) so runs are reproducible from VERIF_SEED.
pub struct Rng(pub u64);
impl Rng {
    pub fn next(&mut self) -> u64 {
        self.0 = self.0.wrapping_add(0x9E3779B97F4A7C15);
        let mut z = self.0;
        z = (z ^ (z >> 30)).wrapping_mul(0xBF58476D1CE4E5B9);
        z = (z ^ (z >> 27)).wrapping_mul(0x94D049BB133111EB);
        z ^ (z >> 31)
    }
    pub fn below(&mut self, n: u64) -> u64 {
        self.next() % n.max(1)
    }
    pub fn chance(&mut self, num: u64, den: u64) -> bool {
        self.below(den) < num
    }
    pub fn pick<'a, T>(&mut self, xs: &'a [T]) -> &'a T {
        &xs[self.below(xs.len() as u64) as usize]
    }
}

/// Outcome of running `f` under catch_unwind.
pub fn guarded<T>(f: impl FnOnce() -> T + std::panic::UnwindSafe) -> Result<T, String> {
    std::panic::catch_unwind(f).map_err(|e| {
        if let Some(s) = e.downcast_ref::<&str>() {
            s.to_string()
        } else if let Some(s) = e.downcast_ref::<String>() {
            s.clone()
        } else {
            "panic".to_string()
        }
    })
}
