//! Conformance harness for zbus_xml (C34): introspection documents through Node::from_reader /
//! Node::to_writer / TryFrom<&str>.  Abstract document model: see spec/XmlDoc.tla (strings are UTF-8 byte arrays).
//! Usage: xml xml-obs <cases.ndjson> <out.ndjson> | xml xml-rand <n> <seed> <out.ndjson>
mod doc;
mod util;

fn main() {
    std::panic::set_hook(Box::new(|_| {}));
    let args: Vec<String> = std::env::args().collect();
    if args.len() < 2 {
        eprintln!("usage: xml <command> [args...]");
        std::process::exit(2);
    }
    let rest = &args[2..];
    match args[1].as_str() {
        "xml-obs" => doc::cmd_xml_obs(rest),
        "xml-rand" => doc::cmd_xml_rand(rest),
        other => {
            eprintln!("unknown command {other}");
            std::process::exit(2);
        }
    }
}
