//! Abstract introspection document <-> XML text <-> zbus_xml::Node.
use crate::util::*;
use serde_json::{json, Value as J};
use zbus_xml::{Annotation, Arg, ArgDirection, Interface, Node, PropertyAccess};

// ------------------------------------------------------------------ abstract doc -> XML text
/// Attribute value escaping of the harness's own writer: the five predefined entities, and
/// character references for TAB / LF / CR (a conforming reader turns literal ones into spaces).
fn esc(v: &str) -> String {
    let mut s = String::new();
    for c in v.chars() {
        match c {
            '&' => s.push_str("&amp;"),
            '<' => s.push_str("&lt;"),
            '>' => s.push_str("&gt;"),
            '"' => s.push_str("&quot;"),
            '\'' => s.push_str("&apos;"),
            '\n' => s.push_str("&#10;"),
            '\r' => s.push_str("&#13;"),
            '\t' => s.push_str("&#9;"),
            c => s.push(c),
        }
    }
    s
}

fn attr(out: &mut String, name: &str, j: &J, f: &str) {
    if has(j, f) {
        let v = if j[f].is_string() { j[f].as_str().unwrap().to_string() } else { str_of(&j[f]) };
        out.push_str(&format!(" {name}=\"{}\"", esc(&v)));
    }
}

fn list<'a>(j: &'a J, f: &str) -> impl Iterator<Item = &'a J> {
    j.get(f).and_then(|x| x.as_array()).map(|x| x.iter()).into_iter().flatten()
}

fn write_annotations(out: &mut String, j: &J, ind: &str) {
    for a in list(j, "annotations") {
        out.push_str(ind);
        out.push_str("<annotation");
        attr(out, "name", a, "name");
        attr(out, "value", a, "value");
        out.push_str("/>\n");
    }
}

fn write_args(out: &mut String, j: &J, ind: &str) {
    for a in list(j, "args") {
        out.push_str(ind);
        out.push_str("<arg");
        attr(out, "name", a, "name");
        attr(out, "type", a, "type");
        attr(out, "direction", a, "direction");
        if list(a, "annotations").next().is_none() {
            out.push_str("/>\n");
        } else {
            out.push_str(">\n");
            write_annotations(out, a, &format!("{ind}  "));
            out.push_str(ind);
            out.push_str("</arg>\n");
        }
    }
}

fn write_node(out: &mut String, n: &J, ind: &str) {
    out.push_str(ind);
    out.push_str("<node");
    attr(out, "name", n, "name");
    out.push_str(">\n");
    let i1 = format!("{ind}  ");
    let i2 = format!("{ind}    ");
    let i3 = format!("{ind}      ");
    for i in list(n, "interfaces") {
        out.push_str(&i1);
        out.push_str("<interface");
        attr(out, "name", i, "name");
        out.push_str(">\n");
        for (tag, f) in [("method", "methods"), ("signal", "signals")] {
            if tag == "signal" {
                // properties sit between methods and signals in zbus_xml's own output
                for p in list(i, "properties") {
                    out.push_str(&i2);
                    out.push_str("<property");
                    attr(out, "name", p, "name");
                    attr(out, "type", p, "type");
                    attr(out, "access", p, "access");
                    out.push_str(">\n");
                    write_annotations(out, p, &i3);
                    out.push_str(&i2);
                    out.push_str("</property>\n");
                }
            }
            for m in list(i, f) {
                out.push_str(&i2);
                out.push_str(&format!("<{tag}"));
                attr(out, "name", m, "name");
                out.push_str(">\n");
                write_args(out, m, &i3);
                write_annotations(out, m, &i3);
                out.push_str(&i2);
                out.push_str(&format!("</{tag}>\n"));
            }
        }
        write_annotations(out, i, &i2);
        out.push_str(&i1);
        out.push_str("</interface>\n");
    }
    for c in list(n, "nodes") {
        write_node(out, c, &i1);
    }
    out.push_str(ind);
    out.push_str("</node>\n");
}

pub fn write_xml(doc: &J) -> String {
    let mut s = String::from(
        "<!DOCTYPE node PUBLIC \"-//freedesktop//DTD D-BUS Object Introspection 1.0//EN\"\n \"http://www.freedesktop.org/standards/dbus/1.0/introspect.dtd\">\n",
    );
    write_node(&mut s, doc, "");
    s
}

// ------------------------------------------------------------------ Node -> abstract doc (public getters only)
fn b(s: &str) -> J {
    jbytes(s.as_bytes())
}

fn abs_annotations(a: &[Annotation]) -> J {
    J::Array(a.iter().map(|x| json!({"name": b(x.name()), "value": b(x.value())})).collect())
}

fn abs_args(a: &[Arg]) -> J {
    J::Array(
        a.iter()
            .map(|x| {
                let mut o = json!({"type": b(&x.ty().to_string()), "annotations": abs_annotations(x.annotations())});
                if let Some(n) = x.name() {
                    o["name"] = b(n);
                }
                if let Some(d) = x.direction() {
                    o["direction"] = J::from(match d {
                        ArgDirection::In => "in",
                        ArgDirection::Out => "out",
                    });
                }
                o
            })
            .collect(),
    )
}

fn abs_interface(i: &Interface<'_>) -> J {
    json!({
        "name": b(i.name().as_str()),
        "methods": i.methods().iter().map(|m| json!({"name": b(m.name().as_str()), "args": abs_args(m.args()), "annotations": abs_annotations(m.annotations())})).collect::<Vec<_>>(),
        "signals": i.signals().iter().map(|m| json!({"name": b(m.name().as_str()), "args": abs_args(m.args()), "annotations": abs_annotations(m.annotations())})).collect::<Vec<_>>(),
        "properties": i.properties().iter().map(|p| json!({"name": b(p.name().as_str()), "type": b(&p.ty().to_string()),
            "access": match p.access() { PropertyAccess::Read => "read", PropertyAccess::Write => "write", PropertyAccess::ReadWrite => "readwrite" },
            "annotations": abs_annotations(p.annotations())})).collect::<Vec<_>>(),
        "annotations": abs_annotations(i.annotations()),
    })
}

pub fn abs_node(n: &Node<'_>) -> J {
    let mut o = json!({
        "interfaces": n.interfaces().iter().map(abs_interface).collect::<Vec<_>>(),
        "nodes": n.nodes().iter().map(abs_node).collect::<Vec<_>>(),
    });
    if let Some(name) = n.name() {
        o["name"] = b(name);
    }
    o
}

// ------------------------------------------------------------------ observation
fn observe(doc: &J) -> J {
    let xml0 = write_xml(doc);
    let mut o = json!({"xml0": xml0});
    let n1 = match guarded(|| Node::from_reader(xml0.as_bytes())) {
        Ok(Ok(n)) => n,
        Ok(Err(e)) => {
            o["first"] = json!({"ok": false, "err": e.to_string()});
            return o;
        }
        Err(p) => {
            o["first"] = json!({"ok": false, "panic": p});
            return o;
        }
    };
    o["first"] = json!({"ok": true, "doc": abs_node(&n1)});
    // write
    let mut buf: Vec<u8> = Vec::new();
    match guarded(|| n1.to_writer(&mut buf)) {
        Ok(Ok(())) => (),
        Ok(Err(e)) => {
            o["write"] = json!({"ok": false, "err": e.to_string()});
            return o;
        }
        Err(p) => {
            o["write"] = json!({"ok": false, "panic": p});
            return o;
        }
    }
    let xml1 = match String::from_utf8(buf) {
        Ok(s) => s,
        Err(e) => {
            o["write"] = json!({"ok": false, "err": format!("written document is not UTF-8: {e}")});
            return o;
        }
    };
    o["write"] = json!({"ok": true});
    o["xml1"] = J::from(xml1.clone());
    // read back, both entry points
    o["second"] = match guarded(|| Node::from_reader(xml1.as_bytes())) {
        Ok(Ok(n2)) => json!({"ok": true, "doc": abs_node(&n2), "eq": n2 == n1}),
        Ok(Err(e)) => json!({"ok": false, "err": e.to_string()}),
        Err(p) => json!({"ok": false, "panic": p}),
    };
    o["third"] = match guarded(|| Node::try_from(xml1.as_str())) {
        Ok(Ok(n3)) => json!({"ok": true, "doc": abs_node(&n3), "eq": n3 == n1}),
        Ok(Err(e)) => json!({"ok": false, "err": e.to_string()}),
        Err(p) => json!({"ok": false, "panic": p}),
    };
    o
}

/// xml-obs <cases.ndjson> <out.ndjson>
pub fn cmd_xml_obs(args: &[String]) {
    let mut out = Out::create(&args[1]);
    for c in read_cases(&args[0]) {
        let o = observe(&c["doc"]);
        let mut line = json!({"ev": "Xml", "id": c["id"], "doc": c["doc"]});
        for (k, v) in o.as_object().unwrap() {
            line[k] = v.clone();
        }
        out.line(&line);
    }
}

// ------------------------------------------------------------------ random documents
const IFACES: [&str; 5] = ["org.freedesktop.DBus.Properties", "a.b", "com.example.Foo_Bar2", "a.b.c.d.e", "_x._y"];
const MEMBERS: [&str; 5] = ["Get", "Frobate", "a", "_9", "Changed_2"];
const SIGS: [&str; 14] = ["s", "u", "as", "a{sv}", "(ii)", "a(oa{sv})", "v", "ay", "(s(ib)ad)", "a{s(uu)}",
                          "(s)", "((su))", "(a{sv})", "(v)"]; // structures with a single member keep their parentheses
const ANN_NAMES: [&str; 4] = ["org.freedesktop.DBus.Deprecated", "org.freedesktop.DBus.Property.EmitsChangedSignal", "org.gtk.GDBus.DocString", "a.b"];
const TEXTS: [&str; 16] = ["true", "", "a&b", "<tag>", "x>y", "say \"hi\"", "it's", "line1\nline2", "caf\u{e9} \u{20ac}", " lead", "trail ", "a  b", "&amp;", "&#10;", "tab\there", "]]>"];
const NODE_NAMES: [&str; 5] = ["child", "a_b", "/org/example", "x/y", "n0"];
const ARG_NAMES: [&str; 5] = ["x", "arg_0", "value", "caf\u{e9}", "a b"];

fn rand_text(g: &mut Rng) -> String {
    if g.chance(2, 3) {
        return g.pick_str(&TEXTS).to_string();
    }
    let n = g.below(6);
    let mut s = String::new();
    for _ in 0..n {
        s.push(*g.pick(&['a', '&', '<', '>', '"', '\'', '\n', ' ', '\u{e9}', ';', '#', '\u{1F600}', '\r', '\t', ']']));
    }
    s
}

fn rand_annotations(g: &mut Rng, max: u64) -> J {
    J::Array((0..g.below(max + 1)).map(|_| json!({"name": b(g.pick_str(&ANN_NAMES)), "value": b(&rand_text(g))})).collect())
}

fn rand_args(g: &mut Rng, signal: bool, complete: bool) -> J {
    J::Array(
        (0..g.below(4))
            .map(|_| {
                let mut a = json!({"type": b(g.pick_str(&SIGS)), "annotations": rand_annotations(g, 1)});
                if complete || g.chance(2, 3) {
                    a["name"] = b(g.pick_str(&ARG_NAMES));
                }
                if complete || g.chance(1, 2) {
                    a["direction"] = J::from(if signal || g.chance(1, 2) { "out" } else { "in" });
                }
                a
            })
            .collect(),
    )
}

/// `complete`: every optional attribute (node name, arg name, arg direction) is present.
fn rand_node(g: &mut Rng, depth: u64, root: bool, complete: bool) -> J {
    let ifaces: Vec<J> = (0..g.below(3))
        .map(|_| {
            json!({
                "name": b(g.pick_str(&IFACES)),
                "methods": (0..g.below(3)).map(|_| json!({"name": b(g.pick_str(&MEMBERS)), "args": rand_args(g, false, complete), "annotations": rand_annotations(g, 2)})).collect::<Vec<_>>(),
                "signals": (0..g.below(3)).map(|_| json!({"name": b(g.pick_str(&MEMBERS)), "args": rand_args(g, true, complete), "annotations": rand_annotations(g, 1)})).collect::<Vec<_>>(),
                "properties": (0..g.below(3)).map(|_| json!({"name": b(g.pick_str(&MEMBERS)), "type": b(g.pick_str(&SIGS)),
                    "access": g.pick_str(&["read", "write", "readwrite"]), "annotations": rand_annotations(g, 2)})).collect::<Vec<_>>(),
                "annotations": rand_annotations(g, 2),
            })
        })
        .collect();
    let kids: Vec<J> = if depth == 0 { vec![] } else { (0..g.below(3)).map(|_| rand_node(g, depth - 1, false, complete)).collect() };
    let mut n = json!({"interfaces": ifaces, "nodes": kids});
    if complete || if root { g.chance(1, 2) } else { g.chance(7, 8) } {
        n["name"] = b(g.pick_str(&NODE_NAMES));
    }
    n
}

/// xml-rand <n> <seed> <out.ndjson>
pub fn cmd_xml_rand(args: &[String]) {
    let n: u64 = args[0].parse().unwrap();
    let mut g = Rng(args[1].parse::<u64>().unwrap() ^ 0xC34);
    let mut out = Out::create(&args[2]);
    for _ in 0..n {
        let complete = g.chance(3, 5);
        let depth = if g.chance(1, 4) { 2 } else { g.below(2) };
        let doc = rand_node(&mut g, depth, true, complete);
        let o = observe(&doc);
        let mut line = json!({"ev": "Xml", "doc": doc});
        for (k, v) in o.as_object().unwrap() {
            line[k] = v.clone();
        }
        out.line_id(line);
    }
}
