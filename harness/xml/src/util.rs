//! Small shared helpers: byte <-> JSON, deterministic PRNG, panic capture, ndjson I/O.
#![allow(dead_code)]
use serde_json::Value as J;
use std::io::{BufRead, BufWriter, Write};

pub fn bytes_of(j: &J) -> Vec<u8> {
    j.as_array()
        .unwrap_or_else(|| panic!("byte array expected, got {j}"))
        .iter()
        .map(|x| x.as_u64().expect("byte") as u8)
        .collect()
}

pub fn jbytes(b: &[u8]) -> J {
    J::Array(b.iter().map(|x| J::from(*x)).collect())
}

/// Bytes of a case field that must be valid UTF-8 to go through a `&str` API.
pub fn str_of(j: &J) -> String {
    String::from_utf8(bytes_of(j)).expect("case strings are UTF-8")
}

pub fn has(j: &J, f: &str) -> bool {
    j.get(f).map(|x| !x.is_null()).unwrap_or(false)
}

/// splitmix64, so runs are reproducible from VERIF_SEED.
pub struct Rng(pub u64);
impl Rng {
    pub fn next(&mut self) -> u64 {
        self.0 = self.0.wrapping_add(0x9E3779B97F4A7C15);
        let mut z = self.0;
        z = (z ^ (z >> 30)).wrapping_mul(0xBF58476D1CE4E5B9);
        z = (z ^ (z >> 27)).wrapping_mul(0x94D049BB133111EB);
        z ^ (z >> 31)
    }
    pub fn below(&mut self, n: u64) -> u64 {
        self.next() % n.max(1)
    }
    pub fn chance(&mut self, num: u64, den: u64) -> bool {
        self.below(den) < num
    }
    pub fn pick_str(&mut self, xs: &[&'static str]) -> &'static str {
        xs[self.below(xs.len() as u64) as usize]
    }
    pub fn pick<'a, T>(&mut self, xs: &'a [T]) -> &'a T {
        &xs[self.below(xs.len() as u64) as usize]
    }
}

/// Outcome of running `f` under catch_unwind (a panic inside the code under test is data).
pub fn guarded<T>(f: impl FnOnce() -> T) -> Result<T, String> {
    std::panic::catch_unwind(std::panic::AssertUnwindSafe(f)).map_err(|e| {
        if let Some(s) = e.downcast_ref::<&str>() {
            s.to_string()
        } else if let Some(s) = e.downcast_ref::<String>() {
            s.clone()
        } else {
            "panic".to_string()
        }
    })
}

pub fn read_cases(path: &str) -> Vec<J> {
    let f = std::fs::File::open(path).unwrap_or_else(|e| panic!("open {path}: {e}"));
    std::io::BufReader::new(f)
        .lines()
        .map(|l| l.unwrap())
        .filter(|l| !l.trim().is_empty())
        .map(|l| serde_json::from_str(&l).expect("case line is JSON"))
        .collect()
}

pub struct Out(BufWriter<std::fs::File>, pub u64);
impl Out {
    pub fn create(path: &str) -> Self {
        Out(
            BufWriter::new(std::fs::File::create(path).unwrap_or_else(|e| panic!("create {path}: {e}"))),
            0,
        )
    }
    pub fn line(&mut self, j: &J) {
        serde_json::to_writer(&mut self.0, j).unwrap();
        self.0.write_all(b"\n").unwrap();
        self.1 += 1;
    }
    /// Add the running id and write.
    pub fn line_id(&mut self, mut j: J) {
        j["id"] = J::from(self.1);
        self.line(&j);
    }
}
impl Drop for Out {
    fn drop(&mut self) {
        self.0.flush().unwrap();
    }
}
