//! A fake message bus on the other end of a scripted, in-process transport.
//!
//! `ScriptRead` / `ScriptWrite` implement zbus' public `ReadHalf` / `WriteHalf` traits over a shared
//! buffer pair.  `FakeBus` is the peer: it answers the SASL client lines and `Hello`, frames and parses
//! every message zbus writes, answers `AddMatch` / `RemoveMatch` itself (recording them) and hands every
//! other method call to the scenario, which decides what is *released* to the read half and when.
//! Nothing here runs concurrently: everything happens on the thread that polls.
#![allow(dead_code)]
use std::{
    collections::VecDeque,
    io,
    sync::{Arc, Mutex},
    task::{Poll, Waker},
};

use zbus::{
    connection::socket::{ReadHalf, Split, WriteHalf},
    message::{Message, Type},
};
use zvariant::{serialized::Context, serialized::Data, Endian};

pub const DRIVER: &str = "org.freedesktop.DBus";
pub const DRIVER_PATH: &str = "/org/freedesktop/DBus";
pub const ME: &str = ":1.42";

#[derive(Default, Debug)]
pub struct Shared {
    /// bytes released to the client and not yet read by it
    inbound: VecDeque<u8>,
    read_waker: Option<Waker>,
    /// bytes written by the client and not yet consumed by the fake bus
    outbound: Vec<u8>,
    pub closed: bool,
    pub reads: u64,
}

#[derive(Debug)]
pub struct ScriptRead(Arc<Mutex<Shared>>);
#[derive(Debug)]
pub struct ScriptWrite(Arc<Mutex<Shared>>);

#[async_trait::async_trait]
impl ReadHalf for ScriptRead {
    async fn recvmsg(&mut self, buf: &mut [u8]) -> io::Result<(usize, Vec<std::os::fd::OwnedFd>)> {
        let sh = self.0.clone();
        std::future::poll_fn(move |cx| {
            let mut s = sh.lock().unwrap();
            if s.inbound.is_empty() {
                if s.closed {
                    return Poll::Ready(Ok((0, vec![])));
                }
                s.read_waker = Some(cx.waker().clone());
                return Poll::Pending;
            }
            let n = buf.len().min(s.inbound.len());
            for b in buf.iter_mut().take(n) {
                *b = s.inbound.pop_front().unwrap();
            }
            s.reads += 1;
            Poll::Ready(Ok((n, vec![])))
        })
        .await
    }
}

#[async_trait::async_trait]
impl WriteHalf for ScriptWrite {
    async fn sendmsg(&mut self, buffer: &[u8], _fds: &[std::os::fd::BorrowedFd<'_>]) -> io::Result<usize> {
        let mut s = self.0.lock().unwrap();
        if s.closed {
            return Err(io::Error::new(io::ErrorKind::BrokenPipe, "closed"));
        }
        s.outbound.extend_from_slice(buffer);
        Ok(buffer.len())
    }

    async fn close(&mut self) -> io::Result<()> {
        self.0.lock().unwrap().closed = true;
        Ok(())
    }
}

/// A method call the client made that the scenario has to answer.
#[derive(Debug, Clone)]
pub struct Call {
    pub msg: Message,
    pub member: String,
    pub interface: String,
    pub destination: String,
    pub path: String,
}

pub struct FakeBus {
    sh: Arc<Mutex<Shared>>,
    sasl_done: bool,
    /// method calls seen and not yet taken by the scenario
    pub calls: VecDeque<Call>,
    /// AddMatch / RemoveMatch rule strings in the order seen ('+rule' / '-rule')
    pub matches: Vec<String>,
    /// number of complete messages the client wrote
    pub seen: u64,
}

pub fn new_pair() -> (Split<Box<dyn ReadHalf>, Box<dyn WriteHalf>>, FakeBus) {
    let sh = Arc::new(Mutex::new(Shared::default()));
    let split = Split::new(
        Box::new(ScriptRead(sh.clone())) as Box<dyn ReadHalf>,
        Box::new(ScriptWrite(sh.clone())) as Box<dyn WriteHalf>,
    );
    (
        split,
        FakeBus { sh, sasl_done: false, calls: VecDeque::new(), matches: vec![], seen: 0 },
    )
}

fn frame_len(b: &[u8]) -> Option<usize> {
    if b.len() < 16 {
        return None;
    }
    let rd = |o: usize| -> usize {
        let a = [b[o], b[o + 1], b[o + 2], b[o + 3]];
        (if b[0] == b'l' { u32::from_le_bytes(a) } else { u32::from_be_bytes(a) }) as usize
    };
    let body = rd(4);
    let fields = rd(12);
    let hdr = 16 + fields;
    let hdr = (hdr + 7) / 8 * 8;
    Some(hdr + body)
}

impl FakeBus {
    /// Make bytes readable by the client (wakes the socket reader task if it is waiting).
    pub fn release_bytes(&self, bytes: &[u8]) {
        let mut s = self.sh.lock().unwrap();
        s.inbound.extend(bytes.iter().copied());
        if let Some(w) = s.read_waker.take() {
            drop(s);
            w.wake();
        }
    }

    pub fn release(&self, msg: &Message) {
        self.release_bytes(msg.data().bytes());
    }

    /// Everything released has been read by the client.
    pub fn drained(&self) -> bool {
        self.sh.lock().unwrap().inbound.is_empty()
    }

    /// Consume what the client wrote; answers SASL, Hello, AddMatch and RemoveMatch immediately.
    /// Returns true when something was consumed.
    pub fn pump(&mut self) -> bool {
        let mut progressed = false;
        loop {
            let mut s = self.sh.lock().unwrap();
            if !self.sasl_done {
                let pos = s.outbound.windows(2).position(|w| w == b"\r\n");
                let Some(pos) = pos else { break };
                let mut line: Vec<u8> = s.outbound.drain(..pos + 2).collect();
                drop(s);
                progressed = true;
                line.truncate(line.len() - 2);
                // the very first byte of the stream is the NUL credentials byte
                let line = String::from_utf8_lossy(&line).trim_start_matches('\0').to_string();
                if line.starts_with("AUTH") {
                    self.release_bytes(b"OK 0123456789abcdef0123456789abcdef\r\n");
                } else if line.starts_with("NEGOTIATE_UNIX_FD") {
                    self.release_bytes(b"ERROR\r\n");
                } else if line.starts_with("BEGIN") {
                    self.sasl_done = true;
                } else {
                    self.release_bytes(b"ERROR\r\n");
                }
                continue;
            }
            let Some(n) = frame_len(&s.outbound) else { break };
            if s.outbound.len() < n {
                break;
            }
            let bytes: Vec<u8> = s.outbound.drain(..n).collect();
            drop(s);
            progressed = true;
            self.seen += 1;
            let endian = if bytes[0] == b'l' { Endian::Little } else { Endian::Big };
            let data = Data::new(bytes, Context::new_dbus(endian, 0));
            // SAFETY: the bytes were produced by zbus itself.
            let msg = unsafe { Message::from_bytes(data) }.expect("HARNESS: client wrote an unparsable message");
            self.on_message(msg);
        }
        progressed
    }

    fn on_message(&mut self, msg: Message) {
        if msg.message_type() != Type::MethodCall {
            return;
        }
        let hdr = msg.header();
        let member = hdr.member().map(|m| m.to_string()).unwrap_or_default();
        let interface = hdr.interface().map(|m| m.to_string()).unwrap_or_default();
        let destination = hdr.destination().map(|m| m.to_string()).unwrap_or_default();
        let path = hdr.path().map(|m| m.to_string()).unwrap_or_default();
        if destination == DRIVER {
            match member.as_str() {
                "Hello" => {
                    let r = Message::method_return(&hdr)
                        .unwrap()
                        .sender(DRIVER)
                        .unwrap()
                        .destination(ME)
                        .unwrap()
                        .build(&ME)
                        .unwrap();
                    self.release(&r);
                    return;
                }
                "AddMatch" | "RemoveMatch" => {
                    let rule: String = msg.body().deserialize().unwrap_or_default();
                    self.matches.push(format!("{}{}", if member == "AddMatch" { '+' } else { '-' }, rule));
                    let r = Message::method_return(&hdr).unwrap().sender(DRIVER).unwrap().build(&()).unwrap();
                    self.release(&r);
                    return;
                }
                _ => {}
            }
        }
        drop(hdr);
        self.calls.push_back(Call { msg, member, interface, destination, path });
    }

    /// Take the oldest unanswered call with this member name, if the client has made one.
    pub fn take_call(&mut self, member: &str) -> Option<Call> {
        let i = self.calls.iter().position(|c| c.member == member)?;
        self.calls.remove(i)
    }

    /// Build (not release) a method return for `call` from `sender`.
    pub fn reply<B: serde::Serialize + zvariant::DynamicType>(call: &Call, sender: &str, body: &B) -> Message {
        Message::method_return(&call.msg.header())
            .unwrap()
            .sender(sender)
            .unwrap()
            .build(body)
            .unwrap()
    }

    pub fn error(call: &Call, sender: &str, name: &str, text: &str) -> Message {
        Message::error(&call.msg.header(), name)
            .unwrap()
            .sender(sender)
            .unwrap()
            .build(&text)
            .unwrap()
    }

    /// Build a signal with an arbitrary sender; `dest` = Some(unicast destination).
    pub fn signal<B: serde::Serialize + zvariant::DynamicType>(
        sender: &str,
        dest: Option<&str>,
        path: &str,
        iface: &str,
        member: &str,
        body: &B,
    ) -> Message {
        let mut b = Message::signal(path, iface, member).unwrap().sender(sender).unwrap();
        if let Some(d) = dest {
            b = b.destination(d).unwrap();
        }
        b.build(body).unwrap()
    }
}
