//! Harness for C31 (property cache), C32 (owner tracking of signal streams), C36 (name bookkeeping):
//! replays TLC-generated histories against the real zbus client over a fake bus (see fakebus.rs) on one
//! thread, deterministically, and writes one observation line per case.  It only records.
mod c31;
mod c32;
mod c36;
mod fakebus;
mod sched;

use std::io::{BufRead, BufWriter, Write};

use serde_json::{json, Value as J};

fn run_file(f: fn(&J) -> J, cases: &str, out: &str) {
    let rd = std::io::BufReader::new(std::fs::File::open(cases).expect("open cases"));
    let mut w = BufWriter::new(std::fs::File::create(out).expect("create out"));
    // a panic inside the code under test is an observation, not a harness failure
    std::panic::set_hook(Box::new(|_| {}));
    for line in rd.lines() {
        let line = line.unwrap();
        if line.trim().is_empty() {
            continue;
        }
        let case: J = serde_json::from_str(&line).expect("case json");
        let r = std::panic::catch_unwind(std::panic::AssertUnwindSafe(|| f(&case)));
        let obs = match r {
            Ok(o) => o,
            Err(p) => {
                let msg = p
                    .downcast_ref::<String>()
                    .cloned()
                    .or_else(|| p.downcast_ref::<&str>().map(|s| s.to_string()))
                    .unwrap_or_default();
                if msg.contains("HARNESS:") {
                    // a failure of the harness itself is a tool failure, never an observation
                    eprintln!("harness failure on case {}: {}", case["id"], msg);
                    std::process::exit(3);
                }
                json!({"ev":"Panic","id":case["id"],"case":case,"msg":msg})
            }
        };
        writeln!(w, "{}", obs).unwrap();
    }
    w.flush().unwrap();
}

fn main() {
    let args: Vec<String> = std::env::args().collect();
    let a = |i: usize| args.get(i).map(|s| s.as_str()).unwrap_or("");
    match a(1) {
        "c31" => run_file(c31::run_case, a(2), a(3)),
        "c32" => run_file(c32::run_case, a(2), a(3)),
        "c36" => run_file(c36::run_case, a(2), a(3)),
        _ => {
            eprintln!("usage: proxy c31|c32|c36 <cases.ndjson> <obs.ndjson>");
            std::process::exit(2);
        }
    }
}
