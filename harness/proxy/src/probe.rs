//! Throw-away probe of the fake bus.
use crate::{
    fakebus::{self, FakeBus, DRIVER, DRIVER_PATH, ME},
    sched::{quiesce, Slot},
};
use futures_util::StreamExt;
use zbus::proxy::CacheProperties;

pub fn connect() -> (zbus::Connection, FakeBus) {
    let (split, mut bus) = fakebus::new_pair();
    let mut b = Slot::new(zbus::connection::Builder::socket(split).internal_executor(false).build());
    quiesce(&mut bus, None, &mut [&mut b], true);
    let conn = b.out.take().expect("build did not finish").expect("build failed");
    (conn, bus)
}

pub fn run() {
    let (conn, mut bus) = connect();
    eprintln!("connected unique={:?} is_bus={}", conn.unique_name(), conn.is_bus());
    let proxy: zbus::Proxy = {
        let mut s = Slot::new(
            zbus::proxy::Builder::new(&conn)
                .destination("com.example.Svc")
                .unwrap()
                .path("/obj")
                .unwrap()
                .interface("com.example.I")
                .unwrap()
                .cache_properties(CacheProperties::No)
                .build(),
        );
        quiesce(&mut bus, Some(&conn), &mut [&mut s], true);
        s.out.take().unwrap().unwrap()
    };
    let mut st = Slot::new(proxy.receive_signal("Sig"));
    quiesce(&mut bus, Some(&conn), &mut [&mut st], true);
    eprintln!("matches {:?} calls {:?}", bus.matches, bus.calls.iter().map(|c| c.member.clone()).collect::<Vec<_>>());
    let call = bus.take_call("GetNameOwner").unwrap();
    // reply A, then buffered NOC A -> none
    bus.release(&FakeBus::reply(&call, DRIVER, &":1.5"));
    bus.release(&FakeBus::signal(DRIVER, None, DRIVER_PATH, DRIVER, "NameOwnerChanged", &("com.example.Svc", ":1.5", "")));
    quiesce(&mut bus, Some(&conn), &mut [&mut st], true);
    eprintln!("stream done={} matches {:?}", st.done(), bus.matches);
    let mut stream = st.out.take().unwrap().unwrap();
    bus.release(&FakeBus::signal(":1.5", None, "/obj", "com.example.I", "Sig", &(1u32,)));
    // forged NOC from stranger, unicast
    bus.release(&FakeBus::signal(":1.66", Some(ME), DRIVER_PATH, DRIVER, "NameOwnerChanged", &("com.example.Svc", "", ":1.66")));
    bus.release(&FakeBus::signal(":1.66", None, "/obj", "com.example.I", "Sig", &(2u32,)));
    loop {
        let mut n = Slot::new(stream.next());
        quiesce(&mut bus, Some(&conn), &mut [&mut n], true);
        match n.out.take() {
            Some(Some(m)) => eprintln!("yielded {:?} from {:?}", m.body().deserialize::<(u32,)>(), m.header().sender().map(|s| s.to_string())),
            Some(None) => {
                eprintln!("stream ended");
                break;
            }
            None => {
                eprintln!("pending");
                break;
            }
        }
    }
}

/// probe: PropertyChanged::get refetch racing a newer PropertiesChanged
pub fn refetch() {
    use std::collections::HashMap;
    use zvariant::Value;
    let (conn, mut bus) = connect();
    let mut b = Slot::new(
        zbus::proxy::Builder::<zbus::Proxy<'static>>::new(&conn)
            .destination(":1.7").unwrap().path("/obj").unwrap().interface("com.example.I").unwrap()
            .cache_properties(CacheProperties::Yes).build());
    quiesce(&mut bus, Some(&conn), &mut [&mut b], true);
    let c = bus.take_call("GetAll").unwrap();
    let mut snap: HashMap<String, Value> = HashMap::new();
    snap.insert("P".into(), Value::U32(1));
    bus.release(&FakeBus::reply(&c, ":1.7", &snap));
    quiesce(&mut bus, Some(&conn), &mut [&mut b], true);
    let proxy = b.out.take().unwrap().unwrap();
    let mut s = Slot::new(proxy.receive_property_changed::<u32>("P"));
    quiesce(&mut bus, Some(&conn), &mut [&mut s], true);
    let mut stream = s.out.take().unwrap();
    let none: HashMap<String, Value> = HashMap::new();
    bus.release(&FakeBus::signal(":1.7", None, "/obj", "org.freedesktop.DBus.Properties", "PropertiesChanged", &("com.example.I", none, vec!["P"])));
    let mut n = Slot::new(stream.next());
    quiesce(&mut bus, Some(&conn), &mut [&mut n], true);
    let item = n.out.take().unwrap().unwrap();
    eprintln!("cached after inval: {:?}", proxy.cached_property::<u32>("P"));
    let mut g = Slot::new(item.get());
    quiesce(&mut bus, Some(&conn), &mut [&mut g], true);
    let c = bus.take_call("Get").unwrap();
    bus.release(&FakeBus::reply(&c, ":1.7", &Value::U32(901)));
    let mut ch: HashMap<String, Value> = HashMap::new();
    ch.insert("P".into(), Value::U32(55));
    bus.release(&FakeBus::signal(":1.7", None, "/obj", "org.freedesktop.DBus.Properties", "PropertiesChanged", &("com.example.I", ch, Vec::<&str>::new())));
    quiesce(&mut bus, Some(&conn), &mut [&mut g], false);
    eprintln!("get() -> {:?}; cached now: {:?} (received order: Get reply 901, then Changed P=55)", g.out.take(), proxy.cached_property::<u32>("P"));
}
