use serde_json::{json, Value as J};
pub fn run_case(_case: &J) -> J { json!({}) }
