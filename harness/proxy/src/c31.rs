//! C31: replay a scripted history (GetAll reply + PropertiesChanged signals, chunked) against a proxy with a
//! property cache and record what the cache, `get_property` and the property streams report.  Only records.
//!
//! Case: {"id":n,"mode":"yes"|"lazy","ev":[E..]}
//!   E = {"k":"reply","snap":{"P":1,..}}                                    answer the pending GetAll
//!     | {"k":"chg","iface":"own"|"other","src":"svc"|"stranger","path":"own"|"other","changed":{..},"inval":[..]}
//!     | {"k":"q"}                                                           run to quiescence, observe
//!     | {"k":"fetch","prop":"P"}        take the next item of P's stream and start item.get() (sends Properties.Get
//!                                       when P is invalidated; the reply's value is stored in the cache)
//!     | {"k":"getreply","prop":"P","val":v}   answer that Get
//! Observation "evs": the same events in receive order plus
//!   {"k":"ready"}            the cache reported ready (mode yes: build() returned; lazy: get_property got past ready())
//!   {"k":"streams"}          property streams for P and Q exist from here on
//!   {"k":"obs","cached":{"P":v|-1,..}}   cached_property::<u32> of every property at a quiescent point after ready
//! and at the end "streams": {"P":[values reported by the stream's items],..}, "gets": {"P":{"val":v,"via_get":b},..}.
//! Values: -1 = none, -2 = error, -3 = call still pending.  Values fetched with Properties.Get (after an invalidation / for uncached properties) are answered 901/902/903/904.
use std::collections::HashMap;

use futures_util::StreamExt;
use serde_json::{json, Map, Value as J};
use zbus::proxy::{CacheProperties, PropertyStream};
use zvariant::Value;

use crate::{
    fakebus::FakeBus,
    sched::{connect, quiesce, Slot},
};

pub const SVC: &str = ":1.7";
pub const STRANGER: &str = ":1.66";
pub const PATH: &str = "/obj";
pub const OTHER_PATH: &str = "/other";
pub const IFACE: &str = "com.example.I";
pub const OTHER_IFACE: &str = "com.example.J";
pub const PROPS_IFACE: &str = "org.freedesktop.DBus.Properties";
pub const ALL: [&str; 4] = ["P", "Q", "U", "R"];

fn live(p: &str) -> u32 {
    match p {
        "P" => 901,
        "Q" => 902,
        "U" => 903,
        _ => 904,
    }
}

fn dict(j: &J) -> HashMap<String, Value<'static>> {
    j.as_object()
        .map(|o| o.iter().map(|(k, v)| (k.clone(), Value::U32(v.as_u64().unwrap() as u32))).collect())
        .unwrap_or_default()
}

/// Answer every pending Properties.Get with the live value; returns the property names asked for.
fn answer_gets(bus: &mut FakeBus) -> Vec<String> {
    let mut asked = vec![];
    while let Some(c) = bus.take_call("Get") {
        let (_i, p): (String, String) = c.msg.body().deserialize().expect("HARNESS: Get args");
        if p == "R" {
            bus.release(&FakeBus::error(&c, SVC, "org.freedesktop.DBus.Error.UnknownProperty", "no R"));
        } else {
            bus.release(&FakeBus::reply(&c, SVC, &Value::U32(live(&p))));
        }
        asked.push(p);
    }
    asked
}

pub fn run_case(case: &J) -> J {
    let (conn, mut bus) = connect();
    let lazy = case["mode"] == "lazy";
    let builder = || {
        zbus::proxy::Builder::<zbus::Proxy<'static>>::new(&conn)
            .destination(SVC)
            .unwrap()
            .path(PATH)
            .unwrap()
            .interface(IFACE)
            .unwrap()
            .uncached_properties(&["U"])
            .cache_properties(if lazy { CacheProperties::Lazily } else { CacheProperties::Yes })
    };
    let mut log: Vec<J> = vec![];
    let mut proxy: Option<zbus::Proxy<'static>> = None;
    let mut build = Slot::new(builder().build());
    let mut streams: Vec<(&'static str, PropertyStream<'static, u32>)> = vec![];
    let mut ready = false;
    let mut ready_err = String::new();
    quiesce(&mut bus, Some(&conn), &mut [&mut build], true);
    if lazy {
        proxy = Some(build.out.take().expect("HARNESS: lazy build pending").expect("HARNESS: lazy build failed"));
    }
    // lazy mode: streams first (this starts the cache task), then a get_property that has to pass ready()
    macro_rules! make_streams {
        () => {{
            let p = proxy.as_ref().unwrap();
            for n in ["P", "Q"] {
                let mut s = Slot::new(p.receive_property_changed::<u32>(n));
                quiesce(&mut bus, Some(&conn), &mut [&mut s], true);
                streams.push((n, s.out.take().expect("HARNESS: receive_property_changed pending")));
            }
            log.push(json!({"k":"streams"}));
        }};
    }
    let probe_proxy = if lazy {
        make_streams!();
        proxy.clone()
    } else {
        None
    };
    let mut ready_probe: Option<Slot<zbus::Result<u32>>> = probe_proxy.as_ref().map(|p| Slot::new(p.get_property::<u32>("R")));
    if let Some(s) = ready_probe.as_mut() {
        quiesce(&mut bus, Some(&conn), &mut [s], true);
    }
    let mut fetch_call: Option<crate::fakebus::Call> = None;
    let mut fetch_get: Option<Slot<'static, zbus::Result<u32>>> = None;
    let mut pending_fetched: Option<i64> = None;
    let mut getall = bus.take_call("GetAll");
    let getall_seen = getall.is_some();

    let mut evs: Vec<J> = case["ev"].as_array().unwrap().clone();
    evs.push(json!({"k":"q"}));
    for e in evs.iter() {
        match e["k"].as_str().unwrap() {
            "reply" => {
                if let Some(c) = getall.take() {
                    bus.release(&FakeBus::reply(&c, SVC, &dict(&e["snap"])));
                }
                log.push(e.clone());
            }
            "chg" => {
                let iface = if e["iface"] == "own" { IFACE } else { OTHER_IFACE };
                let src = if e["src"] == "svc" { SVC } else { STRANGER };
                let path = if e["path"] == "own" { PATH } else { OTHER_PATH };
                let inval: Vec<String> = e["inval"].as_array().map(|a| a.iter().map(|x| x.as_str().unwrap().to_string()).collect()).unwrap_or_default();
                bus.release(&FakeBus::signal(src, None, path, PROPS_IFACE, "PropertiesChanged", &(iface, dict(&e["changed"]), inval)));
                log.push(e.clone());
            }
            "q" => {
                // the refetch in flight (PropertyChanged::get) gets its turn after zbus' own tasks
                if let Some(g) = fetch_get.as_mut() {
                    quiesce(&mut bus, Some(&conn), &mut [g], false);
                    if g.done() {
                        let v = match g.out.take() {
                            Some(Ok(v)) => v as i64,
                            _ => -2,
                        };
                        pending_fetched = Some(v);
                        fetch_get = None;
                    }
                }
                if lazy {
                    match ready_probe.as_mut() {
                        Some(s) => quiesce(&mut bus, Some(&conn), &mut [s], false),
                        None => quiesce(&mut bus, Some(&conn), &mut [], false),
                    };
                    if !ready {
                        // past ready(): either the Get for R is on the bus, or the call already failed
                        let asked = answer_gets(&mut bus);
                        let done = ready_probe.as_ref().map(|s| s.done()).unwrap_or(true);
                        if asked.iter().any(|p| p == "R") || done {
                            ready = true;
                            log.push(json!({"k":"ready"}));
                            if let Some(s) = ready_probe.as_mut() {
                                quiesce(&mut bus, Some(&conn), &mut [s], false);
                            }
                        }
                    }
                } else {
                    if proxy.is_none() {
                        quiesce(&mut bus, Some(&conn), &mut [&mut build], false);
                        if let Some(r) = build.out.take() {
                            match r {
                                Ok(p) => {
                                    proxy = Some(p);
                                    ready = true;
                                    log.push(json!({"k":"ready"}));
                                    make_streams!();
                                }
                                Err(e) => ready_err = e.to_string(),
                            }
                        }
                    } else {
                        quiesce(&mut bus, Some(&conn), &mut [], false);
                    }
                }
                log.push(json!({"k":"q"}));
                if let Some(v) = pending_fetched.take() {
                    log.push(json!({"k":"fetched","val":v}));
                }
                if ready {
                    let p = proxy.as_ref().unwrap();
                    let mut m = Map::new();
                    for n in ALL {
                        let v = match p.cached_property::<u32>(n) {
                            Ok(Some(v)) => json!(v),
                            Ok(None) => json!(-1),
                            Err(_) => json!(-2),
                        };
                        m.insert(n.to_string(), v);
                    }
                    log.push(json!({"k":"obs","cached":m}));
                }
            }
            "fetch" => {
                // take the next item of the property's stream and start its get(): for an invalidated property
                // this sends Properties.Get and stores the reply's value in the cache
                let prop = e["prop"].as_str().unwrap();
                let mut got_item = false;
                let mut sent = false;
                if let Some((_, s)) = streams.iter_mut().find(|(n, _)| *n == prop) {
                    let mut nx = Slot::new(s.next());
                    quiesce(&mut bus, Some(&conn), &mut [&mut nx], false);
                    if let Some(Some(item)) = nx.out.take() {
                        got_item = true;
                        let item: &'static zbus::proxy::PropertyChanged<'static, u32> = Box::leak(Box::new(item));
                        let mut g: Slot<'static, zbus::Result<u32>> = Slot::new(item.get());
                        quiesce(&mut bus, Some(&conn), &mut [&mut g], false);
                        fetch_call = bus.take_call("Get");
                        sent = fetch_call.is_some();
                        if g.done() {
                            pending_fetched = Some(match g.out.take() {
                                Some(Ok(v)) => v as i64,
                                _ => -2,
                            });
                        } else {
                            fetch_get = Some(g);
                        }
                    }
                }
                log.push(json!({"k":"fetch","prop":prop,"got_item":got_item,"get_sent":sent}));
            }
            "getreply" => {
                if let Some(c) = fetch_call.take() {
                    bus.release(&FakeBus::reply(&c, SVC, &Value::U32(e["val"].as_u64().unwrap() as u32)));
                    log.push(e.clone());
                } else {
                    log.push(json!({"k":"skipped-getreply"}));
                }
            }
            k => panic!("HARNESS: unknown event kind {k}"),
        }
    }

    // final observations: what the streams report, then get_property of every property
    let mut st_out = Map::new();
    let mut gets = Map::new();
    if ready {
        for (n, s) in streams.iter_mut() {
            let mut items: Vec<J> = vec![];
            for _ in 0..3 {
                let mut nx = Slot::new(s.next());
                quiesce(&mut bus, Some(&conn), &mut [&mut nx], false);
                let Some(Some(item)) = nx.out.take() else { break };
                let mut g = Slot::new(item.get());
                quiesce(&mut bus, Some(&conn), &mut [&mut g], false);
                if !g.done() {
                    answer_gets(&mut bus);
                    quiesce(&mut bus, Some(&conn), &mut [&mut g], false);
                }
                items.push(match g.out.take() {
                    Some(Ok(v)) => json!(v),
                    Some(Err(_)) => json!(-2),
                    None => json!(-3),
                });
            }
            st_out.insert(n.to_string(), J::Array(items));
        }
        let p = proxy.as_ref().unwrap();
        for n in ["P", "Q", "U"] {
            let mut g = Slot::new(p.get_property::<u32>(n));
            quiesce(&mut bus, Some(&conn), &mut [&mut g], false);
            let mut via = false;
            if !g.done() {
                via = answer_gets(&mut bus).iter().any(|x| x == n);
                quiesce(&mut bus, Some(&conn), &mut [&mut g], false);
            }
            let val = match g.out.take() {
                Some(Ok(v)) => json!(v),
                Some(Err(_)) => json!(-2),
                None => json!(-3),
            };
            gets.insert(n.to_string(), json!({"val":val,"via_get":via}));
        }
    }
    json!({
        "ev":"Cache","id":case["id"],"mode":case["mode"],"evs":log,"ready":ready,"ready_err":ready_err,
        "getall_seen":getall_seen,"streams":st_out,"gets":gets,
    })
}
