//! C32: replay a scripted bus history against `Proxy::receive_signal` / `receive_all_signals` on a proxy
//! with a well-known destination and record what the stream yields.  Only records; TLC decides.
//!
//! Case:  {"id":n,"mode":"one"|"all","init":"A"|"B"|"none","ev":[E..]}
//!   E = {"k":"reply"}                         GetNameOwner reply carrying the bus' current owner (error if none)
//!     | {"k":"noc","new":"A"|"B"|"none"}      genuine NameOwnerChanged(name, old=current, new) from org.freedesktop.DBus
//!     | {"k":"forge","new":"S"|"none","uni":bool}  the same signal sent by the peer S (unicast to us or broadcast)
//!     | {"k":"nocother","new":"S"}            genuine NameOwnerChanged for a different name
//!     | {"k":"sig","from":"A"|"B"|"S","m":"Sig"|"Other"}  a signal on the proxy's path/interface from that peer
//!     | {"k":"q"}                              run everything to quiescence and drain the stream
//! Observation: the case plus "ev" with sig ids (= index in ev, 1-based) and {"k":"subscribed"} markers,
//! "yields": ids in the order yielded, "extra": yielded messages that are not scripted signals.
use futures_util::StreamExt;
use serde_json::{json, Value as J};
use zbus::proxy::CacheProperties;

use crate::{
    fakebus::{FakeBus, DRIVER, DRIVER_PATH, ME},
    sched::{connect, quiesce, Slot},
};

pub const NAME: &str = "com.example.Svc";
pub const OTHER_NAME: &str = "com.example.Other";
pub const PATH: &str = "/obj";
pub const IFACE: &str = "com.example.I";

pub fn uniq(sym: &str) -> &'static str {
    match sym {
        "A" => ":1.5",
        "B" => ":1.6",
        "S" => ":1.66",
        "none" => "",
        _ => panic!("HARNESS: unknown peer symbol {sym}"),
    }
}

pub fn run_case(case: &J) -> J {
    let (conn, mut bus) = connect();
    let proxy: zbus::Proxy = {
        let mut s = Slot::new(
            zbus::proxy::Builder::new(&conn)
                .destination(NAME)
                .unwrap()
                .path(PATH)
                .unwrap()
                .interface(IFACE)
                .unwrap()
                .cache_properties(CacheProperties::No)
                .build(),
        );
        quiesce(&mut bus, Some(&conn), &mut [&mut s], true);
        s.out.take().expect("HARNESS: proxy build pending").expect("HARNESS: proxy build failed")
    };
    let all = case["mode"] == "all";
    let mut st: Slot<zbus::Result<zbus::proxy::SignalStream>> = if all {
        Slot::new(proxy.receive_all_signals())
    } else {
        Slot::new(proxy.receive_signal("Sig"))
    };
    quiesce(&mut bus, Some(&conn), &mut [&mut st], true);
    let lookup = bus.take_call("GetNameOwner");
    let mut owner = case["init"].as_str().unwrap().to_string();
    let mut stream: Option<zbus::proxy::SignalStream> = None;
    let mut err: Option<String> = None;
    let mut ended = false;
    let mut yields: Vec<J> = vec![];
    let mut extra: Vec<J> = vec![];
    let mut log: Vec<J> = vec![];
    let mut evs: Vec<J> = case["ev"].as_array().unwrap().clone();
    evs.push(json!({"k":"q"}));
    for (i, e) in evs.iter().enumerate() {
        let idx = (i + 1) as u32;
        match e["k"].as_str().unwrap() {
            "reply" => {
                if let Some(call) = &lookup {
                    let m = if owner == "none" {
                        FakeBus::error(call, DRIVER, "org.freedesktop.DBus.Error.NameHasNoOwner", "no owner")
                    } else {
                        FakeBus::reply(call, DRIVER, &uniq(&owner))
                    };
                    bus.release(&m);
                }
                log.push(json!({"k":"reply","owner":owner}));
            }
            "noc" => {
                let new = e["new"].as_str().unwrap();
                bus.release(&FakeBus::signal(DRIVER, None, DRIVER_PATH, DRIVER, "NameOwnerChanged", &(NAME, uniq(&owner), uniq(new))));
                owner = new.to_string();
                log.push(e.clone());
            }
            "forge" => {
                let new = e["new"].as_str().unwrap();
                let dest = if e["uni"].as_bool().unwrap_or(false) { Some(ME) } else { None };
                bus.release(&FakeBus::signal(uniq("S"), dest, DRIVER_PATH, DRIVER, "NameOwnerChanged", &(NAME, uniq(&owner), uniq(new))));
                log.push(e.clone());
            }
            "nocother" => {
                let new = e["new"].as_str().unwrap();
                bus.release(&FakeBus::signal(DRIVER, None, DRIVER_PATH, DRIVER, "NameOwnerChanged", &(OTHER_NAME, "", uniq(new))));
                log.push(e.clone());
            }
            "sig" => {
                let from = e["from"].as_str().unwrap();
                let m = e["m"].as_str().unwrap();
                bus.release(&FakeBus::signal(uniq(from), None, PATH, IFACE, m, &(idx,)));
                log.push(json!({"k":"sig","from":from,"m":m,"id":idx}));
            }
            "q" => {
                if stream.is_none() && err.is_none() {
                    quiesce(&mut bus, Some(&conn), &mut [&mut st], false);
                    if let Some(r) = st.out.take() {
                        match r {
                            Ok(s) => {
                                stream = Some(s);
                                log.push(json!({"k":"subscribed"}));
                            }
                            Err(e) => err = Some(e.to_string()),
                        }
                    }
                } else {
                    quiesce(&mut bus, Some(&conn), &mut [], false);
                }
                if let Some(s) = stream.as_mut() {
                    while !ended {
                        let mut n = Slot::new(s.next());
                        quiesce(&mut bus, Some(&conn), &mut [&mut n], false);
                        match n.out.take() {
                            Some(Some(m)) => {
                                let hdr = m.header();
                                let scripted = hdr.interface().map(|x| x.as_str() == IFACE).unwrap_or(false);
                                match m.body().deserialize::<(u32,)>() {
                                    Ok((id,)) if scripted => yields.push(json!(id)),
                                    _ => extra.push(json!({
                                        "member": hdr.member().map(|x| x.to_string()).unwrap_or_default(),
                                        "sender": hdr.sender().map(|x| x.to_string()).unwrap_or_default()})),
                                }
                            }
                            Some(None) => ended = true,
                            None => break,
                        }
                    }
                }
                log.push(json!({"k":"q"}));
            }
            k => panic!("HARNESS: unknown event kind {k}"),
        }
    }
    json!({
        "ev": "Owner", "id": case["id"], "mode": case["mode"], "init": case["init"],
        "evs": log, "yields": yields, "extra": extra, "err": err.unwrap_or_default(), "ended": ended,
        "lookup_seen": lookup.is_some(), "nmatch": bus.matches.len(),
    })
}
