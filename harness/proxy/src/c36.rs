//! C36: replay a scripted bus history against `Connection::request_name_with_flags` / `release_name` and
//! record, in the order things happened, the API calls, whether each reached the bus, the messages the
//! client was given, and the results.  Only records; TLC decides.
//!
//! Case: {"id":n,"ev":[E..]}
//!   E = {"k":"req","flags":["allow"|"replace"|"dnq"..]}   start request_name_with_flags(N, flags)
//!     | {"k":"rel"}                                        start release_name(N)
//!     | {"k":"sig","what":"acq"|"lost","gen":bool,"name":"N"|"M"}   NameAcquired / NameLost from the driver (gen)
//!                                                          or forged by the peer :1.66, unicast to us
//!     | {"k":"reply","code":"PrimaryOwner"|..|"Released"|..}  the bus reply to the call in flight (skipped if
//!                                                          the client did not ask the bus)
//!     | {"k":"q"}                                          run to quiescence
use serde_json::{json, Value as J};
use zbus::fdo::RequestNameFlags;

use crate::{
    fakebus::{Call, FakeBus, DRIVER, DRIVER_PATH, ME},
    sched::{connect, quiesce, Slot},
};

pub const NAME: &str = "com.example.Mine";
pub const OTHER_NAME: &str = "com.example.NotMine";

fn code_of(s: &str) -> u32 {
    match s {
        "PrimaryOwner" | "Released" => 1,
        "InQueue" | "NonExistent" => 2,
        "Exists" | "NotOwner" => 3,
        "AlreadyOwner" => 4,
        _ => panic!("HARNESS: unknown reply code {s}"),
    }
}

pub fn run_case(case: &J) -> J {
    let (conn, mut bus) = connect();
    let mut log: Vec<J> = vec![];
    let mut slot: Option<(Slot<String>, &'static str)> = None;
    let mut inflight: Option<Call> = None;
    let mut evs: Vec<J> = case["ev"].as_array().unwrap().clone();
    evs.push(json!({"k":"q"}));

    // run to quiescence; log a bus call / a result when they become visible
    macro_rules! settle {
        () => {{
            match slot.as_mut() {
                Some((s, _)) => {
                    quiesce(&mut bus, Some(&conn), &mut [s], false);
                }
                None => {
                    quiesce(&mut bus, Some(&conn), &mut [], false);
                }
            }
            for m in ["RequestName", "ReleaseName"] {
                if let Some(c) = bus.take_call(m) {
                    let flags: i64 = if m == "RequestName" {
                        c.msg.body().deserialize::<(String, u32)>().map(|x| x.1 as i64).unwrap_or(-1)
                    } else {
                        0
                    };
                    log.push(json!({"k":"bus","m":m,"flags":flags}));
                    inflight = Some(c);
                }
            }
            let finished = slot.as_ref().map(|(s, _)| s.done()).unwrap_or(false);
            if finished {
                let (mut s, op) = slot.take().unwrap();
                log.push(json!({"k":"result","op":op,"res":s.out.take().unwrap()}));
                inflight = None;
            }
        }};
    }

    for e in evs.iter() {
        match e["k"].as_str().unwrap() {
            k @ ("req" | "rel") => {
                if let Some((_, op)) = slot.take() {
                    // previous call never returned: record and abandon it ("unscripted": it waits for a bus
                    // reply the script does not contain -- the script was steered by a different client model)
                    log.push(json!({"k": if inflight.is_some() { "unscripted" } else { "pending" }, "op":op}));
                    inflight = None;
                }
                if k == "req" {
                    let names: Vec<String> = e["flags"].as_array().unwrap().iter().map(|x| x.as_str().unwrap().to_string()).collect();
                    let (a, r, d) = (RequestNameFlags::AllowReplacement, RequestNameFlags::ReplaceExisting, RequestNameFlags::DoNotQueue);
                    let mut f = (a | r) & d; // empty set
                    for n in &names {
                        f = f | match n.as_str() {
                            "allow" => a,
                            "replace" => r,
                            "dnq" => d,
                            x => panic!("HARNESS: unknown flag {x}"),
                        };
                    }
                    log.push(json!({"k":"call","op":"req","flags":names,"bits":f.bits()}));
                    let c = &conn;
                    slot = Some((
                        Slot::new(async move {
                            match c.request_name_with_flags(NAME, f).await {
                                Ok(r) => format!("{:?}", r),
                                Err(zbus::Error::NameTaken) => "NameTaken".to_string(),
                                Err(e) => format!("Err:{e}"),
                            }
                        }),
                        "req",
                    ));
                } else {
                    log.push(json!({"k":"call","op":"rel"}));
                    let c = &conn;
                    slot = Some((
                        Slot::new(async move {
                            match c.release_name(NAME).await {
                                Ok(b) => b.to_string(),
                                Err(e) => format!("Err:{e}"),
                            }
                        }),
                        "rel",
                    ));
                }
            }
            "sig" => {
                let what = e["what"].as_str().unwrap();
                let gen = e["gen"].as_bool().unwrap();
                let name = if e["name"] == "N" { NAME } else { OTHER_NAME };
                let member = if what == "acq" { "NameAcquired" } else { "NameLost" };
                let sender = if gen { DRIVER } else { ":1.66" };
                bus.release(&FakeBus::signal(sender, Some(ME), DRIVER_PATH, DRIVER, member, &(name,)));
                log.push(json!({"k":"recv","what":what,"gen":gen,"name":e["name"]}));
            }
            "reply" => {
                let code = e["code"].as_str().unwrap();
                match inflight.take() {
                    Some(c) => {
                        bus.release(&FakeBus::reply(&c, DRIVER, &code_of(code)));
                        log.push(json!({"k":"recv","what":"reply","code":code}));
                    }
                    None => log.push(json!({"k":"skipped","code":code})),
                }
            }
            "q" => {
                settle!();
                log.push(json!({"k":"q"}));
            }
            k => panic!("HARNESS: unknown event kind {k}"),
        }
    }
    if let Some((_, op)) = slot.take() {
        log.push(json!({"k": if inflight.is_some() { "unscripted" } else { "pending" }, "op":op}));
    }
    json!({"ev":"Names","id":case["id"],"sched":case["sched"],"log":log})
}
