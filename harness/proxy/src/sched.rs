//! Deterministic single-threaded driving of a zbus connection built with `internal_executor(false)`.
//!
//! * zbus' own tasks (socket reader, property-cache task, name monitor tasks) run only in `tick()`;
//! * user-level futures are `Slot`s polled by hand, and only when their waker fired (or never polled);
//! * `quiesce` runs fake bus / executor / slots round-robin until nothing can make progress.
use std::{
    future::Future,
    pin::Pin,
    sync::{
        atomic::{AtomicBool, Ordering},
        Arc,
    },
    task::{Context, Poll, Wake, Waker},
};

use crate::fakebus::FakeBus;

pub struct Flag(pub AtomicBool);
impl Wake for Flag {
    fn wake(self: Arc<Self>) {
        self.0.store(true, Ordering::SeqCst);
    }
    fn wake_by_ref(self: &Arc<Self>) {
        self.0.store(true, Ordering::SeqCst);
    }
}

/// A user-level future with its own wake flag.
pub struct Slot<'a, T> {
    fut: Option<Pin<Box<dyn Future<Output = T> + 'a>>>,
    flag: Arc<Flag>,
    pub out: Option<T>,
}

impl<'a, T> Slot<'a, T> {
    pub fn new(f: impl Future<Output = T> + 'a) -> Self {
        Slot { fut: Some(Box::pin(f)), flag: Arc::new(Flag(AtomicBool::new(true))), out: None }
    }
    pub fn done(&self) -> bool {
        self.fut.is_none()
    }
    /// Poll if woken since the last poll. Returns true if a poll happened.
    pub fn step(&mut self) -> bool {
        let Some(f) = self.fut.as_mut() else { return false };
        if !self.flag.0.swap(false, Ordering::SeqCst) {
            return false;
        }
        let w = Waker::from(self.flag.clone());
        let mut cx = Context::from_waker(&w);
        if let Poll::Ready(v) = f.as_mut().poll(&mut cx) {
            self.out = Some(v);
            self.fut = None;
        }
        true
    }
}

pub trait Steppable {
    fn step_dyn(&mut self) -> bool;
}
impl<T> Steppable for Slot<'_, T> {
    fn step_dyn(&mut self) -> bool {
        self.step()
    }
}

/// Poll a future exactly once with a waker that is never observed.
pub fn poll_once<F: Future>(f: F) -> Option<F::Output> {
    let flag = Arc::new(Flag(AtomicBool::new(false)));
    let w = Waker::from(flag);
    let mut cx = Context::from_waker(&w);
    let mut f = Box::pin(f);
    match f.as_mut().poll(&mut cx) {
        Poll::Ready(v) => Some(v),
        Poll::Pending => None,
    }
}

/// Run one runnable zbus task, if any.
pub fn tick(conn: &zbus::Connection) -> bool {
    poll_once(conn.executor().tick()).is_some()
}

/// Run until nothing can make progress: the fake bus has consumed everything the client wrote, no
/// executor task is runnable, no slot has been woken.  `slots_first` flips the order in which user
/// futures and executor tasks get their turn (part of the schedule).  Returns the number of rounds.
pub fn quiesce(bus: &mut FakeBus, conn: Option<&zbus::Connection>, slots: &mut [&mut dyn Steppable], slots_first: bool) -> usize {
    let mut rounds = 0;
    loop {
        let mut progress = bus.pump();
        if slots_first {
            for s in slots.iter_mut() {
                progress |= s.step_dyn();
            }
            progress |= bus.pump();
        }
        if let Some(c) = conn {
            let mut n = 0;
            while tick(c) {
                progress = true;
                n += 1;
                if n > 100_000 {
                    panic!("HARNESS: executor does not settle");
                }
            }
        }
        progress |= bus.pump();
        if !slots_first {
            for s in slots.iter_mut() {
                progress |= s.step_dyn();
            }
        }
        rounds += 1;
        if rounds > 100_000 {
            panic!("HARNESS: no quiescence");
        }
        if !progress {
            return rounds;
        }
    }
}

/// Build a bus-mode client connection to a fresh fake bus (SASL + Hello answered by the fake bus); zbus' internal
/// executor thread is off, so nothing runs unless this thread polls it.
pub fn connect() -> (zbus::Connection, FakeBus) {
    let (split, mut bus) = crate::fakebus::new_pair();
    let mut b = Slot::new(zbus::connection::Builder::socket(split).internal_executor(false).build());
    quiesce(&mut bus, None, &mut [&mut b], true);
    let conn = b.out.take().expect("HARNESS: connection build did not finish").expect("HARNESS: connection build failed");
    (conn, bus)
}
