mod probe;
mod sched;
mod tree;

fn main() {
    // panics inside the code under test are caught and recorded as outcomes; keep stderr quiet
    std::panic::set_hook(Box::new(|_| {}));
    let a: Vec<String> = std::env::args().collect();
    let arg = |i: usize| a.get(i).cloned().unwrap_or_default();
    let num = |i: usize| arg(i).parse::<u64>().expect("number");
    match arg(1).as_str() {
        "probe" => probe::run(),
        "tree-replay" => tree::replay(&arg(2), &arg(3)),
        "tree-rand" => tree::random(num(2), num(3), num(4), &arg(5)),
        _ => {
            eprintln!("usage: obj tree-replay CASES OUT | tree-rand N LEN SEED OUT | ...");
            std::process::exit(2);
        }
    }
}
