mod disp;
mod sched;
mod tree;

fn main() {
    // panics inside the code under test are caught and recorded as outcomes (keep stderr quiet for
    // those); a panic of the harness itself is reported and ends the process
    std::panic::set_hook(Box::new(|info| {
        if !sched::IN_GUARD.load(std::sync::atomic::Ordering::SeqCst) {
            eprintln!("harness panic: {}", info);
        }
    }));
    let a: Vec<String> = std::env::args().collect();
    let arg = |i: usize| a.get(i).cloned().unwrap_or_default();
    let num = |i: usize| arg(i).parse::<u64>().expect("number");
    match arg(1).as_str() {
        "tree-replay" => tree::replay(&arg(2), &arg(3)),
        "tree-rand" => tree::random(num(2), num(3), num(4), &arg(5)),
        "disp-replay" => disp::replay(&arg(2), num(3), num(4), &arg(5)),
        "disp-rand" => disp::random(&arg(2), num(3), num(4), &arg(5)),
        _ => {
            eprintln!("usage: obj tree-replay CASES OUT | tree-rand N LEN SEED OUT | disp-replay CASES SCHEDULES SEED OUT | disp-rand CLASS N SEED OUT");
            std::process::exit(2);
        }
    }
}
