//! C29 / C30: method-call dispatch under a deterministic scheduler.
//!
//! A scenario = a configuration (spawn flag of the target interface, the calls with their kinds and
//! handler bodies, how the object server was brought up) + a schedule (seeded random or a directed
//! template).  The harness runs it on a fresh p2p pair and records the linearization points into one
//! global, single-threaded event sink; spec/trace/DispatchTrace.tla decides.
//!
//! events:  Create            `conn.object_server().at(..)` returned (first use of the object server)
//!          Send k            the client wrote call k (calls are written in index order)
//!          Start k / End k   user handler of call k entered / returned
//!          Pass k            handler k got past a yield point (a gate the scheduler opens)
//!          Emitted k         handler k emitted a signal
//!          Wrote k           handler k's object_server().at(..) returned
//!          Reply k ok        the client's future for call k completed
//!          Quiescent pending nothing can run any more (all gates open); calls still unanswered
//!
//! call kinds: "meth" X.Work(k) (&self), "methmut" X.WorkMut(k) (&mut self), "get" Properties.Get(X, Pk),
//! "set" Properties.Set(X, Pk), "intro" Introspect, "ping" Peer.Ping.  X = org.verif.Seq (spawn = false) or org.verif.Par.
use crate::sched::*;
use serde_json::{json, Value as J};
use std::collections::HashMap;
use std::future::Future;
use std::io::{BufRead, Write};
use std::pin::Pin;
use std::sync::Mutex;
use std::task::{Context, Poll, Waker};
use zbus::zvariant::Value;
use zbus::{interface, Connection, ObjectServer};

// ------------------------------------------------------------------ global sink, plan, gates
static LOG: Mutex<Vec<J>> = Mutex::new(Vec::new());
static PLAN: Mutex<Vec<Vec<char>>> = Mutex::new(Vec::new());

fn ev(e: &str, k: u32) {
    LOG.lock().unwrap().push(json!({"e": e, "k": k}));
}

#[derive(Default)]
struct Gate {
    open: u32,
    passed: u32,
    waker: Option<Waker>,
}
static GATES: Mutex<Option<HashMap<u32, Gate>>> = Mutex::new(None);

struct GateWait(u32);
impl Future for GateWait {
    type Output = ();
    fn poll(self: Pin<&mut Self>, cx: &mut Context<'_>) -> Poll<()> {
        let mut g = GATES.lock().unwrap();
        let gate = g.get_or_insert_with(HashMap::new).entry(self.0).or_default();
        if gate.passed < gate.open {
            gate.passed += 1;
            Poll::Ready(())
        } else {
            gate.waker = Some(cx.waker().clone());
            Poll::Pending
        }
    }
}
fn open_gate(k: u32) {
    let w = {
        let mut g = GATES.lock().unwrap();
        let gate = g.get_or_insert_with(HashMap::new).entry(k).or_default();
        gate.open += 1;
        gate.waker.take()
    };
    if let Some(w) = w {
        w.wake();
    }
}

// ------------------------------------------------------------------ the interfaces under test
pub struct Aux;
#[interface(name = "org.verif.Aux")]
impl Aux {
    fn nop(&self) {}
}

/// The handler body of call k, interpreted from the plan.
async fn body(k: u32, s: &ObjectServer, c: &Connection) -> u32 {
    ev("Start", k);
    let atoms = PLAN.lock().unwrap()[k as usize - 1].clone();
    for (j, a) in atoms.iter().enumerate() {
        match a {
            'y' => {
                GateWait(k).await;
                ev("Pass", k);
            }
            'e' => {
                let _ = c.emit_signal(None::<()>, "/d", "org.verif.Ev", "Happened", &(k,)).await;
                ev("Emitted", k);
            }
            _ => {
                let _ = s.at(format!("/dyn/c{}_{}", k, j), Aux).await;
                ev("Wrote", k);
            }
        }
    }
    ev("End", k);
    k
}

macro_rules! define_iface {
    ($ty:ident, $($attr:tt)*) => {
        pub struct $ty;
        #[interface($($attr)*)]
        impl $ty {
            async fn work(&self, k: u32, #[zbus(object_server)] s: &ObjectServer, #[zbus(connection)] c: &Connection) -> u32 {
                body(k, s, c).await
            }
            async fn work_mut(&mut self, k: u32, #[zbus(object_server)] s: &ObjectServer, #[zbus(connection)] c: &Connection) -> u32 {
                body(k, s, c).await
            }
            #[zbus(property(emits_changed_signal = "false"))]
            async fn p1(&self, #[zbus(object_server)] s: &ObjectServer, #[zbus(connection)] c: &Connection) -> u32 { body(1, s, c).await }
            #[zbus(property)]
            async fn set_p1(&mut self, _v: u32, #[zbus(object_server)] s: &ObjectServer, #[zbus(connection)] c: &Connection) { body(1, s, c).await; }
            #[zbus(property(emits_changed_signal = "false"))]
            async fn p2(&self, #[zbus(object_server)] s: &ObjectServer, #[zbus(connection)] c: &Connection) -> u32 { body(2, s, c).await }
            #[zbus(property)]
            async fn set_p2(&mut self, _v: u32, #[zbus(object_server)] s: &ObjectServer, #[zbus(connection)] c: &Connection) { body(2, s, c).await; }
            #[zbus(property(emits_changed_signal = "false"))]
            async fn p3(&self, #[zbus(object_server)] s: &ObjectServer, #[zbus(connection)] c: &Connection) -> u32 { body(3, s, c).await }
            #[zbus(property)]
            async fn set_p3(&mut self, _v: u32, #[zbus(object_server)] s: &ObjectServer, #[zbus(connection)] c: &Connection) { body(3, s, c).await; }
            #[zbus(property(emits_changed_signal = "false"))]
            async fn p4(&self, #[zbus(object_server)] s: &ObjectServer, #[zbus(connection)] c: &Connection) -> u32 { body(4, s, c).await }
            #[zbus(property)]
            async fn set_p4(&mut self, _v: u32, #[zbus(object_server)] s: &ObjectServer, #[zbus(connection)] c: &Connection) { body(4, s, c).await; }
            #[zbus(property(emits_changed_signal = "false"))]
            async fn p5(&self, #[zbus(object_server)] s: &ObjectServer, #[zbus(connection)] c: &Connection) -> u32 { body(5, s, c).await }
            #[zbus(property)]
            async fn set_p5(&mut self, _v: u32, #[zbus(object_server)] s: &ObjectServer, #[zbus(connection)] c: &Connection) { body(5, s, c).await; }
            #[zbus(property(emits_changed_signal = "false"))]
            async fn p6(&self, #[zbus(object_server)] s: &ObjectServer, #[zbus(connection)] c: &Connection) -> u32 { body(6, s, c).await }
            #[zbus(property)]
            async fn set_p6(&mut self, _v: u32, #[zbus(object_server)] s: &ObjectServer, #[zbus(connection)] c: &Connection) { body(6, s, c).await; }
        }
    };
}
/// A second interface at the same path with one readable property: `Properties.GetAll` on it runs exactly one
/// getter (call kind "getall"; at most one such call per scenario, its index is kept in GA_K).
pub struct Ga;
static GA_K: std::sync::atomic::AtomicU32 = std::sync::atomic::AtomicU32::new(0);
#[interface(name = "org.verif.GA")]
impl Ga {
    #[zbus(property(emits_changed_signal = "false"))]
    async fn q(&self, #[zbus(object_server)] s: &ObjectServer, #[zbus(connection)] c: &Connection) -> u32 {
        body(GA_K.load(std::sync::atomic::Ordering::SeqCst), s, c).await
    }
}
define_iface!(Seq, name = "org.verif.Seq", spawn = false);
define_iface!(Par, name = "org.verif.Par");

// ------------------------------------------------------------------ scenarios
#[derive(Clone, Debug)]
pub struct CallCfg {
    pub kind: String,
    pub body: Vec<char>,
}

#[derive(Clone, Debug)]
pub enum Step {
    Send,          // write the next unsent call
    TickS,         // run one task of the server's executor
    TickC,         // run one task of the client's executor and poll the woken client futures
    Open(u32),     // open one gate of call k
    Settle,        // run everything to quiescence (gates stay as they are)
}

pub struct Scenario {
    pub id: u64,
    pub class: String,
    pub spawn: bool,
    /// how the object server comes up: 0 = created and its task settled long before the first call;
    /// 1 = executors idle, then created, first call written right after `at` returned;
    /// 2 = nothing ticked at all before; 3 = the reader has been woken by an earlier message
    pub lazy: u32,
    pub calls: Vec<CallCfg>,
    pub steps: Vec<Step>,
}

fn start_call(client: &Connection, spawn: bool, k: u32, c: &CallCfg) -> Job<bool> {
    let conn = client.clone();
    let iface = if spawn { "org.verif.Par" } else { "org.verif.Seq" };
    let kind = c.kind.clone();
    Job::new(async move {
        let prop = format!("P{}", k);
        let r = match kind.as_str() {
            "meth" => conn.call_method(None::<()>, "/d", Some(iface), "Work", &(k,)).await,
            "methmut" => conn.call_method(None::<()>, "/d", Some(iface), "WorkMut", &(k,)).await,
            "methnr" => {
                // fire and forget: the flag says no reply is owed, the job is over once the message is written
                let m = zbus::message::Message::method_call("/d", "Work")
                    .and_then(|b| b.interface(iface))
                    .and_then(|b| b.with_flags(zbus::message::Flags::NoReplyExpected))
                    .and_then(|b| b.build(&(k,)));
                return match m {
                    Ok(m) => conn.send(&m).await.is_ok(),
                    Err(_) => false,
                };
            }
            "get" => {
                conn.call_method(None::<()>, "/d", Some("org.freedesktop.DBus.Properties"), "Get", &(iface, prop.as_str())).await
            }
            "set" => {
                conn.call_method(None::<()>, "/d", Some("org.freedesktop.DBus.Properties"), "Set",
                                 &(iface, prop.as_str(), Value::from(k))).await
            }
            "getall" => {
                GA_K.store(k, std::sync::atomic::Ordering::SeqCst);
                conn.call_method(None::<()>, "/d", Some("org.freedesktop.DBus.Properties"), "GetAll", &("org.verif.GA",)).await
            }
            "ping" => conn.call_method(None::<()>, "/d", Some("org.freedesktop.DBus.Peer"), "Ping", &()).await,
            _ => conn.call_method(None::<()>, "/d", Some("org.freedesktop.DBus.Introspectable"), "Introspect", &()).await,
        };
        r.is_ok()
    })
}

static NOREPLY: Mutex<Vec<u32>> = Mutex::new(Vec::new());

pub fn run(sc: &Scenario) -> J {
    LOG.lock().unwrap().clear();
    *NOREPLY.lock().unwrap() = sc.calls.iter().enumerate().filter(|(_, c)| c.kind == "methnr").map(|(i, _)| i as u32 + 1).collect();
    *GATES.lock().unwrap() = Some(HashMap::new());
    *PLAN.lock().unwrap() = sc.calls.iter().map(|c| c.body.clone()).collect();
    let mut pair = Pair::new();
    // bring the object server up
    match sc.lazy {
        1 => {
            pair.settle(&mut []);
        }
        3 => {
            pair.settle(&mut []);
            let c = pair.client.clone();
            let mut j = Job::new(async move { c.emit_signal(None::<()>, "/q", "org.verif.Q", "Earlier", &()).await.is_ok() });
            j.poll();
        }
        _ => {}
    }
    let s = pair.server.clone();
    let spawn = sc.spawn;
    let with_ga = sc.calls.iter().any(|c| c.kind == "getall");
    let mut reg = Job::new(async move {
        let r = if spawn {
            s.object_server().at("/d", Par).await
        } else {
            s.object_server().at("/d", Seq).await
        };
        if with_ga {
            s.object_server().at("/d", Ga).await?;
        }
        r
    });
    reg.poll();
    // `at` may need the server's executor to run before it returns (it may wait for the object server's
    // dispatch task): give it exactly the task runs it needs, nothing more
    let mut guard = 0;
    while !reg.done() {
        let ran = pair.tick_server();
        if !ran && !reg.woken() {
            break;
        }
        reg.poll();
        guard += 1;
        if guard > 10_000 {
            break;
        }
    }
    if !matches!(reg.out, Some(Ok(Ok(true)))) {
        // the registration of a fresh interface must succeed; anything else is a harness problem
        panic!("registration did not complete: {:?}", reg.out.as_ref().map(|r| r.as_ref().map(|x| x.is_ok())));
    }
    ev("Create", 0);
    if sc.lazy == 0 {
        pair.settle(&mut []);
    }
    let n = sc.calls.len() as u32;
    let mut jobs: Vec<Job<bool>> = vec![];
    let mut replied: Vec<bool> = vec![false; n as usize];
    let mut sent = 0u32;
    let mut spun = false;

    fn poll_jobs(jobs: &mut [Job<bool>], replied: &mut [bool], only_woken: bool) {
        for (i, j) in jobs.iter_mut().enumerate() {
            if j.done() || (only_woken && !j.woken()) {
                continue;
            }
            if j.poll() {
                if NOREPLY.lock().unwrap().contains(&(i as u32 + 1)) {
                    continue; // written; `replied` is set from the handler's End event (see ended_noreply)
                }
                replied[i] = true;
                let ok = matches!(j.out, Some(Ok(true)));
                LOG.lock().unwrap().push(json!({"e": "Reply", "k": i + 1, "ok": ok}));
            }
        }
    }
    /// Run both executors and the client futures until nothing moves.  Returns true if it had to give up
    /// on a *spin*: tasks that keep waking each other without any observable effect.  (Seen with
    /// async-lock 3.4.1: two or more tasks waiting in `RwLock::read()` behind a writer that is itself
    /// suspended re-notify each other forever -- a busy wait, not progress.  SPIN_LIMIT consecutive task
    /// runs without a logged event or a completed call are treated as idle.)
    const SPIN_LIMIT: u64 = 20_000;
    fn settle_all(pair: &mut Pair, jobs: &mut [Job<bool>], replied: &mut [bool]) -> bool {
        let mut idle_ticks = 0u64;
        loop {
            let mut progress = false;
            let mark = LOG.lock().unwrap().len();
            loop {
                let a = pair.tick_server();
                let b = pair.tick_client();
                if !(a || b) {
                    break;
                }
                progress = true;
                idle_ticks += 1;
                if idle_ticks % 64 == 0 {
                    // let replies through even while something spins
                    poll_jobs(jobs, replied, true);
                }
                if LOG.lock().unwrap().len() != mark {
                    break;
                }
                if idle_ticks > SPIN_LIMIT {
                    return true;
                }
            }
            if LOG.lock().unwrap().len() != mark {
                idle_ticks = 0;
            }
            let before = replied.iter().filter(|x| **x).count();
            let woken = jobs.iter().any(|j| j.woken());
            poll_jobs(jobs, replied, true);
            if replied.iter().filter(|x| **x).count() != before {
                idle_ticks = 0;
                progress = true;
            }
            if woken {
                progress = true;
            }
            if !progress {
                return false;
            }
        }
    }

    for st in &sc.steps {
        match st {
            Step::Send => {
                if sent < n {
                    let mut j = start_call(&pair.client, sc.spawn, sent + 1, &sc.calls[sent as usize]);
                    sent += 1;
                    // the first poll writes the message to the in-memory socket
                    j.poll();
                    ev("Send", sent);
                    jobs.push(j);
                }
            }
            Step::TickS => {
                pair.tick_server();
            }
            Step::TickC => {
                pair.tick_client();
                poll_jobs(&mut jobs, &mut replied, true);
            }
            Step::Open(k) => open_gate(*k),
            Step::Settle => {
                spun |= settle_all(&mut pair, &mut jobs, &mut replied);
            }
        }
    }
    // epilogue: write what is left, open every gate, run to quiescence
    while sent < n {
        let mut j = start_call(&pair.client, sc.spawn, sent + 1, &sc.calls[sent as usize]);
        sent += 1;
        j.poll();
        ev("Send", sent);
        jobs.push(j);
    }
    for k in 1..=n {
        for _ in 0..8 {
            open_gate(k);
        }
    }
    spun |= settle_all(&mut pair, &mut jobs, &mut replied);
    // a no-reply call is over (spec: pc = "done") once its handler has ended
    for k in NOREPLY.lock().unwrap().iter() {
        if LOG.lock().unwrap().iter().any(|e| e["e"] == "End" && e["k"] == *k) {
            replied[*k as usize - 1] = true;
        }
    }
    let pending: Vec<u32> = (1..=n).filter(|k| !replied[*k as usize - 1]).collect();
    LOG.lock().unwrap().push(json!({"e": "Quiescent", "k": 0, "pending": pending}));
    let evs = LOG.lock().unwrap().clone();
    json!({
        "id": sc.id, "class": sc.class, "spawn": sc.spawn, "lazy": sc.lazy, "spun": spun,
        "calls": sc.calls.iter().map(|c| json!({"kind": c.kind, "body": c.body.iter().map(|x| x.to_string()).collect::<Vec<_>>()})).collect::<Vec<_>>(),
        "steps": sc.steps.iter().map(step_json).collect::<Vec<_>>(),
        "ev": evs,
    })
}

fn step_json(s: &Step) -> J {
    match s {
        Step::Send => json!("send"),
        Step::TickS => json!("ts"),
        Step::TickC => json!("tc"),
        Step::Settle => json!("settle"),
        Step::Open(k) => json!(["open", k]),
    }
}
fn step_of(j: &J) -> Step {
    match j {
        J::String(s) => match s.as_str() {
            "send" => Step::Send,
            "ts" => Step::TickS,
            "tc" => Step::TickC,
            _ => Step::Settle,
        },
        J::Array(a) => Step::Open(a[1].as_u64().unwrap() as u32),
        _ => Step::Settle,
    }
}

/// A seeded random schedule: `burst` writes every call before anything else runs.
fn random_steps(rng: &mut Rng, calls: &[CallCfg], burst: bool) -> Vec<Step> {
    let n = calls.len() as u32;
    let mut steps = vec![];
    let mut unsent = n;
    if burst {
        for _ in 0..n {
            steps.push(Step::Send);
        }
        unsent = 0;
    }
    let mut gates: Vec<u32> = vec![];
    for (i, c) in calls.iter().enumerate() {
        for a in &c.body {
            if *a == 'y' {
                gates.push(i as u32 + 1);
            }
        }
    }
    let len = 10 + rng.below(40);
    for _ in 0..len {
        match rng.below(10) {
            0 | 1 if unsent > 0 => {
                steps.push(Step::Send);
                unsent -= 1;
            }
            2 | 3 if !gates.is_empty() => {
                let i = rng.below(gates.len() as u64) as usize;
                steps.push(Step::Open(gates.swap_remove(i)));
            }
            4 => steps.push(Step::Settle),
            5 | 6 => steps.push(Step::TickC),
            _ => steps.push(Step::TickS),
        }
    }
    steps
}

fn parse_calls(j: &J) -> Vec<CallCfg> {
    j.as_array()
        .unwrap()
        .iter()
        .map(|c| CallCfg {
            kind: c["kind"].as_str().unwrap().to_string(),
            body: c["body"].as_array().unwrap().iter().map(|x| x.as_str().unwrap().chars().next().unwrap()).collect(),
        })
        .collect()
}

/// configurations (from TLC's Gen_Dispatch, or a stored replay with explicit steps) x schedules
/// input lines: {"id", "class", "spawn", "lazy", "calls":[{kind, body}], ["steps": [...]]}
pub fn replay(cases: &str, schedules: u64, seed: u64, out: &str) {
    let f = std::io::BufReader::new(std::fs::File::open(cases).expect("cases file"));
    let mut o = std::io::BufWriter::new(std::fs::File::create(out).expect("out file"));
    for line in f.lines() {
        let line = line.unwrap();
        if line.trim().is_empty() {
            continue;
        }
        let c: J = serde_json::from_str(&line).expect("case json");
        let calls = parse_calls(&c["calls"]);
        let class = c["class"].as_str().unwrap_or("cfg").to_string();
        let spawn = c["spawn"].as_bool().unwrap_or(true);
        let lazy = c["lazy"].as_u64().unwrap_or(0) as u32;
        if let Some(st) = c.get("steps").and_then(|s| s.as_array()) {
            let sc = Scenario { id: c["id"].as_u64().unwrap_or(0), class, spawn, lazy, calls, steps: st.iter().map(step_of).collect() };
            writeln!(o, "{}", run(&sc)).unwrap();
            continue;
        }
        let cid = c["id"].as_u64().unwrap_or(0);
        for s in 0..schedules {
            let mut rng = Rng(seed.wrapping_mul(0x1000193) ^ cid.wrapping_mul(7919) ^ (s << 40));
            // schedule 0: the directed "suspend, then interleave" template; others random (every other one a burst)
            let steps = if s == 0 {
                let mut v = vec![];
                for _ in 0..calls.len() {
                    v.push(Step::Send);
                    v.push(Step::Settle);
                }
                v
            } else {
                random_steps(&mut rng, &calls, s % 2 == 1)
            };
            let sc = Scenario { id: cid * 100 + s, class: class.clone(), spawn, lazy, calls: calls.clone(), steps };
            writeln!(o, "{}", run(&sc)).unwrap();
        }
    }
    o.flush().unwrap();
}

/// impl -> spec: seeded random configurations and schedules.
/// class "burst": 2-6 method calls (&self / &mut self) written back-to-back, handlers with 0-3 yield points;
/// class "mutate": 1-4 calls of every kind whose handlers mutate the object server / emit signals;
/// class "lazy": 1-2 calls right after on-demand creation of the object server.
pub fn random(class: &str, n: u64, seed: u64, out: &str) {
    let mut o = std::io::BufWriter::new(std::fs::File::create(out).expect("out file"));
    for i in 0..n {
        let mut rng = Rng(seed.wrapping_mul(0x9E3779B1).wrapping_add(i).wrapping_add(match class { "burst" => 0, "mutate" => 1 << 32, _ => 2 << 32 }));
        let spawn = match class {
            "burst" => i % 2 == 1,
            _ => rng.chance(2, 3),
        };
        let mut calls = vec![];
        let mut lazy = 0;
        match class {
            "burst" => {
                let nc = 2 + rng.below(5);
                // every other scenario also has suspended property getters / setters in between (they hold the
                // interface lock in a task of their own when the next method call is dispatched)
                let props = (i / 2) % 2 == 1;
                for _ in 0..nc {
                    let ny = rng.below(4);
                    let kind = if rng.chance(1, 5) { "methnr" } else if rng.chance(1, 2) { "meth" } else { "methmut" };
                    calls.push(CallCfg { kind: kind.into(), body: vec!['y'; ny as usize] });
                    if props && rng.chance(1, 3) {
                        calls.push(CallCfg { kind: if rng.chance(1, 2) { "get" } else { "set" }.into(), body: vec!['y'; 1 + rng.below(2) as usize] });
                    }
                }
                if props {
                    let at = rng.below(calls.len() as u64) as usize;
                    calls.insert(at, CallCfg { kind: "set".into(), body: vec!['y'] });
                    calls.truncate(6); // the interfaces have properties P1..P6
                }
            }
            "mutate" => {
                let nc = 1 + rng.below(4);
                for _ in 0..nc {
                    let mut kind = ["meth", "methmut", "get", "set", "intro", "getall", "ping"][rng.below(7) as usize];
                    if kind == "getall" && calls.iter().any(|c: &CallCfg| c.kind == "getall") {
                        kind = "get";
                    }
                    let mut body = vec![];
                    if kind != "intro" && kind != "ping" {
                        for _ in 0..(1 + rng.below(3)) {
                            body.push(['y', 'w', 'e', 'w'][rng.below(4) as usize]);
                        }
                    }
                    calls.push(CallCfg { kind: kind.into(), body });
                }
            }
            _ => {
                lazy = 1 + (i % 3) as u32;
                let nc = 1 + rng.below(2);
                for _ in 0..nc {
                    calls.push(CallCfg { kind: "meth".into(), body: if rng.chance(1, 2) { vec!['y'] } else { vec![] } });
                }
            }
        }
        let steps = match class {
            "burst" => random_steps(&mut rng, &calls, true),
            "lazy" => {
                let mut v = vec![Step::Send];
                v.extend(random_steps(&mut rng, &calls, false));
                v
            }
            _ => {
                let burst = rng.chance(1, 3);
                random_steps(&mut rng, &calls, burst)
            }
        };
        let base = match class { "burst" => 1_000_000, "mutate" => 2_000_000, _ => 3_000_000 };
        let sc = Scenario { id: base + i, class: class.into(), spawn, lazy, calls, steps };
        if std::env::var("OBJ_DEBUG").is_ok() {
            eprintln!("scenario {} spawn={} lazy={} calls={:?} steps={:?}", sc.id, sc.spawn, sc.lazy, sc.calls, sc.steps);
        }
        writeln!(o, "{}", run(&sc)).unwrap();
        o.flush().unwrap();
    }
}
