use crate::sched::*;
use zbus::{interface, object_server::SignalEmitter, ObjectServer};
use std::sync::{Arc, Mutex};
use event_listener::Event;

pub struct I1 { pub val: u32 }
#[interface(name = "org.verif.I1")]
impl I1 {
    fn ping(&self) -> u32 { self.val }
    #[zbus(property)]
    fn val(&self) -> u32 { self.val }
}
pub struct I2 { pub val: u32 }
#[interface(name = "org.verif.I2")]
impl I2 {
    fn ping(&self) -> u32 { self.val }
    #[zbus(property)]
    fn val(&self) -> u32 { self.val }
}

pub struct H { gate: Arc<Event>, log: Arc<Mutex<Vec<String>>> }
#[interface(name = "org.verif.H")]
impl H {
    async fn reg_mut(&mut self, #[zbus(object_server)] s: &ObjectServer) -> u32 {
        self.log.lock().unwrap().push("start".into());
        self.gate.listen().await;
        self.log.lock().unwrap().push("gate passed".into());
        let r = s.at("/x", I1{val: 7}).await;
        self.log.lock().unwrap().push(format!("at -> {:?}", r));
        1
    }
    async fn reg(&self, #[zbus(object_server)] s: &ObjectServer) -> u32 {
        let r = s.at("/y", I1{val: 7}).await;
        self.log.lock().unwrap().push(format!("at -> {:?}", r));
        1
    }
    #[zbus(property)]
    async fn getter(&self, #[zbus(object_server)] s: &ObjectServer) -> u32 {
        self.log.lock().unwrap().push("getter start".into());
        let r = s.at("/z", I1{val: 7}).await;
        self.log.lock().unwrap().push(format!("at -> {:?}", r));
        3
    }
}

pub fn run() {
    // 1 root panic
    {
        let mut p = Pair::new();
        let s = p.server.clone();
        let r = p.drive(async move { s.object_server().at("/", I1{val:1}).await });
        println!("at / I1 -> {:?}", r);
        let s = p.server.clone();
        let r = p.drive(async move { s.object_server().remove::<I1,_>("/").await });
        println!("remove / I1 -> {:?}", r);
        let s = p.server.clone();
        let r = p.drive(async move { s.object_server().at("/", I1{val:1}).await });
        println!("at / I1 again -> {:?}", r);
    }
    // 2 prune
    {
        let mut p = Pair::new();
        let s = p.server.clone();
        let r = p.drive(async move {
            let os = s.object_server();
            let a = os.at("/a", I1{val:1}).await;
            let b = os.at("/a/b", I2{val:2}).await;
            let c = os.remove::<I1,_>("/a").await;
            let d = os.interface::<_, I2>("/a/b").await.is_ok();
            (a,b,c,d)
        });
        println!("prune: {:?}", r);
    }
    // 3 getter
    {
        let mut p = Pair::new();
        let log = Arc::new(Mutex::new(vec![]));
        let gate = Arc::new(Event::new());
        let s = p.server.clone();
        let (l2, g2) = (log.clone(), gate.clone());
        let r = p.drive(async move { s.object_server().at("/h", H{gate: g2, log: l2}).await });
        println!("at /h -> {:?}", r);
        let c = p.client.clone();
        let r = p.drive(async move { c.call_method(None::<()>, "/h", Some("org.verif.H"), "Reg", &()).await.map(|m| m.body().deserialize::<u32>().unwrap()) });
        println!("Reg -> {:?} log {:?}", r, log.lock().unwrap());
        let c = p.client.clone();
        let r = p.drive(async move { c.call_method(None::<()>, "/h", Some("org.freedesktop.DBus.Properties"), "Get", &("org.verif.H", "Getter")).await.map(|m| format!("{:?}", m)) });
        println!("Get -> {:?} log {:?}", r, log.lock().unwrap());
    }
    // 4 mut handler + introspect
    {
        let mut p = Pair::new();
        let log = Arc::new(Mutex::new(vec![]));
        let gate = Arc::new(Event::new());
        let s = p.server.clone();
        let (l2, g2) = (log.clone(), gate.clone());
        p.drive(async move { s.object_server().at("/h", H{gate: g2, log: l2}).await });
        let c = p.client.clone();
        let mut j1 = Job::new(async move { c.call_method(None::<()>, "/h", Some("org.verif.H"), "RegMut", &()).await.map(|m| m.body().deserialize::<u32>().unwrap()) });
        p.settle(&mut [&mut j1]);
        println!("after settle1: done={} log {:?}", j1.done(), log.lock().unwrap());
        let c = p.client.clone();
        let mut j2 = Job::new(async move { c.call_method(None::<()>, "/h", Some("org.freedesktop.DBus.Introspectable"), "Introspect", &()).await.map(|m| m.body().deserialize::<String>().unwrap().len()) });
        p.settle(&mut [&mut j1, &mut j2]);
        println!("after settle2: done={} {} log {:?}", j1.done(), j2.done(), log.lock().unwrap());
        gate.notify(usize::MAX);
        p.settle(&mut [&mut j1, &mut j2]);
        println!("after gate: done={} {} log {:?} j1={:?} j2={:?}", j1.done(), j2.done(), log.lock().unwrap(), j1.out, j2.out);
    }
    // 5 lazy
    for variant in 0..3 {
        let mut p = Pair::new();
        if variant == 1 { p.settle(&mut []); }
        if variant == 2 {
            p.settle(&mut []);
            // wake the reader with an earlier message
            let c = p.client.clone();
            let mut j = Job::new(async move { c.emit_signal(None::<()>, "/q", "org.verif.Q", "Sig", &()).await });
            j.poll();
            println!("  presignal sent: {:?}", j.out);
        }
        let s = p.server.clone();
        let mut j0 = Job::new(async move { s.object_server().at("/a", I1{val:1}).await });
        j0.poll();
        println!("lazy v{}: at returned {:?} ticks so far {}", variant, j0.out, p.ticks);
        let c = p.client.clone();
        let mut j1 = Job::new(async move { c.call_method(None::<()>, "/a", Some("org.verif.I1"), "Ping", &()).await.map(|m| m.body().deserialize::<u32>().unwrap()) });
        p.settle(&mut [&mut j1]);
        println!("lazy v{}: call -> {:?}", variant, j1.out);
    }
}
