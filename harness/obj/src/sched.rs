//! Deterministic single-threaded scheduler for a p2p pair of zbus connections.
//!
//! Both connections are built with `internal_executor(false)` on the two ends of an in-memory
//! `Channel::pair()`, so nothing runs unless this module polls it:
//!   * zbus's own tasks (socket reader, object-server dispatcher, spawned method handlers) run one
//!     at a time when `tick()` polls `conn.executor().tick()` once;
//!   * user-level futures (client calls, server-side API calls) are `Job`s that are polled explicitly.
//! `settle()` runs everything until no executor has a runnable task and no job was woken or
//! finished: *quiescence*.  A job still pending at quiescence is the observable form of a hang.
#![allow(dead_code)]
use std::future::Future;
use std::pin::Pin;
use std::sync::atomic::{AtomicBool, Ordering};
use std::sync::Arc;
use std::task::{Context, Poll, Wake, Waker};

use zbus::connection::socket::Channel;
use zbus::connection::Builder;
use zbus::{Connection, Guid};

/// splitmix64 (same generator as harness/wire/src/model.rs)
pub struct Rng(pub u64);
impl Rng {
    pub fn next(&mut self) -> u64 {
        self.0 = self.0.wrapping_add(0x9E3779B97F4A7C15);
        let mut z = self.0;
        z = (z ^ (z >> 30)).wrapping_mul(0xBF58476D1CE4E5B9);
        z = (z ^ (z >> 27)).wrapping_mul(0x94D049BB133111EB);
        z ^ (z >> 31)
    }
    pub fn below(&mut self, n: u64) -> u64 {
        self.next() % n.max(1)
    }
    pub fn chance(&mut self, num: u64, den: u64) -> bool {
        self.below(den) < num
    }
}

/// Outcome of running `f` under catch_unwind (a panic inside the code under test is data).
pub static IN_GUARD: AtomicBool = AtomicBool::new(false);
pub fn guarded<T>(f: impl FnOnce() -> T) -> Result<T, String> {
    IN_GUARD.store(true, Ordering::SeqCst);
    let r = std::panic::catch_unwind(std::panic::AssertUnwindSafe(f));
    IN_GUARD.store(false, Ordering::SeqCst);
    r.map_err(|e| {
        if let Some(s) = e.downcast_ref::<&str>() {
            s.to_string()
        } else if let Some(s) = e.downcast_ref::<String>() {
            s.clone()
        } else {
            "panic".to_string()
        }
    })
}

struct Flag(AtomicBool);
impl Wake for Flag {
    fn wake(self: Arc<Self>) {
        self.0.store(true, Ordering::SeqCst);
    }
    fn wake_by_ref(self: &Arc<Self>) {
        self.0.store(true, Ordering::SeqCst);
    }
}

/// A user-level future polled by the scheduler; remembers whether it was woken since its last poll.
pub struct Job<T> {
    fut: Option<Pin<Box<dyn Future<Output = T>>>>,
    flag: Arc<Flag>,
    pub out: Option<Result<T, String>>,
}

impl<T> Job<T> {
    pub fn new(f: impl Future<Output = T> + 'static) -> Self {
        Job { fut: Some(Box::pin(f)), flag: Arc::new(Flag(AtomicBool::new(true))), out: None }
    }
    pub fn done(&self) -> bool {
        self.out.is_some()
    }
    /// Poll once (if not finished).  Returns true if it finished now.  A panic inside the future is
    /// caught and becomes `Err(msg)`.
    pub fn poll(&mut self) -> bool {
        let Some(f) = self.fut.as_mut() else { return false };
        self.flag.0.store(false, Ordering::SeqCst);
        let w = Waker::from(self.flag.clone());
        let mut cx = Context::from_waker(&w);
        match guarded(|| f.as_mut().poll(&mut cx)) {
            Ok(Poll::Ready(v)) => {
                self.out = Some(Ok(v));
                self.fut = None;
                true
            }
            Ok(Poll::Pending) => false,
            Err(p) => {
                self.out = Some(Err(p));
                self.fut = None;
                true
            }
        }
    }
    pub fn woken(&self) -> bool {
        self.fut.is_some() && self.flag.0.load(Ordering::SeqCst)
    }
    pub fn take(&mut self) -> Option<Result<T, String>> {
        self.out.take()
    }
}

pub trait Pollable {
    fn poll_job(&mut self) -> bool;
    fn is_woken(&self) -> bool;
    fn is_done(&self) -> bool;
}
impl<T> Pollable for Job<T> {
    fn poll_job(&mut self) -> bool {
        self.poll()
    }
    fn is_woken(&self) -> bool {
        self.woken()
    }
    fn is_done(&self) -> bool {
        self.done()
    }
}

pub fn noop_cx<R>(f: impl FnOnce(&mut Context<'_>) -> R) -> R {
    let flag = Arc::new(Flag(AtomicBool::new(false)));
    let w = Waker::from(flag);
    let mut cx = Context::from_waker(&w);
    f(&mut cx)
}

/// Poll a future that must complete without anybody else running (connection build).
pub fn now<T>(f: impl Future<Output = T>) -> T {
    let mut f = Box::pin(f);
    for _ in 0..10_000 {
        if let Poll::Ready(v) = noop_cx(|cx| f.as_mut().poll(cx)) {
            return v;
        }
    }
    panic!("harness: future expected to be immediately ready stayed pending");
}

/// Run one runnable task of the connection's executor, if any.
pub fn tick(conn: &Connection) -> bool {
    let mut t = Box::pin(conn.executor().tick());
    noop_cx(|cx| t.as_mut().poll(cx)).is_ready()
}

pub struct Pair {
    pub server: Connection,
    pub client: Connection,
    pub ticks: u64,
}

impl Pair {
    /// A fresh in-memory p2p pair; no task of either side has run yet.
    pub fn new() -> Pair {
        let guid = Guid::generate();
        let (a, b) = Channel::pair();
        let server = now(Builder::authenticated_socket(a, guid.clone()).unwrap().p2p().internal_executor(false).build())
            .expect("server build");
        let client = now(Builder::authenticated_socket(b, guid).unwrap().p2p().internal_executor(false).build())
            .expect("client build");
        Pair { server, client, ticks: 0 }
    }

    pub fn tick_server(&mut self) -> bool {
        let r = tick(&self.server);
        if r {
            self.ticks += 1;
        }
        r
    }
    pub fn tick_client(&mut self) -> bool {
        let r = tick(&self.client);
        if r {
            self.ticks += 1;
        }
        r
    }

    /// Run executors and jobs to quiescence.  Returns the number of rounds that made progress.
    pub fn settle(&mut self, jobs: &mut [&mut dyn Pollable]) -> u32 {
        let mut rounds = 0;
        loop {
            let mut progress = false;
            for j in jobs.iter_mut() {
                if !j.is_done() && j.is_woken() && j.poll_job() {
                    progress = true;
                }
            }
            let mut guard = 0u32;
            loop {
                let a = self.tick_server();
                let b = self.tick_client();
                if !(a || b) {
                    break;
                }
                progress = true;
                guard += 1;
                if guard > 1_000_000 {
                    panic!("harness: executors never become idle (livelock)");
                }
            }
            if jobs.iter().any(|j| j.is_woken()) {
                progress = true;
            }
            if !progress {
                return rounds;
            }
            rounds += 1;
            if rounds > 1_000_000 {
                panic!("harness: no quiescence after 1e6 rounds");
            }
        }
    }

    /// Drive one future to completion together with both executors; None = still pending at quiescence.
    pub fn drive<T>(&mut self, f: impl Future<Output = T> + 'static) -> Option<Result<T, String>> {
        let mut j = Job::new(f);
        self.settle(&mut [&mut j]);
        j.take()
    }
}

/// Poll a stream once: Some(item) if one is ready (item None = stream ended), None if pending.
pub fn poll_stream<S: futures_util::Stream + Unpin>(s: &mut S) -> Option<Option<S::Item>> {
    use futures_util::StreamExt;
    match noop_cx(|cx| s.poll_next_unpin(cx)) {
        Poll::Ready(x) => Some(x),
        Poll::Pending => None,
    }
}
