//! C24 / C25: replay of at/remove histories on a real `ObjectServer` (p2p pair, deterministic
//! scheduler) with a projection of the observable state after every step.  The harness only records;
//! spec/trace/ObjTreeTrace.tla decides.
//!
//! input  (one scenario per line): {"id":N,"ops":[{"op":"at"|"remove","p":PATH,"i":"I1"|"I2"|"OM","v":N}]}
//! output (one scenario per line): {"id":N,"steps":[{op,p,i,v,res,look,call,intro,kids,listing,sigs,hung}]}
//!   res     "added" | "refused" (at: Ok(true) / Ok(false)), "ok" (remove: Ok(_)), "err", "panic", "hang"
//!   look    [[p,i,v]] pairs `ObjectServer::interface::<_, I>(p)` finds (v = the instance's value; OM: 1)
//!   call    [[p,i,v]] pairs that answer a method call from the client (I1/I2: Ping -> v; OM: GetManagedObjects)
//!   intro   [[p,i]]   interfaces in the Introspect reply of every node (standard ones dropped)
//!   kids    [[p,name]] child nodes in the Introspect reply of every node
//!   listing {m: [[p,i,v]]} GetManagedObjects reply of every path that answers it (v = property Val)
//!   sigs    [{m,k:"IA"|"IR",p,ifs:[[i,v]]}] ObjectManager signals received by the client during the step
//!   hung    number of projection calls still pending at quiescence
use crate::sched::*;
use serde_json::{json, Value as J};
use std::collections::HashMap;
use std::io::{BufRead, Write};
use std::task::Poll;
use zbus::fdo::ObjectManager;
use zbus::zvariant::{OwnedObjectPath, OwnedValue};
use zbus::{interface, MessageStream};

pub const PATHS: [&str; 4] = ["/", "/a", "/a/b", "/c"];
pub const IFACES: [&str; 3] = ["I1", "I2", "OM"];
const N_I1: &str = "org.verif.I1";
const N_I2: &str = "org.verif.I2";
const N_OM: &str = "org.freedesktop.DBus.ObjectManager";

// A gate the property getters pass through: open except while an "atrm" operation holds a registration in its
// property-collection window.
static GATE_OPEN: std::sync::atomic::AtomicBool = std::sync::atomic::AtomicBool::new(true);
static GATE_WAKERS: std::sync::Mutex<Vec<std::task::Waker>> = std::sync::Mutex::new(Vec::new());
struct GateFut;
impl std::future::Future for GateFut {
    type Output = ();
    fn poll(self: std::pin::Pin<&mut Self>, cx: &mut std::task::Context<'_>) -> Poll<()> {
        if GATE_OPEN.load(std::sync::atomic::Ordering::SeqCst) {
            Poll::Ready(())
        } else {
            GATE_WAKERS.lock().unwrap().push(cx.waker().clone());
            Poll::Pending
        }
    }
}
fn set_gate(open: bool) {
    GATE_OPEN.store(open, std::sync::atomic::Ordering::SeqCst);
    if open {
        for w in GATE_WAKERS.lock().unwrap().drain(..) {
            w.wake();
        }
    }
}

pub struct I1 {
    pub val: u32,
}
#[interface(name = "org.verif.I1")]
impl I1 {
    fn ping(&self) -> u32 {
        self.val
    }
    #[zbus(property)]
    async fn val(&self) -> u32 {
        GateFut.await;
        self.val
    }
}
pub struct I2 {
    pub val: u32,
}
#[interface(name = "org.verif.I2")]
impl I2 {
    fn ping(&self) -> u32 {
        self.val
    }
    #[zbus(property)]
    async fn val(&self) -> u32 {
        GateFut.await;
        self.val
    }
}

fn short(name: &str) -> Option<&'static str> {
    match name {
        N_I1 => Some("I1"),
        N_I2 => Some("I2"),
        N_OM => Some("OM"),
        _ => None,
    }
}
fn long(i: &str) -> &'static str {
    match i {
        "I1" => N_I1,
        "I2" => N_I2,
        _ => N_OM,
    }
}

type Managed = HashMap<OwnedObjectPath, HashMap<String, HashMap<String, OwnedValue>>>;

fn val_of(props: &HashMap<String, OwnedValue>) -> u32 {
    props.get("Val").and_then(|v| u32::try_from(v).ok()).unwrap_or(0)
}

enum CallOut {
    Ping(Option<u32>),
    Managed(Option<Managed>),
    Xml(Option<String>),
}

/// Concrete element names for the abstract tree (ObjTree!Namings): the model is about the shape of the tree
/// only, so every history must behave alike whatever the elements of /a, /a/b and /c are called.
#[derive(Clone)]
pub struct Naming {
    conc: [String; 4],
}

impl Naming {
    pub fn new(a: &str, b: &str, c: &str) -> Naming {
        Naming { conc: ["/".to_string(), format!("/{a}"), format!("/{a}/{b}"), format!("/{c}")] }
    }
    pub fn identity() -> Naming {
        Naming::new("a", "b", "c")
    }
    pub fn table() -> Vec<[&'static str; 3]> {
        vec![["a", "b", "c"], ["a", "a", "aa"], ["dev10", "1", "dev"], ["ab", "a", "b"], ["a_b", "b", "a"], ["b", "c", "a"]]
    }
    /// abstract -> concrete
    fn c(&self, p: &str) -> String {
        PATHS.iter().position(|x| *x == p).map(|i| self.conc[i].clone()).unwrap_or_else(|| p.to_string())
    }
    /// concrete -> abstract (unknown paths are kept, marked, so that the validator sees them)
    fn a(&self, p: &str) -> String {
        self.conc.iter().position(|x| x == p).map(|i| PATHS[i].to_string()).unwrap_or_else(|| format!("?{p}"))
    }
    /// child element `k` of abstract node `p` -> the abstract element name
    fn kid(&self, p: &str, k: &str) -> String {
        let cp = self.c(p);
        let full = if cp == "/" { format!("/{k}") } else { format!("{cp}/{k}") };
        match self.conc.iter().position(|x| *x == full) {
            Some(i) => PATHS[i].rsplit('/').next().unwrap().to_string(),
            None => format!("?{k}"),
        }
    }
    fn json(&self) -> J {
        json!(self.conc)
    }
}

pub struct World {
    pub pair: Pair,
    stream: MessageStream,
    names: Naming,
}

impl World {
    pub fn new() -> World {
        World::named(Naming::identity())
    }

    pub fn named(names: Naming) -> World {
        let mut pair = Pair::new();
        let stream = MessageStream::from(&pair.client);
        // let the lazily created object-server task subscribe before any call is sent (C30 covers the
        // case where it has not)
        let _ = pair.server.object_server();
        pair.settle(&mut []);
        World { pair, stream, names }
    }

    /// ObjectManager signals received by the client since the last call, in order.
    fn drain_signals(&mut self) -> Vec<J> {
        let mut out = vec![];
        loop {
            let Some(Some(Ok(msg))) = poll_stream(&mut self.stream) else { break };
            let hdr = msg.header();
            if hdr.message_type() != zbus::message::Type::Signal {
                continue;
            }
            if hdr.interface().map(|i| i.as_str()) != Some(N_OM) {
                continue;
            }
            let m = hdr.path().map(|p| self.names.a(p.as_str())).unwrap_or_default();
            match hdr.member().map(|m| m.to_string()).as_deref() {
                Some("InterfacesAdded") => {
                    if let Ok((p, ifs)) =
                        msg.body().deserialize::<(OwnedObjectPath, HashMap<String, HashMap<String, OwnedValue>>)>()
                    {
                        let mut l: Vec<(String, u32)> = ifs
                            .iter()
                            .filter_map(|(n, props)| short(n).map(|s| (s.to_string(), val_of(props))))
                            .collect();
                        l.sort();
                        out.push(json!({"m": m, "k": "IA", "p": self.names.a(p.as_str()),
                            "ifs": l.iter().map(|(i, v)| json!([i, v])).collect::<Vec<_>>()}));
                    }
                }
                Some("InterfacesRemoved") => {
                    if let Ok((p, ifs)) = msg.body().deserialize::<(OwnedObjectPath, Vec<String>)>() {
                        let mut l: Vec<String> = ifs.iter().filter_map(|n| short(n).map(|s| s.to_string())).collect();
                        l.sort();
                        out.push(json!({"m": m, "k": "IR", "p": self.names.a(p.as_str()),
                            "ifs": l.iter().map(|i| json!([i, 0])).collect::<Vec<_>>()}));
                    }
                }
                _ => {}
            }
        }
        out
    }

    /// "atrm": `at(p, i)` and `remove(p, i)` issued concurrently - the registration is held in its
    /// property-collection window (the getter gate is shut) when the removal is issued, then the gate opens.  The
    /// object server serialises the two (ObjTree: the effect is that of at followed by remove).
    fn apply_race(&mut self, p: &str, i: &str, v: u32) -> &'static str {
        let path = self.names.c(p);
        let (s1, s2) = (self.pair.server.clone(), self.pair.server.clone());
        let (p1, p2) = (path.clone(), path);
        let first = i == "I1";
        set_gate(false);
        let mut ja = Job::new(async move {
            let os = s1.object_server();
            if first { os.at(p1.as_str(), I1 { val: v }).await } else { os.at(p1.as_str(), I2 { val: v }).await }
        });
        {
            let mut refs: Vec<&mut dyn Pollable> = vec![&mut ja];
            self.pair.settle(&mut refs);
        }
        let mut jr = Job::new(async move {
            let os = s2.object_server();
            if first { os.remove::<I1, _>(p2.as_str()).await } else { os.remove::<I2, _>(p2.as_str()).await }
        });
        {
            let mut refs: Vec<&mut dyn Pollable> = vec![&mut ja, &mut jr];
            self.pair.settle(&mut refs);
        }
        set_gate(true);
        {
            let mut refs: Vec<&mut dyn Pollable> = vec![&mut ja, &mut jr];
            self.pair.settle(&mut refs);
        }
        let a = match ja.take() { None => "hang", Some(Err(_)) => "panic", Some(Ok(Err(_))) => "err", Some(Ok(Ok(true))) => "added", Some(Ok(Ok(false))) => "refused" };
        let r = match jr.take() { None => "hang", Some(Err(_)) => "panic", Some(Ok(Err(_))) => "err", Some(Ok(Ok(_))) => "ok" };
        match (a, r) {
            ("added", "ok") => "added+ok",
            ("refused", "ok") => "refused+ok",
            ("added", "err") => "added+err",
            ("refused", "err") => "refused+err",
            (_, "panic") | ("panic", _) => "panic",
            _ => "hang",
        }
    }

    /// Perform one operation through the public API; returns the abstract result.
    pub fn apply(&mut self, op: &str, p: &str, i: &str, v: u32) -> &'static str {
        if op == "atrm" {
            return self.apply_race(p, i, v);
        }
        let s = self.pair.server.clone();
        let path = self.names.c(p);
        let which = i.to_string();
        let is_at = op == "at";
        let r = self.pair.drive(async move {
            let os = s.object_server();
            if is_at {
                match which.as_str() {
                    "I1" => os.at(path.as_str(), I1 { val: v }).await,
                    "I2" => os.at(path.as_str(), I2 { val: v }).await,
                    _ => os.at(path.as_str(), ObjectManager).await,
                }
            } else {
                match which.as_str() {
                    "I1" => os.remove::<I1, _>(path.as_str()).await,
                    "I2" => os.remove::<I2, _>(path.as_str()).await,
                    _ => os.remove::<ObjectManager, _>(path.as_str()).await,
                }
            }
        });
        match r {
            None => "hang",
            Some(Err(_)) => "panic",
            Some(Ok(Err(_))) => "err",
            Some(Ok(Ok(b))) => {
                if is_at {
                    if b {
                        "added"
                    } else {
                        "refused"
                    }
                } else {
                    "ok"
                }
            }
        }
    }

    /// Projection of everything a user can observe about the registry.
    pub fn project(&mut self) -> J {
        // 1. server-side lookup
        let s = self.pair.server.clone();
        let names = self.names.clone();
        let look = self
            .pair
            .drive(async move {
                let os = s.object_server();
                let mut out = vec![];
                for p in PATHS {
                    let cp = names.c(p);
                    if let Ok(r) = os.interface::<_, I1>(cp.as_str()).await {
                        out.push(json!([p, "I1", r.get().await.val]));
                    }
                    if let Ok(r) = os.interface::<_, I2>(cp.as_str()).await {
                        out.push(json!([p, "I2", r.get().await.val]));
                    }
                    if os.interface::<_, ObjectManager>(cp.as_str()).await.is_ok() {
                        out.push(json!([p, "OM", 1]));
                    }
                }
                out
            })
            .and_then(|r| r.ok());
        // 2. calls from the client, all in flight together
        let mut jobs: Vec<(usize, usize, Job<CallOut>)> = vec![];
        for (pi, p) in PATHS.iter().enumerate() {
            for (ii, i) in IFACES.iter().enumerate() {
                let c = self.pair.client.clone();
                let p = self.names.c(p);
                let om = *i == "OM";
                let name = long(i);
                jobs.push((pi, ii, Job::new(async move {
                    if om {
                        let r = c.call_method(None::<()>, p.as_str(), Some(name), "GetManagedObjects", &()).await;
                        CallOut::Managed(r.ok().and_then(|m| m.body().deserialize::<Managed>().ok()))
                    } else {
                        let r = c.call_method(None::<()>, p.as_str(), Some(name), "Ping", &()).await;
                        CallOut::Ping(r.ok().and_then(|m| m.body().deserialize::<u32>().ok()))
                    }
                })));
            }
            let c = self.pair.client.clone();
            let p = self.names.c(p);
            jobs.push((pi, 9, Job::new(async move {
                let r = c
                    .call_method(None::<()>, p.as_str(), Some("org.freedesktop.DBus.Introspectable"), "Introspect", &())
                    .await;
                CallOut::Xml(r.ok().and_then(|m| m.body().deserialize::<String>().ok()))
            })));
        }
        {
            let mut refs: Vec<&mut dyn Pollable> = jobs.iter_mut().map(|j| &mut j.2 as &mut dyn Pollable).collect();
            self.pair.settle(&mut refs);
        }
        let mut call = vec![];
        let mut intro = vec![];
        let mut kids = vec![];
        let mut listing = serde_json::Map::new();
        let mut hung = 0;
        for (pi, ii, j) in jobs.iter_mut() {
            let p = PATHS[*pi];
            match j.take() {
                None => hung += 1,
                Some(Err(_)) => hung += 1,
                Some(Ok(CallOut::Ping(Some(v)))) => call.push(json!([p, IFACES[*ii], v])),
                Some(Ok(CallOut::Ping(None))) => {}
                Some(Ok(CallOut::Managed(Some(m)))) => {
                    call.push(json!([p, "OM", 1]));
                    let mut l: Vec<(String, String, u32)> = vec![];
                    for (op, ifs) in m.iter() {
                        for (n, props) in ifs.iter() {
                            // unknown interface names are kept verbatim so that the validator sees them
                            let i = short(n).map(|s| s.to_string()).unwrap_or_else(|| n.clone());
                            l.push((self.names.a(op.as_str()), i, val_of(props)));
                        }
                    }
                    l.sort();
                    listing.insert(p.to_string(), J::Array(l.iter().map(|(a, b, c)| json!([a, b, c])).collect()));
                }
                Some(Ok(CallOut::Managed(None))) => {}
                Some(Ok(CallOut::Xml(Some(x)))) => match zbus_xml::Node::from_reader(x.as_bytes()) {
                    Ok(n) => {
                        let mut is: Vec<&str> = n.interfaces().iter().filter_map(|i| short(i.name().as_str())).collect();
                        is.sort();
                        for i in is {
                            intro.push(json!([p, i]));
                        }
                        let mut ks: Vec<String> = n.nodes().iter().filter_map(|c| c.name().map(|s| s.to_string())).collect();
                        ks.sort();
                        for k in ks {
                            kids.push(json!([p, self.names.kid(p, &k)]));
                        }
                    }
                    Err(_) => intro.push(json!([p, "UNPARSABLE"])),
                },
                Some(Ok(CallOut::Xml(None))) => {}
            }
        }
        json!({"look": look.map(J::Array).unwrap_or(J::String("hang".into())), "call": call, "intro": intro,
               "kids": kids, "listing": listing, "hung": hung})
    }

    pub fn step(&mut self, op: &str, p: &str, i: &str, v: u32) -> J {
        let res = self.apply(op, p, i, v);
        self.pair.settle(&mut []);
        let mut sigs = self.drain_signals();
        let mut st = self.project();
        sigs.extend(self.drain_signals());
        let o = st.as_object_mut().unwrap();
        o.insert("op".into(), json!(op));
        o.insert("p".into(), json!(p));
        o.insert("i".into(), json!(i));
        o.insert("v".into(), json!(v));
        o.insert("res".into(), json!(res));
        o.insert("sigs".into(), J::Array(sigs));
        st
    }
}

fn run_scenario(id: u64, ops: &[(String, String, String, u32)], names: Naming) -> J {
    let nj = names.json();
    let mut w = World::named(names);
    let mut steps = vec![];
    for (op, p, i, v) in ops {
        steps.push(w.step(op, p, i, *v));
    }
    json!({"id": id, "names": nj, "steps": steps})
}

/// replay TLC-generated histories
pub fn replay(cases: &str, out: &str) {
    let f = std::io::BufReader::new(std::fs::File::open(cases).expect("cases file"));
    let mut o = std::io::BufWriter::new(std::fs::File::create(out).expect("out file"));
    for line in f.lines() {
        let line = line.unwrap();
        if line.trim().is_empty() {
            continue;
        }
        let c: J = serde_json::from_str(&line).expect("case json");
        let ops: Vec<(String, String, String, u32)> = c["ops"]
            .as_array()
            .unwrap()
            .iter()
            .map(|o| {
                (o["op"].as_str().unwrap().to_string(), o["p"].as_str().unwrap().to_string(),
                 o["i"].as_str().unwrap().to_string(), o["v"].as_u64().unwrap() as u32)
            })
            .collect();
        // element names chosen by the generator (Gen_ObjTree: names = <<a, b, c>>); identity when absent
        let names = match c.get("names").and_then(|n| n.as_array()) {
            Some(n) if n.len() == 3 => Naming::new(n[0].as_str().unwrap(), n[1].as_str().unwrap(), n[2].as_str().unwrap()),
            _ => Naming::identity(),
        };
        let r = run_scenario(c["id"].as_u64().unwrap_or(0), &ops, names);
        writeln!(o, "{}", r).unwrap();
    }
}

/// seeded random long histories
pub fn random(n: u64, len: u64, seed: u64, out: &str) {
    let mut o = std::io::BufWriter::new(std::fs::File::create(out).expect("out file"));
    for k in 0..n {
        let mut rng = Rng(seed.wrapping_mul(0x1000193).wrapping_add(k));
        // per-scenario bias: how often to register rather than remove, how often to touch managers
        let at_bias = 40 + rng.below(35);
        let om_bias = 10 + rng.below(30);
        let mut ops = vec![];
        for s in 0..len {
            let p = PATHS[rng.below(4) as usize];
            let i = if rng.below(100) < om_bias { "OM" } else if rng.chance(1, 2) { "I1" } else { "I2" };
            let mut op = if rng.below(100) < at_bias { "at" } else { "remove" };
            if i != "OM" && rng.chance(1, 8) {
                op = "atrm"; // registration and removal of the same pair issued concurrently
            }
            ops.push((op.to_string(), p.to_string(), i.to_string(), if op != "remove" { (s + 1) as u32 } else { 0 }));
        }
        let t = Naming::table();
        let n = t[rng.below(t.len() as u64) as usize];
        let r = run_scenario(1_000_000 + k, &ops, Naming::new(n[0], n[1], n[2]));
        writeln!(o, "{}", r).unwrap();
    }
}
