//! Abstraction of a `zbus::message::Message` as seen through its public accessors, in the abstract
//! model of spec/MsgLayout.tla:
//!   header  {"type":n,"flags":n,"serial":[4 bytes BE],"fields":[{"c":code,"t":T,"v":V},..]}
//!   sig     the body signature as the API shows it: {"k":"unit"} or a type tree
//!   body    {"ts":[T..],"vs":[V..]}  fields of the body deserialized as a dynamic Structure
use crate::model::*;
use serde_json::{json, Value as J};
use std::os::fd::AsRawFd;
use zbus::message::{Header, Message};
use zvariant::Structure;

fn sfield(c: u8, kind: &str, s: &str) -> J {
    json!({"c":c,"t":{"k":kind},"v":{"s":jbytes(s.as_bytes())}})
}
fn ufield(c: u8, n: u32) -> J {
    json!({"c":c,"t":{"k":"u"},"v":{"b":jbytes(&n.to_be_bytes())}})
}

/// Header fields except SIGNATURE (reported separately as `sig`), in code order.
pub fn abstract_header(h: &Header<'_>) -> J {
    let p = h.primary();
    let mut fields = vec![];
    if let Some(x) = h.path() {
        fields.push(sfield(1, "o", x.as_str()));
    }
    if let Some(x) = h.interface() {
        fields.push(sfield(2, "s", x.as_str()));
    }
    if let Some(x) = h.member() {
        fields.push(sfield(3, "s", x.as_str()));
    }
    if let Some(x) = h.error_name() {
        fields.push(sfield(4, "s", x.as_str()));
    }
    if let Some(x) = h.reply_serial() {
        fields.push(ufield(5, x.get()));
    }
    if let Some(x) = h.destination() {
        fields.push(sfield(6, "s", x.as_str()));
    }
    if let Some(x) = h.sender() {
        fields.push(sfield(7, "s", x.as_str()));
    }
    if let Some(x) = h.unix_fds() {
        fields.push(ufield(9, x));
    }
    json!({
        "type": p.msg_type() as u8,
        "flags": p.flags().bits(),
        "serial": jbytes(&p.serial_num().get().to_be_bytes()),
        "fields": fields,
        "body_len": p.body_len(),
        "le": matches!(p.endian_sig(), zbus::message::EndianSig::Little),
        "version": p.protocol_version(),
    })
}

/// Everything C11 compares of a (re-)parsed message.  Runs under the caller's catch_unwind.
pub fn abstract_message(m: &Message) -> J {
    let h = m.header();
    let hdr = abstract_header(&h);
    let sig = type_of_sig(h.signature());
    let body = m.body();
    let raws: Vec<i32> = m.data().fds().iter().map(|f| f.as_raw_fd()).collect();
    let b = if matches!(body.signature(), zvariant::Signature::Unit) {
        json!({"outcome":"none"})
    } else {
        match body.deserialize::<Structure<'_>>() {
            Ok(s) => {
                let mut ts = vec![];
                let mut vs = vec![];
                let mut z = 0;
                for f in s.fields() {
                    let (t, v) = abstract_of(f, &mut z, Some(&FdIndex(&raws)));
                    ts.push(t);
                    vs.push(v);
                }
                json!({"outcome":"ok","ts":ts,"vs":vs})
            }
            Err(e) => json!({"outcome":"err","msg":e.to_string()}),
        }
    };
    json!({"outcome":"ok","hdr":hdr,"sig":sig,"body_sig_same": body.signature() == h.signature(),
           "body_len": body.len(), "body":b, "nfds": m.data().fds().len()})
}
