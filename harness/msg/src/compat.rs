//! C13: valid messages with unknown header field codes / flag bits / message types, alone and in a
//! stream between normal messages.
//!
//! Case (spec/gen/Gen_MsgCompat.tla): {"id":n,"kind":"field|flag|type|..","odd":i,"stream":[[bytes],..]}
//! Observed:
//!   single: Message::from_bytes on stream[odd-1]: outcome + abstract header
//!   conn:   a p2p connection whose socket delivers the concatenated stream and then EOF; the items
//!           of `MessageStream` until it ends: {"k":"msg","serial":[4]} | {"k":"err","msg":..}
//!     mode "script": a scripted `ReadHalf` (public `socket::ReadHalf` trait) behind
//!                    `Builder::authenticated_socket(..).p2p()`; reading is gated until the
//!                    MessageStream exists (the reader starts in build(); early messages would be
//!                    dropped for lack of a receiver), so the run is deterministic;
//!     mode "unix":   a real zbus p2p server/client pair over `UnixStream::pair()` (SASL handshake),
//!                    the crafted bytes written to a clone of the server-side stream, then shutdown.
use crate::mk;
use crate::model::*;
use event_listener::Event;
use futures_util::StreamExt;
use serde_json::{json, Value as J};
use std::io::Write;
use std::os::fd::{BorrowedFd, OwnedFd};
use std::os::unix::net::UnixStream;
use std::panic::AssertUnwindSafe;
use std::sync::atomic::{AtomicBool, Ordering};
use std::sync::Arc;
use zbus::connection::socket::{ReadHalf, Split, WriteHalf};
use zbus::connection::Builder;
use zbus::{Guid, MessageStream};

#[derive(Debug)]
struct Gate {
    open: AtomicBool,
    ev: Event,
}

#[derive(Debug)]
struct ScriptRead {
    data: Vec<u8>,
    pos: usize,
    chunk: usize,
    gate: Arc<Gate>,
}

#[async_trait::async_trait]
impl ReadHalf for ScriptRead {
    async fn recvmsg(&mut self, buf: &mut [u8]) -> std::io::Result<(usize, Vec<OwnedFd>)> {
        loop {
            if self.gate.open.load(Ordering::SeqCst) {
                break;
            }
            let l = self.gate.ev.listen();
            if self.gate.open.load(Ordering::SeqCst) {
                break;
            }
            l.await;
        }
        let n = buf.len().min(self.data.len() - self.pos).min(self.chunk);
        buf[..n].copy_from_slice(&self.data[self.pos..self.pos + n]);
        self.pos += n;
        Ok((n, vec![])) // 0 = end of stream
    }
}

#[derive(Debug)]
struct NullWrite;

#[async_trait::async_trait]
impl WriteHalf for NullWrite {
    async fn sendmsg(&mut self, buffer: &[u8], _fds: &[BorrowedFd<'_>]) -> std::io::Result<usize> {
        Ok(buffer.len())
    }
    async fn close(&mut self) -> std::io::Result<()> {
        Ok(())
    }
}

fn item(r: &zbus::Result<zbus::Message>) -> J {
    match r {
        Ok(m) => json!({"k":"msg","serial":jbytes(&m.primary_header().serial_num().get().to_be_bytes())}),
        Err(e) => json!({"k":"err","msg":e.to_string()}),
    }
}

/// Drain the stream until it ends (the reader stops after the first error item; EOF of the script is
/// such an error).  `limit` bounds a misbehaving implementation.
async fn drain(stream: &mut MessageStream, limit: usize) -> (Vec<J>, bool) {
    let mut items = vec![];
    while items.len() < limit {
        match stream.next().await {
            None => return (items, true),
            Some(r) => {
                let is_err = r.is_err();
                items.push(item(&r));
                if is_err {
                    // after an error the reader has stopped and dropped the senders: the stream ends
                    continue;
                }
            }
        }
    }
    (items, false)
}

fn run_script(stream_bytes: &[u8], chunk: usize, nmsgs: usize) -> Result<J, String> {
    let gate = Arc::new(Gate { open: AtomicBool::new(false), ev: Event::new() });
    let rd = ScriptRead { data: stream_bytes.to_vec(), pos: 0, chunk, gate: gate.clone() };
    zbus::block_on(async move {
        let split = Split::new(Box::new(rd) as Box<dyn ReadHalf>, Box::new(NullWrite) as Box<dyn WriteHalf>);
        let conn = Builder::authenticated_socket(split, Guid::generate())
            .map_err(|e| e.to_string())?
            .p2p()
            .build()
            .await
            .map_err(|e| e.to_string())?;
        let mut ms = MessageStream::from(&conn);
        gate.open.store(true, Ordering::SeqCst);
        gate.ev.notify(usize::MAX);
        let (items, ended) = drain(&mut ms, nmsgs + 4).await;
        Ok(json!({"mode":"script","items":items,"ended":ended}))
    })
}

fn run_unix(stream_bytes: &[u8], nmsgs: usize) -> Result<J, String> {
    let (a, b) = UnixStream::pair().map_err(|e| e.to_string())?;
    let raw = b.try_clone().map_err(|e| e.to_string())?;
    let guid = Guid::generate();
    let server = std::thread::spawn(move || {
        zbus::block_on(async move {
            Builder::unix_stream(b).server(guid).map_err(|e| e.to_string())?.p2p().build().await.map_err(|e| e.to_string())
        })
    });
    let bytes = stream_bytes.to_vec();
    let r = zbus::block_on(async move {
        let conn = Builder::unix_stream(a).p2p().build().await.map_err(|e| e.to_string())?;
        let mut ms = MessageStream::from(&conn);
        let _srv = server.join().map_err(|_| "server thread".to_string())??;
        let mut raw = raw;
        raw.write_all(&bytes).map_err(|e| e.to_string())?;
        raw.shutdown(std::net::Shutdown::Write).map_err(|e| e.to_string())?;
        let (items, ended) = drain(&mut ms, nmsgs + 4).await;
        Ok::<J, String>(json!({"mode":"unix","items":items,"ended":ended}))
    });
    r
}

pub fn observe_compat(case: &J, unix: bool) -> J {
    let msgs: Vec<Vec<u8>> = case["stream"].as_array().unwrap().iter().map(bytes_of).collect();
    let odd = case["odd"].as_u64().unwrap() as usize;
    let le = msgs[odd - 1].first() != Some(&b'B');
    let single = mk::reparse(&msgs[odd - 1], le, vec![]);
    let all: Vec<u8> = msgs.concat();
    let chunk = case["chunk"].as_u64().unwrap_or(1 << 20) as usize;
    let mut conns = vec![];
    let r = guarded(AssertUnwindSafe(|| run_script(&all, chunk, msgs.len())));
    conns.push(match r {
        Ok(Ok(j)) => j,
        Ok(Err(e)) => json!({"mode":"script","tool_error":e}),
        Err(p) => json!({"mode":"script","tool_error":format!("panic: {p}")}),
    });
    if unix {
        let r = guarded(AssertUnwindSafe(|| run_unix(&all, msgs.len())));
        conns.push(match r {
            Ok(Ok(j)) => j,
            Ok(Err(e)) => json!({"mode":"unix","tool_error":e}),
            Err(p) => json!({"mode":"unix","tool_error":format!("panic: {p}")}),
        });
    }
    json!({"ev":"Compat","id":case["id"],"kind":case["kind"],"odd":odd,"stream":case["stream"],
           "single":single,"conns":conns})
}

/// obs-compat <cases> <out> <unix-every-n (0 = never)>
pub fn cmd_obs_compat(args: &[String]) {
    let every: u64 = args.get(2).map(|s| s.parse().unwrap()).unwrap_or(0);
    let n = std::cell::Cell::new(0u64);
    // watchdog (tool failure, never a verdict): a connection run that neither delivers nor ends
    let progress = Arc::new(std::sync::atomic::AtomicU64::new(0));
    let p2 = progress.clone();
    std::thread::spawn(move || {
        let mut last = 0;
        loop {
            std::thread::sleep(std::time::Duration::from_secs(120));
            let now = p2.load(Ordering::SeqCst);
            if now == last {
                eprintln!("obs-compat: no progress for 120 s at case {now}; giving up");
                std::process::exit(3);
            }
            last = now;
        }
    });
    mk::for_each_line(&args[0], &args[1], |c| {
        let i = n.get();
        n.set(i + 1);
        let o = observe_compat(c, every > 0 && i % every == 0);
        progress.fetch_add(1, Ordering::SeqCst);
        o
    });
}
