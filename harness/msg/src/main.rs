//! Conformance harness for the message-level properties C11 / C12 / C13 (zbus::message, socket reader).
//! Usage: msg <command> [args...]; see each module.
#![allow(unexpected_cfgs)] // model.rs is shared with the wire crate, which has a gvariant feature
#[path = "../../wire/src/model.rs"]
mod model;
#[path = "../../wire/src/gen.rs"]
mod gen;
mod absmsg;
mod compat;
mod hostile;
mod mk;

fn main() {
    // panics inside the code under test are data: keep them quiet, they are reported per case
    std::panic::set_hook(Box::new(|_| {}));
    let args: Vec<String> = std::env::args().collect();
    if args.len() < 2 {
        eprintln!("usage: msg <command> ...");
        std::process::exit(2);
    }
    let rest = &args[2..];
    match args[1].as_str() {
        "obs-build" => mk::cmd_obs_build(rest),
        "rand-build" => mk::cmd_rand_build(rest),
        "obs-hostile" => hostile::cmd_obs_hostile(rest),
        "rand-hostile" => hostile::cmd_rand_hostile(rest),
        "obs-compat" => compat::cmd_obs_compat(rest),
        other => {
            eprintln!("unknown command {other}");
            std::process::exit(2);
        }
    }
}
