//! C11: build messages with the zbus builder API from abstract cases, log the bytes, re-parse them.
//!
//! Case (from spec/gen/Gen_MsgBuild.tla or the random driver):
//!   {"id":n,"hdr":{"type":1..4,"flags":0..7,"serial":[4],"fields":[{"c":1..7,"t":T,"v":V},..]},
//!    "body":{"ts":[T..],"vs":[V..]},"le":bool,"bare":bool,"via":"builder"|"header"}
//! `fields` holds the user-settable fields only; SIGNATURE / UNIX_FDS are the builder's business.
//! `bare`: a single non-struct argument is passed as the body value itself instead of a 1-tuple.
//! `via = header`: the message is first built with a body of its own (fd + string), its `Header` taken, the flags set
//! on the header, and the final message built from `Builder::from(header)` (the only public route
//! to NO_REPLY_EXPECTED on a non-call message).
use crate::absmsg::*;
use crate::gen::*;
use crate::model::*;
use serde_json::{json, Value as J};
use std::io::{BufRead, Write};
use std::num::NonZeroU32;
use std::os::fd::{AsFd, OwnedFd};
use zbus::message::{Builder, Flags, Message};
use zvariant::serialized::{Context, Data};
use zvariant::{Endian, StructureBuilder, Value};

fn fstr(fields: &J, code: u64) -> Option<String> {
    fields
        .as_array()
        .unwrap()
        .iter()
        .find(|f| f["c"].as_u64() == Some(code))
        .map(|f| String::from_utf8(bytes_of(&f["v"]["s"])).expect("field strings are UTF-8"))
}
fn fu32(fields: &J, code: u64) -> Option<u32> {
    fields
        .as_array()
        .unwrap()
        .iter()
        .find(|f| f["c"].as_u64() == Some(code))
        .map(|f| u32::from_be_bytes(bytes_of(&f["v"]["b"]).try_into().unwrap()))
}

fn endian(le: bool) -> Endian {
    if le {
        Endian::Little
    } else {
        Endian::Big
    }
}

type R<T> = Result<T, String>;
fn es<E: std::fmt::Display>(e: E) -> String {
    e.to_string()
}

/// The builder for the case's header (everything but the body).
fn builder_for(hdr: &J, le: bool) -> R<Builder<'static>> {
    let f = &hdr["fields"];
    let ty = hdr["type"].as_u64().unwrap();
    let need = |c: u64| fstr(f, c).ok_or_else(|| format!("case lacks required field {c}"));
    // replies are built from the header of the call they answer: serial -> REPLY_SERIAL, endianness
    let call_header_msg = |rs: u32| -> R<Message> {
        Message::method_call("/", "M")
            .map_err(es)?
            .serial(NonZeroU32::new(rs).ok_or("reply serial 0")?)
            .endian(endian(le))
            .build(&())
            .map_err(es)
    };
    let mut b: Builder<'static> = match ty {
        1 => Message::method_call(need(1)?, need(3)?).map_err(es)?,
        4 => Message::signal(need(1)?, need(2)?, need(3)?).map_err(es)?,
        2 => {
            let m = call_header_msg(fu32(f, 5).ok_or("case lacks reply serial")?)?;
            let h = m.header();
            Message::method_return(&h).map_err(es)?
        }
        3 => {
            let m = call_header_msg(fu32(f, 5).ok_or("case lacks reply serial")?)?;
            let h = m.header();
            Message::error(&h, need(4)?).map_err(es)?
        }
        other => return Err(format!("type {other} cannot be built")),
    };
    if ty != 1 && ty != 4 {
        if let Some(p) = fstr(f, 1) {
            b = b.path(p).map_err(es)?;
        }
        if let Some(m) = fstr(f, 3) {
            b = b.member(m).map_err(es)?;
        }
    }
    if ty != 4 {
        if let Some(i) = fstr(f, 2) {
            b = b.interface(i).map_err(es)?;
        }
    }
    if ty != 2 && ty != 3 {
        if let Some(rs) = fu32(f, 5) {
            b = b.reply_serial(Some(NonZeroU32::new(rs).ok_or("reply serial 0")?));
        }
    }
    if let Some(d) = fstr(f, 6) {
        b = b.destination(d).map_err(es)?;
    }
    if let Some(s) = fstr(f, 7) {
        b = b.sender(s).map_err(es)?;
    }
    let serial = u32::from_be_bytes(bytes_of(&hdr["serial"]).try_into().unwrap());
    b = b.serial(NonZeroU32::new(serial).ok_or("serial 0")?);
    if ty == 1 || ty == 4 {
        b = b.endian(endian(le)); // replies inherit the byte order of the call they answer
    }
    Ok(b)
}

fn flag_list(bits: u64) -> Vec<Flags> {
    let mut v = vec![];
    if bits & 1 != 0 {
        v.push(Flags::NoReplyExpected);
    }
    if bits & 2 != 0 {
        v.push(Flags::NoAutoStart);
    }
    if bits & 4 != 0 {
        v.push(Flags::AllowInteractiveAuth);
    }
    v
}

pub fn build_message(case: &J, pool: &mut FdPool) -> R<Message> {
    let hdr = &case["hdr"];
    let le = case["le"].as_bool().unwrap();
    let bits = hdr["flags"].as_u64().unwrap();
    let mut b = builder_for(hdr, le)?;
    if case["via"].as_str() == Some("header") {
        // the donor message has a body of its own (a file descriptor and a string): what its header says about
        // that body (signature, number of fds) must not leak into the message built from the header
        let donor_fd = zvariant::Fd::from(std::os::fd::OwnedFd::from(std::fs::File::open("/dev/null").map_err(|e| e.to_string())?));
        let m0 = b.build(&(donor_fd, "donor")).map_err(es)?;
        let mut h = m0.header();
        let mut fl = h.primary().flags(); // empty: m0 was built without flags
        for x in flag_list(bits) {
            fl = fl | x;
        }
        h.primary_mut().set_flags(fl);
        // the header borrows from m0; the body is built while m0 is alive
        let b2 = Builder::from(h);
        return finish(b2, case, pool);
    }
    for x in flag_list(bits) {
        b = b.with_flags(x).map_err(es)?;
    }
    finish(b, case, pool)
}

fn finish(b: Builder<'_>, case: &J, pool: &mut FdPool) -> R<Message> {
    let ts = case["body"]["ts"].as_array().unwrap();
    let vs = case["body"]["vs"].as_array().unwrap();
    if ts.is_empty() {
        return b.build(&()).map_err(es);
    }
    let mut vals: Vec<Value<'static>> = vec![];
    for (t, v) in ts.iter().zip(vs) {
        vals.push(build_value(t, v, pool).map_err(|e| e.0)?);
    }
    if case["bare"].as_bool() == Some(true) && vals.len() == 1 {
        return b.build(&Inner(&vals[0])).map_err(es);
    }
    let mut sb = StructureBuilder::new();
    for v in vals {
        sb = sb.append_field(v);
    }
    let st = sb.build().map_err(es)?;
    b.build(&st).map_err(es)
}

/// The abstract body as actually built (dict order / duplicate keys as zvariant keeps them, fds
/// numbered in serialization order).
fn echo_body(case: &J) -> R<J> {
    let ts = case["body"]["ts"].as_array().unwrap();
    let vs = case["body"]["vs"].as_array().unwrap();
    let mut pool = FdPool::new();
    let mut z = 0;
    let mut ots = vec![];
    let mut ovs = vec![];
    for (t, v) in ts.iter().zip(vs) {
        let val = build_value(t, v, &mut pool).map_err(|e| e.0)?;
        let (tt, vv) = abstract_of(&val, &mut z, None);
        ots.push(tt);
        ovs.push(vv);
    }
    Ok(json!({"ts":ots,"vs":ovs}))
}

pub fn reparse(bytes: &[u8], le: bool, fds: Vec<OwnedFd>) -> J {
    let data = Data::new_fds(bytes.to_vec(), Context::new_dbus(endian(le), 0), fds);
    let r = guarded(std::panic::AssertUnwindSafe(move || {
        // SAFETY (of the harness): arbitrary bytes are the point; the call is what C11/C12 observe
        match unsafe { Message::from_bytes(data) } {
            Ok(m) => abstract_message(&m),
            Err(e) => json!({"outcome":"err","msg":e.to_string()}),
        }
    }));
    match r {
        Ok(j) => j,
        Err(p) => json!({"outcome":"panic","msg":p}),
    }
}

pub fn observe_build(case: &J) -> J {
    let le = case["le"].as_bool().unwrap();
    let body = match echo_body(case) {
        Ok(b) => b,
        Err(e) => return json!({"ev":"Build","id":case["id"],"outcome":"unbuildable","msg":e}),
    };
    let mut out = json!({"ev":"Build","id":case["id"],"hdr":case["hdr"],"body":body,"le":le,
                         "bare":case["bare"],"via":case["via"]});
    let built = guarded(std::panic::AssertUnwindSafe(|| {
        let mut pool = FdPool::new();
        build_message(case, &mut pool).map(|m| {
            let bytes = m.data().bytes().to_vec();
            let fds: Vec<OwnedFd> = m
                .data()
                .fds()
                .iter()
                .map(|f| f.as_fd().try_clone_to_owned().expect("dup"))
                .collect();
            let own = guarded(std::panic::AssertUnwindSafe(|| abstract_message(&m)))
                .unwrap_or_else(|p| json!({"outcome":"panic","msg":p}));
            (bytes, fds, own)
        })
    }));
    match built {
        Err(p) => {
            out["outcome"] = json!("panic");
            out["msg"] = json!(p);
        }
        Ok(Err(e)) => {
            out["outcome"] = json!("err");
            out["msg"] = json!(e);
        }
        Ok(Ok((bytes, fds, own))) => {
            out["outcome"] = json!("ok");
            out["bytes"] = jbytes(&bytes);
            out["nfds"] = json!(fds.len());
            let re = reparse(&bytes, le, fds);
            out["own_same"] = json!(own == re);
            if own != re {
                out["own"] = own;
            }
            out["re"] = re;
        }
    }
    out
}

pub fn for_each_line(path: &str, out: &str, f: impl Fn(&J) -> J) {
    let inp = std::io::BufReader::new(std::fs::File::open(path).expect("open cases"));
    let mut w = std::io::BufWriter::new(std::fs::File::create(out).expect("create out"));
    for line in inp.lines() {
        let line = line.unwrap();
        if line.trim().is_empty() {
            continue;
        }
        let case: J = serde_json::from_str(&line).expect("case json");
        let o = f(&case);
        writeln!(w, "{}", serde_json::to_string(&o).unwrap()).unwrap();
    }
}

/// obs-build <cases> <out>
pub fn cmd_obs_build(args: &[String]) {
    for_each_line(&args[0], &args[1], observe_build);
}

// ---------------------------------------------------------------- random cases (impl -> spec)
const HEADC: &[char] = &['a', 'Z', '_', 'q', 'B'];
const TAILC: &[char] = &['a', 'Z', '_', '0', '9', 'x'];

fn rand_element(r: &mut Rng, digit_first: bool, dash: bool) -> String {
    let long = r.chance(1, 30);
    let n = 1 + r.below(if long { 40 } else { 6 });
    let mut s = String::new();
    for i in 0..n {
        let c = if i == 0 && !digit_first { *r.pick(HEADC) } else { *r.pick(TAILC) };
        s.push(c);
        if dash && i > 0 && r.chance(1, 8) {
            s.push('-');
            s.push('k');
        }
    }
    s
}
pub fn rand_dotted(r: &mut Rng, digit_first: bool, dash: bool) -> String {
    let n = 2 + r.below(4);
    let mut s: Vec<String> = (0..n).map(|_| rand_element(r, digit_first, dash)).collect();
    while s.iter().map(|x| x.len() + 1).sum::<usize>() > 250 {
        s.pop();
    }
    if s.len() < 2 {
        return "a.b".into();
    }
    s.join(".")
}
pub fn rand_unique(r: &mut Rng) -> String {
    format!(":{}", rand_dotted(r, true, true))
}
pub fn rand_busname(r: &mut Rng) -> String {
    if r.chance(1, 2) {
        rand_unique(r)
    } else {
        rand_dotted(r, false, true)
    }
}
fn sf(c: u8, kind: &str, s: &str) -> J {
    json!({"c":c,"t":{"k":kind},"v":{"s":jbytes(s.as_bytes())}})
}
fn rand_serial(r: &mut Rng) -> u32 {
    match r.below(5) {
        0 => 1,
        1 => u32::MAX,
        2 => 0x8000_0000,
        3 => 1 + r.below(300) as u32,
        _ => (r.next() as u32).max(1),
    }
}

pub fn rand_case(r: &mut Rng, id: u64) -> J {
    let ty = 1 + r.below(4);
    let mut fields = vec![];
    let want = |r: &mut Rng, c: u64, required: &[u64]| required.contains(&c) || r.chance(1, 2);
    let required: &[u64] = match ty {
        1 => &[1, 3],
        2 => &[5],
        3 => &[4, 5],
        _ => &[1, 2, 3],
    };
    if want(r, 1, required) {
        fields.push(sf(1, "o", &rand_path(r)));
    }
    if want(r, 2, required) {
        fields.push(sf(2, "s", &rand_dotted(r, false, false)));
    }
    if want(r, 3, required) {
        fields.push(sf(3, "s", &rand_element(r, false, false)));
    }
    if ty == 3 {
        fields.push(sf(4, "s", &rand_dotted(r, false, false)));
    }
    if want(r, 5, required) {
        fields.push(json!({"c":5,"t":{"k":"u"},"v":{"b":jbytes(&rand_serial(r).to_be_bytes())}}));
    }
    if want(r, 6, required) {
        fields.push(sf(6, "s", &rand_busname(r)));
    }
    if want(r, 7, required) {
        fields.push(sf(7, "s", &rand_unique(r)));
    }
    let via = if r.chance(1, 4) { "header" } else { "builder" };
    let mut flags = r.below(8);
    if via == "builder" && ty != 1 {
        flags &= 6;
    }
    let cfg = GenCfg { max_depth: 3, max_len: 3, fds: true, maybe: false };
    let nargs = match r.below(6) {
        0 => 0,
        1 | 2 => 1,
        3 => 2,
        4 => 3,
        _ => 1 + r.below(6),
    };
    let mut ts = vec![];
    let mut vs = vec![];
    for _ in 0..nargs {
        let t = rand_type(r, 0, &cfg);
        let v = rand_value(r, &t, &cfg, 0);
        ts.push(t);
        vs.push(v);
    }
    let bare = nargs == 1 && k(&ts[0]) != "r" && r.chance(1, 3);
    json!({"id":id,"hdr":{"type":ty,"flags":flags,"serial":jbytes(&rand_serial(r).to_be_bytes()),"fields":fields},
           "body":{"ts":ts,"vs":vs},"le":r.chance(1,2),"bare":bare,"via":via})
}

/// rand-build <n> <seed> <out>
pub fn cmd_rand_build(args: &[String]) {
    let n: u64 = args[0].parse().unwrap();
    let seed: u64 = args[1].parse().unwrap();
    let mut w = std::io::BufWriter::new(std::fs::File::create(&args[2]).unwrap());
    let mut r = Rng(seed.wrapping_mul(0x51ED270B).wrapping_add(11));
    for i in 0..n {
        let case = rand_case(&mut r, i);
        let o = observe_build(&case);
        writeln!(w, "{}", serde_json::to_string(&o).unwrap()).unwrap();
    }
}
